import Upd.Frame
import Upd.C01
import Upd.C04
import Properties.C08
/-!
# C02 — acknowledged pushes read back byte-identical until deleted or collected

Model: `Upd` (HTTP level).  A completed upload stores exactly the bytes written under their digest
(`C08.close_stores_written`); reads (`bGet`, `mGet`, `tags`, `refs`) change no repository; a request addressed to
another repository changes nothing here (`step_frame`); a served answer carries the stored content, its length and
its digest, and a byte range is the slice `http.ServeContent` defines; a manifest beyond the size limit is refused
whether or not its length was announced.  Collections are characterised by C05/C06, restarts by C10.
Tie: profiles `mix`, `limits` (sizes around the manifest limit, known and unknown Content-Length, trailing
whitespace after valid JSON, Accept variants, ranges); monitors `C02.readback`, `C02.range`, `C02.limit`.
-/
namespace C02
open Upd

/-- a completed upload is stored: exactly the bytes written, under their digest -/
theorem push_ack_stored (s : State) (r : String) (u : Upload) (h : (closeUpload s r u).2 = true) :
    ((closeUpload s r u).1.repo r).blob u.digest = some u.buf :=
  (C08.close_stores_written s r u h).1

/-- serving: the answer for a stored content without a range is 200 with the content, its digest, its media type
    and its length -/
theorem serve_full (s : State) (c dcd ct : String) (head : Bool) :
    serve s c "" head dcd ct =
      { status := 200, dcd := dcd, ct := ct, cl := toString (contentLen s c), body := if head then "-" else "=" ++ cname c } := by
  simp [serve, parseRange]

/-- serving a range: 206 with exactly the slice `lo..hi`, its length and `Content-Range`, whenever the range is
    satisfiable for a non-empty content -/
theorem serve_range (s : State) (c rng dcd ct : String) (lo hi : Nat)
    (hp : parseRange rng (contentLen s c) = .part lo hi) (hne : contentLen s c ≠ 0) :
    serve s c rng false dcd ct =
      { status := 206, dcd := dcd, ct := ct, cl := toString (hi - lo + 1),
        crange := s!"bytes{lo}-{hi}/{contentLen s c}", body := "=" ++ cname c ++ s!"[{lo}-{hi}]" } := by
  simp [serve, hp, hne]

/-- the slice of a satisfiable `a-b` range lies inside the content and starts where requested -/
theorem range_inside (a b size : Nat) (ha : a < size) (hab : a ≤ b) :
    (if b < a then RangeRes.unsat else RangeRes.part a (min b (size - 1))) = .part a (min b (size - 1)) ∧
    min b (size - 1) < size ∧ a ≤ min b (size - 1) := by
  refine ⟨by simp [Nat.not_lt.mpr hab], ?_, ?_⟩ <;> omega

/-- reads change nothing: after a blob or manifest read, a tag listing or a referrers request every repository is
    what it was -/
theorem reads_change_nothing (s : State) (r r' : String) :
    (∀ arg hd rng, (bGet s r arg hd rng).1.repo r' = s.repo r') ∧
    (∀ arg acc hd rng, (mGet s r arg acc hd rng).1.repo r' = s.repo r') ∧
    (∀ n last, (tags s r n last).1.repo r' = s.repo r') := by
  refine ⟨?_, ?_, ?_⟩
  · intro arg hd rng
    have : (bGet s r arg hd rng).1 = s ∨ (bGet s r arg hd rng).1 = s.setRepo (s.repo r) := by
      unfold bGet; simp only []; repeat' split
      all_goals first | (left; rfl) | (right; rfl)
    rcases this with h | h <;> rw [h]
    exact repo_touch s r r'
  · intro arg acc hd rng
    have : (mGet s r arg acc hd rng).1 = s.setRepo (s.repo r) := by
      unfold mGet; simp only []; repeat' split
      all_goals rfl
    rw [this]; exact repo_touch s r r'
  · intro n last
    have : (tags s r n last).1 = s.setRepo (s.repo r) := by
      unfold tags; simp only []; repeat' split
      all_goals rfl
    rw [this]; exact repo_touch s r r'

/-- requests addressed to other repositories leave this one alone — whatever they are -/
theorem stable_under_other_repositories (s : State) (q : Req) (r : String) (h : r ≠ q.target) :
    (step s q).1.repo r = s.repo r :=
  (step_frame s q).1 r h

/-- a manifest larger than the configured limit is refused — never stored, in full or shortened — with or
    without a Content-Length -/
theorem manifest_limit (s : State) (r ref ct qd b : String) (lk : Bool)
    (hbig : ((s.setRepo (s.repo r)).body b).len > (s.setRepo (s.repo r)).conf.mlimit) :
    (mPut s r ref ct qd b lk).2.status ≠ 201 ∧ (mPut s r ref ct qd b lk).1 = s.setRepo (s.repo r) := by
  have hne : (mPut s r ref ct qd b lk).2.status ≠ 201 := by
    intro h
    obtain ⟨a, ha⟩ := mPut_ack_validated s r ref ct qd b lk h
    unfold mValidate at ha
    obtain ⟨_, _, ha⟩ := bind_ok _ _ _ ha
    obtain ⟨_, _, ha⟩ := bind_ok _ _ _ ha
    obtain ⟨_, _, ha⟩ := bind_ok _ _ _ ha
    obtain ⟨_, _, ha⟩ := bind_ok _ _ _ ha
    obtain ⟨_, hl, _⟩ := bind_ok _ _ _ ha
    unfold checkLen at hl
    simp [hbig, refuse] at hl
  exact ⟨hne, mPut_refused_unchanged s r ref ct qd b lk hne⟩

example : parseRange "" 5 = .full := by simp [parseRange]
end C02
