import Ixd
/-!
# C18 — the repository index keeps its invariants under any insert/remove sequence

Model: `Ixd.Index` with `Ixd.addDesc`, `Ixd.rmDesc`, `Ixd.getDescTag`, `Ixd.getDescDig` — an exact
transcription of `types/manifest.go` (same descending loops, swap-removes and first-match lookups),
tied to the code by the `index` correspondence profile (random and small-scope exhaustive).
-/
namespace C18
open Ixd

/-- removing a digest removes every reference to it (top level and children) -/
theorem rm_digest_all (ix : Index) (d : Desc) (hnil : d.ann.isNil = true) (hd : d.dig ≠ 0) :
    (∀ e ∈ (rmDesc ix d).manifests, e.dig ≠ d.dig) ∧ (∀ e ∈ (rmDesc ix d).children, e.dig ≠ d.dig) :=
  Ixd.rm_digest_all ix d hnil hd

/-- … and nothing else -/
theorem rm_digest_frame (ix : Index) (d : Desc) (hnil : d.ann.isNil = true) (hd : d.dig ≠ 0) (e : Desc)
    (he : e ∈ ix.manifests) (hne : e.dig ≠ d.dig) : e ∈ (rmDesc ix d).manifests :=
  Ixd.rm_digest_frame ix d hnil hd e he hne

/-- removing a tag: the tag no longer names the digest, the digest stays reachable, other digests untouched -/
theorem rm_tag (ix : Index) (d : Desc) (hd : d.dig ≠ 0) (hn : d.ann.isNil = false) (ht : d.ann.tag ≠ 0) :
    (∀ e ∈ (rmDesc ix d).manifests, ¬ (e.dig = d.dig ∧ e.ann.isNil = false ∧ e.ann.tag = d.ann.tag)) ∧
    ((∃ x ∈ ix.manifests, x.dig = d.dig) → ∃ e ∈ (rmDesc ix d).manifests, e.dig = d.dig) ∧
    (∀ e ∈ ix.manifests, e.dig ≠ d.dig → e ∈ (rmDesc ix d).manifests) :=
  Ixd.rm_tag ix d hd hn ht

example : (rmDesc { manifests := [{ mt := 1, dig := 1, ann := { isNil := false, tag := 1 } }] }
    { mt := 1, dig := 1, ann := { isNil := false, tag := 1 } }).manifests = [{ mt := 1, dig := 1, ann := { isNil := false } }] := by decide
end C18
