import Upd.C04
import Upd.C01
import Upd.Frame
/-!
# C04 — only complete, well-formed manifests are accepted; refusals change nothing

Model: `Upd.mValidate` is the sequence of checks of `manifestPut` in the handler's order (content type whitelist,
size limit on the header and on the bytes read, `?digest=` and reference parsing, digest comparison, media type
detection, parse as image or index, `mediaType` field against the content type, existence of config, layers or
children in the *same* repository), `Upd.mCommit` its effects.  Tie: profiles `mix`, `limits`, `switches`;
monitors `C04.accepted-invalid`, `C02.limit`.
-/
namespace C04
open Upd

/-- a refused push (any status but 201) leaves every repository, the configuration, the page cache — the whole
    state — as it was, except that the addressed repository has been opened (which is not observable) -/
theorem put_refused_unchanged (s : State) (r ref ct qd b : String) (lk : Bool)
    (h : (mPut s r ref ct qd b lk).2.status ≠ 201) :
    (mPut s r ref ct qd b lk).1 = s.setRepo (s.repo r) ∧ ∀ r', ((mPut s r ref ct qd b lk).1).repo r' = s.repo r' := by
  have h1 := mPut_refused_unchanged s r ref ct qd b lk h
  exact ⟨h1, fun r' => by rw [h1]; exact repo_touch s r r'⟩

/-- every refusal is a 4xx -/
theorem put_refusal_is_4xx (s : State) (r ref ct qd b : String) (lk : Bool) :
    (mPut s r ref ct qd b lk).2.status = 201 ∨ (mPut s r ref ct qd b lk).2.status = 400 ∨ (mPut s r ref ct qd b lk).2.status = 413 := by
  unfold mPut
  simp only []
  cases hv : mValidate (s.setRepo (s.repo r)) r ref ct qd b lk with
  | ok a => left; rfl
  | error e => right; exact mValidate_refusal_4xx _ r ref ct qd b lk e hv

/-- an acknowledged push passed every check -/
theorem put_ack_validated (s : State) (r ref ct qd b : String) (lk : Bool)
    (h : (mPut s r ref ct qd b lk).2.status = 201) :
    ∃ a, mValidate (s.setRepo (s.repo r)) r ref ct qd b lk = .ok a :=
  mPut_ack_validated s r ref ct qd b lk h

/-- acceptance consults only the addressed repository: two states that agree on it (and on the configuration and
    the body) take the same decision — references present only in another repository cannot help -/
theorem validation_is_local (s s' : State) (r ref ct qd b : String) (lk : Bool)
    (hr : s.repo r = s'.repo r) (hc : s.conf = s'.conf) (hb : s.body b = s'.body b) :
    mValidate s r ref ct qd b lk = mValidate s' r ref ct qd b lk := by
  unfold mValidate
  simp only [hr, hc, hb]

/-- a body beyond the size limit is never acknowledged, with or without Content-Length -/
theorem oversize_refused (s : State) (r ref ct qd b : String) (lk : Bool)
    (hbig : ((s.setRepo (s.repo r)).body b).len > (s.setRepo (s.repo r)).conf.mlimit) :
    (mPut s r ref ct qd b lk).2.status ≠ 201 := by
  intro h
  obtain ⟨a, ha⟩ := mPut_ack_validated s r ref ct qd b lk h
  unfold mValidate at ha
  obtain ⟨_, _, ha⟩ := bind_ok _ _ _ ha
  obtain ⟨_, _, ha⟩ := bind_ok _ _ _ ha
  obtain ⟨_, _, ha⟩ := bind_ok _ _ _ ha
  obtain ⟨_, _, ha⟩ := bind_ok _ _ _ ha
  obtain ⟨_, hl, _⟩ := bind_ok _ _ _ ha
  unfold checkLen at hl
  simp [hbig, refuse] at hl
end C04
