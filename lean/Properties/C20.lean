import Ccd
/-!
# C20 — the bounded cache never drops an entry without its cleanup

Model: `Ccd.Cache` with `Ccd.step` over `Ccd.Op` (`Set` with the count prune it triggers, `Get`, `Delete`,
`DeleteAll`, `pruneAge`, `pruneCount`) — `Ccd/Basic.lean`, a transcription of `internal/cache/cache.go` in which
time and the outcome of every cleanup callback are inputs — and the interleaved model `Ccd.sstep` over `Ccd.Ev`
(`Ccd/Small.lean`) in which `Delete` and every `DeleteAll` iteration are two critical sections around a callback
of arbitrary duration.  Both are tied to the code by the `cache` correspondence profile
(`harness/inpkg/cache/cache_harness_test.go`).  The model is the code **as repaired** by F12 (`minCount ≥ 1`)
and F27 (`Delete` removes only the entry it cleaned up); the code as it was is `mkCacheF12` / `sstep false`, and
the two counterexamples are kept below.

Quantifiers: every configuration (`age`, `count`), every history `ops : List Op` / `evs : List Ev`, every
cleanup outcome (`fl : Nat → Bool` inside every operation, `ok` of every `finish`), every time stamp.
*Reading:* `Set` on a key that is present replaces the value without a cleanup of the old one; that is an update
of the entry, not a removal (`Ccd.pre`: the map an operation "starts to remove from" is the map after the
assignment).
-/
namespace C20
open Ccd

/-! ## sequential histories -/

/-- **removed ⇒ cleaned up.**  After any history, whatever operation comes next: an entry (key `e.key`, value
    `e.val`) whose key is gone after the operation had the cleanup callback invoked during that operation with
    exactly this key and value, and the callback succeeded.  Covers `Set` (count prune), `Get`, `Delete`,
    `DeleteAll`, `pruneAge`, `pruneCount`. -/
theorem removed_cleaned (age count : Nat) (ops : List Op) (op : Op) (e : Entry) :
    let c := after (mkCache age count true) ops
    e ∈ (pre c op).entries → (∀ e' ∈ (step c op).1.entries, e'.key ≠ e.key) →
    ⟨e.key, e.val, true⟩ ∈ (step c op).2 := by
  intro c he gone
  have hwf : c.WF := run_wf (mkCache_wf age count true) ops
  have hfn : c.hasFn = true := (run_cfg (mkCache age count true) ops).2.2.2
  exact step_removed_cleaned hwf hfn op he gone

example : (step (after (mkCache 0 0 true) [.set 1 10 1 fun _ => false]) (.delete 1 fun _ => false)).2 = [⟨1, 10, true⟩] ∧
    (step (after (mkCache 0 0 true) [.set 1 10 1 fun _ => false]) (.delete 1 fun _ => false)).1.entries = [] := by decide

/-- **nothing is altered or invented.**  Every entry in the map after an operation is the same incarnation — same
    key, same value, created by the same `Set` — as an entry of the map the operation started from; so an entry
    cannot disappear "by turning into another one" either: the only way out of the map is the removal judged by
    `removed_cleaned`. -/
theorem entries_preserved (c : Cache) (op : Op) (e' : Entry) :
    e' ∈ (step c op).1.entries → ∃ e ∈ (pre c op).entries, e'.key = e.key ∧ e'.val = e.val ∧ e'.id = e.id :=
  fun h => step_origin h

/-- **failed cleanup ⇒ kept.**  If a callback invocation made by an operation reports an error, an entry with
    this key and value is in the map after the operation (any cache, any operation). -/
theorem failed_kept (c : Cache) (op : Op) (x : Call) :
    x ∈ (step c op).2 → x.ok = false → ∃ e ∈ (step c op).1.entries, e.key = x.key ∧ e.val = x.val :=
  fun hx hbad => step_failed_kept c op hx hbad

/-- … and the two prunes re-date it to the time of the prune -/
theorem failed_redated (c : Cache) (now : Nat) (fl : Nat → Bool) (x : Call) (hbad : x.ok = false) :
    (x ∈ (pruneAge c now fl).2.1 → ∃ e ∈ (pruneAge c now fl).1.entries, e.key = x.key ∧ e.val = x.val ∧ e.used = now) ∧
    (x ∈ (pruneCount c now fl).2.1 → ∃ e ∈ (pruneCount c now fl).1.entries, e.key = x.key ∧ e.val = x.val ∧ e.used = now) :=
  ⟨fun hx => pruneAge_failed_kept now fl hx hbad, fun hx => pruneCount_failed_kept now fl hx hbad⟩

example : (step (after (mkCache 0 0 true) [.set 1 10 1 fun _ => false]) (.deleteAll fun _ => true)).2 = [⟨1, 10, false⟩] ∧
    (pruneAge (after (mkCache 2 0 true) [.set 1 10 1 fun _ => false]) 9 fun _ => true).1.entries = [⟨1, 10, 9, 0⟩] := by decide

/-- **not expired early.**  Whenever the age prune runs (timer or not), an entry that was last used (`Set` or
    `Get`) within the configured age stays, untouched, and its cleanup is not called. -/
theorem not_expired_early (age count : Nat) (hasFn : Bool) (ops : List Op) (now : Nat) (fl : Nat → Bool) (e : Entry) :
    let c := after (mkCache age count hasFn) ops
    e ∈ c.entries → now ≤ e.used + age →
    e ∈ (pruneAge c now fl).1.entries ∧ ∀ x ∈ (pruneAge c now fl).2.1, x.key ≠ e.key := by
  intro c he fresh
  have hwf : c.WF := run_wf (mkCache_wf age count hasFn) ops
  have hage : c.minAge = age := (run_cfg (mkCache age count hasFn) ops).1
  exact ⟨pruneAge_keeps_fresh c now fl he (by omega), pruneAge_fresh_not_called c now fl hwf he (by omega)⟩

example : (pruneAge (after (mkCache 2 0 true) [.set 1 10 1 fun _ => false, .set 2 11 5 fun _ => false]) 7 fun _ => false).1.entries
    = [⟨2, 11, 5, 1⟩] := by decide

/-- **least recently used first, structural form.**  When `pruneCount` does anything it handles a prefix `p` of
    the entries ordered by last use (ties by key) and leaves the rest `q` alone: of `p`, the entries whose cleanup
    fails are re-dated and stay, all others are removed, callbacks are invoked in this order, and it stops as
    soon as `len − minCount` entries are removed. -/
theorem lru_first (c : Cache) (now : Nat) (fl : Nat → Bool)
    (hgo : ¬ (c.minCount = 0 ∨ c.entries.length ≤ c.minCount)) :
    ∃ p q, sortByUsed c.entries = p ++ q ∧
      (pruneCount c now fl).1.entries = (p.filter (failing c.hasFn fl)).map (redate now) ++ q ∧
      (pruneCount c now fl).2.1 = p.flatMap (callOf c.hasFn fl) ∧
      (p.filter (fun e => !failing c.hasFn fl e)).length ≤ c.entries.length - c.minCount ∧
      (q ≠ [] → (p.filter (fun e => !failing c.hasFn fl e)).length = c.entries.length - c.minCount) :=
  pruneCount_prefix c now fl hgo

/-- `sortByUsed` really is the order by last use: a permutation of the entries, non-decreasing in `used` -/
theorem lru_order (l : List Entry) :
    (sortByUsed l).Perm l ∧ (sortByUsed l).Pairwise (fun a b => a.used ≤ b.used) :=
  ⟨sortByUsed_perm l, (sortByUsed_sorted l).imp olderEq_used⟩

/-- **least recently used first, by last use.**  After any history: if the count prune evicts `x`, every entry
    used strictly earlier than `x` is evicted as well, unless its cleanup failed.  (For equal last-use stamps the
    code's order is unspecified — an unstable sort over a map iteration — and nothing is claimed.) -/
theorem lru_first_by_use (age count : Nat) (hasFn : Bool) (ops : List Op) (now : Nat) (fl : Nat → Bool) (x y : Entry) :
    let c := after (mkCache age count hasFn) ops
    x ∈ c.entries → y ∈ c.entries → y.used < x.used →
    (∀ e' ∈ (pruneCount c now fl).1.entries, e'.key ≠ x.key) →
    (∀ e' ∈ (pruneCount c now fl).1.entries, e'.key ≠ y.key) ∨ (c.hasFn = true ∧ fl y.key = true) := by
  intro c hx hy older gone
  have hwf : c.WF := run_wf (mkCache_wf age count hasFn) ops
  rcases pruneCount_lru c hwf now fl hx hy older gone with h | h
  · exact Or.inl h
  · exact Or.inr (by simpa [failing] using h)

example : (pruneCount (after (mkCache 0 3 true) [.set 1 10 1 fun _ => false, .set 2 11 2 fun _ => false,
      .set 3 12 3 fun _ => false, .get 1 4]) 5 fun _ => false).1.entries = [⟨3, 12, 3, 2⟩, ⟨1, 10, 4, 0⟩] ∧
    (pruneCount (after (mkCache 0 3 true) [.set 1 10 1 fun _ => false, .set 2 11 2 fun _ => false,
      .set 3 12 3 fun _ => false, .get 1 4]) 5 fun k => k == 2).1.entries = [⟨2, 11, 5, 1⟩, ⟨1, 10, 4, 0⟩] ∧
    (pruneCount (after (mkCache 0 3 true) [.set 1 10 1 fun _ => false, .set 2 11 2 fun _ => false,
      .set 3 12 3 fun _ => false, .get 1 4]) 5 fun k => k == 2).2.1 = [⟨2, 11, false⟩, ⟨3, 12, true⟩] := by decide

/-- **prune to limit.**  For every limit `count > 0`, after any history: when no cleanup fails, the map after a
    `Set` — including the count prune the `Set` triggers — holds at most `count` entries. -/
theorem prune_to_limit (age count : Nat) (hasFn : Bool) (ops : List Op) (k v now : Nat) (fl : Nat → Bool)
    (hpos : 0 < count) (hok : hasFn = true → ∀ k', fl k' = false) :
    (set (after (mkCache age count hasFn) ops) k v now fl).1.entries.length ≤ count := by
  obtain ⟨-, hmax, hmin, hfn⟩ := run_cfg (mkCache age count hasFn) ops
  obtain ⟨h1, h2⟩ := mkCache_limits age count hasFn hpos
  have := set_within_limit (after (mkCache age count hasFn) ops) k v now fl (by rw [hmin]; exact h1)
    (by rw [hmin, hmax]; exact h2)
    (by
      intro e
      rw [hfn]
      cases hasFn with
      | false => rfl
      | true => simp [failing, hok rfl e.key, mkCache])
  rw [hmax] at this
  exact this

example : (set (after (mkCache 0 1 true) [.set 1 10 1 fun _ => false]) 2 11 2 fun _ => false).1.entries = [⟨2, 11, 2, 1⟩] ∧
    (set (after (mkCache 0 10 true) ((List.range 10).map fun i => .set i i i fun _ => false)) 10 10 10 fun _ => false).1.entries.length = 9 := by
  decide

/-- **prune to limit, deferred.**  The count prune runs on its own goroutine, possibly after further requests;
    whenever it runs — after any history — and no cleanup fails, it leaves at most `count` entries (at most
    `minCount`, in fact). -/
theorem prune_to_limit_deferred (age count : Nat) (hasFn : Bool) (ops : List Op) (now : Nat) (fl : Nat → Bool)
    (hpos : 0 < count) (hok : hasFn = true → ∀ k', fl k' = false) :
    (pruneCount (after (mkCache age count hasFn) ops) now fl).1.entries.length ≤ count := by
  obtain ⟨-, hmax, hmin, hfn⟩ := run_cfg (mkCache age count hasFn) ops
  obtain ⟨h1, h2⟩ := mkCache_limits age count hasFn hpos
  have := pruneCount_to_min (after (mkCache age count hasFn) ops) now fl (by rw [hmin]; exact h1)
    (by
      intro e _
      rw [hfn]
      cases hasFn with
      | false => rfl
      | true => simp [failing, hok rfl e.key])
  rw [hmin] at this
  have h3 : (mkCache age count hasFn).maxCount = count := rfl
  omega

example : (pruneCount (after (mkCache 0 2 true) [.set 1 10 1 fun _ => true, .set 2 11 2 fun _ => true,
      .set 3 12 3 fun _ => true]) 4 fun _ => false).1.entries.length = 1 ∧
    (after (mkCache 0 2 true) [.set 1 10 1 fun _ => true, .set 2 11 2 fun _ => true, .set 3 12 3 fun _ => true]).entries.length = 3 := by
  decide

/-- F12, the code as it was (`minCount = ⌊0.9·Count⌋ = 0` for `Count = 1`): the count prune does nothing and the
    map grows past the limit although every cleanup succeeds -/
example : (set (set (mkCacheF12 0 1 true) 1 10 1 fun _ => false).1 2 11 2 fun _ => false).1.entries.length = 2 := by decide

/-! ## interleaved histories: `Delete` / `DeleteAll` release the mutex around the callback -/

/-- an atomic event of the interleaved model is an operation of the sequential one, so `failed_kept`,
    `not_expired_early`, `lru_first` and `prune_to_limit` (stated for an arbitrary cache) hold for the prunes and
    `Set`s of every interleaved history as they stand -/
theorem interleaved_atomic (fix : Bool) (s : SCache) (op : Op) :
    (sstep fix s (.atomic op)).c = (step s.c op).1 ∧ scalls s (.atomic op) = (step s.c op).2 ∧
    (sstep fix s (.atomic op)).log = s.log ++ (step s.c op).2 := ⟨rfl, rfl, rfl⟩

/-- **removed ⇒ cleaned up, interleaved.**  For every configuration and every event sequence — atomic
    operations, first halves `begin t k` and second halves `finish t ok` of `Delete`s / `DeleteAll` iterations of
    any number of threads, in any order, callbacks returning whenever and whatever they like —: an incarnation
    of an entry that is in the map an event starts from and no longer in the map afterwards had its cleanup,
    called with exactly its key and value, complete successfully during that event. -/
theorem interleaved_removed_cleaned (age count : Nat) (evs : List Ev) (ev : Ev) (e : Entry) :
    let s := srun true (sinit age count true) evs
    e ∈ (spre s ev).entries → (∀ e' ∈ (sstep true s ev).c.entries, ¬ (e'.key = e.key ∧ e'.id = e.id)) →
    ⟨e.key, e.val, true⟩ ∈ scalls s ev ∧ (sstep true s ev).log = s.log ++ scalls s ev := by
  intro s he gone
  have hinv : SInv s := srun_inv true (sinit_inv age count true) evs
  have hfn : s.c.hasFn = true := srun_hasFn true (sinit age count true) evs
  exact ⟨sstep_removed_cleaned hinv hfn ev he gone, rfl⟩

/-- **failed cleanup ⇒ kept, interleaved.**  A `Delete` / `DeleteAll` iteration whose callback reports an error
    leaves the map exactly as it is (in either version of the code). -/
theorem interleaved_failed_kept (fix : Bool) (s : SCache) (t : Nat) : (sstep fix s (.finish t false)).c = s.c :=
  finish_failed_unchanged fix s t

/-- the window: `Set(1)` lands between the two halves of `Delete(1)`.  Repaired code: the new entry stays. -/
example : (srun true (sinit 0 0 true) [.atomic (.set 1 10 1 fun _ => false), .begin 7 1,
      .atomic (.set 1 20 2 fun _ => false), .finish 7 true]).c.entries = [⟨1, 20, 2, 1⟩] ∧
    (srun true (sinit 0 0 true) [.atomic (.set 1 10 1 fun _ => false), .begin 7 1, .finish 7 true]).c.entries = [] ∧
    (srun true (sinit 0 0 true) [.atomic (.set 1 10 1 fun _ => false), .begin 7 1, .finish 7 true]).log = [⟨1, 10, true⟩] := by
  decide

/-- F27, the code as it was (`sstep false`): the entry `1 ↦ 20` stored during the window is removed, and the only
    cleanup that ever ran is the one for `1 ↦ 10` -/
example : (srun false (sinit 0 0 true) [.atomic (.set 1 10 1 fun _ => false), .begin 7 1,
      .atomic (.set 1 20 2 fun _ => false), .finish 7 true]).c.entries = [] ∧
    (srun false (sinit 0 0 true) [.atomic (.set 1 10 1 fun _ => false), .begin 7 1,
      .atomic (.set 1 20 2 fun _ => false), .finish 7 true]).log = [⟨1, 10, true⟩] := by
  decide

end C20
