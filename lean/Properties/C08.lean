import Upd.C08
import Upd.Cas2
import Upd.Frame
import Sess.Proofs
/-!
# C08 — upload sessions are strictly sequential, isolated and leave no residue

Model: `Upd.Upload` = the bytes written (`buf`) and what the running digester has seen (`hashed`); sessions live in
their repository's `uploads` list.  Tie: profile `upload` on the three stores (stale, future and malformed offsets
and state tokens, empty chunks, ids replayed on other repositories, PUT after cancel), monitors `C08.*`;
the bound on open sessions is decided with the cache model (C20) and monitored by `C08.bound`.
Residue: a chunk whose *transport* fails midway is a runtime event the request-level model does not have.
-/
namespace C08
open Upd

section patch
variable (s : State) (r : String) (pub : Nat) (q : Q) (key : Nat) (u : Upload)
  (hk : (s.setRepo (s.repo r)).keyOf pub = some key) (hu : ((s.setRepo (s.repo r)).repo r).upload key = some u)
include hk hu

/-- a chunk whose Content-Range start differs from the bytes received is refused and nothing is altered -/
theorem chunk_bad_range_refused (h1 : crValid q.cr u.buf.length = false) :
    uPatch s r pub q = (s.setRepo (s.repo r), { status := 416, code := "SIZE_INVALID", range := rangeHdr u.buf.length }) :=
  uPatch_bad_range s r pub q key u hk hu h1

/-- … likewise a state token that differs from the bytes received -/
theorem chunk_bad_state_refused (h1 : crValid q.cr u.buf.length = true) (h2 : stateValid q.state u.buf.length = false) :
    uPatch s r pub q = (s.setRepo (s.repo r), { status := 400, code := "BLOB_UPLOAD_INVALID" }) :=
  uPatch_bad_state s r pub q key u hk hu h1 h2

/-- an in-order chunk is appended and the answer reports the new size -/
theorem chunk_in_order_appended (h1 : crValid q.cr u.buf.length = true) (h2 : stateValid q.state u.buf.length = true) :
    uPatch s r pub q =
      ((s.setRepo (s.repo r)).setRepo (((s.setRepo (s.repo r)).repo r).setUpload (u.write q.body)),
       { status := 202, loc := sessLoc r pub (u.buf ++ q.body).length, range := rangeHdr (u.buf ++ q.body).length }) :=
  uPatch_accept s r pub q key u hk hu h1 h2

/-- a status query reports exactly the bytes received -/
theorem status_query_exact :
    uGet s r pub = (s.setRepo (s.repo r), { status := 204, loc := sessLoc r pub u.buf.length, range := rangeHdr u.buf.length }) :=
  uGet_reports s r pub key u hk hu
end patch

/-- the state token check is an equality with the number of bytes received -/
theorem state_token_is_offset (st : String) (n : Nat) : stateValid st n = true ↔ st.toNat? = some n :=
  stateValid_iff st n

/-- a session id unknown in the addressed repository — never created, ended, or belonging to another
    repository — is refused and nothing changes -/
theorem unknown_session_refused (s : State) (r : String) (pub : Nat) (q : Q)
    (h : (s.setRepo (s.repo r)).keyOf pub = none ∨
         ∃ key, (s.setRepo (s.repo r)).keyOf pub = some key ∧ ((s.setRepo (s.repo r)).repo r).upload key = none) :
    uPatch s r pub q = (s.setRepo (s.repo r), { status := 400, code := "BLOB_UPLOAD_UNKNOWN" }) := by
  rcases h with h | ⟨key, hk, hu⟩
  · exact uPatch_unknown s r pub q h
  · exact uPatch_other_repo s r pub q key hk hu

/-- an ended session (completed, cancelled, failed verification, evicted) is gone from its repository -/
theorem ended_session_gone (rp : Repo) (k : Nat) : (rp.dropUpload k).upload k = none := by
  unfold Repo.dropUpload Repo.upload
  apply List.find?_eq_none.mpr
  intro x hx
  have := (List.mem_filter.mp hx).2
  simpa using this

/-- a request addressed to one repository never touches the sessions (or anything else) of another -/
theorem sessions_per_repository (s : State) (q : Req) (r' : String) (h : r' ≠ q.target) :
    (step s q).1.repo r' = s.repo r' :=
  (step_frame s q).1 r' h

/-- completing a session stores exactly the bytes written, under their digest, and ends the session -/
theorem close_stores_written (s : State) (r : String) (u : Upload) (h : (closeUpload s r u).2 = true) :
    ((closeUpload s r u).1.repo r).blob u.digest = some u.buf ∧ ((closeUpload s r u).1.repo r).upload u.key = none := by
  have hst : (closeUpload s r u).1 = s.setRepo (((s.repo r).putBlob u.digest u.buf).dropUpload u.key) := by
    unfold closeUpload at h ⊢
    cases hu : u.expect with
    | none => rfl
    | some e =>
      simp only [hu] at h ⊢
      split
      · rename_i hne; simp [hne] at h
      · rfl
  have hname : (((s.repo r).putBlob u.digest u.buf).dropUpload u.key).name = r := by
    simp [Repo.dropUpload, putBlob_name, repo_name]
  have hrepo : (closeUpload s r u).1.repo r = ((s.repo r).putBlob u.digest u.buf).dropUpload u.key := by
    rw [hst]
    have := repo_setRepo_same s (((s.repo r).putBlob u.digest u.buf).dropUpload u.key)
    rwa [hname] at this
  rw [hrepo]
  refine ⟨?_, ended_session_gone _ _⟩
  show (((s.repo r).putBlob u.digest u.buf)).blob u.digest = some u.buf
  unfold Repo.putBlob Repo.blob
  split
  · rename_i hany
    obtain ⟨x, hx, hxe⟩ := List.any_eq_true.mp hany
    simp only [decide_eq_true_eq] at hxe
    have key : ∀ (l : List (Dig × String)), x ∈ l →
        (l.map fun x => if x.1 = u.digest then (u.digest, u.buf) else x).find? (fun x => x.1 = u.digest) = some (u.digest, u.buf) := by
      intro l
      induction l with
      | nil => intro h0; simp at h0
      | cons y ys ih =>
        intro hmem
        simp only [List.map_cons, List.find?_cons]
        by_cases hy : y.1 = u.digest
        · simp [hy]
        · simp only [hy, if_false, decide_false]
          rcases List.mem_cons.mp hmem with rfl | hx'
          · exact absurd hxe hy
          · exact ih hx'
    simp [key _ hx]
  · rename_i hany
    have hnone : (s.repo r).blobs.find? (fun x => x.1 = u.digest) = none := by
      apply List.find?_eq_none.mpr
      intro x hx hxe
      exact hany (List.any_eq_true.mpr ⟨x, hx, hxe⟩)
    simp [List.find?_append, hnone]

-- non-vacuity: a concrete session that is closed stores its bytes
example : (closeUpload {} "r" { key := 1, alg := .sha256, expect := none, buf := "ab", hashed := "ab" }).2 = true := rfl
/-! ### the session object itself (store level)

Two requests that address one session hold the same object (`BlobSession` hands it out, the handlers use it without a
lock of their own), so every call sequence on one object is reachable: a `Cancel` behind a completed `Close`, writes
after the end, two closes.  Model `Sess` (lean/Sess/Basic.lean), both stores, sessions pinned to a digest or not; tie: every call sequence up to a length on
the real objects of the memory, directory and memory-over-directory stores, outcome of each call and the publication
at the end compared with `Sess.run` (harness/inpkg/store/upload_harness_test.go, driver `sessdriver`). -/

/-- "on completion the stored blob is the concatenation of the accepted chunks": whatever is called on a session object,
    in any order and any number of times (writes, verifications, closes with and without a verification, cancels), pinned
    to a digest or not, everything it has published is exactly the chunks it accepted, in order; a pinned session publishes
    nothing but the pinned content; and nothing is published while the session is open -/
theorem session_object_publishes_accepted (dir : Bool) (pin : Option (List Nat)) (calls : List Sess.Op) :
    ((Sess.run dir { pin := pin } calls).1.ended = false → (Sess.run dir { pin := pin } calls).1.published = []) ∧
    ∀ p ∈ (Sess.run dir { pin := pin } calls).1.published,
      p = (Sess.run dir { pin := pin } calls).1.written ∧ (pin = none ∨ pin = some p) := by
  have h := Sess.run_inv dir calls { pin := pin } (Sess.inv_init pin)
  have hp := Sess.run_pin dir calls { pin := pin }
  refine ⟨h.1, fun p hpm => ?_⟩
  have := h.2 p hpm
  rw [hp] at this
  exact this

/-- "a session … ceases to exist after completion, cancellation …": once a session has ended no call sequence makes the
    object accept another byte or come back to life -/
theorem session_object_inert_after_end (dir : Bool) (s : Sess.S) (he : s.ended = true) (calls : List Sess.Op) :
    (Sess.run dir s calls).1.ended = true ∧ (Sess.run dir s calls).1.written = s.written :=
  Sess.run_ended dir calls s he

/-- a chunk is refused exactly when the session has ended or (directory store) its temporary file is closed - which a
    failed close of a pinned session leaves behind -/
theorem session_object_write_refused_iff (dir : Bool) (s : Sess.S) (c : Nat) :
    (Sess.step dir s (.w c)).2 = .err ↔ (s.ended = true ∨ (dir = true ∧ s.fclosed = true)) :=
  Sess.write_refused_iff dir s c

/-- what the object has published is not withdrawn by any later call on it -/
theorem session_object_keeps_published (dir : Bool) (s : Sess.S) (o : Sess.Op) (p : List Nat) (hp : p ∈ s.published) :
    p ∈ (Sess.step dir s o).1.published :=
  Sess.step_published_mono dir s o p hp

-- non-vacuity: a completed session has published its two chunks; a Cancel behind the Close changes nothing;
-- a session pinned to another content publishes nothing whatever is called
example : (Sess.run false {} [.w 1, .w 2, .close, .cancel, .w 1]).1.published = [[1, 2]] := by decide
example : (Sess.run true { pin := some [99] } [.w 1, .closeRaw, .close, .cancel, .closeRaw]).1.published = [] := by decide
end C08
