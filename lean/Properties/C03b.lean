import Upd.TagsProofs
/-!
# C03 (continued) — the tag listing is exact, pages are prefixes, following `last` returns everything

Model: `Upd.tags` (tag.go) on the string-valued index.  `Upd.listing ix last` = the tags of the index strictly beyond
`last`, sorted by the model's insertion sort; `Upd.renderTags` = status 200, the JSON list, the Link header;
`Upd.tagsPage` = the page the handler serves for a page size `k`, as data (tags and the `last` of its Link);
`Upd.followTags` = the iteration of `tagsPage` along `last`.  String `≤` is the lexicographic order of core
(`String.le_total`, `String.le_trans`, `String.le_antisymm`): the same order as Go's `sort.Strings` on the
tags the grammar admits (ASCII).
Hypothesis that remains where stated: `TagsUnique` (no two index entries carry the same tag — the C18 shape; `Ixd`
proves the digest-level form `TagFun`, the harness monitor `C03.tags-exact` checks it on the implementation).
-/
namespace C03b
open Upd

/-- the model's sort returns a sorted permutation: nothing lost, nothing invented, multiplicities kept -/
theorem sort_exact (l : List String) : (sortS l).Perm l ∧ (sortS l).Pairwise (· ≤ ·) :=
  ⟨sortS_perm l, sortS_sorted l⟩

example : sortS ["b", "a", "c"] = ["a", "b", "c"] := by decide

/-- without `n` the answer is 200 with exactly the sorted listing and no Link; the listing is a permutation of the
    tags beyond `last` that the index entries carry (one occurrence per carrying entry), it is sorted, and a tag is
    listed iff some entry carries it, it is not empty and it lies strictly beyond `last` -/
theorem tags_listing_exact (s : State) (r last : String) :
    (tags s r "" last).2 = renderTags (listing (s.repo r).index last) "" ∧
    (listing (s.repo r).index last).Perm (tagsAfter (s.repo r).index last) ∧
    (listing (s.repo r).index last).Pairwise (· ≤ ·) ∧
    (∀ t, t ∈ listing (s.repo r).index last ↔
      ∃ d ∈ (s.repo r).index.manifests, d.ann.isNil = false ∧ d.ann.tag = t ∧ t ≠ "" ∧ last < t) :=
  ⟨tags_eq_all s r "" last (Or.inl rfl), (listing_perm_sorted _ _).1, (listing_perm_sorted _ _).2,
   fun t => mem_listing _ _ t⟩

/-- when no two entries carry the same tag, every tag is listed once and the listing is strictly increasing -/
theorem tags_listing_unique (ix : Index) (last : String) (hU : TagsUnique ix) :
    (listing ix last).Pairwise (· < ·) ∧ (listing ix last).Nodup :=
  ⟨listing_strict ix last hU, (sortS_perm _).nodup_iff.mpr (tagsAfter_nodup ix last hU)⟩

example : TagsUnique { manifests := [{ dig := "d1", ann := { isNil := false, tag := "b" } }, { dig := "d2", ann := { isNil := false, tag := "a" } }] } := by
  unfold TagsUnique; decide
example : listing { manifests := [{ dig := "d1", ann := { isNil := false, tag := "b" } }, { dig := "d2", ann := { isNil := false, tag := "a" } }] } "" = ["a", "b"] := by
  decide

/-- a page size that parses to `k ≥ 1`: the page is the first `k` tags of the listing beyond `last`; there is a Link
    exactly when the listing is longer than `k`, and its `last` is the last tag served -/
theorem tags_page (s : State) (r n last : String) (k : Nat) (hn : n ≠ "") (hk : atoi? n = some (k : Int)) (h1 : 1 ≤ k) :
    (tags s r n last).2 = renderPage n (tagsPage s r k last) ∧
    (tagsPage s r k last).1 = (listing (s.repo r).index last).take k ∧
    ((listing (s.repo r).index last).length ≤ k → (tags s r n last).2.link = "") ∧
    ((listing (s.repo r).index last).length > k →
      ∃ l, ((listing (s.repo r).index last).take k).getLast? = some l ∧
        (tags s r n last).2.link = s!"next(last={l},n={n})" ∧ (tags s r n last).2.link ≠ "") := by
  have heq := tags_eq_page s r n last k hn hk
  obtain ⟨p1, p2, p3⟩ := tagsPage_spec s r k last h1
  refine ⟨heq, p1, ?_, ?_⟩
  · intro hle
    rw [heq]; unfold renderPage; rw [p2 hle]; rfl
  · intro hgt
    obtain ⟨l, hl1, hl2⟩ := p3 hgt
    refine ⟨l, by rw [← p1]; exact hl2, ?_, ?_⟩
    · rw [heq]; unfold renderPage; rw [hl1]; rfl
    · rw [heq]; unfold renderPage; rw [hl1]; exact next_ne_empty l n

-- the page function on a concrete index: two of three tags, continue after "b"
example : pageG ["a", "b", "c"] 2 = (["a", "b"], some "b") := by decide

/-- page size 0: an empty page, no Link; absent, unparsable, beyond int64 or negative `n`: the whole listing, no
    Link; and every one of them is answered 200 -/
theorem tags_page_degenerate (s : State) (r n last : String) :
    (n ≠ "" → atoi? n = some 0 → (tags s r n last).2 = renderTags [] "") ∧
    ((n = "" ∨ atoi? n = none ∨ ∃ ni, atoi? n = some ni ∧ ni < 0) →
      (tags s r n last).2 = renderTags (listing (s.repo r).index last) "") ∧
    (tags s r n last).2.status = 200 := by
  refine ⟨?_, tags_eq_all s r n last, ?_⟩
  · intro hn h0
    have := tags_eq_page s r n last 0 hn h0
    rw [this, tagsPage_zero]; rfl
  · unfold tags; simp only []; repeat' split
    all_goals rfl

example : ("" : String) = "" ∨ atoi? "" = none ∨ ∃ ni, atoi? "" = some ni ∧ ni < 0 := Or.inl rfl

/-- every page, whatever the page size, is a prefix of the listing beyond `last` -/
theorem page_is_prefix (s : State) (r : String) (k : Nat) (last : String) :
    (tagsPage s r k last).1 = (listing (s.repo r).index last).take k := tagsPage_prefix s r k last

/-- pagination over any strictly increasing list, for any irreflexive asymmetric decidable order and any page size
    ≥ 1: following the `last` of each page returns the list — every element once, in order.  `PxP.paging` (Nat) and
    the String instance used below are instances. -/
theorem paging_generic {α : Type} (lt : α → α → Prop) [DecidableRel lt] (hirr : ∀ a, ¬ lt a a)
    (hasym : ∀ a b, lt a b → ¬ lt b a) (ts : List α) (hs : ts.Pairwise lt) (n : Nat) (hn : 1 ≤ n) :
    (pagesG lt ts n (ts.length + 1) none).flatten = ts := pagingG lt hirr hasym ts hs n hn

example : (pagesG (· < ·) ["a", "b", "c"] 2 4 none) = [["a", "b"], ["c"]] := by decide
example : ∀ ts n f last, PxP.pages ts n f last = pagesG (· < ·) ts n f last := pagesG_nat

/-- with unique tags, following the Link of `Upd.tags` page by page with any page size ≥ 1 returns exactly the full
    listing: every tag once, in order -/
theorem tags_follow_all (s : State) (r : String) (k : Nat) (hk : 1 ≤ k) (hU : TagsUnique (s.repo r).index) :
    (followTags s r k ((listing (s.repo r).index "").length + 1) "").flatten = listing (s.repo r).index "" :=
  followTags_all s r k hk hU

example : TagsUnique ((({} : State).repo "r").index) := by
  unfold TagsUnique; exact List.Pairwise.nil
end C03b
