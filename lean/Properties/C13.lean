import Px.Race
import Lk.Guard
/-!
# C13 — free of data races

*General theorem* (`Px/Race.lean`): in a trace of acquire / release / read / write events in which mutexes behave like
mutexes, a variable that is only read, or whose every access is made while holding one fixed lock, is never raced on:
any two conflicting accesses by different threads are ordered by happens-before (program order ∪ release→acquire).

*Instance obligation*, re-checked by the kernel on every run over the table `tools/lockfacts` regenerates from the tree under
test (`Generated/FieldAccess.lean`): every read/write of a field of a mutex-owning struct (`dir`, `dirRepo`, `dirRepoUpload`,
`mem`, `memRepo`, `memRepoUpload`, `Cache`, `Server`), reached from any request handler, ticker, timer or eviction goroutine
with the statically held lock set, obeys the hand-written guard map `Lk.guardTable`: an `immutable` field is written only while
its object is under construction, an `own` field is only touched with the object's own mutex held.

**Partial by nature** (DESIGN §10).  Excluded: soundness of the static held-set computation and of the class-for-instance
abstraction (`Respects` below states exactly what is assumed; it is cross-checked by running the concurrent workload under
the race detector on both stores); memory that is not a field of a mutex-owning struct (`rateLimitEntry` counters, the
contents behind pointer fields); `net/http`, go-digest and the runtime.  `Close`/`Shutdown` are outside the property's
quantifier ("concurrent requests and background jobs") and are exempted by `Lk.lifecycle`.
-/
namespace C13
open Generated PxR

/-- the lockset theorem -/
theorem lockset_race_free (tr : List Ev) (hw : WellLocked tr) (guard : Var → Option Lock)
    (h : ∀ x, ReadOnly tr x ∨ ∃ g, guard x = some g ∧ Guarded tr x g) : ¬ HasRace tr :=
  PxR.lockset_race_free tr hw guard h

example : HasRace [.wr 1 0, .wr 2 0] ∧ ¬ HasRace [.acq 1 7, .wr 1 0, .rel 1 7] := by
  refine ⟨?_, ?_⟩
  · refine ⟨0, 1, .wr 1 0, .wr 2 0, 0, by decide, rfl, rfl, Or.inr rfl, Or.inr rfl, Or.inl rfl, by decide, ?_⟩
    intro h
    have key : ∀ a b, HB [Ev.wr 1 0, Ev.wr 2 0] a b → False := by
      intro a b hab
      induction hab with
      | po hlt hi hj ht =>
        rename_i i j ei ej
        match i, j, hi, hj with
        | 0, 1, hi, hj => simp at hi hj; subst hi; subst hj; simp [Ev.tid] at ht
        | 0, 0, _, _ => omega
        | 1, 0, _, _ => omega
        | 1, 1, _, _ => omega
        | i+2, _, hi, _ => simp at hi
        | 0, j+2, _, hj => simp at hj
        | 1, j+2, _, hj => simp at hj
      | sw hlt hi hj =>
        rename_i i j t u l
        match i, hi with
        | 0, hi => simp at hi
        | 1, hi => simp at hi
        | i+2, hi => simp at hi
      | trans _ _ ih1 _ => exact ih1
    exact key 0 1 h
  · rintro ⟨i, j, ei, ej, x, hij, hi, hj, _, _, _, hne, _⟩
    -- a single thread
    have ti : ei.tid = 1 := by
      match i, hi with
      | 0, hi => simp at hi; subst hi; rfl
      | 1, hi => simp at hi; subst hi; rfl
      | 2, hi => simp at hi; subst hi; rfl
      | i+3, hi => simp at hi
    have tj : ej.tid = 1 := by
      match j, hj with
      | 0, hj => simp at hj; subst hj; rfl
      | 1, hj => simp at hj; subst hj; rfl
      | 2, hj => simp at hj; subst hj; rfl
      | j+3, hj => simp at hj
    exact hne (ti.trans tj.symm)

set_option maxRecDepth 100000 in
/-- instance obligation over the distinct (field, kind, held set) combinations (`decide` over the regenerated table) -/
theorem olareg_guarded_keys : ∀ k ∈ fieldAccessKeys, Lk.accessOk k = true := by
  have h : Lk.accessesOk = true := by decide
  exact fun k hk => List.all_eq_true.mp h k hk

set_option maxRecDepth 100000 in
/-- instance obligation: every access of the regenerated table obeys the guard map -/
theorem olareg_guarded : ∀ a ∈ fieldAccess, ∃ k, Lk.keyOf a = some k ∧ Lk.accessOk k = true := by
  have h : fieldAccess.all (fun a => decide (a.key < fieldAccessKeys.length)) = true := by decide
  intro a ha
  have hlt : a.key < fieldAccessKeys.length := by simpa using List.all_eq_true.mp h a ha
  refine ⟨fieldAccessKeys[a.key], by simp [Lk.keyOf, hlt], olareg_guarded_keys _ (List.getElem_mem hlt)⟩

/-- the shapes of F18 are rejected by the check (the obligation is not vacuous): a read of `dirRepo.exists` without the
    repository mutex, and a write of an immutable field after construction -/
example : Lk.accessOk { field := "dirRepo.exists", write := false, ctor := false, held := [], own := "dirRepo.mu", root := "" } = false ∧
    Lk.accessOk { field := "dirRepo.path", write := true, ctor := false, held := ["dirRepo.mu"], own := "dirRepo.mu", root := "" } = false ∧
    Lk.accessOk { field := "dirRepo.exists", write := true, ctor := false, held := ["dir.mu", "dirRepo.mu"], own := "dirRepo.mu", root := "" } = true := by
  decide

/-- What is assumed about an execution: each access event of a memory location `x` (a field `fieldOf x` of an object whose
    mutex instance is `lockOf x`) made after publication by a request or background thread is an instance of a row of the
    regenerated table, and when that row says the object's own mutex is held, the thread really holds it. -/
def Respects (tr : List Ev) (fieldOf : Var → String) (lockOf : Var → Lock) : Prop :=
  ∀ i e x, tr[i]? = some e → e.accesses x →
    ∃ k ∈ fieldAccessKeys, k.field = fieldOf x ∧ k.write = e.isWrite ∧ k.ctor = false ∧ Lk.lifecycle k.root = false ∧
      (k.held.contains k.own = true → holder (lockOf x) (tr.take i) = some e.tid)

/-- **race freedom of the guarded fields** (partial, see the module comment): an execution that respects the regenerated
    access table has no data race on any field of a mutex-owning struct -/
theorem race_free_partial (tr : List Ev) (hw : WellLocked tr) (fieldOf : Var → String) (lockOf : Var → Lock)
    (hr : Respects tr fieldOf lockOf) : ¬ HasRace tr := by
  apply PxR.lockset_race_free tr hw (fun x => some (lockOf x))
  intro x
  -- what the table says about the accesses of x
  have hacc : ∀ i e, tr[i]? = some e → e.accesses x →
      (Lk.guardOf (fieldOf x) = some .immutable ∧ e.isWrite = false) ∨
      (Lk.guardOf (fieldOf x) = some .own ∧ holder (lockOf x) (tr.take i) = some e.tid) := by
    intro i e hi ha
    obtain ⟨k, hk, hf, hwk, hc, hl, hh⟩ := hr i e x hi ha
    have hok := olareg_guarded_keys k hk
    simp only [Lk.accessOk, hc, hl, Bool.false_or, hf] at hok
    split at hok
    · next hg => exact Or.inl ⟨hg, by rw [← hwk]; simpa using hok⟩
    · next hg => exact Or.inr ⟨hg, hh hok⟩
    · cases hok
  cases hg : Lk.guardOf (fieldOf x) with
  | none =>
    refine Or.inl ?_
    intro i t hi
    rcases hacc i _ hi (Or.inr rfl) with ⟨h, _⟩ | ⟨h, _⟩ <;> simp [hg] at h
  | some g =>
    cases g with
    | immutable =>
      refine Or.inl ?_
      intro i t hi
      rcases hacc i _ hi (Or.inr rfl) with ⟨_, h⟩ | ⟨h, _⟩
      · simp [Ev.isWrite] at h
      · simp [hg] at h
    | own =>
      refine Or.inr ⟨lockOf x, rfl, ?_⟩
      intro i e hi ha
      rcases hacc i e hi ha with ⟨h, _⟩ | ⟨_, h⟩
      · simp [hg] at h
      · exact h
end C13
