import Px.Locks
import Px.Token
import Lk.Rank
/-!
# C12 — no schedule can hang the registry

*General theorems* (any number of threads, lock instances, requests, collectors): a system whose (held, wanted) class pairs
lie in a ranked edge set cannot hang (`Px/Locks.lean`); the token + wait-group protocol between `RepoGet`, `Done`, `gc` and
`Close` always has an enabled step, a request waiting for the token returns on cancellation, a waiting collector proceeds once
the outstanding requests call `Done`, every run is finite (`Px/Token.lean`).

*Instance obligations*, re-checked by the kernel on every run over the tables `tools/lockfacts` regenerates from the tree under
test (`Generated/LockFacts.lean`): every held→acquired edge is ranked by the hand-written `Lk.rank`, nothing was left
unrecognised, no thread root ends holding a lock, every `locked = true` argument is true, the token is taken where the model
says.

The property is **partial by nature** (DESIGN §10): the theorems speak about the lock-program abstraction.  Excluded: fairness
of the Go scheduler, blocking inside `net/http` and the kernel, termination of the code between lock operations (C06 covers the
collector), soundness of the extractor for this code base (cross-checked on every run: every held→acquire pair recorded on real
concurrent executions must be in `Generated.lockEdges`, and no request may exceed its completion bound).
-/
namespace C12
open Generated

/-- ranked acquisition ⇒ no hang, for any number of threads and any number of lock instances per class -/
theorem ranked_no_hang {C : Type} (cls : PxL.Lock → C) (rank : C → Nat) (E : List (C × C))
    (hE : ∀ e ∈ E, rank e.1 < rank e.2) (ts : List PxL.Th) (hcov : PxL.Covered cls E ts) : ¬ PxL.Hung ts :=
  PxL.ranked_no_hang cls rank E hE ts hcov

/-- … and then, whenever some thread waits, a waiting thread can proceed or a lock holder is running -/
theorem ranked_progress {C : Type} (cls : PxL.Lock → C) (rank : C → Nat) (E : List (C × C))
    (hE : ∀ e ∈ E, rank e.1 < rank e.2) (ts : List PxL.Th) (hcov : PxL.Covered cls E ts)
    (hw : ∃ t ∈ ts, t.next.isSome) :
    (∃ t ∈ ts, t.next.isSome ∧ PxL.canStep ts t) ∨ (∃ t ∈ ts, t.held ≠ [] ∧ t.next = none) :=
  PxL.ranked_progress cls rank E hE ts hcov hw

example : ¬ PxL.Hung [{ held := [0], next := some 1 }, { held := [1], next := none }] :=
  ranked_no_hang (fun l => l) (fun c => c) [(0, 1)] (by decide) _ (by
    intro t ht l hl h hh
    simp at ht
    rcases ht with rfl | rfl
    · simp at hl hh; subst hl; subst hh; simp
    · simp at hl)

/-- instance obligation: every held→acquired edge of the tree under test is ranked (`decide` over the regenerated table) -/
theorem olareg_edges_ranked : ∀ e ∈ lockEdges, Lk.Ranked e.1 e.2 := by
  have h : Lk.edgesOk = true := by decide
  intro e he
  exact Lk.edgeOk_ranked (List.all_eq_true.mp h e he)

/-- the extractor understood every lock-relevant construct of the tree under test -/
theorem olareg_lockfacts_recognised : lockUnrecognised = [] := rfl

/-- no thread root can end while holding a lock; the only resource handed to a caller is the wait-group share that
    `RepoGet` returns with by contract (released by `Repo.Done`) -/
theorem olareg_no_lock_leak : lockLeaks = [("dir.RepoGet", "dirRepo.wg"), ("mem.RepoGet", "memRepo.wg")] := rfl

/-- every call that passes `locked = true` holds the mutex it claims (or works on an unpublished object) -/
theorem olareg_locked_claims : ∀ c ∈ lockedCalls, c.2.1 = true → c.2.2.1 = true ∨ c.2.2.2.1 = true := by
  have h : Lk.lockedCallsOk = true := by decide
  intro c hc hcl
  have := List.all_eq_true.mp h c hc
  simp [Lk.lockedCallOk, hcl] at this
  exact this

/-- the token is taken exactly where the protocol model says: by `RepoGet` inside a `select` with `ctx.Done()`, by `gc` unconditionally -/
theorem olareg_token_takes :
    tokenTakes = [("dir.RepoGet", true), ("dirRepo.gc", false), ("mem.RepoGet", true), ("memRepo.gc", false)] := rfl

/-- the request count of a repository is only raised by the holder of the repository's token or before the repository is
    published — the only `add` step of the protocol model; an `Add` outside it can overlap a collector's `Wait` -/
theorem olareg_add_under_token : ∀ a ∈ wgAdds, a.2.2.2.2.1 = true → a.2.2.1 = true ∨ a.2.2.2.1 = true := by
  have h : Lk.wgAddsOk = true := by decide
  intro a ha ht
  have := List.all_eq_true.mp h a ha
  simp [Lk.wgAddOk, ht] at this
  exact this

/-- a thread that waits for the repository token or, as a collector, for the in-flight requests holds no mutex — so it blocks
    nobody but through the token and the count, as the protocol model assumes, and a request to another repository (or one
    whose context expires) is never queued behind it on a lock that ignores contexts.  **Partial**: excluded are the threads
    that shut the instance down (`Lk.shutdownRoots`) and the pairs of `Lk.waitExceptions` (the cleanup of an aged-out entry of
    the directory store's cache of repositories collects under the cache mutex: an open finding, witness in the notes) -/
theorem olareg_waits_hold_no_mutex_partial : ∀ w ∈ repoWaits,
    w.2.2.2.1 ∈ Lk.shutdownRoots ∨ ∀ m ∈ w.2.2.1, (w.2.2.2.1, m) ∈ Lk.waitExceptions := by
  have h : Lk.repoWaitsOk = true := by decide
  intro w hw
  have := List.all_eq_true.mp h w hw
  simp only [Lk.repoWaitOk, Bool.or_eq_true, List.contains_iff_mem, List.all_eq_true] at this
  exact this

/-- **the lock programs of olareg cannot hang** (partial, see the module comment): in any configuration — any number of
    threads, repositories, sessions — in which each thread's (held, wanted) pairs are, at class level, among the statically
    derived edges, not everybody is blocked -/
theorem no_hang_partial (cls : PxL.Lock → String) (ts : List PxL.Th) (hcov : PxL.Covered cls lockEdges ts) : ¬ PxL.Hung ts := by
  apply PxL.ranked_no_hang cls (fun c => (Lk.rank c).getD 0) lockEdges _ ts hcov
  intro e he
  obtain ⟨a, b, ha, hb, hab⟩ := olareg_edges_ranked e he
  simp [ha, hb, hab]

/-- non-vacuity of the instance: a request holding its repository share (`dirRepo.wg`) waits for the repository mutex that a
    running collector holds — covered by the table, not hung -/
example : ¬ PxL.Hung [{ held := [1], next := some 2 }, { held := [3, 2], next := none }] :=
  no_hang_partial (fun l => if l = 1 then "dirRepo.wg" else if l = 2 then "dirRepo.mu" else "dirRepo.wgBlock") _ (by
    intro t ht l hl h hh
    simp at ht
    rcases ht with rfl | rfl
    · simp at hl hh; subst hl; subst hh; decide
    · simp at hl)

/-! ### token + wait-group protocol (RepoGet / Done / gc / Close) -/

/-- no state in which all are blocked: while anything is pending a protocol step is enabled (never needing a cancellation) -/
theorem token_progress {s : PxT.St} (h : PxT.Inv s) (hp : 0 < PxT.pending s) : ∃ s', PxT.Step s s' := PxT.progress h hp

/-- a request blocked on the token returns when its context is cancelled -/
theorem token_cancel (s : PxT.St) (hw : 0 < s.rW) :
    ∃ s', PxT.Cancel s s' ∧ s'.rW = s.rW - 1 ∧ s'.token = s.token ∧ s'.count = s.count :=
  PxT.waiting_request_returns_on_cancel s hw

/-- a collector that holds the token proceeds as soon as the outstanding requests (exactly `count`, none can join) call `Done` -/
theorem token_gc_proceeds {s : PxT.St} (h : PxT.Inv s) (hg : 0 < s.gT) :
    s.rK = s.count ∧ ∃ s', PxT.Dones s.count s s' ∧ s'.count = 0 ∧ ∃ s'', PxT.Step s' s'' ∧ s''.gC = s.gC + 1 :=
  PxT.gc_proceeds h hg

theorem token_no_add_while_collector_waits {s s' : PxT.St} (h : PxT.Inv s) (hg : 0 < s.gT) (st : PxT.Sys s s') :
    s'.count ≤ s.count := PxT.no_add_while_collector_waits h hg st

/-- every execution is finite … -/
theorem token_run_bounded {n : Nat} {s s' : PxT.St} (r : PxT.Run n s s') : n + PxT.pot s' ≤ PxT.pot s := PxT.run_bounded r

/-- … and ends with every request completed (or cancelled), every collector finished and Close returned -/
theorem token_maximal_run_complete {n : Nat} {s s' : PxT.St} (h : PxT.Inv s) (r : PxT.Run n s s')
    (hmax : ¬ ∃ s'', PxT.Step s' s'') : PxT.pending s' = 0 := PxT.maximal_run_complete h r hmax

theorem token_reachable_inv {r g c : Nat} {s : PxT.St} (h : PxT.Reach r g c s) : PxT.Inv s := PxT.inv_reach h

example : ∃ s', PxT.Step { token := 0, count := 1, rS := 0, rW := 1, rT := 0, rA := 0, rK := 1, gI := 0, gT := 1, gC := 0, cW := 1 } s' :=
  token_progress (by simp [PxT.Inv]) (by decide)
end C12
