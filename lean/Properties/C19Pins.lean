import Cfg
import Generated
/-!
# C19 — source-text pins (triggers, not obligations)

`limiter_shape` compares the regenerated text of the rate-limit block of `ServeHTTP` with the text the hand-written model
`Cfg.RL.step` was written for.  It is built separately from `Properties.C19`: when it no longer checks, the check of C19
runs the limiter correspondence (real `ServeHTTP` with a virtual clock against `Cfg.RL.step`) at the depth of the thorough
tier and reports only what that run finds - a disagreement or a monitor hit.  A behaviour-preserving rewrite of the block
(a helper extracted, a chain turned into a switch) therefore raises no alarm, a change of behaviour shows in the streams.
-/
namespace C19
open Cfg Generated

/-- the limiter block in the tree is the text `Cfg.RL.step` was written for (its mutex aside, see `lifecycle_shape`) -/
theorem limiter_shape : limiter = limiterModelled := by decide +kernel
end C19
