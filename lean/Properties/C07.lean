import Upd.Frame
import Properties.C06
/-!
# C07 — referrers responses list exactly the manifests that have the subject

Model: the response of a subject is a blob whose content is a descriptor list (`State.resps`), registered in the index
under the subject annotation; `referrerAdd`/`referrerDelete` are the read-modify-write of referrer.go; `refs` is
`referrerGet` with the artifactType filter, the page cache (keyed by repository, subject, response digest and filter)
and `referrerSplit`.  Marshalled sizes are a *model* (`respSize`), validated by comparing `Content-Length`; the split
theorems hold for an arbitrary size function, so nothing rests on it.
Tie: profiles `mix`, `limits` (small response limits, repeated requests, `cache=`/`page=` parameters); monitors
`C07.refs-exact`, `C07.filter`, `C07.oci-subject`, `C07.refs-status`.
-/
namespace C07
open Upd

/-- every page of a split response respects the limit — for every size function and every limit -/
theorem pages_fit (size : List Desc → Nat) (limit : Nat) (ds : List Desc) :
    ∀ p ∈ PxS.split size limit ds, size p ≤ limit :=
  PxS.split_pages_fit size limit ds

/-- the pages, in order, are the list minus entries that cannot fit on a page of their own: nothing is invented,
    nothing reordered, nothing that fits alone is lost -/
theorem pages_union (size : List Desc → Nat) (limit : Nat) (ds : List Desc) :
    (PxS.split size limit ds).flatten.Sublist ds ∧
    (ds.filter (fun d => size [d] ≤ limit)).Sublist (PxS.split size limit ds).flatten :=
  PxS.split_union size limit ds

/-- the handler's split is that function at the JSON size -/
theorem handler_split (limit : Nat) (ds : List Desc) : referrerSplit limit ds = PxS.split respSize limit ds := rfl

/-- adding a referrer appends its descriptor unless the digest is listed already — the new response lists the old
    entries and the new one, each once -/
theorem add_lists (old : List Desc) (d : Desc) :
    (if old.any (·.dig = d.dig) then old else old ++ [d]) = old ∨
    (if old.any (·.dig = d.dig) then old else old ++ [d]) = old ++ [d] := by
  split
  · exact Or.inl rfl
  · exact Or.inr rfl

/-- an unknown subject (nothing registered in the index) gets an empty index with status 200, whatever the filter -/
theorem unknown_subject_empty (s : State) (r arg filter cache : String) (page : Nat)
    (h : getBySubj (s.repo r).index arg = none) :
    (refsMain s r arg filter cache page).2 = emptyRefs := by
  unfold refsMain
  simp [h]

/-- an answer served from the page cache for a `cache=&page=` request announces the filter exactly when one was
    requested (or is the 400 for an unparsable cache digest) -/
theorem paged_filter_announced (s : State) (r arg filter cache : String) (page : Nat) (resp : Resp)
    (h : refsPaged s r arg filter cache page = some resp) :
    resp.status = 400 ∨ (resp.status = 200 ∧ resp.filt = filtHdr filter) := by
  unfold refsPaged at h
  repeat' split at h
  all_goals first
    | (simp at h; done)
    | (simp only [Option.some.injEq] at h; subst h; first | (left; rfl) | (right; exact ⟨rfl, rfl⟩))

/-- every generated answer announces the filter exactly when one was requested — on the uncached path and on the
    cached one — unless it is the empty index of an unknown subject -/
theorem main_filter_announced (s : State) (r arg filter cache : String) (page : Nat) :
    (refsMain s r arg filter cache page).2 = emptyRefs ∨ (refsMain s r arg filter cache page).2.filt = filtHdr filter := by
  unfold refsMain
  simp only []
  repeat' split
  all_goals first
    | (left; rfl)
    | (right; rfl)

/-- the filtered listing is exactly the matching subset of the full response (uncached path, no paging) -/
theorem filter_exact (full : List Desc) (filter : String) :
    ∀ d, d ∈ full.filter (·.atype = filter) ↔ d ∈ full ∧ d.atype = filter := by
  intro d; simp [List.mem_filter]

/-- a referrers request only touches the addressed repository (and the page cache) -/
theorem refs_frame (s : State) (r arg f c p r' : String) (h : r' ≠ r) : (refs s r arg f c p).1.repo r' = s.repo r' :=
  (frame_refs s r arg f c p).1 r' h

example : PxS.split (fun (l : List Nat) => l.length) 2 [1, 2, 3] = [[1, 2], [3]] := by decide

/-! ## known finding F35: the statement "regardless of whether S itself exists … across restart" fails over a collection

On the collector model of C05/C06 (`Ixd.gc`, the transcription of `repoGarbageCollect`), under the default policy:
subject 7 was deleted as a manifest (its blob is still there), artifact 5 (tagged, config 1) names it, response 9 lists 5
and is registered for 7.  The collection keeps the artifact with its index entry and drops the response: afterwards the
referrers API has nothing to read for subject 7 although manifest 5 with that subject is present.  The same history runs
on the real server from `corpus/C07/f35.ops` (monitor `C07.refs-exact.response-collected-with-subject`). -/
def f35Blobs : List Ixd.Blob :=
  [{ dig := 1, json := false }, { dig := 7, cfg := 1 }, { dig := 5, cfg := 1 }, { dig := 9, kids := [(1, 5)] }]
def f35Index : Ixd.Index :=
  { manifests := [{ mt := 1, dig := 5, ann := { isNil := false, tag := 1 } }, { mt := 2, dig := 9, ann := { isNil := false, subj := 7 } }] }
/-- Untagged off, ReferrersDangling off, ReferrersWithSubj on, no grace period: the defaults -/
def pDefault : Ixd.Policy := ⟨false, false, true, false⟩

private theorem f35_retD (g c : Nat) (h : Ixd.RetD pDefault f35Blobs f35Index.manifests g c) : g = 5 := by
  induction h with
  | root he hc hb =>
    simp only [f35Index, List.mem_cons, List.mem_nil_iff, or_false] at he
    rcases he with rfl | rfl
    · rfl
    · revert hc; decide
  | child _ hb _ hk _ ih =>
    subst ih
    have : Ixd.getBlob f35Blobs 5 = some { dig := 5, cfg := 1 } := by decide
    rw [this] at hb; cases hb; simp at hk
  | resp _ _ _ he hc _ ih =>
    subst ih
    simp only [f35Index, List.mem_cons, List.mem_nil_iff, or_false] at he
    rcases he with rfl | rfl <;> (revert hc; decide)

private theorem f35_not_retained : ¬ Ixd.Retained pDefault f35Blobs f35Index.manifests 9 := by
  intro h
  have h5 : Ixd.getBlob f35Blobs 5 = some { dig := 5, cfg := 1 } := by decide
  generalize hg : (9 : Nat) = g at h
  cases h with
  | desc hd => have := f35_retD _ _ hd; omega
  | cfg hd hb _ =>
    have := f35_retD _ _ hd; subst this
    rw [h5] at hb; cases hb; simp at hg
  | layer hd hb _ hl =>
    have := f35_retD _ _ hd; subst this
    rw [h5] at hb; cases hb; simp at hl
  | recent _ _ hgr => simp [pDefault] at hgr

/-- the default policy keeps the tagged artifact 5 (blob and index entry) and removes the response document 9 that lists
    it, with its index entry: nothing is registered for subject 7 any more -/
theorem gc_drops_response_of_present_referrer :
    5 ∈ (Ixd.gc pDefault f35Index f35Blobs).blobs ∧
    9 ∉ (Ixd.gc pDefault f35Index f35Blobs).blobs ∧
    ∀ e ∈ (Ixd.gc pDefault f35Index f35Blobs).index.manifests, e.dig ≠ 9 := by
  have hz : ∀ b ∈ f35Blobs, b.dig ≠ 0 := by decide
  have hU : Ixd.SubjUnique f35Index.manifests := by unfold Ixd.SubjUnique; decide
  have h9 : 9 ∉ (Ixd.gc pDefault f35Index f35Blobs).blobs := fun h =>
    f35_not_retained ((C06.gc_exact pDefault f35Index f35Blobs hU hz 9).mp h).2
  refine ⟨?_, h9, ?_⟩
  · refine (C06.gc_exact pDefault f35Index f35Blobs hU hz 5).mpr ⟨⟨({ dig := 5, cfg := 1 } : Ixd.Blob), by decide, rfl⟩, ?_⟩
    exact .desc (c := 1) (Ixd.RetD.root (e := { mt := 1, dig := 5, ann := { isNil := false, tag := 1 } }) (b := { dig := 5, cfg := 1 })
      (by decide) (by decide) (by decide))
  · intro e he hd
    obtain ⟨_, _, hr⟩ := C06.gc_index_backed pDefault f35Index f35Blobs hz e he (by omega)
    exact f35_not_retained (hd ▸ hr)
/-! ### F43: a client's manifest with the bytes of a referrers response ("twin") shares the response's digest

The index is keyed by digest.  A delete by digest removes *every* entry of the digest (`C18.rm_digest_all`), so when a
client has pushed the very bytes of the response document of subject `s` and deletes that manifest by digest, the
registry's own entry for `s` goes with it: no response of that digest is registered for any subject afterwards, whatever
else the index holds. -/

/-- after a delete by digest no subject has a response of that digest (exact index model, every index) -/
theorem delete_by_digest_drops_response (ix : Ixd.Index) (d : Ixd.Desc) (hnil : d.ann.isNil = true) (hd : d.dig ≠ 0)
    (s : Nat) (e : Ixd.Desc) (he : Ixd.getBySubj (Ixd.rmDesc ix d) s = some e) : e.dig ≠ d.dig :=
  (Ixd.rm_digest_all ix d hnil hd).1 e (List.mem_of_find?_eq_some he)

/-- the index after: artifact 5 pushed, the response 9 registered for subject 7, a client's tagged push of the same
    digest 9 (`AddDesc` appends the tagged entry: the response entry is not compatible with a tag) -/
def f43Index : Ixd.Index :=
  { manifests := [{ mt := 1, dig := 5 }, { mt := 2, dig := 9, ann := { isNil := false, subj := 7 } },
                  { mt := 2, dig := 9, ann := { isNil := false, tag := 1 } }] }

/-- witness of F43 (replayed on the implementation as corpus/C07/f43.ops): the twin has an entry of its own beside the
    response; deleting it by digest leaves subject 7 without a response although the artifact 5 is still there -/
theorem twin_delete_loses_response :
    (f43Index.manifests.filter (·.dig = 9)).length = 2 ∧
    (Ixd.getBySubj f43Index 7).isSome = true ∧
    Ixd.getBySubj (Ixd.rmDesc f43Index { mt := 2, dig := 9 }) 7 = none ∧
    (∃ e ∈ (Ixd.rmDesc f43Index { mt := 2, dig := 9 }).manifests, e.dig = 5) := by decide
end C07
