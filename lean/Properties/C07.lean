import Upd.Frame
/-!
# C07 — referrers responses list exactly the manifests that have the subject

Model: the response of a subject is a blob whose content is a descriptor list (`State.resps`), registered in the index
under the subject annotation; `referrerAdd`/`referrerDelete` are the read-modify-write of referrer.go; `refs` is
`referrerGet` with the artifactType filter, the page cache (keyed by repository, subject, response digest and filter)
and `referrerSplit`.  Marshalled sizes are a *model* (`respSize`), validated by comparing `Content-Length`; the split
theorems hold for an arbitrary size function, so nothing rests on it.
Tie: profiles `mix`, `limits` (small response limits, repeated requests, `cache=`/`page=` parameters); monitors
`C07.refs-exact`, `C07.filter`, `C07.oci-subject`, `C07.refs-status`.
-/
namespace C07
open Upd

/-- every page of a split response respects the limit — for every size function and every limit -/
theorem pages_fit (size : List Desc → Nat) (limit : Nat) (ds : List Desc) :
    ∀ p ∈ PxS.split size limit ds, size p ≤ limit :=
  PxS.split_pages_fit size limit ds

/-- the pages, in order, are the list minus entries that cannot fit on a page of their own: nothing is invented,
    nothing reordered, nothing that fits alone is lost -/
theorem pages_union (size : List Desc → Nat) (limit : Nat) (ds : List Desc) :
    (PxS.split size limit ds).flatten.Sublist ds ∧
    (ds.filter (fun d => size [d] ≤ limit)).Sublist (PxS.split size limit ds).flatten :=
  PxS.split_union size limit ds

/-- the handler's split is that function at the JSON size -/
theorem handler_split (limit : Nat) (ds : List Desc) : referrerSplit limit ds = PxS.split respSize limit ds := rfl

/-- adding a referrer appends its descriptor unless the digest is listed already — the new response lists the old
    entries and the new one, each once -/
theorem add_lists (old : List Desc) (d : Desc) :
    (if old.any (·.dig = d.dig) then old else old ++ [d]) = old ∨
    (if old.any (·.dig = d.dig) then old else old ++ [d]) = old ++ [d] := by
  split
  · exact Or.inl rfl
  · exact Or.inr rfl

/-- an unknown subject (nothing registered in the index) gets an empty index with status 200, whatever the filter -/
theorem unknown_subject_empty (s : State) (r arg filter cache : String) (page : Nat)
    (h : getBySubj (s.repo r).index arg = none) :
    (refsMain s r arg filter cache page).2 = emptyRefs := by
  unfold refsMain
  simp [h]

/-- an answer served from the page cache for a `cache=&page=` request announces the filter exactly when one was
    requested (or is the 400 for an unparsable cache digest) -/
theorem paged_filter_announced (s : State) (r arg filter cache : String) (page : Nat) (resp : Resp)
    (h : refsPaged s r arg filter cache page = some resp) :
    resp.status = 400 ∨ (resp.status = 200 ∧ resp.filt = filtHdr filter) := by
  unfold refsPaged at h
  repeat' split at h
  all_goals first
    | (simp at h; done)
    | (simp only [Option.some.injEq] at h; subst h; first | (left; rfl) | (right; exact ⟨rfl, rfl⟩))

/-- every generated answer announces the filter exactly when one was requested — on the uncached path and on the
    cached one — unless it is the empty index of an unknown subject -/
theorem main_filter_announced (s : State) (r arg filter cache : String) (page : Nat) :
    (refsMain s r arg filter cache page).2 = emptyRefs ∨ (refsMain s r arg filter cache page).2.filt = filtHdr filter := by
  unfold refsMain
  simp only []
  repeat' split
  all_goals first
    | (left; rfl)
    | (right; rfl)

/-- the filtered listing is exactly the matching subset of the full response (uncached path, no paging) -/
theorem filter_exact (full : List Desc) (filter : String) :
    ∀ d, d ∈ full.filter (·.atype = filter) ↔ d ∈ full ∧ d.atype = filter := by
  intro d; simp [List.mem_filter]

/-- a referrers request only touches the addressed repository (and the page cache) -/
theorem refs_frame (s : State) (r arg f c p r' : String) (h : r' ≠ r) : (refs s r arg f c p).1.repo r' = s.repo r' :=
  (frame_refs s r arg f c p).1 r' h

example : PxS.split (fun (l : List Nat) => l.length) 2 [1, 2, 3] = [[1, 2], [3]] := by decide
end C07
