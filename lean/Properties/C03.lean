import Ixd
import Px.Paging
import Upd.Frame
/-!
# C03 — tags form a last-writer-wins map; listing and paging are exact

Three layers.  (1) The index data structure (`Ixd`, exact transcription of `types/manifest.go`, shared with C18):
pushing a tag makes it name the pushed digest and nothing else, removing a tag keeps the digest listed, removing a
digest removes every entry of it.  (2) The listing handler (`Upd.tags`, tag.go): it answers 200 for *every* value of
`n` and `last` (0, negative, beyond int64, not a number) and serves a prefix of the sorted listing.  (3) Pagination
as a function of a sorted duplicate-free tag list (`PxP`, tags abstracted to their rank): following `last` with any
page size ≥ 1 visits every tag exactly once.
Tie: index profile (C18), HTTP profiles `mix`, `tags`; monitors `C03.tags-exact`, `C03.paging`, `C03.tag-resolve`,
`C03.list-error`.
-/
namespace C03
open Ixd

/-- every tag names at most one digest (`TagFun`) is preserved by a tag push, the pushed tag then names exactly the
    pushed digest, and one entry carries it -/
theorem push_tag (ix : Index) (d : Desc) (t : Nat) (ht : t ≠ 0)
    (hd : d.ann = { isNil := false, tag := t }) (hd0 : d.dig ≠ 0)
    (hJ : TagFun ix.manifests) (hD : NoEmptyDig ix.manifests) :
    (∀ e ∈ (addDesc ix d).manifests, hasTag t e → e.dig = d.dig) ∧
    (∃ e ∈ (addDesc ix d).manifests, hasTag t e ∧ e.dig = d.dig) ∧
    TagFun (addDesc ix d).manifests ∧ NoEmptyDig (addDesc ix d).manifests :=
  addDesc_tag ix d t ht hd hd0 hJ hD

/-- deleting a tag removes only that tag: the digest stays listed, entries of other digests are untouched -/
theorem delete_tag (ix : Index) (d : Desc) (hd : d.dig ≠ 0) (hn : d.ann.isNil = false) (ht : d.ann.tag ≠ 0) :
    (∀ e ∈ (rmDesc ix d).manifests, ¬ (e.dig = d.dig ∧ e.ann.isNil = false ∧ e.ann.tag = d.ann.tag)) ∧
    ((∃ x ∈ ix.manifests, x.dig = d.dig) → ∃ e ∈ (rmDesc ix d).manifests, e.dig = d.dig) ∧
    (∀ e ∈ ix.manifests, e.dig ≠ d.dig → e ∈ (rmDesc ix d).manifests) :=
  rm_tag ix d hd hn ht

/-- deleting by digest removes the manifest together with every tag that pointed to it, and nothing else -/
theorem delete_digest (ix : Index) (d : Desc) (hnil : d.ann.isNil = true) (hd : d.dig ≠ 0) :
    (∀ e ∈ (rmDesc ix d).manifests, e.dig ≠ d.dig) ∧ (∀ e ∈ (rmDesc ix d).children, e.dig ≠ d.dig) ∧
    (∀ e ∈ ix.manifests, e.dig ≠ d.dig → e ∈ (rmDesc ix d).manifests) :=
  ⟨(rm_digest_all ix d hnil hd).1, (rm_digest_all ix d hnil hd).2, fun e he hne => rm_digest_frame ix d hnil hd e he hne⟩

/-- the listing never fails: every value of `n` and `last` — 0, negative, oversized, unparsable — gets a 200 -/
theorem list_total (s : Upd.State) (r n last : String) : (Upd.tags s r n last).2.status = 200 := by
  unfold Upd.tags
  simp only []
  repeat' split
  all_goals rfl

/-- the listing changes nothing -/
theorem list_reads_only (s : Upd.State) (r n last : String) (r' : String) : (Upd.tags s r n last).1.repo r' = s.repo r' := by
  have : (Upd.tags s r n last).1 = s.setRepo (s.repo r) := by
    unfold Upd.tags
    simp only []
    repeat' split
    all_goals rfl
  rw [this]; exact Upd.repo_touch s r r'

/-- pagination: for a sorted duplicate-free tag list and any page size ≥ 1, following the `last` of each page
    returns exactly the list — every tag once, in order -/
theorem paging_exact (ts : List Nat) (hs : ts.Pairwise (· < ·)) (n : Nat) (hn : 1 ≤ n) :
    (PxP.pages ts n (ts.length + 1) none).flatten = ts :=
  PxP.paging ts hs n hn

example : [1, 2, 5].Pairwise (· < ·) := by decide
example : (PxP.pages [1, 2, 5] 2 4 none) = [[1, 2], [5]] := by decide
end C03
