import Conc
/-!
# C11 — concurrent requests on a repository never lose or tear updates

*Model* (`lean/Conc`): a handler is a program of atomic store actions (`Conc.Prog`: the calls of `store.Repo` in the
order the Go handler makes them, and taking `Server.indexMu`); a concurrent execution is `Conc.exec`, which runs the
next action of the thread the schedule names; `Conc.Disc` is the lock discipline of the tree (`none`: before the
repair F15, `rw`: with `Server.indexMu`).  The sequential specification of a request is its own handler run alone
(`Prog.alone`).  *Level: partial* — the granularity is the store action (what happens inside one is C12/C13's), and the
linearizability theorems are stated for the *ideal* content-addressed blob store (`Conc.Ideal`: reading a digest does
not depend on the state of the store; blob actions do not touch the index): that blobs are written before they are
referenced and never change is what makes the real store behave like it, and is checked by the correspondence, not
proved.  Nothing is assumed about `AddDesc` / `RmDesc` except in `tag_race_one_of`.

*Tie*: `bin/check C11` (vlib/p_conc.py): the handlers of the real server are run under forced schedules at exactly this
granularity (harness/cmd/reg/conc.go, scheduler hook by overlay) and compared line by line with `Conc.exec` on the
`Upd` instance (driver `concdriver`): store-action trace of every request, answers, quiescent observation, and the set
of sequential orders that explain them; all schedules of the curated cases are enumerated.
-/
namespace C11
open Conc

/-- **(c) referrers_linearizable — in fact every handler.**  Any number of concurrent requests of any kind (manifest
    push with or without subject, manifest delete by tag or digest, manifest GET, tag listing, referrers GET, blob
    GET/DELETE/upload; each admitted by the router) on the tree with `Server.indexMu`, any schedule: when all have
    returned there is an order of the requests in which the handlers run one at a time leave the same index (manifests,
    tags, referrers responses registered — of every repository) and give each request the answer it got. -/
theorem referrers_linearizable {σ : Sig} [DecidableEq σ.R] (L : Ideal σ) (reqs : List (Req σ)) (hadm : ∀ q ∈ reqs, q.admitted)
    (s0 : σ.S) (sched : List Nat) (fuel : Nat)
    (hdone : (drain fuel (exec sched (Cfg.init s0 ((reqs.map (Req.prog .rw)).map fun p => [p])))).allDone = true) :
    ∃ order : List Nat, order.Nodup ∧ (∀ t, t ∈ order ↔ t < reqs.length) ∧
      Same (drain fuel (exec sched (Cfg.init s0 ((reqs.map (Req.prog .rw)).map fun p => [p])))).s
        (spec (reqs.map (Req.prog .rw)) s0 order).1 ∧
      ∀ t, t < reqs.length → ∃ a, (t, a) ∈ (spec (reqs.map (Req.prog .rw)) s0 order).2 ∧
        ((drain fuel (exec sched (Cfg.init s0 ((reqs.map (Req.prog .rw)).map fun p => [p])))).thread t).answers = [a] := by
  have hpre : ∀ p ∈ reqs.map (Req.prog .rw), Pre p ∧ p.isDone = false := by
    intro p hp
    obtain ⟨q, hq, rfl⟩ := List.mem_map.mp hp
    exact req_pre q (hadm q hq)
  have := rw_linearizable L (reqs.map (Req.prog .rw)) hpre s0 sched fuel hdone
  simpa using this

/-- the same for the model the correspondence runs (`Conc.upd`: the `Upd` registry model with `Upd.addDesc`, `Upd.rmDesc`)
    with its blob store idealized (`Conc.updIdeal`): the hypotheses of the theorem are met by it -/
theorem upd_model_linearizable (reqs : List (Req updIdeal)) (hadm : ∀ q ∈ reqs, q.admitted)
    (s0 : updIdeal.S) (sched : List Nat) (fuel : Nat)
    (hdone : (drain fuel (exec sched (Cfg.init s0 ((reqs.map (Req.prog .rw)).map fun p => [p])))).allDone = true) :
    ∃ order : List Nat, order.Nodup ∧ (∀ t, t ∈ order ↔ t < reqs.length) ∧
      (∀ r : String, ((drain fuel (exec sched (Cfg.init s0 ((reqs.map (Req.prog .rw)).map fun p => [p])))).s.u.repo r).index =
        ((spec (reqs.map (Req.prog .rw)) s0 order).1.u.repo r).index) ∧
      ∀ t, t < reqs.length → ∃ a, (t, a) ∈ (spec (reqs.map (Req.prog .rw)) s0 order).2 ∧
        ((drain fuel (exec sched (Cfg.init s0 ((reqs.map (Req.prog .rw)).map fun p => [p])))).thread t).answers = [a] :=
  referrers_linearizable updIdealLaws reqs hadm s0 sched fuel hdone

/-- the requests with one index action: pushes without a subject, deletes that update no referrers response, reads -/
def oneIndexAction {σ : Sig} : Req σ → Prop
  | .put q => q.refAdd = none
  | .del q => ∀ d c, (q.refDel d c).isNone
  | _ => True

/-- **(a) index_action_atomic_lin.**  The special case of requests that have exactly one index action (push by tag or
    digest without subject, tag delete, digest delete of a manifest without subject, tag listing, manifest and
    referrers GET, blob requests): every schedule is equivalent — same answers, same final index — to a sequential
    execution. -/
theorem index_action_atomic_lin {σ : Sig} [DecidableEq σ.R] (L : Ideal σ) (reqs : List (Req σ))
    (hadm : ∀ q ∈ reqs, q.admitted) (_hone : ∀ q ∈ reqs, oneIndexAction q)
    (s0 : σ.S) (sched : List Nat) (fuel : Nat)
    (hdone : (drain fuel (exec sched (Cfg.init s0 ((reqs.map (Req.prog .rw)).map fun p => [p])))).allDone = true) :
    ∃ order : List Nat, order.Nodup ∧ (∀ t, t ∈ order ↔ t < reqs.length) ∧
      Same (drain fuel (exec sched (Cfg.init s0 ((reqs.map (Req.prog .rw)).map fun p => [p])))).s
        (spec (reqs.map (Req.prog .rw)) s0 order).1 ∧
      ∀ t, t < reqs.length → ∃ a, (t, a) ∈ (spec (reqs.map (Req.prog .rw)) s0 order).2 ∧
        ((drain fuel (exec sched (Cfg.init s0 ((reqs.map (Req.prog .rw)).map fun p => [p])))).thread t).answers = [a] :=
  referrers_linearizable L reqs hadm s0 sched fuel hdone

/-- **(b) tag_race_one_of.**  Any number (at least one) of concurrent pushes of one tag of one repository, each
    accepted (the blobs it refers to can be read), any schedule: afterwards the tag resolves to one of the pushed
    manifests.  `resolve` is what the tag resolves to in an index; the one fact used about `AddDesc` is that adding
    the tagged descriptor makes the tag resolve to it (`C03.push_tag` for the exact model of `types.Index`). -/
theorem tag_race_one_of {σ : Sig} [DecidableEq σ.R] (L : Ideal σ) (qs : List (PutReq σ)) (hne : qs ≠ []) (r : σ.R)
    (hq : ∀ q ∈ qs, q.r = r ∧ q.pre = none ∧ q.early = none ∧ q.refAdd = none ∧ ∀ g ∈ q.refs, (L.rd q.r g).isSome)
    (resolve : σ.Ix → Option σ.G) (hadd : ∀ q ∈ qs, ∀ ix, resolve (L.add ix q.entry q.children) = some q.g)
    (s0 : σ.S) (sched : List Nat) (fuel : Nat)
    (hdone : (drain fuel (exec sched (Cfg.init s0 ((qs.map (put .rw)).map fun p => [p])))).allDone = true) :
    ∃ q ∈ qs, resolve (σ.index (drain fuel (exec sched (Cfg.init s0 ((qs.map (put .rw)).map fun p => [p])))).s r) = some q.g := by
  have hpre : ∀ p ∈ qs.map (put .rw), Pre p ∧ p.isDone = false := by
    intro p hp
    obtain ⟨q, hq', rfl⟩ := List.mem_map.mp hp
    exact put_pre q (hq q hq').2.1
  obtain ⟨order, _, hmem, hsame, _⟩ := rw_linearizable L (qs.map (put .rw)) hpre s0 sched fuel hdone
  have hlen : 0 < qs.length := List.length_pos_iff.mpr hne
  rcases List.eq_nil_or_concat order with hnil | ⟨init, t, rfl⟩
  · have : 0 ∈ order := (hmem 0).mpr (by simpa using hlen)
    rw [hnil] at this; cases this
  · have ht : t < qs.length := by simpa using (hmem t).mp (by simp)
    have hget : (qs.map (put .rw))[t]? = some (put .rw qs[t]) := by simp [ht]
    have hqt := hq qs[t] (List.getElem_mem ht)
    refine ⟨qs[t], List.getElem_mem ht, ?_⟩
    rw [hsame r, List.concat_eq_append, spec_snoc _ s0 init t _ hget]
    obtain ⟨ix, hix⟩ := put_alone_index L qs[t] hqt.2.1 hqt.2.2.1 hqt.2.2.2.1 hqt.2.2.2.2 (spec (qs.map (put .rw)) s0 init).1
    rw [← hqt.1, hix]
    exact hadd _ (List.getElem_mem ht) ix

/-! ## The tree before the repair (no handler-level lock): witnesses, decided by the kernel

Store `Conc.Toy` (numbers for names; the handler programs are the generic ones).  The schedules are those the harness
replays on the real server (corpus/C11). -/
section witnesses
open Conc.Toy

/-- repository 0 holds the subject 9 -/
def subjectOnly : S := store { mans := [.man 9 none] }
def twoArtifacts (disc : Disc) : List (Prog sig) := [put disc (putReq 0 1 none (some 9)), put disc (putReq 0 2 none (some 9))]
/-- T1 up to the `BlobCreate` of its new referrers response, T2 to completion, T1 to completion -/
def f15Schedule : List Nat := [0, 0, 0, 0, 0, 0, 1, 1, 1, 1, 1, 1, 1, 0]

/-- **(d) F15, lost update.**  Without the lock two concurrent artifacts of one subject are both acknowledged and only one
    is registered as a referrer … -/
theorem lost_update_without_lock :
    (run (twoArtifacts .none) subjectOnly f15Schedule).answers = [[.created], [.created]] ∧
    ((run (twoArtifacts .none) subjectOnly f15Schedule).s.index 0).resp = [(9, .resp 9 [1])] ∧
    ((run (twoArtifacts .none) subjectOnly f15Schedule).s.index 0).mans = [.man 9 none, .man 1 (some 9), .man 2 (some 9)] := by
  decide

/-- … with `indexMu` the same schedule registers both -/
theorem same_schedule_with_lock :
    ((run (twoArtifacts .rw) subjectOnly f15Schedule).s.index 0).resp = [(9, .resp 9 [1, 2])] := by decide

/-- … and so does **every** schedule, of any length (a corollary of `rw_linearizable` on the toy store) -/
theorem two_artifacts_every_schedule (sched : List Nat) (fuel : Nat)
    (hdone : (drain fuel (exec sched (Cfg.init subjectOnly ((twoArtifacts .rw).map fun p => [p])))).allDone = true) :
    ((drain fuel (exec sched (Cfg.init subjectOnly ((twoArtifacts .rw).map fun p => [p])))).s.index 0).resp = [(9, .resp 9 [1, 2])] ∨
    ((drain fuel (exec sched (Cfg.init subjectOnly ((twoArtifacts .rw).map fun p => [p])))).s.index 0).resp = [(9, .resp 9 [2, 1])] := by
  have hpre : ∀ p ∈ twoArtifacts .rw, Pre p ∧ p.isDone = false := by
    intro p hp
    simp [twoArtifacts] at hp
    rcases hp with rfl | rfl <;> exact put_pre _ rfl
  obtain ⟨order, hn, hm, hsame, _⟩ := rw_linearizable Toy.ideal (twoArtifacts .rw) hpre subjectOnly sched fuel hdone
  have h0 := hsame (show Toy.sig.R from (0 : Nat))
  change (drain fuel (exec sched (Cfg.init subjectOnly ((twoArtifacts .rw).map fun p => [p])))).s.index 0 = _ at h0
  rw [h0]
  rcases order_two order hn (by simpa [twoArtifacts] using hm) with rfl | rfl
  · left; decide
  · right; decide

/-- a push of an artifact racing with the delete of the same digest: without the lock the manifest ends up deleted and
    still listed as a referrer (no sequential order gives that) -/
def pushAndDelete (disc : Disc) : List (Prog sig) :=
  [put disc (putReq 0 1 none (some 9)), del disc (delReq 0 (byDigest (.man 1 (some 9))))]
def withArtifact : S := store { mans := [.man 9 none, .man 1 (some 9)], resp := [(9, .resp 9 [1])] }

theorem ghost_referrer_without_lock :
    (run (pushAndDelete .none) withArtifact [0, 0, 0, 0, 1, 1, 1, 1, 1, 1, 1, 0, 0, 0, 0, 1]).answers = [[.created], [.deleted]] ∧
    ((run (pushAndDelete .none) withArtifact [0, 0, 0, 0, 1, 1, 1, 1, 1, 1, 1, 0, 0, 0, 0, 1]).s.index 0).mans = [.man 9 none] ∧
    ((run (pushAndDelete .none) withArtifact [0, 0, 0, 0, 1, 1, 1, 1, 1, 1, 1, 0, 0, 0, 0, 1]).s.index 0).resp = [(9, .resp 9 [1])] := by
  decide

theorem ghost_referrer_schedule_with_lock :
    ((run (pushAndDelete .rw) withArtifact [0, 0, 0, 0, 1, 1, 1, 1, 1, 1, 1, 0, 0, 0, 0, 1]).s.index 0).mans = [.man 9 none] ∧
    ((run (pushAndDelete .rw) withArtifact [0, 0, 0, 0, 1, 1, 1, 1, 1, 1, 1, 0, 0, 0, 0, 1]).s.index 0).resp = [(9, .resp 9 [])] := by
  decide

/-- two deletes of one tag: without the lock both are acknowledged; with it the second one is answered not-found -/
def twoDeletes (disc : Disc) : List (Prog sig) := [del disc (delTagReq 0 5), del disc (delTagReq 0 5)]
def tagged : S := store { mans := [.man 1 none], tags := [(5, .man 1 none)] }

theorem double_delete_ack_without_lock :
    (run (twoDeletes .none) tagged [0, 0, 1, 1, 0, 1]).answers = [[.deleted], [.deleted]] ∧
    (run (twoDeletes .rw) tagged [0, 0, 1, 1, 0, 1]).answers = [[.deleted], [.notFound]] := by decide

/-- a client reads a tag and then the referrers of its subject while the push of the tagged artifact is between its two
    index updates: without the lock it gets the manifest and a referrers list without it; with the lock the reads wait
    for the push and see the manifest and its entry -/
def pushAndTwoReads (disc : Disc) : List (List (Prog sig)) :=
  [[put disc (putReq 0 1 (some 5) (some 9))], [mget disc (getReq 0 (byTag 5)), refs disc (refsReq 0 9)]]

theorem torn_reads_without_lock :
    (drain 64 (exec [0, 0, 0, 0, 0, 0, 1, 1, 1, 1, 1, 0] (Cfg.init subjectOnly (pushAndTwoReads .none)))).answers =
      [[.created], [.man (.man 1 (some 9)), .refs []]] ∧
    (drain 64 (exec [0, 0, 0, 0, 0, 0, 1, 1, 1, 1, 1, 0] (Cfg.init subjectOnly (pushAndTwoReads .rw)))).answers =
      [[.created], [.man (.man 1 (some 9)), .refs [1]]] := by decide
end witnesses

/-! ## The hypotheses are satisfiable -/

/-- an ideal store exists (the toy store), every handler program has the shape the theorem asks for, and executions
    that run to the end exist -/
example : Nonempty (Ideal Toy.sig) := ⟨Toy.ideal⟩
example : (Req.put (Toy.putReq 0 1 none (some 9)) : Req Toy.sig).admitted ∧ oneIndexAction (Req.put (Toy.putReq 0 1 (some 5) none) : Req Toy.sig) :=
  ⟨rfl, rfl⟩
example : (Toy.run (twoArtifacts .rw) subjectOnly f15Schedule).allDone = true := by decide
example : (Toy.run (twoArtifacts .rw) subjectOnly []).allDone = true := by decide
/-- `tag_race_one_of`: on the toy index a pushed tag resolves to the pushed manifest -/
example (q : PutReq Toy.sig) (t : Nat) (h : q.entry = { dig := q.g, tag := some t }) (ix : Toy.Ix) :
    ((Toy.ideal.add ix q.entry q.children).tags.find? (fun p => p.1 == t)).map (·.2) = some q.g := by
  simp [Toy.ideal, Toy.Ix.add, h]
  rfl
end C11
