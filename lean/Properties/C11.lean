import Conc
/-! # C11 — concurrent requests never lose or tear updates (placeholder while the model is being built) -/
namespace C11
end C11
