import Ixd.GCIdem
import Ixd.GCPassProofs
import Ixd.GCFuel
/-!
# C05 — garbage collection never removes retained or recent content

Model: `Ixd.gc` (lean/Ixd/GCModel.lean), a transcription of `repoGarbageCollect` (internal/store/store.go) as repaired by
`patches/F4-gc-digest-roles.diff` and `patches/F41-gc-child-records-without-content.diff`, `Ixd.memGC` / `Ixd.dirGC` (lean/Ixd/GCPass.lean) for the two stores; tied to the code by
the `gc` and `gcdir` correspondence profiles (vlib/p_gc.py).

`Ixd.Retained p bs ms g` is the order-free specification "the policy `p` retains digest `g`" of DESIGN.md §C05, with the
readings fixed there: (i) a descriptor is opened under the media type recorded for it (`cls`), (ii) an entry that carries
a subject annotation is governed by the two referrer switches (`classify`), (iii) a subject is a descriptor the walk opens,
(iv) recent = strictly younger than the grace period by the store's clock (`Blob.recent`).

The theorems quantify over every policy, every index and every list of blobs — any object graph (cycles, missing blobs,
a digest that is manifest and layer, children under lying media types, referrers of referrers, dangling subjects) and
so every point of every history at which a collection may be triggered.  `SubjUnique` (at most one response per subject)
is the C18 invariant `subject-unique` of `types.Index`; it holds in every reachable state.
-/
namespace C05
open Ixd

/-- whatever the policy retains — tagged manifests and, with untagged collection off, untagged ones; everything a retained
    manifest references transitively (children, config, layers; whatever other role a digest plays); the response
    registered for a retained subject, its referrers and their content; recent blobs no entry names — survives -/
theorem gc_keeps_retained (p : Policy) (ix : Index) (bs : List Blob) (hU : SubjUnique ix.manifests) (g : Nat)
    (h : Retained p bs ix.manifests g) (b : Blob) (hb : b ∈ bs) (hg : b.dig = g) : g ∈ (gc p ix bs).blobs :=
  gc_keeps_retained' hU h b hb hg

/-- the retained top-level entries (roots of the keep table, and the response of a retained subject) stay in the index,
    with their annotations (tags) -/
theorem gc_keeps_index (p : Policy) (ix : Index) (bs : List Blob) (hU : SubjUnique ix.manifests) (hz : ∀ b ∈ bs, b.dig ≠ 0)
    (e : Desc) (he : e ∈ ix.manifests) (hd : RetD p bs ix.manifests e.dig (cls e.mt)) :
    e ∈ (gc p ix bs).index.manifests ∧ e.dig ∈ (gc p ix bs).blobs := by
  have hs := (marks_inv p ix bs).wseen _ _ (retD_walked hU hd)
  obtain ⟨b, hb⟩ := hd.exists
  obtain ⟨hm, hdg⟩ := getBlob_mem_bs hb
  exact ⟨gc_index_keeps hz he hs (by rw [hb]; simp), by rw [← hdg]; exact seen_kept hm (by rw [hdg]; exact hs)⟩

/-- a tagged manifest is never removed, under any policy: its entry (with the tag) and its blob stay -/
theorem gc_keeps_tagged (p : Policy) (ix : Index) (bs : List Blob) (hU : SubjUnique ix.manifests) (hz : ∀ b ∈ bs, b.dig ≠ 0)
    (e : Desc) (he : e ∈ ix.manifests) (ht : e.ann.isNil = false ∧ e.ann.tag ≠ 0) (hns : e.ann.subj = 0)
    (b : Blob) (hb : getBlob bs e.dig = some b) :
    e ∈ (gc p ix bs).index.manifests ∧ e.dig ∈ (gc p ix bs).blobs := by
  apply gc_keeps_index p ix bs hU hz e he
  refine RetD.root he ?_ hb
  unfold classify general
  simp [hns, ht.1, ht.2]

/-- while untagged collection is off no manifest is removed (entries that carry a subject annotation are governed by the
    referrer switches, reading (ii)) -/
theorem gc_untagged_off (p : Policy) (ix : Index) (bs : List Blob) (hU : SubjUnique ix.manifests) (hz : ∀ b ∈ bs, b.dig ≠ 0)
    (hu : p.untagged = false) (e : Desc) (he : e ∈ ix.manifests) (hns : e.ann.isNil = true ∨ e.ann.subj = 0)
    (b : Blob) (hb : getBlob bs e.dig = some b) :
    e ∈ (gc p ix bs).index.manifests ∧ e.dig ∈ (gc p ix bs).blobs := by
  apply gc_keeps_index p ix bs hU hz e he
  refine RetD.root he ?_ hb
  unfold classify general
  rcases hns with h | h <;> simp [h, hu]

/-- nothing younger than the grace period is removed — uploaded blob or pushed manifest — unless it is a referrers
    response, i.e. the digest of an entry carrying a subject annotation (reading (ii)) -/
theorem gc_keeps_recent (p : Policy) (ix : Index) (bs : List Blob) (b : Blob) (hb : getBlob bs b.dig = some b)
    (hg : p.grace = true) (hr : b.recent = true)
    (hresp : ∀ e ∈ ix.manifests, e.dig = b.dig → e.ann.isNil = true ∨ e.ann.subj = 0) :
    b.dig ∈ (gc p ix bs).blobs := by
  have hm := (getBlob_mem_bs hb).1
  by_cases hn : ∃ e ∈ ix.manifests, e.dig = b.dig
  · obtain ⟨e, he, hed⟩ := hn
    have hc : classify p bs e = .root := by
      have hrec : recentB p bs e.dig = true := by unfold recentB; rw [hed, hb]; simp [hg, hr]
      unfold classify general
      rcases hresp e he hed with h | h <;> simp [h, hrec]
    have inv := marks_inv p ix bs
    have hroot : e ∈ (roots p bs ix.manifests).reverse := List.mem_reverse.mpr (mem_roots.mpr ⟨he, hc⟩)
    rcases inv.rootsCov e hroot (by rw [hed, hb]; simp) with h1 | h1
    · exact seen_kept hm (by rw [← hed]; exact inv.wseen _ _ h1)
    · simp at h1
  · have hr' : Retained p bs ix.manifests b.dig :=
      Retained.recent hm (getBlob_ne_zero hb) hg hr (fun e he hed => hn ⟨e, he, hed⟩)
    -- no response is involved: the walk keeps it by the recent rule or has seen it
    by_cases hs : b.dig ∈ (marks p ix bs).seen
    · exact seen_kept hm hs
    · refine mem_gc_blobs.mpr ⟨b, hm, rfl, ?_⟩
      have hni : b.dig ∉ (marks p ix bs).inIdx := by
        intro hi
        rcases (marks_inv p ix bs).idx _ hi with h1 | h1 | h1
        · rw [List.mem_reverse, List.mem_map] at h1
          obtain ⟨e, he, hed⟩ := h1
          exact hn ⟨e, he, hed⟩
        · rw [hb] at h1; cases h1
        · exact hs h1
      unfold keepB
      simp [hg, hr, hni]

/-- every tagged image (index, artifact) that could be pulled completely before the collection can be pulled completely
    after it: the tag still resolves to the same descriptor, and the whole tree under it is there -/
theorem pullable_preserved (p : Policy) (ix : Index) (bs : List Blob) (hU : SubjUnique ix.manifests) (hz : ∀ b ∈ bs, b.dig ≠ 0)
    (e : Desc) (he : e ∈ ix.manifests) (ht : e.ann.isNil = false ∧ e.ann.tag ≠ 0) (hns : e.ann.subj = 0)
    (hc : Complete ix bs e.dig (cls e.mt)) :
    e ∈ (gc p ix bs).index.manifests ∧ Complete (gc p ix bs).index (gcBlobs p ix bs) e.dig (cls e.mt) := by
  obtain ⟨b, hb⟩ := hc.exists
  have hd : RetD p bs ix.manifests e.dig (cls e.mt) := by
    refine RetD.root he ?_ hb
    unfold classify general
    simp [hns, ht.1, ht.2]
  exact ⟨(gc_keeps_index p ix bs hU hz e he hd).1, complete_preserved hU hz hc hd⟩

/-- directory store: a blob that the collection keeps can still be served by a fresh instance of the store — the blob
    file, `index.json` and `oci-layout` are all there afterwards, even if the index has no entry and `EmptyRepo` is set
    (collection between the blob uploads and the manifest push of a first push; F5 repaired) -/
theorem dir_kept_servable (p : Policy) (e : Bool) (r : DirRepo)
    (hload : r.repoDir = true ∧ r.indexFile = true ∧ r.corrupt = false) (hlay : r.layoutFile = true) (hbd : r.blobsDir = true)
    (halg : ∀ b ∈ r.blobs, algoOf b.dig ∈ r.algos) (b : Blob) (hb : b ∈ r.blobs) (hk : b.dig ∈ (gc p r.index r.blobs).blobs) :
    (dirGC p e r).1.repoDir = true ∧ (dirGC p e r).1.indexFile = true ∧ (dirGC p e r).1.layoutFile = true ∧
      b ∈ (dirGC p e r).1.blobs := by
  have h := blobs_keep_layout' p e r hload hbd halg b (gcBlobs_mem.mpr ⟨hb, hk⟩)
  exact ⟨h.1, h.2.1, by rw [h.2.2.1, hlay], h.2.2.2.2.1⟩

/-! ## the hypotheses are satisfiable; the F4 witnesses -/

/-- F4, first witness: tagged image 5 (config 1, layer 4) is also the layer of image 3 -/
def f4Blobs : List Blob :=
  [{ dig := 1 }, { dig := 4, json := false }, { dig := 3, cfg := 1, layers := [5] }, { dig := 5, cfg := 1, layers := [4] }]
def f4Index : Index :=
  { manifests := [{ mt := 1, dig := 5, ann := { isNil := false, tag := 1 } }, { mt := 1, dig := 3, ann := { isNil := false, tag := 2 } }] }
def pAll : Policy := ⟨true, true, true, false⟩

example : SubjUnique f4Index.manifests := by unfold SubjUnique; decide
example : ∀ b ∈ f4Blobs, b.dig ≠ 0 := by decide

/-- the collector before the repair removes layer 4 of the tagged image 5 … -/
example : 4 ∉ gcOldBlobs pAll f4Index f4Blobs := by decide

/-- … the repaired one keeps it (an instance of `gc_keeps_retained`) -/
example : 4 ∈ (gc pAll f4Index f4Blobs).blobs :=
  gc_keeps_retained pAll f4Index f4Blobs (by unfold SubjUnique; decide) 4
    (Retained.layer (g := 5) (b := { dig := 5, cfg := 1, layers := [4] })
      (RetD.root (e := { mt := 1, dig := 5, ann := { isNil := false, tag := 1 } }) (b := { dig := 5, cfg := 1, layers := [4] })
        (by decide) (by decide) (by decide)) (by decide) rfl (by decide))
    { dig := 4, json := false } (by decide) rfl

/-- F4, second witness: digest 5 is an index (child 4), recorded once as an index (response kept by the policy) and once,
    tagged, under an image media type -/
def f4bBlobs : List Blob := [{ dig := 4, cfg := 1 }, { dig := 5, kids := [(1, 4)] }]
def f4bIndex : Index :=
  { manifests := [{ mt := 2, dig := 5, ann := { isNil := false, subj := 9 } }, { mt := 1, dig := 5, ann := { isNil := false, tag := 1 } }] }
def pNone : Policy := ⟨false, false, false, false⟩

example : 4 ∉ gcOldBlobs pNone f4bIndex f4bBlobs := by decide
example : Retained pNone f4bBlobs f4bIndex.manifests 4 :=
  Retained.desc (RetD.child (g := 5) (b := { dig := 5, kids := [(1, 4)] }) (b' := { dig := 4, cfg := 1 }) (k := (1, 4))
    (RetD.root (e := { mt := 2, dig := 5, ann := { isNil := false, subj := 9 } }) (b := { dig := 5, kids := [(1, 4)] })
      (by decide) (by decide) (by decide)) (by decide) rfl (by decide) (by decide))
end C05
