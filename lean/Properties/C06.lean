import Ixd.GCIdem
import Ixd.GCPassProofs
/-!
# C06 — collection removes exactly the garbage, converges, and is not starved

Model: `Ixd.gc` (repoGarbageCollect, as repaired by F4 and F41), `Ixd.dirGC` (dirRepo.gc incl. the removal of an empty
repository, as repaired by F5 (both halves) and F7), `Ixd.memGC`, `Ixd.gcPass` (mem.gc / dir.gc, as repaired by F6); tied to the code
by the `gc`, `gcdir`, `gcpass`, `gcpassdir` correspondence profiles (vlib/p_gc.py).

"Once the grace period has elapsed (or is disabled)": the theorems below hold at every instant; when no blob is recent
(or `p.grace = false`) the recent rule of `Ixd.Retained` is empty and `gc_exact` says that one pass leaves exactly the
blobs the keep table retains.  "Policy combinations whose documented meaning is unambiguous": `PolicyClear`; for them
`policy_table_clear` restates the keep table in the words of config.go.  The excluded cell is
`ReferrersDangling = true ∧ Untagged = false`: a response whose subject does not exist should go according to the first
switch and stay according to the second (the code keeps it).
-/
namespace C06
open Ixd

/-- the documented meanings of the GC switches do not collide -/
def PolicyClear (p : Policy) : Prop := ¬ (p.dangling = true ∧ p.untagged = false)

instance (p : Policy) : Decidable (PolicyClear p) := by unfold PolicyClear; exact inferInstance

/-- the default policy (Untagged off, ReferrersDangling off, ReferrersWithSubj on) is unambiguous, with or without grace -/
example : PolicyClear ⟨false, false, true, true⟩ ∧ PolicyClear ⟨false, false, true, false⟩ := by decide
/-- six of the eight switch combinations are -/
example : ((List.map (fun (x : Bool × Bool × Bool) => decide (PolicyClear ⟨x.1, x.2.1, x.2.2, false⟩))
    [(false, false, false), (false, false, true), (false, true, false), (false, true, true),
     (true, false, false), (true, false, true), (true, true, false), (true, true, true)]).count true) = 6 := by decide

/-- the keep table in the words of config.go, for an unambiguous policy once nothing is recent: an entry without a subject
    annotation is kept iff it is tagged or untagged collection is off; a referrers response (untagged entry with a subject
    annotation) whose subject exists is kept exactly if the subject is (`bound`) as soon as one of the two referrer
    switches is on, and unconditionally otherwise; one whose subject does not exist is kept iff dangling referrers are not
    collected -/
theorem policy_table_clear (p : Policy) (bs : List Blob) (d : Desc) (hc : PolicyClear p)
    (hold : p.grace = false ∨ ∀ b ∈ bs, b.recent = false) :
    classify p bs d =
      if d.ann.isNil = false ∧ d.ann.subj ≠ 0 then
        if (getBlob bs d.ann.subj).isSome then (if p.withSubj || p.dangling then .bound d.ann.subj else .root)
        else if p.dangling then (if d.ann.tag ≠ 0 then .root else .drop) else .root
      else if !p.untagged || (!d.ann.isNil && d.ann.tag ≠ 0) then .root else .drop := by
  have hrec : ∀ g, recentB p bs g = false := by
    intro g
    unfold recentB
    cases hb : getBlob bs g with
    | none => rfl
    | some b =>
      rcases hold with h | h
      · simp [h]
      · simp [h b (getBlob_mem_bs hb).1]
  unfold PolicyClear at hc
  unfold classify general
  simp only [hrec, Bool.or_false]
  cases hu : p.untagged <;> cases hd : p.dangling <;> cases hw : p.withSubj <;>
    cases hn : d.ann.isNil <;> cases he : (getBlob bs d.ann.subj).isSome <;>
    by_cases hs : d.ann.subj = 0 <;> by_cases ht : d.ann.tag = 0 <;> simp_all

/-- upper bound: every blob that survives a collection is retained by the policy — whatever the object graph -/
theorem gc_keeps_only (p : Policy) (ix : Index) (bs : List Blob) (hz : ∀ b ∈ bs, b.dig ≠ 0) (g : Nat)
    (h : g ∈ (gc p ix bs).blobs) : Retained p bs ix.manifests g :=
  Ixd.gc_keeps_only hz h

/-- one pass leaves exactly the retained blobs: unreferenced blobs, untagged manifests (when enabled) with what only they
    reference, responses whose subject is removed together with their referrers — all go; nothing else does -/
theorem gc_exact (p : Policy) (ix : Index) (bs : List Blob) (hU : SubjUnique ix.manifests) (hz : ∀ b ∈ bs, b.dig ≠ 0) (g : Nat) :
    g ∈ (gc p ix bs).blobs ↔ (∃ b ∈ bs, b.dig = g) ∧ Retained p bs ix.manifests g :=
  gc_exact' hU hz g

/-- once nothing is recent, `Retained` has no grace clause: what survives is reached from a root of the keep table -/
theorem gc_exact_elapsed (p : Policy) (ix : Index) (bs : List Blob) (hU : SubjUnique ix.manifests) (hz : ∀ b ∈ bs, b.dig ≠ 0)
    (hold : p.grace = false ∨ ∀ b ∈ bs, b.recent = false) (g : Nat) :
    g ∈ (gc p ix bs).blobs ↔ (∃ b ∈ bs, b.dig = g) ∧ Just p bs ix.manifests g := by
  rw [gc_exact p ix bs hU hz g]
  constructor
  · rintro ⟨hex, hr⟩
    refine ⟨hex, ?_⟩
    cases hr with
    | desc hd => exact Or.inl ⟨_, hd⟩
    | cfg hd hb hj => exact Or.inr ⟨_, _, hd, hb, hj, Or.inl rfl⟩
    | layer hd hb hj hl => exact Or.inr ⟨_, _, hd, hb, hj, Or.inr hl⟩
    | recent hb _ hg hr _ =>
      rcases hold with h | h
      · rw [h] at hg; cases hg
      · rw [h _ hb] at hr; cases hr
  · rintro ⟨hex, hj⟩
    exact ⟨hex, hj.retained⟩

/-- the top-level entries after a pass are the old ones whose digest was not removed (in some order) -/
theorem gc_index_exact (p : Policy) (ix : Index) (bs : List Blob) (hz : ∀ b ∈ bs, b.dig ≠ 0) :
    (gc p ix bs).index.manifests.Perm (ix.manifests.filter (survives p ix bs)) :=
  gc_manifests p ix bs hz

/-- no index entry is left without backing content, and every entry left is one the policy retains -/
theorem gc_index_backed (p : Policy) (ix : Index) (bs : List Blob) (hz : ∀ b ∈ bs, b.dig ≠ 0) (e : Desc)
    (he : e ∈ (gc p ix bs).index.manifests) (hnz : e.dig ≠ 0) :
    e ∈ ix.manifests ∧ (∃ b, getBlob (gcBlobs p ix bs) e.dig = some b) ∧ Retained p bs ix.manifests e.dig := by
  obtain ⟨h1, h2⟩ := gc_index_backed' hz he hnz
  refine ⟨h1, ?_, Ixd.gc_keeps_only hz h2⟩
  obtain ⟨b, hb, hd, _⟩ := mem_gc_blobs.mp h2
  cases hx : getBlob bs e.dig with
  | none => rw [← hd] at hx; exact absurd hx (getBlob_of_mem hb (hz b hb))
  | some b' => exact ⟨b', by rw [getBlob_gcBlobs h2, hx]⟩

/-- no child record is left without backing content either (F41): every child record after a pass was one before and its
    blob is among the blobs the pass leaves -/
theorem gc_children_backed (p : Policy) (ix : Index) (bs : List Blob) (hz : ∀ b ∈ bs, b.dig ≠ 0) (c : Desc)
    (hc : c ∈ (gc p ix bs).index.children) (hnz : c.dig ≠ 0) :
    c ∈ ix.children ∧ ∃ b, getBlob (gcBlobs p ix bs) c.dig = some b := by
  obtain ⟨h1, h2⟩ := gc_children_backed' hz hc hnz
  refine ⟨h1, ?_⟩
  obtain ⟨b, hb, hd, _⟩ := mem_gc_blobs.mp h2
  cases hx : getBlob bs c.dig with
  | none => rw [← hd] at hx; exact absurd hx (getBlob_of_mem hb (hz b hb))
  | some b' => exact ⟨b', by rw [getBlob_gcBlobs h2, hx]⟩

/-- a child record is dropped only if the sweep deleted its blob, or its digest has no blob: one that is backed and whose
    blobs the pass keeps stays -/
theorem gc_children_exact (p : Policy) (ix : Index) (bs : List Blob) (hz : ∀ b ∈ bs, b.dig ≠ 0) :
    (gc p ix bs).index.children.Perm (ix.children.filter (fun c => survives p ix bs c && backedB bs c)) :=
  gc_children p ix bs hz

/-- a second pass changes nothing: it deletes no blob, prunes no top-level entry and no child record
    (`Nodup`: the blob store is a map from digests) -/
theorem gc_idempotent (p : Policy) (ix : Index) (bs : List Blob) (hU : SubjUnique ix.manifests) (hz : ∀ b ∈ bs, b.dig ≠ 0)
    (hn : (keysOf bs).Nodup) :
    gcBlobs p (gc p ix bs).index (gcBlobs p ix bs) = gcBlobs p ix bs ∧
    (gc p (gc p ix bs).index (gcBlobs p ix bs)).index.manifests.Perm (gc p ix bs).index.manifests ∧
    (gc p (gc p ix bs).index (gcBlobs p ix bs)).index.children.Perm (gc p ix bs).index.children :=
  ⟨gc_idem_blobs_eq hU hz, gc_idem_manifests hU hz hn, gc_idem_children hU hz hn⟩

/-- with `EmptyRepo`, a repository that the collection leaves empty (no entry, no blob, no upload session, no foreign
    file) is removed from the disk: no directory, hence no leftover file — whatever algorithm directories it had -/
theorem empty_removed (p : Policy) (r : DirRepo)
    (hload : r.repoDir = true ∧ r.indexFile = true ∧ r.corrupt = false) (hs : r.sessions = 0)
    (hclean : r.upLeft = false ∧ r.strayBlobs = false ∧ r.strayRoot = false)
    (hidx : (gc p r.index r.blobs).index.manifests = []) (hbl : gcBlobs p r.index r.blobs = []) :
    (dirGC p true r).1.repoDir = false ∧ (dirGC p true r).1.live = false ∧ (dirGC p true r).2 = false :=
  empty_removed' p r hload hs hclean hidx hbl

/-- … and a repository that still holds a blob is not taken apart: `index.json`, `oci-layout` and the blob stay -/
theorem nonempty_kept (p : Policy) (e : Bool) (r : DirRepo)
    (hload : r.repoDir = true ∧ r.indexFile = true ∧ r.corrupt = false) (hbd : r.blobsDir = true)
    (halg : ∀ b ∈ r.blobs, algoOf b.dig ∈ r.algos) (b : Blob) (hb : b ∈ gcBlobs p r.index r.blobs) :
    HoldsBlob b r.layoutFile (dirGC p e r).1 :=
  blobs_keep_layout' p e r hload hbd halg b hb

/-- after the pruning of an empty repository the store treats it as existing only if its `oci-layout` is still there: if
    something foreign kept the directory while the layout files went, the next push initialises the repository again -/
theorem pruned_live_has_layout (r : DirRepo) : (pruneEmpty r).live = true → (pruneEmpty r).layoutFile = true :=
  pruned_live_has_layout' r

/-- in every visiting order, every repository that is due is collected in the pass, and what the pass leaves of it is
    the result of its own collection — failing, removed or corrupt repositories anywhere in the order do not matter.
    `visit` is `dirGC p e` or `memGC p`. -/
theorem pass_independent {R : Type} (visit : R → R × Bool) (order : List Nat) (hn : order.Nodup) (s : List (Nat × Entry R))
    (n : Nat) (hmem : n ∈ order) (e : Entry R) (he : lookup n s = some e) (hd : e.due = true) :
    lookup n (gcPass visit order s).1 = some { e with repo := (visit e.repo).1 } :=
  pass_independent' visit order hn s n hmem e he hd

/-- repositories that are not due, or not named in the order, are left alone -/
theorem pass_frame {R : Type} (visit : R → R × Bool) (order : List Nat) (hn : order.Nodup) (s : List (Nat × Entry R))
    (n : Nat) (e : Entry R) (he : lookup n s = some e) (h : n ∉ order ∨ e.due = false) :
    lookup n (gcPass visit order s).1 = some e := by
  rw [pass_lookup visit order hn]
  rcases h with h | h
  · rw [if_neg h, he]
  · by_cases hm : n ∈ order
    · rw [if_pos hm, he]; simp [visited, h]
    · rw [if_neg hm, he]

/-- the pass reports an error exactly if a visited repository failed; on the memory store it never does -/
theorem pass_error_iff {R : Type} (visit : R → R × Bool) (order : List Nat) (hn : order.Nodup) (s : List (Nat × Entry R)) :
    (gcPass visit order s).2 = true ↔ ∃ n ∈ order, ∃ e, lookup n s = some e ∧ e.due = true ∧ (visit e.repo).2 = true :=
  pass_error visit order hn s

theorem mem_pass_no_error (p : Policy) (order : List Nat) (hn : order.Nodup) (s : List (Nat × Entry MemRepo)) :
    (gcPass (memGC p) order s).2 = false := by
  cases h : (gcPass (memGC p) order s).2 with
  | false => rfl
  | true =>
    obtain ⟨n, _, e, _, _, hv⟩ := (pass_error (memGC p) order hn s).mp h
    simp [memGC] at hv

/-! ## the hypotheses are satisfiable -/

/-- a store with a removed repository 1 (its collection fails) and a healthy repository 2 holding an unreferenced blob -/
def removedRepo : DirRepo := {}
def dirtyRepo : DirRepo :=
  { live := true, repoDir := true, indexFile := true, layoutFile := true, blobsDir := true, algos := [256],
    blobs := [{ dig := 4, json := false }] }
def store2 : List (Nat × Entry DirRepo) := [(1, ⟨true, removedRepo⟩), (2, ⟨true, dirtyRepo⟩)]
def pDefault : Policy := ⟨false, false, true, false⟩

example : (dirGC pDefault true removedRepo).2 = true := by decide
/-- whichever of the two is visited first, repository 2 is collected -/
example (order : List Nat) (h : order = [1, 2] ∨ order = [2, 1]) :
    lookup 2 (gcPass (dirGC pDefault true) order store2).1 = some ⟨true, (dirGC pDefault true dirtyRepo).1⟩ := by
  rcases h with rfl | rfl <;>
    exact pass_independent (dirGC pDefault true) _ (by decide) store2 2 (by decide) ⟨true, dirtyRepo⟩ rfl rfl

/-- an initialised repository without content satisfies the hypotheses of `empty_removed` -/
example : ((({} : DirRepo).init).repoDir = true ∧ (({} : DirRepo).init).indexFile = true ∧ (({} : DirRepo).init).corrupt = false) ∧
    (gc pDefault (({} : DirRepo).init).index (({} : DirRepo).init).blobs).index.manifests = [] ∧
    gcBlobs pDefault (({} : DirRepo).init).index (({} : DirRepo).init).blobs = [] := by
  refine ⟨by decide, ?_, ?_⟩
  · simp [DirRepo.init, gc, marks, roots, bounds, walk, pruneChildren]
  · simp [DirRepo.init, gcBlobs]

example : SubjUnique ([] : List Desc) ∧ (keysOf ([] : List Blob)).Nodup := by
  refine ⟨?_, by simp [keysOf]⟩
  intro e1 h; simp at h
/-! ## the window of the store-wide pass ("is not starved")

`dueOf slack grace gap age` is the transcription of the test `timeMod.Before(prev − slack − grace)` of `dir.gc` / `mem.gc`
(milliseconds; `age` = tick − last modification, `gap` = tick − previous tick). -/

/-- a repository modified since the previous tick is visited by this pass, whatever the grace period -/
theorem due_if_modified_since_tick (slack grace gap age : Nat) (h : age ≤ gap) : dueOf slack grace gap age = true := by
  unfold dueOf; simp; omega

/-- not starved: at the first tick at which content last touched `age` ago has left the grace period
    (`grace ≤ age`, and at the previous tick it had not: `age < grace + gap`) the repository is still visited;
    so garbage is collected by the first pass after its grace period has elapsed -/
theorem due_when_grace_elapses (slack grace gap age : Nat) (_hel : grace ≤ age) (hfirst : age < grace + gap) :
    dueOf slack grace gap age = true := by
  unfold dueOf; simp; omega

/-- the window is exactly `gap + slack + grace`: nothing older is visited (the pass does not rescan idle repositories) -/
theorem not_due_iff (slack grace gap age : Nat) : dueOf slack grace gap age = false ↔ gap + slack + grace < age := by
  unfold dueOf; simp

example : dueOf 250 3600000 1000 3600850 = true ∧ dueOf 250 3600000 1000 3601400 = false ∧ dueOf 0 0 1000 1100 = false := by decide
end C06
