import Upd.GC
import Upd.Frame
/-!
# C10 — the directory is always a valid OCI layout equal to the API state

One model (`Upd.step`) is validated against all three stores — memory, directory, memory over a directory — on the
same histories; the only place where the store type enters the request semantics is the set of repository names
the directory store refuses (`step_store_independent`).  A restart is `Upd.restart`: the directory store collects
its open repositories on Close and reloads index.json (JSON round trip, child scan), the memory store loses
everything, the memory overlay falls back to the directory.  The layout itself (oci-layout, index.json with unique
tags, entries backed by blobs of the recorded size and digest, blobs/<alg>/<hex>) is checked on the real directory
after every request by the monitors `C10.layout-file`, `C10.index-file`, `C10.index-tags`, `C10.index-entry`,
`C10.blob-name`, `C10.disk-eq-api`, and restart equivalence by `C10.restart-differs` (observation of every read
endpoint before and after).
Known findings (open): F31, F32 — child records of an index are memory-only and not maintained on delete.
-/
namespace C10
open Upd

/-- the only place where the store type enters the dispatch: the directory store refuses names with a reserved
    component; every other name is handled alike by all stores -/
theorem store_type_only_refuses_names (s : State) (r : String) :
    nameRefused s r = true ↔ (s.conf.store = "dir" ∧ reservedRepo r = true) := by
  simp [nameRefused]

/-- a restart of the memory store loses everything, whatever was pushed -/
theorem restart_memory_loses_all (s : State) (conf : Conf) (h : conf.store = "mem") : (restart s conf).repos = [] := by
  simp [restart, h]

/-- the JSON round trip of index.json is idempotent: reloading twice is reloading once -/
theorem roundTrip_idem (ix : Index) : roundTrip (roundTrip ix) = roundTrip ix := by
  unfold roundTrip
  simp only [List.map_map, Index.mk.injEq, and_true]
  apply List.map_congr_left
  intro d _
  simp only [Function.comp]
  by_cases h : d.ann.len = 0
  · have h0 : ({} : Ann).len = 0 := by simp [Ann.len]
    simp [h, h0]
  · simp [h]

/-- the round trip keeps every entry with its digest, media type, size, tag and subject: what the API can observe of
    the index survives a restart -/
theorem roundTrip_keeps_entries (ix : Index) :
    (roundTrip ix).manifests.map (fun d => (d.dig, d.mt, d.size, d.ann.tag, d.ann.subj)) =
    ix.manifests.map (fun d => (d.dig, d.mt, d.size, d.ann.tag, d.ann.subj)) := by
  unfold roundTrip
  simp only [List.map_map]
  apply List.map_congr_left
  intro d _
  simp only [Function.comp]
  by_cases h : d.ann.len = 0
  · have ht : d.ann.tag = "" := by
      unfold Ann.len at h
      by_cases h1 : d.ann.tag = ""
      · exact h1
      · simp [h1] at h
    have hs : d.ann.subj = "" := by
      unfold Ann.len at h
      by_cases h1 : d.ann.subj = ""
      · exact h1
      · simp [h1] at h
    simp [h, ht, hs]
  · simp [h]

/-- reloading a repository loses no blob and no index entry; only upload sessions end -/
theorem reload_keeps_content (s : State) (rp : Repo) :
    (reloadRepo s rp).blobs = rp.blobs ∧ (reloadRepo s rp).name = rp.name ∧ (reloadRepo s rp).uploads = [] ∧
    (reloadRepo s rp).index.manifests = (roundTrip rp.index).manifests := by
  simp [reloadRepo, reindex]

/-- a read-only directory store is not collected on Close: its restart keeps every blob of every repository -/
theorem restart_read_only_dir_keeps (s : State) (conf : Conf) (h1 : s.conf.store = "dir") (h2 : s.conf.ro = true)
    (h3 : conf.store = "dir") :
    (restart s conf).repos = s.repos.map (reloadRepo s) := by
  simp [restart, h1, h2, h3]

/-- the memory overlay never reaches the directory: restarting it returns to the directory's content -/
theorem restart_overlay_discards (s : State) (conf : Conf) (h1 : s.conf.store = "memdir") (h3 : conf.store = "memdir") :
    (restart s conf).repos = s.disk ∧ (restart s conf).disk = s.disk := by
  simp [restart, h1, h3]

example : roundTrip { manifests := [{ dig := "sha256:a", ann := { isNil := false } }] } =
    { manifests := [{ dig := "sha256:a" }] } := by
  simp [roundTrip, Ann.len]
end C10
