import Upd.GC
import Upd.Frame
/-!
# C10 — the directory is always a valid OCI layout equal to the API state

One model (`Upd.step`) is validated against all three stores — memory, directory, memory over a directory — on the
same histories; the only place where the store type enters the request semantics is the set of repository names
the directory store refuses (`step_store_independent`).  A restart is `Upd.restart`: the directory store collects
its open repositories on Close and reloads index.json (JSON round trip, child scan), the memory store loses
everything, the memory overlay falls back to the directory.  The layout itself (oci-layout, index.json with unique
tags, entries backed by blobs of the recorded size and digest, blobs/<alg>/<hex>) is checked on the real directory
after every request by the monitors `C10.layout-file`, `C10.index-file`, `C10.index-tags`, `C10.index-entry`,
`C10.blob-name`, `C10.disk-eq-api`, and restart equivalence by `C10.restart-differs` (observation of every read
endpoint before and after).
Known findings (open): F31, F32 — child records of an index are memory-only and not maintained on delete.
-/
namespace C10
open Upd

/-- the only place where the store type enters the dispatch: the directory store refuses names with a reserved
    component; every other name is handled alike by all stores -/
theorem store_type_only_refuses_names (s : State) (r : String) :
    nameRefused s r = true ↔ (s.conf.store = "dir" ∧ reservedRepo r = true) := by
  simp [nameRefused]

/-- a restart of the memory store loses everything, whatever was pushed -/
theorem restart_memory_loses_all (s : State) (conf : Conf) (h : conf.store = "mem") : (restart s conf).repos = [] := by
  simp [restart, h]

/-- the JSON round trip of index.json is idempotent: reloading twice is reloading once -/
theorem roundTrip_idem (ix : Index) : roundTrip (roundTrip ix) = roundTrip ix := by
  unfold roundTrip
  simp only [List.map_map, Index.mk.injEq, and_true]
  apply List.map_congr_left
  intro d _
  simp only [Function.comp]
  by_cases h : d.ann.len = 0
  · have h0 : ({} : Ann).len = 0 := by simp [Ann.len]
    simp [h, h0]
  · simp [h]

/-- the round trip keeps every entry with its digest, media type, size, tag and subject: what the API can observe of
    the index survives a restart -/
theorem roundTrip_keeps_entries (ix : Index) :
    (roundTrip ix).manifests.map (fun d => (d.dig, d.mt, d.size, d.ann.tag, d.ann.subj)) =
    ix.manifests.map (fun d => (d.dig, d.mt, d.size, d.ann.tag, d.ann.subj)) := by
  unfold roundTrip
  simp only [List.map_map]
  apply List.map_congr_left
  intro d _
  simp only [Function.comp]
  by_cases h : d.ann.len = 0
  · have ht : d.ann.tag = "" := by
      unfold Ann.len at h
      by_cases h1 : d.ann.tag = ""
      · exact h1
      · simp [h1] at h
    have hs : d.ann.subj = "" := by
      unfold Ann.len at h
      by_cases h1 : d.ann.subj = ""
      · exact h1
      · simp [h1] at h
    simp [h, ht, hs]
  · simp [h]

/-- reloading a repository loses no blob and no index entry; only upload sessions end -/
theorem reload_keeps_content (s : State) (rp : Repo) :
    (reloadRepo s rp).blobs = rp.blobs ∧ (reloadRepo s rp).name = rp.name ∧ (reloadRepo s rp).uploads = [] ∧
    (reloadRepo s rp).index.manifests = (roundTrip rp.index).manifests := by
  simp [reloadRepo, reindex]

/-- a read-only directory store is not collected on Close: its restart keeps every blob of every repository -/
theorem restart_read_only_dir_keeps (s : State) (conf : Conf) (h1 : s.conf.store = "dir") (h2 : s.conf.ro = true)
    (h3 : conf.store = "dir") :
    (restart s conf).repos = s.repos.map (reloadRepo s) := by
  simp [restart, h1, h2, h3]

/-- the memory overlay never reaches the directory: restarting it returns to the directory's content -/
theorem restart_overlay_discards (s : State) (conf : Conf) (h1 : s.conf.store = "memdir") (h3 : conf.store = "memdir") :
    (restart s conf).repos = s.disk ∧ (restart s conf).disk = s.disk := by
  simp [restart, h1, h3]

example : roundTrip { manifests := [{ dig := "sha256:a", ann := { isNil := false } }] } =
    { manifests := [{ dig := "sha256:a" }] } := by
  simp [roundTrip, Ann.len]
/-! ## restart equivalence, and exactly what the open findings F31 / F32 violate

`ChildrenExact s rp`: the child records held in memory are what a load of index.json computes from the entries that are on
disk.  `Normal ix`: no entry carries an empty annotation map (what JSON cannot tell from a missing one).  Under these two
conditions closing and reopening a directory changes nothing but the upload sessions, so every read answers the same.
F31 and F32 are histories after which `ChildrenExact` is false (a child record removed although its parent index is
still listed, or left behind although its parent was deleted): the hypothesis is what the code fails to maintain. -/
def ChildrenExact (s : State) (rp : Repo) : Prop := (reindex s rp).index.children = rp.index.children
def Normal (ix : Index) : Prop := ∀ d ∈ ix.manifests, d.ann.len = 0 → d.ann = {}

theorem roundTrip_normal (ix : Index) (h : Normal ix) : (roundTrip ix).manifests = ix.manifests := by
  unfold roundTrip
  simp only
  have : ∀ l : List Desc, (∀ d ∈ l, d.ann.len = 0 → d.ann = {}) →
      l.map (fun d => if d.ann.len = 0 then { d with ann := {} } else d) = l := by
    intro l hl
    induction l with
    | nil => rfl
    | cons d t ih =>
      simp only [List.map_cons]
      rw [ih (fun x hx => hl x (List.mem_cons_of_mem _ hx))]
      by_cases h0 : d.ann.len = 0
      · have := hl d (List.mem_cons_self) h0
        simp only [h0, if_true]
        cases d; simp_all
      · simp [h0]
  exact this _ h

/-- restart of the directory store (reload of every repository): with exact child records and a normal index the
    repository is literally the same afterwards, except that its upload sessions are gone -/
theorem restart_same_partial (s : State) (rp : Repo) (hn : Normal rp.index) (hc : ChildrenExact s rp) :
    reloadRepo s rp = { rp with uploads := [] } := by
  unfold ChildrenExact at hc
  have hm := roundTrip_normal rp.index hn
  unfold reloadRepo
  have : reindex s rp = rp := by
    have h1 : (reindex s rp).index.manifests = rp.index.manifests := by simp [reindex, hm]
    have h2 : (reindex s rp).blobs = rp.blobs ∧ (reindex s rp).name = rp.name ∧ (reindex s rp).uploads = rp.uploads ∧
        (reindex s rp).old = rp.old := by simp [reindex]
    cases rp with
    | mk name blobs uploads index old =>
      cases index with
      | mk ms ch =>
        simp only [reindex] at h1 hc h2 ⊢
        simp_all
  rw [this]

/-- the hypotheses are satisfiable by a repository with content: entries without index media type have no children to scan -/
example (s : State) : ChildrenExact s { name := "r", index := { manifests := [] } } ∧
    Normal ({ manifests := [{ mt := "ocim", dig := "sha256:a", ann := { isNil := false, tag := "t" } }] } : Index) := by
  refine ⟨by simp [ChildrenExact, reindex, roundTrip, scanChildren], ?_⟩
  intro d hd h0
  simp only [List.mem_singleton] at hd
  subst hd
  simp [Ann.len] at h0
/-! ## the age wrapper of the driver changes nothing the handler theorems speak about

The driver runs `stepAged` (lean/Upd/GC.lean), every theorem about requests is stated for `step`.  The two give the same
answer, and the state after `stepAged` is the state after `step` in which only the `old` list of the addressed
repository may be shorter. -/
theorem touchDig_only_old (rp : Repo) (d : String) :
    ∃ o, touchDig rp d = { rp with old := o } := by
  unfold touchDig
  split
  · exact ⟨_, rfl⟩
  · exact ⟨rp.old, rfl⟩

theorem touch_fold_only_old (l : List String) (rp : Repo) : ∃ o, l.foldl touchDig rp = { rp with old := o } := by
  induction l generalizing rp with
  | nil => exact ⟨rp.old, rfl⟩
  | cons d t ih =>
    obtain ⟨o1, h1⟩ := touchDig_only_old rp d
    obtain ⟨o2, h2⟩ := ih (touchDig rp d)
    refine ⟨o2, ?_⟩
    simp only [List.foldl_cons]
    rw [h2, h1]

theorem ageWith_answer (s' : State) (r : String) (l : List String) (o : Resp) : (ageWith s' r l o).2 = o := by
  unfold ageWith; split <;> rfl

theorem ageWith_state (s' : State) (r : String) (l : List String) (o : Resp) :
    (ageWith s' r l o).1 = s' ∨ ∃ old', (ageWith s' r l o).1 = s'.setRepo { s'.repo r with old := old' } := by
  unfold ageWith
  split
  · left; rfl
  · right
    obtain ⟨o1, ho⟩ := touch_fold_only_old l (s'.repo r)
    exact ⟨o1, by simp only []; rw [ho]⟩

theorem stepAged_answer (s : State) (q : Req) : (stepAged s q).2 = (step s q).2 := ageWith_answer _ _ _ _

theorem stepAged_state (s : State) (q : Req) :
    (stepAged s q).1 = (step s q).1 ∨
    ∃ o, (stepAged s q).1 = (step s q).1.setRepo { (step s q).1.repo q.repo with old := o } := ageWith_state _ _ _ _
end C10
