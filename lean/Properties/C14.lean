import Upd.Frame
/-!
# C14 — read-only stores and disabled APIs never change anything

This file carries the request-level half: with push or delete disabled, or storage read-only, the corresponding
requests are refused with a 4xx and the state is *literally* the old state (`Upd.step`, the dispatch of
`Server.ServeHTTP`).  The file-system half (a read-only directory store and a memory store over a directory never
create, modify or delete a file) is decided by recursive snapshots and the FS-operation trace of the real stores
(profiles `ro-dir`, `memdir`), see DESIGN.md.
-/
namespace C14
open Upd

def Req.needsPush : Req → Bool
  | .uPost .. | .uPatch .. | .uPut .. | .uGet .. | .uDel .. | .mPut .. => true
  | _ => false
def Req.needsDelete : Req → Bool
  | .mDel .. | .bDel .. => true
  | _ => false
def Req.isBlobDelete : Req → Bool
  | .bDel .. => true
  | _ => false
/-- requests the handlers refuse on read-only storage -/
def Req.writes : Req → Bool
  | .uPost .. | .mPut .. | .mDel .. | .bDel .. => true
  | _ => false

def refusedUnchanged (s : State) (q : Req) : Prop :=
  (step s q).1 = s ∧ 400 ≤ (step s q).2.status ∧ (step s q).2.status < 500

/-- push disabled: every upload and manifest push request is refused and changes nothing, for every combination of
    the other switches -/
theorem push_disabled (s : State) (q : Req) (h : s.conf.push = false) (hq : Req.needsPush q = true) : refusedUnchanged s q := by
  cases q <;> first | (exfalso; simp [Req.needsPush] at hq; done) | skip
  all_goals
    simp only [refusedUnchanged, step, h]
    repeat' split
    all_goals simp_all [notFound, notAllowed]

/-- delete disabled: manifest and blob deletes are refused and change nothing -/
theorem delete_disabled (s : State) (q : Req) (h : s.conf.del = false) (hq : Req.needsDelete q = true) : refusedUnchanged s q := by
  cases q <;> first | (exfalso; simp [Req.needsDelete] at hq; done) | skip
  all_goals
    simp only [refusedUnchanged, step, h]
    repeat' split
    all_goals simp_all [notFound, notAllowed]

/-- blob delete disabled: blob deletes are refused and change nothing -/
theorem blob_delete_disabled (s : State) (q : Req) (h : s.conf.bdel = false) (hq : Req.isBlobDelete q = true) : refusedUnchanged s q := by
  cases q <;> first | (exfalso; simp [Req.isBlobDelete] at hq; done) | skip
  all_goals
    simp only [refusedUnchanged, step, h]
    repeat' split
    all_goals simp_all [notFound, notAllowed]

/-- read-only storage: every request that would write is refused and changes nothing -/
theorem read_only_refused (s : State) (q : Req) (h : s.conf.ro = true) (hq : Req.writes q = true) : refusedUnchanged s q := by
  cases q <;> first | (exfalso; simp [Req.writes] at hq; done) | skip
  all_goals
    simp only [refusedUnchanged, step, h]
    repeat' split
    all_goals simp_all [notFound, notAllowed, denied]

/-- referrers API disabled: the endpoint does not exist -/
theorem referrers_disabled (s : State) (r a f c p : String) (h : s.conf.ref = false) :
    step s (.refs r a f c p) = (s, notFound) := by
  simp [step, h]

example : Req.needsPush (.mPut "r" "t" "" "" "b" true) = true ∧ ({ conf := { push := false } } : State).conf.push = false := ⟨rfl, rfl⟩
end C14
