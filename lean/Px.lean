import Px.Loop
import Px.Locks
import Px.Race
import Px.Mark
import Px.Split
import Px.Paging
