import Ixd.Basic
import Ixd.GC2
import Ixd.RmProofs
import Ixd.AddProofs
import Ixd.GCProofs
import Ixd.GCExact
