import Sess.Basic
import Sess.Proofs
