-- This module serves as the root of the `Ccd` library.
-- Import modules here that should be built as part of the library.
import Ccd.Basic
import Ccd.Small
import Ccd.Proofs
import Ccd.Lru
import Ccd.SmallProofs
