/-!
# C11 — concurrent requests as interleavings of atomic store actions

A handler is a *program*: a tree of calls of the store interface (`internal/store.Repo`: `IndexGet`, `IndexInsert`,
`IndexRemove`, `BlobGet`, `BlobCreate`(+Write+Close), `BlobDelete`, and `Store.RepoGet`), each of which the store
executes atomically under the repository mutex, plus the acquisition of the handler-level readers-writer lock
(`Server.indexMu`) where the tree under test has one.  What a handler does between two calls is local and is the
continuation of the call.  A concurrent execution is an interleaving of the programs of the in-flight requests: a
*schedule* names, step by step, the thread whose next action runs (`exec`).

The store is abstract (`Sig`): programs use it only through the interface, exactly as the Go handlers do.  Instances:
`Conc.upd` (the `Upd` model of the registry the sequential properties are proved about, run by the driver
`concdriver` against the implementation) and `Conc.toy` (small, kernel-evaluable, for witnesses by `decide`).
-/
namespace Conc

/-- the store as the handlers see it -/
structure Sig where
  /-- the store: all repositories -/
  S : Type
  /-- repository names -/
  R : Type
  /-- digests -/
  G : Type
  /-- blob contents -/
  C : Type
  /-- index descriptors -/
  D : Type
  /-- an index as `IndexGet` returns it (a copy) -/
  Ix : Type
  /-- keys of the referrers page cache -/
  K : Type
  /-- answers -/
  A : Type
  read : S → R → G → Option C
  index : S → R → Ix
  cached : S → K → Option A
  repoGet : S → R → S
  blobCreate : S → R → G → C → S
  blobDelete : S → R → G → S
  indexInsert : S → R → D → List D → S
  indexRemove : S → R → D → S
  cacheSet : S → K → A → S
  gc : S → R → S

/-- a handler: a tree of store actions; the continuation of an action is what the handler does with its result -/
inductive Prog (σ : Sig) : Type
  | done (a : σ.A)
  | repoGet (r : σ.R) (k : Prog σ)
  /-- `remember`: on success the referrers handler stores the page it built in the page cache (same step) -/
  | blobGet (r : σ.R) (g : σ.G) (remember : Option (σ.K × (σ.C → σ.A))) (k : Option σ.C → Prog σ)
  /-- BlobCreate + Write + Close of a content under its digest: nothing happens if the digest is present -/
  | blobCreate (r : σ.R) (g : σ.G) (c : σ.C) (k : Prog σ)
  | blobDelete (r : σ.R) (g : σ.G) (k : Bool → Prog σ)
  /-- the continuation also sees the page cache (the referrers handler consults it right after `IndexGet`) -/
  | indexGet (r : σ.R) (k : σ.Ix → (σ.K → Option σ.A) → Prog σ)
  | indexInsert (r : σ.R) (d : σ.D) (ch : List σ.D) (k : Prog σ)
  | indexRemove (r : σ.R) (d : σ.D) (k : Prog σ)
  /-- `indexMu.Lock()`; released when the request returns -/
  | lock (k : Prog σ)
  /-- `indexMu.RLock()`; released after the next action (`RLock; IndexGet; RUnlock`) -/
  | rlock (k : Prog σ)
  /-- a collection of the repository: waits until no request holds a handle of it -/
  | gc (r : σ.R) (k : Prog σ)

inductive ActName | RepoGet | BlobGet | BlobCreate | BlobDelete | IndexGet | IndexInsert | IndexRemove | Lock | RLock | GC
  deriving DecidableEq, Repr

def ActName.str : ActName → String
  | .RepoGet => "RepoGet" | .BlobGet => "BlobGet" | .BlobCreate => "BlobCreate" | .BlobDelete => "BlobDelete"
  | .IndexGet => "IndexGet" | .IndexInsert => "IndexInsert" | .IndexRemove => "IndexRemove" | .Lock => "Lock"
  | .RLock => "RLock" | .GC => "GC"

variable {σ : Sig}

def Prog.name : Prog σ → Option ActName
  | .done _ => none
  | .repoGet .. => some .RepoGet
  | .blobGet .. => some .BlobGet
  | .blobCreate .. => some .BlobCreate
  | .blobDelete .. => some .BlobDelete
  | .indexGet .. => some .IndexGet
  | .indexInsert .. => some .IndexInsert
  | .indexRemove .. => some .IndexRemove
  | .lock _ => some .Lock
  | .rlock _ => some .RLock
  | .gc .. => some .GC

/-- a client: the request in flight, the requests it will issue afterwards, the answers it has got -/
structure Thread (σ : Sig) where
  cur : Option (Prog σ) := none
  rest : List (Prog σ) := []
  answers : List σ.A := []

/-- issue the next request; a program that is already `done` returns at once -/
def load : List (Prog σ) → List σ.A → Thread σ
  | [], as => { cur := none, rest := [], answers := as }
  | .done a :: ps, as => load ps (as ++ [a])
  | p :: ps, as => { cur := some p, rest := ps, answers := as }

def Thread.start (reqs : List (Prog σ)) : Thread σ := load reqs []

structure Cfg (σ : Sig) where
  s : σ.S
  /-- who holds `indexMu` for writing -/
  wlock : Option Nat := none
  /-- who holds it for reading -/
  rlocks : List Nat := []
  /-- open repository handles (`RepoGet` … `Done`): thread, repository -/
  flight : List (Nat × σ.R) := []
  threads : List (Thread σ) := []

def Cfg.thread (c : Cfg σ) (t : Nat) : Thread σ := c.threads.getD t {}

def Cfg.setThread (c : Cfg σ) (t : Nat) (th : Thread σ) : Cfg σ := { c with threads := c.threads.set t th }

/-- may thread `t` take its next action? -/
def Cfg.enabled [DecidableEq σ.R] (c : Cfg σ) (t : Nat) : Bool :=
  match (c.thread t).cur with
  | none => false
  | some (.lock _) => c.wlock.isNone && c.rlocks.isEmpty
  | some (.rlock _) => c.wlock.isNone
  | some (.gc r _) => c.flight.all fun (u, r') => u == t || !(r' = r)
  | some _ => true

/-- the request of `t` has returned with `a`: the write lock and the handle are released, the next request is issued -/
def Cfg.finish (c : Cfg σ) (t : Nat) (a : σ.A) : Cfg σ :=
  let th := c.thread t
  { c with wlock := if c.wlock = some t then none else c.wlock,
           flight := c.flight.filter (fun p => p.1 != t),
           threads := c.threads.set t (load th.rest (th.answers ++ [a])) }

/-- thread `t` continues as `p` -/
def Cfg.continue (c : Cfg σ) (t : Nat) (p : Prog σ) : Cfg σ :=
  match p with
  | .done a => c.finish t a
  | p => c.setThread t { c.thread t with cur := some p }

/-- one atomic action of thread `t` (which is enabled) -/
def Cfg.step (c : Cfg σ) (t : Nat) : Cfg σ :=
  let unread (c' : Cfg σ) : Cfg σ := { c' with rlocks := c'.rlocks.filter (· != t) }
  match (c.thread t).cur with
  | none => c
  | some (.done a) => c.finish t a
  | some (.repoGet r k) => (unread { c with s := σ.repoGet c.s r, flight := (t, r) :: c.flight }).continue t k
  | some (.blobGet r g rem k) =>
    let got := σ.read c.s r g
    let s' := match got, rem with
      | some ct, some (key, page) => σ.cacheSet c.s key (page ct)
      | _, _ => c.s
    (unread { c with s := s' }).continue t (k got)
  | some (.blobCreate r g ct k) => (unread { c with s := σ.blobCreate c.s r g ct }).continue t k
  | some (.blobDelete r g k) => (unread { c with s := σ.blobDelete c.s r g }).continue t (k (σ.read c.s r g).isSome)
  | some (.indexGet r k) => (unread c).continue t (k (σ.index c.s r) (σ.cached c.s))
  | some (.indexInsert r d ch k) => (unread { c with s := σ.indexInsert c.s r d ch }).continue t k
  | some (.indexRemove r d k) => (unread { c with s := σ.indexRemove c.s r d }).continue t k
  | some (.lock k) => ({ c with wlock := some t }).continue t k
  | some (.rlock k) => ({ c with rlocks := t :: c.rlocks }).continue t k
  | some (.gc r k) => (unread { c with s := σ.gc c.s r }).continue t k

/-- the schedule: which thread advances; entries that name a finished or blocked thread are skipped -/
def exec [DecidableEq σ.R] : List Nat → Cfg σ → Cfg σ
  | [], c => c
  | t :: ts, c => exec ts (if c.enabled t then c.step t else c)

/-- the lowest-numbered enabled thread below `n` -/
def Cfg.firstEnabled [DecidableEq σ.R] (c : Cfg σ) : Nat → Nat → Option Nat
  | 0, _ => none
  | n+1, t => if c.enabled t then some t else c.firstEnabled n (t+1)

/-- when the schedule is used up the lowest-numbered enabled thread runs, one action at a time -/
def drain [DecidableEq σ.R] : Nat → Cfg σ → Cfg σ
  | 0, c => c
  | fuel+1, c => match c.firstEnabled c.threads.length 0 with
    | none => c
    | some t => drain fuel (c.step t)

def Cfg.init (s : σ.S) (reqs : List (List (Prog σ))) : Cfg σ := { s := s, threads := reqs.map Thread.start }

def Cfg.allDone (c : Cfg σ) : Bool := c.threads.all (·.cur.isNone)

def Cfg.answers (c : Cfg σ) : List (List σ.A) := c.threads.map (·.answers)

/-- thread `t` alone, to the end of everything it has to do (`fuel` bounds the number of actions) -/
def runAlone [DecidableEq σ.R] : Nat → Nat → Cfg σ → Cfg σ
  | 0, _, c => c
  | fuel+1, t, c => if c.enabled t then runAlone fuel t (c.step t) else c
end Conc
