import Conc.Handlers
/-!
The handler as a function (`Prog.alone`: the program run alone to its end — the sequential specification a program
defines), the shape of the programs of the tree with `Server.indexMu` (`Pre`: blob actions, then either the write lock
and a section of index and blob actions, or the read lock and one `IndexGet` followed by blob actions), and the *ideal*
content-addressed store the linearizability theorem is stated for: reading a blob does not depend on the state of the
store (a digest names its content, blob writes are idempotent, referenced blobs are written before they are
referenced), blob actions do not touch the index.
-/
namespace Conc
variable {σ : Sig}

/-- the program run alone, to its end: the store afterwards and the answer -/
def Prog.alone : Prog σ → σ.S → σ.S × σ.A
  | .done a, s => (s, a)
  | .repoGet r k, s => k.alone (σ.repoGet s r)
  | .blobGet r g rem k, s =>
    (k (σ.read s r g)).alone (match σ.read s r g, rem with
      | some ct, some (key, page) => σ.cacheSet s key (page ct)
      | _, _ => s)
  | .blobCreate r g c k, s => k.alone (σ.blobCreate s r g c)
  | .blobDelete r g k, s => (k (σ.read s r g).isSome).alone (σ.blobDelete s r g)
  | .indexGet r k, s => (k (σ.index s r) (σ.cached s)).alone s
  | .indexInsert r d ch k, s => k.alone (σ.indexInsert s r d ch)
  | .indexRemove r d k, s => k.alone (σ.indexRemove s r d)
  | .lock k, s => k.alone s
  | .rlock k, s => k.alone s
  | .gc r k, s => k.alone (σ.gc s r)

/-- the same index in every repository: what the index-reading handlers can observe of a store -/
def Same (s s' : σ.S) : Prop := ∀ r, σ.index s r = σ.index s' r

theorem Same.refl (s : σ.S) : Same s s := fun _ => rfl
theorem Same.symm {s s' : σ.S} (h : Same s s') : Same s' s := fun r => (h r).symm
theorem Same.trans {s s' s'' : σ.S} (h : Same s s') (h' : Same s' s'') : Same s s'' := fun r => (h r).trans (h' r)

/-- same index afterwards and the same answer -/
def AEq (x y : σ.S × σ.A) : Prop := Same x.1 y.1 ∧ x.2 = y.2

theorem AEq.refl (x : σ.S × σ.A) : AEq x x := ⟨Same.refl _, rfl⟩
theorem AEq.symm {x y : σ.S × σ.A} (h : AEq x y) : AEq y x := ⟨h.1.symm, h.2.symm⟩
theorem AEq.trans {x y z : σ.S × σ.A} (h : AEq x y) (h' : AEq y z) : AEq x z := ⟨h.1.trans h'.1, h.2.trans h'.2⟩

/-- the ideal content-addressed store -/
structure Ideal (σ : Sig) [DecidableEq σ.R] where
  /-- `Index.AddDesc`, `Index.RmDesc` (any functions: nothing is assumed about them) -/
  add : σ.Ix → σ.D → List σ.D → σ.Ix
  rm : σ.Ix → σ.D → σ.Ix
  /-- what reading a digest gives, whatever the state of the store -/
  rd : σ.R → σ.G → Option σ.C
  read_eq : ∀ s r g, σ.read s r g = rd r g
  /-- no page cache -/
  cached_none : ∀ s k, σ.cached s k = none
  index_repoGet : ∀ s r, Same (σ.repoGet s r) s
  index_blobCreate : ∀ s r g c, Same (σ.blobCreate s r g c) s
  index_blobDelete : ∀ s r g, Same (σ.blobDelete s r g) s
  index_cacheSet : ∀ s k a, Same (σ.cacheSet s k a) s
  index_insert : ∀ s r d ch r', σ.index (σ.indexInsert s r d ch) r' = if r' = r then add (σ.index s r) d ch else σ.index s r'
  index_remove : ∀ s r d r', σ.index (σ.indexRemove s r d) r' = if r' = r then rm (σ.index s r) d else σ.index s r'

/-- no collection -/
inductive Plain : Prog σ → Prop
  | done (a) : Plain (.done a)
  | repoGet {r k} : Plain k → Plain (.repoGet r k)
  | blobGet {r g rem k} : (∀ c, Plain (k c)) → Plain (.blobGet r g rem k)
  | blobCreate {r g c k} : Plain k → Plain (.blobCreate r g c k)
  | blobDelete {r g k} : (∀ b, Plain (k b)) → Plain (.blobDelete r g k)
  | indexGet {r k} : (∀ ix ca, Plain (k ix ca)) → Plain (.indexGet r k)
  | indexInsert {r d ch k} : Plain k → Plain (.indexInsert r d ch k)
  | indexRemove {r d k} : Plain k → Plain (.indexRemove r d k)
  | lock {k} : Plain k → Plain (.lock k)
  | rlock {k} : Plain k → Plain (.rlock k)

/-- blob actions only -/
inductive Post : Prog σ → Prop
  | done (a) : Post (.done a)
  | repoGet {r k} : Post k → Post (.repoGet r k)
  | blobGet {r g rem k} : (∀ c, Post (k c)) → Post (.blobGet r g rem k)
  | blobCreate {r g c k} : Post k → Post (.blobCreate r g c k)
  | blobDelete {r g k} : (∀ b, Post (k b)) → Post (.blobDelete r g k)

/-- a section under the write lock: index and blob actions -/
inductive Crit : Prog σ → Prop
  | done (a) : Crit (.done a)
  | repoGet {r k} : Crit k → Crit (.repoGet r k)
  | blobGet {r g rem k} : (∀ c, Crit (k c)) → Crit (.blobGet r g rem k)
  | blobCreate {r g c k} : Crit k → Crit (.blobCreate r g c k)
  | blobDelete {r g k} : (∀ b, Crit (k b)) → Crit (.blobDelete r g k)
  | indexGet {r k} : (∀ ix ca, Crit (k ix ca)) → Crit (.indexGet r k)
  | indexInsert {r d ch k} : Crit k → Crit (.indexInsert r d ch k)
  | indexRemove {r d k} : Crit k → Crit (.indexRemove r d k)

/-- a request of the tree with `indexMu`: blob actions, then the write lock and a section that lasts to the end of the
    request, or the read lock, one `IndexGet` and blob actions -/
inductive Pre : Prog σ → Prop
  | done (a) : Pre (.done a)
  | repoGet {r k} : Pre k → Pre (.repoGet r k)
  | blobGet {r g rem k} : (∀ c, Pre (k c)) → Pre (.blobGet r g rem k)
  | blobCreate {r g c k} : Pre k → Pre (.blobCreate r g c k)
  | blobDelete {r g k} : (∀ b, Pre (k b)) → Pre (.blobDelete r g k)
  | lock {k} : Crit k → Pre (.lock k)
  | rlock {r k} : (∀ ix ca, Post (k ix ca)) → Pre (.rlock (.indexGet r k))

theorem Post.plain {p : Prog σ} (h : Post p) : Plain p := by
  induction h with
  | done a => exact .done a
  | repoGet _ ih => exact .repoGet ih
  | blobGet _ ih => exact .blobGet ih
  | blobCreate _ ih => exact .blobCreate ih
  | blobDelete _ ih => exact .blobDelete ih

theorem Crit.plain {p : Prog σ} (h : Crit p) : Plain p := by
  induction h with
  | done a => exact .done a
  | repoGet _ ih => exact .repoGet ih
  | blobGet _ ih => exact .blobGet ih
  | blobCreate _ ih => exact .blobCreate ih
  | blobDelete _ ih => exact .blobDelete ih
  | indexGet _ ih => exact .indexGet ih
  | indexInsert _ ih => exact .indexInsert ih
  | indexRemove _ ih => exact .indexRemove ih

theorem Pre.plain {p : Prog σ} (h : Pre p) : Plain p := by
  induction h with
  | done a => exact .done a
  | repoGet _ ih => exact .repoGet ih
  | blobGet _ ih => exact .blobGet ih
  | blobCreate _ ih => exact .blobCreate ih
  | blobDelete _ ih => exact .blobDelete ih
  | lock h => exact .lock h.plain
  | rlock h => exact .rlock (.indexGet fun ix ca => (h ix ca).plain)

theorem Post.crit {p : Prog σ} (h : Post p) : Crit p := by
  induction h with
  | done a => exact .done a
  | repoGet _ ih => exact .repoGet ih
  | blobGet _ ih => exact .blobGet ih
  | blobCreate _ ih => exact .blobCreate ih
  | blobDelete _ ih => exact .blobDelete ih

variable [DecidableEq σ.R]

theorem same_insert (L : Ideal σ) {s s' : σ.S} (h : Same s s') (r : σ.R) (d : σ.D) (ch : List σ.D) :
    Same (σ.indexInsert s r d ch) (σ.indexInsert s' r d ch) := by
  intro r'
  rw [L.index_insert, L.index_insert, h r, h r']

theorem same_remove (L : Ideal σ) {s s' : σ.S} (h : Same s s') (r : σ.R) (d : σ.D) :
    Same (σ.indexRemove s r d) (σ.indexRemove s' r d) := by
  intro r'
  rw [L.index_remove, L.index_remove, h r, h r']

/-- the state after a blob read (the page cache may have been written) has the same index -/
theorem same_afterGet (L : Ideal σ) (s : σ.S) (got : Option σ.C) (rem : Option (σ.K × (σ.C → σ.A))) :
    Same (match got, rem with
      | some ct, some (key, page) => σ.cacheSet s key (page ct)
      | _, _ => s) s := by
  cases got with
  | none => exact Same.refl _
  | some ct =>
    cases rem with
    | none => exact Same.refl _
    | some kp => exact L.index_cacheSet s kp.1 (kp.2 ct)

/-- on the ideal store a handler's index effect and answer depend on the index only -/
theorem alone_congr (L : Ideal σ) {p : Prog σ} (hp : Plain p) : ∀ {s s' : σ.S}, Same s s' → AEq (p.alone s) (p.alone s') := by
  induction hp with
  | done a => intro s s' h; exact ⟨h, rfl⟩
  | repoGet _ ih =>
    intro s s' h
    exact ih (((L.index_repoGet s _).trans h).trans (L.index_repoGet s' _).symm)
  | @blobGet r g rem k _ ih =>
    intro s s' h
    simp only [Prog.alone, L.read_eq]
    exact ih _ (((same_afterGet L s _ rem).trans h).trans (same_afterGet L s' _ rem).symm)
  | blobCreate _ ih =>
    intro s s' h
    exact ih (((L.index_blobCreate s _ _ _).trans h).trans (L.index_blobCreate s' _ _ _).symm)
  | @blobDelete r g k _ ih =>
    intro s s' h
    simp only [Prog.alone, L.read_eq]
    exact ih _ (((L.index_blobDelete s _ _).trans h).trans (L.index_blobDelete s' _ _).symm)
  | @indexGet r k _ ih =>
    intro s s' h
    simp only [Prog.alone]
    have hc : σ.cached s = σ.cached s' := by funext key; rw [L.cached_none, L.cached_none]
    rw [h r, hc]
    exact ih _ _ h
  | indexInsert _ ih => intro s s' h; exact ih (same_insert L h _ _ _)
  | indexRemove _ ih => intro s s' h; exact ih (same_remove L h _ _)
  | lock _ ih => intro s s' h; exact ih h
  | rlock _ ih => intro s s' h; exact ih h

/-- blob actions leave the index as it is -/
theorem post_frame (L : Ideal σ) {p : Prog σ} (hp : Post p) : ∀ s : σ.S, Same (p.alone s).1 s := by
  induction hp with
  | done a => intro s; exact Same.refl _
  | repoGet _ ih => intro s; exact (ih _).trans (L.index_repoGet s _)
  | @blobGet r g rem k _ ih => intro s; exact (ih _ _).trans (same_afterGet L s _ rem)
  | blobCreate _ ih => intro s; exact (ih _).trans (L.index_blobCreate s _ _ _)
  | @blobDelete r g k _ ih => intro s; exact (ih _ _).trans (L.index_blobDelete s _ _)

/-- … and their answer does not depend on the store at all -/
theorem post_const (L : Ideal σ) {p : Prog σ} (hp : Post p) : ∀ s s' : σ.S, (p.alone s).2 = (p.alone s').2 := by
  induction hp with
  | done a => intro s s'; rfl
  | repoGet _ ih => intro s s'; exact ih _ _
  | @blobGet r g rem k _ ih => intro s s'; simp only [Prog.alone, L.read_eq]; exact ih _ _ _
  | blobCreate _ ih => intro s s'; exact ih _ _
  | @blobDelete r g k _ ih => intro s s'; simp only [Prog.alone, L.read_eq]; exact ih _ _ _
end Conc
