import Conc.Basic
/-!
The handlers of manifest.go, referrer.go, tag.go and blob.go as programs of store actions, in the order the Go code
makes the calls.  A request arrives *compiled*: everything that needs no store access (routing, switches, header and
digest checks, parsing the body) has been evaluated, what depends on a store result is a function of that result.

`Disc` is the lock discipline of the tree under test: `none` (no handler-level lock: the tree before the repair) or
`rw` (`Server.indexMu`: manifest put holds it for writing from the `IndexInsert` of the manifest to the end of
`referrerAdd`, manifest delete from its `IndexGet` to its `IndexRemove`; manifest GET, tag listing and referrers GET
hold it for reading around their `IndexGet`).
-/
namespace Conc
variable {σ : Sig}

inductive Disc | none | rw
  deriving DecidableEq, Repr

def withW (disc : Disc) (k : Prog σ) : Prog σ := match disc with | .rw => .lock k | .none => k
def withR (disc : Disc) (k : Prog σ) : Prog σ := match disc with | .rw => .rlock k | .none => k

/-- the read-modify-write of the referrers response of one subject (`referrerAdd`, `referrerDelete`) -/
structure RefUpd (σ : Sig) where
  /-- `GetByAnnotation(subject)`: digest of the response the index registers for the subject -/
  find : σ.Ix → Option σ.G
  /-- the new response, from the old one if it could be read: digest, content, index descriptor, children -/
  next : Option σ.C → σ.G × σ.C × σ.D × List σ.D

def storeResp (r : σ.R) (n : σ.G × σ.C × σ.D × List σ.D) (k : Prog σ) : Prog σ :=
  .blobCreate r n.1 n.2.1 (.indexInsert r n.2.2.1 n.2.2.2 k)

/-- `referrerAdd`: IndexGet, BlobGet of the registered response (if any; unreadable counts as empty), BlobCreate of the
    new response, IndexInsert of its descriptor -/
def referrerAdd (r : σ.R) (u : RefUpd σ) (k : Prog σ) : Prog σ :=
  .indexGet r fun ix _ =>
    match u.find ix with
    | none => storeResp r (u.next none) k
    | some g => .blobGet r g none fun c => storeResp r (u.next c) k

/-- `referrerDelete`: IndexGet; nothing to do without a registered response; BlobGet (an unreadable response ends the
    update), BlobCreate, IndexInsert -/
def referrerDelete (r : σ.R) (u : RefUpd σ) (k : Prog σ) : Prog σ :=
  .indexGet r fun ix _ =>
    match u.find ix with
    | none => k
    | some g => .blobGet r g none fun c =>
      match c with
      | none => k
      | some _ => storeResp r (u.next c) k

structure PutReq (σ : Sig) where
  r : σ.R
  /-- refused before the repository is opened (router, switches, read-only) -/
  pre : Option σ.A := none
  /-- refused by a check that needs no store access (after `RepoGet`) -/
  early : Option σ.A := none
  /-- the blobs the validation looks up, in order -/
  refs : List σ.G
  missing : σ.A
  g : σ.G
  c : σ.C
  entry : σ.D
  children : List σ.D
  /-- a manifest with a subject (referrers API on) -/
  refAdd : Option (RefUpd σ)
  ok : σ.A

/-- the commit of an accepted manifest: blob, index entry, referrers response -/
def putCommit (disc : Disc) (q : PutReq σ) : Prog σ :=
  .blobCreate q.r q.g q.c <| withW disc <| .indexInsert q.r q.entry q.children <|
    match q.refAdd with
    | none => .done q.ok
    | some u => referrerAdd q.r u (.done q.ok)

/-- `manifestVerifyImage` / `manifestVerifyIndex`: every referenced blob is looked up, then the verdict -/
def putCheck (disc : Disc) (q : PutReq σ) : List σ.G → Bool → Prog σ
  | [], ok => if ok then putCommit disc q else .done q.missing
  | g :: gs, ok => .blobGet q.r g none fun c => putCheck disc q gs (ok && c.isSome)

def put (disc : Disc) (q : PutReq σ) : Prog σ :=
  match q.pre with
  | some a => .done a
  | none => .repoGet q.r <| match q.early with
    | some a => .done a
    | none => putCheck disc q q.refs true

structure DelReq (σ : Sig) where
  r : σ.R
  pre : Option σ.A := none
  /-- `GetDesc(arg)` -/
  find : σ.Ix → Option σ.D
  notFound : σ.A
  /-- delete by digest with the referrers API on: the manifest is read (this digest) to look for a subject -/
  viaBlob : Option (σ.D → σ.G)
  /-- from the descriptor and the manifest: the referrers update, if the manifest has a subject -/
  refDel : σ.D → σ.C → Option (RefUpd σ)
  ok : σ.A

def delRemove (q : DelReq σ) (d : σ.D) : Prog σ := .indexRemove q.r d (.done q.ok)

def del (disc : Disc) (q : DelReq σ) : Prog σ :=
  match q.pre with
  | some a => .done a
  | none => .repoGet q.r <| withW disc <| .indexGet q.r fun ix _ =>
    match q.find ix with
    | none => .done q.notFound
    | some d =>
      match q.viaBlob with
      | none => delRemove q d
      | some dg => .blobGet q.r (dg d) none fun c =>
        match c with
        | none => delRemove q d
        | some ct =>
          match q.refDel d ct with
          | none => delRemove q d
          | some u => referrerDelete q.r u (delRemove q d)

structure GetReq (σ : Sig) where
  r : σ.R
  pre : Option σ.A := none
  find : σ.Ix → Option σ.D
  notFound : σ.A
  /-- media type negotiation on the descriptor: a refusal or the digest to serve -/
  pick : σ.D → Except σ.A σ.G
  serve : σ.D → Option σ.C → σ.A

def mget (disc : Disc) (q : GetReq σ) : Prog σ :=
  match q.pre with
  | some a => .done a
  | none => .repoGet q.r <| withR disc <| .indexGet q.r fun ix _ =>
    match q.find ix with
    | none => .done q.notFound
    | some d =>
      match q.pick d with
      | .error a => .done a
      | .ok g => .blobGet q.r g none fun c => .done (q.serve d c)

structure TagsReq (σ : Sig) where
  r : σ.R
  pre : Option σ.A := none
  ans : σ.Ix → σ.A

def tags (disc : Disc) (q : TagsReq σ) : Prog σ :=
  match q.pre with
  | some a => .done a
  | none => .repoGet q.r <| withR disc <| .indexGet q.r fun ix _ => .done (q.ans ix)

structure RefsReq (σ : Sig) where
  r : σ.R
  pre : Option σ.A := none
  /-- the registered response of the subject and the key of its page in the cache -/
  find : σ.Ix → Option (σ.G × σ.K)
  empty : σ.A
  ans : σ.G → σ.C → σ.A

def refs (disc : Disc) (q : RefsReq σ) : Prog σ :=
  match q.pre with
  | some a => .done a
  | none => .repoGet q.r <| withR disc <| .indexGet q.r fun ix cached =>
    match q.find ix with
    | none => .done q.empty
    | some (g, key) =>
      match cached key with
      | some a => .done a
      | none => .blobGet q.r g (some (key, q.ans g)) fun c =>
        match c with
        | none => .done q.empty
        | some ct => .done (q.ans g ct)

structure BlobReq (σ : Sig) where
  r : σ.R
  pre : Option σ.A := none
  g : σ.G
  c : σ.C
  /-- answer by presence (GET, HEAD, DELETE) or the acknowledgement (upload) -/
  ans : Option σ.C → σ.A

def bget (q : BlobReq σ) : Prog σ :=
  match q.pre with
  | some a => .done a
  | none => .repoGet q.r <| .blobGet q.r q.g none fun c => .done (q.ans c)

def bdel (q : BlobReq σ) : Prog σ :=
  match q.pre with
  | some a => .done a
  | none => .repoGet q.r <| .blobDelete q.r q.g fun b => .done (q.ans (if b then some q.c else none))

/-- a monolithic upload whose body matches the digest -/
def upost (q : BlobReq σ) : Prog σ :=
  match q.pre with
  | some a => .done a
  | none => .repoGet q.r <| .blobCreate q.r q.g q.c (.done (q.ans (some q.c)))

def collect (r : σ.R) (ok : σ.A) : Prog σ := .gc r (.done ok)
end Conc
