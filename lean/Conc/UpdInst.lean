import Conc.Handlers
import Upd.Router
import Upd.GC
/-!
The store signature instantiated with the `Upd` model (the model of the registry the sequential properties are proved
about and the HTTP correspondence runs against), and the compilation of a request line into a handler program.  The
answers are built by the `Upd` functions themselves (`Upd.serve`, `Upd.tags`, `Upd.refsMain`) applied to the values the
program read, so a program run alone gives the answer of the sequential handler (`Upd.step`); the driver checks this on
every order it enumerates.
-/
namespace Conc
open Upd

/-- a blob content: a plain content by name, or a referrers response document (its name and its list) -/
inductive UC
  | raw (name : String)
  | resp (name : String) (ds : List Desc)

abbrev PageKey := String × String × String × String

structure US where
  u : Upd.State
  /-- referrers page cache of the server: key ↦ the page served -/
  pc : List (PageKey × Resp) := []

def noteResp (s : Upd.State) (name : String) (ds : List Desc) : Upd.State :=
  { s with resps := if s.resps.any (·.1 = name) then s.resps else s.resps ++ [(name, ds)] }

def upd : Sig where
  S := US
  R := String
  G := Dig
  C := UC
  D := Desc
  Ix := Index
  K := PageKey
  A := Resp
  read s r g :=
    match (s.u.repo r).blob g with
    | none => none
    | some content =>
      if content.startsWith "R(" then
        match s.u.resp content with
        | some ds => some (.resp content ds)
        | none => some (.raw content)
      else some (.raw content)
  index s r := (s.u.repo r).index
  cached s k := (s.pc.find? (·.1 = k)).map (·.2)
  repoGet s r := { s with u := s.u.setRepo (s.u.repo r) }
  blobCreate s r g c :=
    match c with
    | .raw name => { s with u := putContent s.u r g name }
    | .resp name ds => { s with u := putContent (noteResp s.u name ds) r g name }
  blobDelete s r g :=
    let rp := s.u.repo r
    { s with u := s.u.setRepo { rp with blobs := rp.blobs.filter (·.1 ≠ g) } }
  indexInsert s r d ch := { s with u := Upd.indexInsert s.u r d ch }
  indexRemove s r d := { s with u := Upd.indexRemove s.u r d }
  cacheSet s k a := { s with pc := s.pc ++ [(k, a)] }
  gc s r := { s with u := gcRepo s.u r }

instance : DecidableEq upd.R := inferInstanceAs (DecidableEq String)

/-- a digest that parses for the store and is never present (a reference the handler passes on although it is not a
    digest: the store call is made and fails) -/
def noDig : Dig := ⟨.sha256, "\x00not-a-digest"⟩

def digOf (s : String) : Dig := match DigArg.parse s with | .ok d => d | .bad => noDig

def kv (toks : List String) (k : String) : String :=
  match toks.find? (fun t => t.startsWith (k ++ "=")) with
  | some t => (t.drop (k.length + 1)).toString
  | none => ""

def csv (s : String) : List String := if s = "" then [] else s.splitOn ","

/-- `referrerAdd`'s and `referrerDelete`'s response arithmetic, as in `Upd.referrerAdd` / `Upd.storeResp` -/
def respOut (subject : String) (ds : List Desc) : Dig × UC × Desc × List Desc :=
  let name := respName ds
  let dg : Dig := ⟨.sha256, name⟩
  (dg, .resp name ds, { mt := "ocii", dig := dg.str, size := respSize ds, ann := { isNil := false, subj := subject } }, ds)

def oldList : Option UC → List Desc
  | some (.resp _ ds) => ds
  | _ => []

def findResp (subject : String) (ix : Index) : Option Dig :=
  match getBySubj ix subject with
  | none => none
  | some dOld => match DigArg.parse dOld.dig with
    | .ok dg => some dg
    | .bad => none

def refAddOf (subject : String) (refd : Desc) : RefUpd upd :=
  { find := findResp subject,
    next := fun old =>
      let l := oldList old
      respOut subject (if l.any (·.dig = refd.dig) then l else l ++ [refd]) }

def refDelOf (subject : String) (d : Desc) : RefUpd upd :=
  { find := findResp subject,
    next := fun old => respOut subject (rmDesc { manifests := oldList old } { dig := d.dig }).manifests }

def unsupported : Resp := { status := 597, code := "NOT-MODELLED-IN-CONC" }

/-- the blobs the validation of a manifest looks up, in the order of `manifestVerifyImage` / `manifestVerifyIndex` -/
def lookups (b : Body) (mt : String) : List String :=
  if isImageMT mt then match b.asImage with | some v => v.cfg :: v.layers | none => []
  else if isIndexMT mt then match b.asIndex with | some v => v.children.map (·.dig) | none => []
  else []

/-- the checks of `manifestPut` that need no store access, then the validation against a repository that holds every
    blob the manifest mentions: a refusal here is a refusal before the first blob lookup -/
def putAccepted (s : Upd.State) (r ref ct qd bodyName : String) (lenKnown : Bool) : Except Resp (Accepted × List String) :=
  let b := s.body bodyName
  checkCt ct >>= fun _ =>
  checkLen s.conf.mlimit b.len lenKnown >>= fun _ =>
  parseQd qd >>= fun qExpect =>
  parseRef ref qExpect >>= fun te =>
  checkLen s.conf.mlimit b.len true >>= fun _ =>
  let d : Dig := ⟨match te.2 with | some e => e.alg | none => Alg.sha256, bodyName⟩
  checkDigest te.2 d >>= fun _ =>
  let mt := if ct = "" then detect b else ct
  let lk := lookups b mt
  let full : Repo := { name := r, blobs := lk.map fun x => (digOf x, "") }
  (validateBody s.conf.ref full b mt te.1 d).map fun a => (a, lk)

def routePre (s : Upd.State) (r : String) (needPush needDel needBdel writes : Bool) : Option Resp :=
  if !validRepo r then some notFound
  else if needPush ∧ !s.conf.push then some notAllowed
  else if needDel ∧ !s.conf.del then some notAllowed
  else if needBdel ∧ !s.conf.bdel then some notAllowed
  else if writes ∧ s.conf.ro then some denied
  else if nameRefused s r then some nameInvalid
  else none

/-- a state in which repository `r` has index `ix` (to let the `Upd` handlers format an answer from a value read) -/
def viewIx (s : Upd.State) (r : String) (ix : Index) : Upd.State := s.setRepo { (s.repo r) with index := ix }

def serveUC (s : Upd.State) (c : UC) (head : Bool) (dcd ct : String) : Resp :=
  match c with
  | .raw name => serve s name "" head dcd ct
  | .resp name ds => serve { s with resps := [(name, ds)] } name "" head dcd ct

/-- compile a request line of a PAR block against the configuration and the body definitions of `s` -/
def compile (disc : Disc) (s : Upd.State) (line : String) : Prog upd :=
  match (line.trimAscii.toString.splitOn " ").filter (· ≠ "") with
  | "MPUT" :: r :: ref :: rest =>
    let bodyName := kv rest "body"
    match routePre s r true false false true with
    | some a => .done a
    | none =>
      match putAccepted s r ref (kv rest "ct") (kv rest "qd") bodyName (kv rest "len" ≠ "unknown") with
      | .error e => put disc { r := r, early := some e, refs := [], missing := e, g := noDig, c := .raw "", entry := {}, children := [], refAdd := none, ok := e }
      | .ok (a, lk) =>
        let entry : Desc := { mt := a.mt, dig := a.d.str, size := a.len, ann := if a.tag = "" then {} else { isNil := false, tag := a.tag } }
        put disc { r := r, refs := lk.map digOf, missing := { status := 400, code := "MANIFEST_BLOB_UNKNOWN" },
                   g := a.d, c := .raw bodyName, entry := entry, children := a.children,
                   refAdd := if a.subject ≠ "" then some (refAddOf a.subject a.refd) else none,
                   ok := { status := 201, loc := manLoc r a.d, dcd := a.d.str, subj := a.subject } }
  | ["MDEL", r, arg] =>
    match routePre s r false true false true with
    | some a => .done a
    | none =>
      del disc { r := r, find := fun ix => getDesc ix arg, notFound := { status := 404, code := "MANIFEST_UNKNOWN" },
                 viaBlob := if !s.conf.ref ∨ isTag arg then none else some fun d => digOf d.dig,
                 refDel := fun d ct => match ct with
                   | .raw name =>
                     let b := s.body name
                     let subj := match b.kind with | "image" | "index" => b.subj | _ => ""
                     if subj = "" then none else some (refDelOf subj d)
                   | .resp .. => none,
                 ok := { status := 202 } }
  | ["BDEL", r, arg] =>
    match DigArg.parse arg with
    | .bad => .done (match routePre s r false true true true with | some a => a | none => digestInvalid)
    | .ok g =>
      match routePre s r false true true true with
      | some a => .done a
      | none => bdel { r := r, g := g, c := .raw g.content, ans := fun c => match c with
        | none => { status := 404, code := "BLOB_UNKNOWN" }
        | some _ => { status := 202 } }
  | ["TAGS", r] =>
    match routePre s r false false false false with
    | some a => .done a
    | none => tags disc { r := r, ans := fun ix => (Upd.tags (viewIx s r ix) r "" "").2 }
  | ["UPOST", r, a1, a2] =>
    let t := [a1, a2]
    match routePre s r true false false true with
    | some a => .done a
    | none =>
      match DigArg.parse (kv t "digest") with
      | .bad => .done unsupported
      | .ok g =>
        if g.content ≠ expand (kv t "body") then .done unsupported
        else upost { r := r, g := g, c := .raw g.content, ans := fun _ => { status := 201, loc := blobLoc r g } }
  | ["GC", r] => collect r { status := 0, code := "gc-ok" }
  | op :: r :: arg :: rest =>
    if op = "MGET" ∨ op = "MHEAD" then
      let head := op = "MHEAD"
      let accept := csv (kv rest "accept")
      match routePre s r false false false false with
      | some a => .done a
      | none =>
        mget disc { r := r, find := fun ix => getDesc ix arg, notFound := { status := 404, code := "MANIFEST_UNKNOWN" },
                    pick := fun d =>
                      if accept.contains d.mt then
                        match DigArg.parse d.dig with | .ok g => .ok g | .bad => .error { status := 500 }
                      else if !accept.isEmpty ∧ isIndexMT d.mt ∧ isTag arg then .error unsupported
                      else .error { status := 404, code := "MANIFEST_UNKNOWN" },
                    serve := fun d c => match c with
                      | none => { status := 404, code := "MANIFEST_BLOB_UNKNOWN" }
                      | some ct => serveUC s ct head (digOf d.dig).str d.mt }
    else if op = "REFS" then
      let filter := kv rest "at"
      if !validRepo r ∨ !s.conf.ref then .done notFound
      else if nameRefused s r then .done emptyRefs
      else
        refs disc { r := r,
                    find := fun ix => match getBySubj ix arg with
                      | none => none
                      | some d => match DigArg.parse d.dig with
                        | .ok g => some (g, (r, arg, d.dig, filter))
                        | .bad => none,
                    empty := emptyRefs,
                    ans := fun g ct => match ct with
                      | .resp name ds =>
                        let sv : Upd.State := { s with resps := [(name, ds)], rcache := [], repos := [] }.setRepo
                          { name := r, blobs := [(g, name)], index := { manifests := [{ mt := "ocii", dig := g.str, ann := { isNil := false, subj := arg } }] } }
                        (refsMain sv r arg filter "" 0).2
                      | .raw _ => emptyRefs }
    else if op = "BGET" ∨ op = "BHEAD" then
      let head := op = "BHEAD"
      if !validRepo r then .done notFound else
      match DigArg.parse arg with
      | .bad => .done digestInvalid
      | .ok g =>
        if nameRefused s r then .done nameInvalid else
        bget { r := r, g := g, c := .raw g.content, ans := fun c => match c with
          | none => { status := 404, code := "BLOB_UNKNOWN" }
          | some ct => serveUC s ct head g.str "octet" }
    else .done unsupported
  | _ => .done unsupported
end Conc
