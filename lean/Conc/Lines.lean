import Conc.UpdInst
/-!
The line protocol of the HTTP harness for the sequential parts of a concurrent history (setup, quiescent observation,
the sequential orders of the linearizability search): the request lines of `Drivers/RegMain.lean`, interpreted by
`Upd.step` — the sequential specification.
-/
namespace Conc
open Upd

def mkQ (t : List String) : Q :=
  { mount := kv t "mount", fromR := kv t "from", digest := kv t "digest", algo := kv t "algo",
    cr := kv t "cr", state := kv t "state", body := expand (kv t "body") }

/-- digest tokens are canonicalised (`x*40` and its expansion are one digest) -/
def canonDig (tok : String) : String := match DigArg.parse tok with | .ok d => d.str | .bad => tok

def parseChild (s : String) : Desc :=
  match s.splitOn "/" with
  | [mt, dig, size] => { mt := mt, dig := canonDig dig, size := size.toNat?.getD 0 }
  | _ => {}

def mkBody (kind : String) (t : List String) : Body :=
  { kind := kind, mtField := kv t "mt", cfg := canonDig (kv t "cfg"), cfgMt := kv t "cfgmt", layers := (csv (kv t "layers")).map canonDig,
    children := ((kv t "children").splitOn ";").filter (· ≠ "") |>.map parseChild,
    subj := canonDig (kv t "subj"), atype := kv t "at", rann := kv t "ann", len := (kv t "len").toNat?.getD 0 }

def pubOf (s : String) : Nat := ((s.drop 1).toString.toNat?).getD 0

def flag (t : List String) (k : String) (dflt : Bool) : Bool :=
  match kv t k with | "" => dflt | v => v = "1"
def natOr (t : List String) (k : String) (dflt : Nat) : Nat :=
  match (kv t k).toNat? with | some n => if n = 0 then dflt else n | none => dflt

def mkConf (t : List String) : Conf :=
  { store := (match kv t "store" with | "" => "mem" | v => v), ro := flag t "ro" false, push := flag t "push" true,
    del := flag t "del" true, bdel := flag t "bdel" true, ref := flag t "ref" true,
    mlimit := natOr t "mlimit" 8388608, rlimit := natOr t "rlimit" 4194304, upmax := natOr t "upmax" 0,
    untagged := flag t "untagged" false, dangling := flag t "dangling" false, withsubj := flag t "withsubj" true,
    emptyrepo := flag t "emptyrepo" true, grace := (match kv t "grace" with | "" => false | "-1" => false | _ => true) }

def out (p : State × Resp) : State × String := (p.1, p.2.line)

/-- one sequential request line -/
def seqStep (s : State) (line : String) : State × String :=
  match (line.trimAscii.toString.splitOn " ").filter (· ≠ "") with
  | "UPOST" :: r :: rest => out (Upd.step s (.uPost r (mkQ rest)))
  | "UPATCH" :: r :: sid :: rest => out (Upd.step s (.uPatch r (pubOf sid) (mkQ rest)))
  | "UPUT" :: r :: sid :: rest => out (Upd.step s (.uPut r (pubOf sid) (mkQ rest)))
  | ["UGET", r, sid] => out (Upd.step s (.uGet r (pubOf sid)))
  | ["UDEL", r, sid] => out (Upd.step s (.uDel r (pubOf sid)))
  | "BGET" :: r :: a :: rest => out (Upd.step s (.bGet r a false (kv rest "range")))
  | "BHEAD" :: r :: a :: rest => out (Upd.step s (.bGet r a true (kv rest "range")))
  | ["BDEL", r, a] => out (Upd.step s (.bDel r a))
  | "DEF" :: name :: kind :: rest =>
    -- definitions are global and a name is defined once (the harness ignores a redefinition)
    if s.defs.any (·.1 = name) then (s, "def") else ({ s with defs := s.defs ++ [(name, mkBody kind rest)] }, "def")
  | "MPUT" :: r :: ref :: rest => out (Upd.step s (.mPut r ref (kv rest "ct") (kv rest "qd") (kv rest "body") (kv rest "len" ≠ "unknown")))
  | "MGET" :: r :: ref :: rest => out (Upd.step s (.mGet r ref (csv (kv rest "accept")) false (kv rest "range")))
  | "MHEAD" :: r :: ref :: rest => out (Upd.step s (.mGet r ref (csv (kv rest "accept")) true (kv rest "range")))
  | ["MDEL", r, ref] => out (Upd.step s (.mDel r ref))
  | "TAGS" :: r :: rest => out (Upd.step s (.tags r (kv rest "n") (kv rest "last")))
  | "REFS" :: r :: arg :: rest => out (Upd.step s (.refs r arg (kv rest "at") (kv rest "cache") (kv rest "page")))
  | ["GC", r] => (gcRepo s r, "gc-ok")
  | "NEW" :: conf => ({ defs := s.defs, resps := s.resps, conf := mkConf conf }, "new")
  | _ => (s, "bad-op")

/-- the answer line of a PAR request -/
def ansLine (a : Resp) : String := if a.status = 0 then a.code else a.line
end Conc
