import Conc.Lin
/-!
The handler programs of the tree with `Server.indexMu` (`Disc.rw`) have the shape `Pre`: `rw_linearizable` is about
them, whatever the request.
-/
set_option linter.unusedSectionVars false
namespace Conc
variable {σ : Sig}

theorem storeResp_crit (r : σ.R) (n : σ.G × σ.C × σ.D × List σ.D) {k : Prog σ} (hk : Crit k) : Crit (storeResp r n k) :=
  .blobCreate (.indexInsert hk)

theorem referrerAdd_crit (r : σ.R) (u : RefUpd σ) {k : Prog σ} (hk : Crit k) : Crit (referrerAdd r u k) := by
  refine .indexGet fun ix _ => ?_
  cases u.find ix with
  | none => exact storeResp_crit r _ hk
  | some g => exact .blobGet fun c => storeResp_crit r _ hk

theorem referrerDelete_crit (r : σ.R) (u : RefUpd σ) {k : Prog σ} (hk : Crit k) : Crit (referrerDelete r u k) := by
  refine .indexGet fun ix _ => ?_
  cases u.find ix with
  | none => exact hk
  | some g =>
    refine .blobGet fun c => ?_
    cases c with
    | none => exact hk
    | some _ => exact storeResp_crit r _ hk

theorem putCommit_pre (q : PutReq σ) : Pre (putCommit .rw q) := by
  refine .blobCreate (.lock (.indexInsert ?_))
  cases q.refAdd with
  | none => exact .done _
  | some u => exact referrerAdd_crit q.r u (.done _)

theorem putCheck_pre (q : PutReq σ) : ∀ (gs : List σ.G) (ok : Bool), Pre (putCheck .rw q gs ok) := by
  intro gs
  induction gs with
  | nil =>
    intro ok
    cases ok with
    | true => exact putCommit_pre q
    | false => exact .done _
  | cons g gs ih => intro ok; exact .blobGet fun c => ih _

/-- manifest PUT -/
theorem put_pre (q : PutReq σ) (h : q.pre = none) : Pre (put .rw q) ∧ (put .rw q).isDone = false := by
  unfold put
  rw [h]
  refine ⟨.repoGet ?_, rfl⟩
  cases q.early with
  | some a => exact .done a
  | none => exact putCheck_pre q _ _

theorem delRemove_crit (q : DelReq σ) (d : σ.D) : Crit (delRemove q d) := .indexRemove (.done _)

/-- manifest DELETE -/
theorem del_pre (q : DelReq σ) (h : q.pre = none) : Pre (del .rw q) ∧ (del .rw q).isDone = false := by
  unfold del
  rw [h]
  refine ⟨.repoGet (.lock (.indexGet fun ix _ => ?_)), rfl⟩
  cases q.find ix with
  | none => exact .done _
  | some d =>
    dsimp only
    cases q.viaBlob with
    | none => exact delRemove_crit q d
    | some dg =>
      refine .blobGet fun c => ?_
      cases c with
      | none => exact delRemove_crit q d
      | some ct =>
        dsimp only
        cases q.refDel d ct with
        | none => exact delRemove_crit q d
        | some u => exact referrerDelete_crit q.r u (delRemove_crit q d)

/-- manifest GET / HEAD -/
theorem mget_pre (q : GetReq σ) (h : q.pre = none) : Pre (mget .rw q) ∧ (mget .rw q).isDone = false := by
  unfold mget
  rw [h]
  refine ⟨.repoGet (.rlock fun ix _ => ?_), rfl⟩
  cases q.find ix with
  | none => exact .done _
  | some d =>
    dsimp only
    cases q.pick d with
    | error a => exact .done a
    | ok g => exact .blobGet fun c => .done _

/-- tag listing -/
theorem tags_pre (q : TagsReq σ) (h : q.pre = none) : Pre (tags .rw q) ∧ (tags .rw q).isDone = false := by
  unfold tags
  rw [h]
  exact ⟨.repoGet (.rlock fun ix _ => .done _), rfl⟩

/-- referrers GET -/
theorem refs_pre (q : RefsReq σ) (h : q.pre = none) : Pre (refs .rw q) ∧ (refs .rw q).isDone = false := by
  unfold refs
  rw [h]
  refine ⟨.repoGet (.rlock fun ix cached => ?_), rfl⟩
  cases q.find ix with
  | none => exact .done _
  | some gk =>
    obtain ⟨g, key⟩ := gk
    dsimp only
    cases cached key with
    | some a => exact .done a
    | none =>
      refine .blobGet fun c => ?_
      cases c with
      | none => exact .done _
      | some ct => exact .done _

/-- blob GET / HEAD, blob DELETE, monolithic blob upload -/
theorem bget_pre (q : BlobReq σ) (h : q.pre = none) : Pre (bget q) ∧ (bget q).isDone = false := by
  unfold bget; rw [h]; exact ⟨.repoGet (.blobGet fun c => .done _), rfl⟩
theorem bdel_pre (q : BlobReq σ) (h : q.pre = none) : Pre (bdel q) ∧ (bdel q).isDone = false := by
  unfold bdel; rw [h]; exact ⟨.repoGet (.blobDelete fun b => .done _), rfl⟩
theorem upost_pre (q : BlobReq σ) (h : q.pre = none) : Pre (upost q) ∧ (upost q).isDone = false := by
  unfold upost; rw [h]; exact ⟨.repoGet (.blobCreate (.done _)), rfl⟩

/-- a request of the registry (everything but a collection), admitted by the router -/
inductive Req (σ : Sig)
  | put (q : PutReq σ) | del (q : DelReq σ) | mget (q : GetReq σ) | tags (q : TagsReq σ) | refs (q : RefsReq σ)
  | bget (q : BlobReq σ) | bdel (q : BlobReq σ) | upost (q : BlobReq σ)

def Req.prog (disc : Disc) : Req σ → Prog σ
  | .put q => Conc.put disc q
  | .del q => Conc.del disc q
  | .mget q => Conc.mget disc q
  | .tags q => Conc.tags disc q
  | .refs q => Conc.refs disc q
  | .bget q => Conc.bget q
  | .bdel q => Conc.bdel q
  | .upost q => Conc.upost q

def Req.admitted : Req σ → Prop
  | .put q => q.pre = none
  | .del q => q.pre = none
  | .mget q => q.pre = none
  | .tags q => q.pre = none
  | .refs q => q.pre = none
  | .bget q => q.pre = none
  | .bdel q => q.pre = none
  | .upost q => q.pre = none

theorem req_pre (q : Req σ) (h : q.admitted) : Pre (q.prog .rw) ∧ (q.prog .rw).isDone = false := by
  cases q with
  | put q => exact put_pre q h
  | del q => exact del_pre q h
  | mget q => exact mget_pre q h
  | tags q => exact tags_pre q h
  | refs q => exact refs_pre q h
  | bget q => exact bget_pre q h
  | bdel q => exact bdel_pre q h
  | upost q => exact upost_pre q h

/-- what an accepted push without subject does to the index of its repository, run alone -/
theorem put_alone_index [DecidableEq σ.R] (L : Ideal σ) (q : PutReq σ) (h1 : q.pre = none) (h2 : q.early = none)
    (h3 : q.refAdd = none) (h4 : ∀ g ∈ q.refs, (L.rd q.r g).isSome) (s : σ.S) :
    ∃ ix, σ.index ((put .rw q).alone s).1 q.r = L.add ix q.entry q.children := by
  have hcommit : ∀ s', σ.index ((putCommit .rw q).alone s').1 q.r = L.add (σ.index (σ.blobCreate s' q.r q.g q.c) q.r) q.entry q.children := by
    intro s'
    simp only [putCommit, withW, h3, Prog.alone]
    rw [L.index_insert]; simp
  have hcheck : ∀ (gs : List σ.G), (∀ g ∈ gs, (L.rd q.r g).isSome) → ∀ s', ∃ s'', (putCheck .rw q gs true).alone s' = (putCommit .rw q).alone s'' := by
    intro gs
    induction gs with
    | nil => intro _ s'; exact ⟨s', rfl⟩
    | cons g gs ih =>
      intro hg s'
      simp only [putCheck, Prog.alone, L.read_eq]
      have : (L.rd q.r g).isSome = true := hg g (by simp)
      rw [this]
      exact ih (fun g' hg' => hg g' (by simp [hg'])) _
  obtain ⟨s'', hs''⟩ := hcheck q.refs h4 (σ.repoGet s q.r)
  have : (put .rw q).alone s = (putCommit .rw q).alone s'' := by
    simp only [put, h1, h2, Prog.alone]
    exact hs''
  exact ⟨_, by rw [this]; exact hcommit s''⟩

end Conc
