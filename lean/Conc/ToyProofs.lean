import Conc.Guarded
import Conc.Toy
/-!
The toy store is an ideal store (so the hypotheses of `rw_linearizable` are satisfiable), and a lemma about orders of
two requests used by the concrete corollaries.
-/
namespace Conc.Toy
open Conc

def ideal : Ideal sig where
  add := Ix.add
  rm := Ix.rm
  rd := fun _ g => some g
  read_eq := fun _ _ _ => rfl
  cached_none := fun _ _ => rfl
  index_repoGet := fun _ _ _ => rfl
  index_blobCreate := fun _ _ _ _ _ => rfl
  index_blobDelete := fun _ _ _ _ => rfl
  index_cacheSet := fun _ _ _ _ => rfl
  index_insert := fun _ _ _ _ _ => rfl
  index_remove := fun _ _ _ _ => rfl

/-- the orders of two requests -/
theorem order_two (order : List Nat) (hn : order.Nodup) (hm : ∀ t, t ∈ order ↔ t < 2) : order = [0, 1] ∨ order = [1, 0] := by
  have h0 : 0 ∈ order := (hm 0).mpr (by omega)
  have h1 : 1 ∈ order := (hm 1).mpr (by omega)
  match order, hn, hm, h0, h1 with
  | [], _, _, h0, _ => cases h0
  | [x], _, _, h0, h1 =>
    simp at h0 h1; omega
  | [x, y], hn, hm, h0, h1 =>
    simp at h0 h1 hn
    have hx := (hm x).mp (by simp)
    have hy := (hm y).mp (by simp)
    have : (x = 0 ∧ y = 1) ∨ (x = 1 ∧ y = 0) := by omega
    rcases this with ⟨rfl, rfl⟩ | ⟨rfl, rfl⟩
    · exact .inl rfl
    · exact .inr rfl
  | x :: y :: z :: rest, hn, hm, _, _ =>
    have hx := (hm x).mp (by simp)
    have hy := (hm y).mp (by simp)
    have hz := (hm z).mp (by simp)
    simp at hn
    omega
end Conc.Toy
