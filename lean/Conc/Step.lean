import Conc.Alone
/-!
One step of the scheduler, described once for all actions: the next action of a running thread changes the store
(`nextS`), leaves a continuation (`nextP`) and may take or release `indexMu`; running a program alone is its next
action followed by running the continuation alone (`alone_next`).
-/
namespace Conc
variable {σ : Sig}

/-- a thread with one request, in flight -/
def Running (th : Thread σ) (p : Prog σ) : Prop := th.cur = some p ∧ th.rest = [] ∧ th.answers = []
/-- … that has returned -/
def Finished (th : Thread σ) (a : σ.A) : Prop := th.cur = none ∧ th.rest = [] ∧ th.answers = [a]

def Prog.isDone : Prog σ → Bool
  | .done _ => true
  | _ => false

/-- the store after the next action -/
def nextS : Prog σ → σ.S → σ.S
  | .done _, s => s
  | .repoGet r _, s => σ.repoGet s r
  | .blobGet r g rem _, s =>
    match σ.read s r g, rem with
    | some ct, some (key, page) => σ.cacheSet s key (page ct)
    | _, _ => s
  | .blobCreate r g c _, s => σ.blobCreate s r g c
  | .blobDelete r g _, s => σ.blobDelete s r g
  | .indexGet _ _, s => s
  | .indexInsert r d ch _, s => σ.indexInsert s r d ch
  | .indexRemove r d _, s => σ.indexRemove s r d
  | .lock _, s => s
  | .rlock _, s => s
  | .gc r _, s => σ.gc s r

/-- the continuation after the next action -/
def nextP : Prog σ → σ.S → Prog σ
  | .done a, _ => .done a
  | .repoGet _ k, _ => k
  | .blobGet r g _ k, s => k (σ.read s r g)
  | .blobCreate _ _ _ k, _ => k
  | .blobDelete r g k, s => k (σ.read s r g).isSome
  | .indexGet r k, s => k (σ.index s r) (σ.cached s)
  | .indexInsert _ _ _ k, _ => k
  | .indexRemove _ _ k, _ => k
  | .lock k, _ => k
  | .rlock k, _ => k
  | .gc _ k, _ => k

theorem alone_next (p : Prog σ) (s : σ.S) : p.alone s = (nextP p s).alone (nextS p s) := by
  cases p <;> rfl

/-- who holds the write lock after the next action of `t` (before a possible return) -/
def nextW (w : Option Nat) (t : Nat) : Prog σ → Option Nat
  | .lock _ => some t
  | _ => w

/-- who holds the read lock after the next action of `t` -/
def nextR (rl : List Nat) (t : Nat) : Prog σ → List Nat
  | .done _ => rl
  | .lock _ => rl
  | .rlock _ => t :: rl
  | _ => rl.filter (· != t)

def nextF (f : List (Nat × σ.R)) (t : Nat) : Prog σ → List (Nat × σ.R)
  | .repoGet r _ => (t, r) :: f
  | _ => f

theorem step_eq (c : Cfg σ) (t : Nat) (p : Prog σ) (h : (c.thread t).cur = some p) :
    c.step t = ({ c with s := nextS p c.s, wlock := nextW c.wlock t p, rlocks := nextR c.rlocks t p,
                         flight := nextF c.flight t p } : Cfg σ).continue t (nextP p c.s) := by
  unfold Cfg.step
  rw [h]
  cases p <;> rfl

theorem getD_set (l : List (Thread σ)) (t u : Nat) (th : Thread σ) (hu : u < l.length) :
    (l.set u th).getD t {} = if t = u then th else l.getD t {} := by
  by_cases h : t = u
  · subst h; simp [hu]
  · have h' : ¬ u = t := fun e => h e.symm
    simp [h, h', List.getD_eq_getElem?_getD, List.getElem?_set]

theorem thread_setThread (c : Cfg σ) (t u : Nat) (th : Thread σ) (hu : u < c.threads.length) :
    (c.setThread u th).thread t = if t = u then th else c.thread t := getD_set c.threads t u th hu

theorem thread_finish (c : Cfg σ) (t u : Nat) (a : σ.A) (hu : u < c.threads.length) :
    (c.finish u a).thread t = if t = u then load (c.thread u).rest ((c.thread u).answers ++ [a]) else c.thread t :=
  getD_set c.threads t u _ hu

/-- where a request that continues as `p` stands: returned (with its answer) or running -/
def Landed (th : Thread σ) (p : Prog σ) : Prop :=
  match p with
  | .done a => Finished th a
  | p => Running th p

theorem continue_notDone (c : Cfg σ) (u : Nat) (p : Prog σ) (hp : p.isDone = false) :
    c.continue u p = c.setThread u { c.thread u with cur := some p } := by
  cases p <;> first | rfl | simp [Prog.isDone] at hp

theorem landed_notDone (th : Thread σ) (p : Prog σ) (hp : p.isDone = false) : Landed th p = Running th p := by
  cases p <;> first | rfl | simp [Prog.isDone] at hp

theorem continue_thread (c : Cfg σ) (t u : Nat) (p p0 : Prog σ) (hu : u < c.threads.length) (hr : Running (c.thread u) p0) :
    (t ≠ u → (c.continue u p).thread t = c.thread t) ∧ Landed ((c.continue u p).thread u) p := by
  obtain ⟨_, hrest, hans⟩ := hr
  cases hd : p.isDone with
  | false =>
    rw [continue_notDone c u p hd, landed_notDone _ p hd]
    constructor
    · intro ht; rw [thread_setThread _ _ _ _ hu, if_neg ht]
    · rw [thread_setThread _ _ _ _ hu, if_pos rfl]; exact ⟨rfl, hrest, hans⟩
  | true =>
    cases p with
    | done a =>
      show (t ≠ u → (c.finish u a).thread t = c.thread t) ∧ Finished ((c.finish u a).thread u) a
      constructor
      · intro ht; rw [thread_finish _ _ _ _ hu, if_neg ht]
      · rw [thread_finish _ _ _ _ hu, if_pos rfl, hrest, hans]; exact ⟨rfl, rfl, rfl⟩
    | _ => simp [Prog.isDone] at hd

theorem continue_fields (c : Cfg σ) (u : Nat) (p : Prog σ) :
    (c.continue u p).s = c.s ∧ (c.continue u p).rlocks = c.rlocks ∧ (c.continue u p).threads.length = c.threads.length ∧
    (c.continue u p).wlock = (if p.isDone ∧ c.wlock = some u then none else c.wlock) := by
  cases p <;> simp [Cfg.continue, Cfg.finish, Cfg.setThread, Prog.isDone]
end Conc
