import Conc.Handlers
/-!
A small store for witnesses the kernel can evaluate (`decide`): numbers for names, an index that keeps what the
handlers can observe (manifests present, tag ↦ digest, subject ↦ digest of its referrers response), an *ideal*
content-addressed blob store (a digest names its content and reading it always succeeds), no page cache.  The handler
programs are the generic ones of `Conc.Handlers`; only the compiled requests are built here.
-/
namespace Conc.Toy

/-- digests, which name their content: a manifest (with its subject, if it is an artifact) or a referrers response -/
inductive G
  | man (n : Nat) (subject : Option Nat)
  | resp (subject : Nat) (l : List Nat)
  deriving DecidableEq, Repr

structure D where
  dig : G
  tag : Option Nat := none
  subj : Option Nat := none
  deriving DecidableEq, Repr

structure Ix where
  mans : List G := []
  tags : List (Nat × G) := []
  resp : List (Nat × G) := []
  deriving DecidableEq, Repr

/-- `AddDesc`: a referrers response replaces the one registered for the subject; a manifest is listed once; a tag moves -/
def Ix.add (ix : Ix) (d : D) (_ : List D) : Ix :=
  match d.subj with
  | some sj => { ix with resp := (sj, d.dig) :: ix.resp.filter (fun p => p.1 != sj) }
  | none =>
    let ix := if ix.mans.contains d.dig then ix else { ix with mans := ix.mans ++ [d.dig] }
    match d.tag with
    | some t => { ix with tags := (t, d.dig) :: ix.tags.filter (fun p => p.1 != t) }
    | none => ix

/-- `RmDesc`: with a tag the tag goes (if it still names the digest), without one the manifest and its tags go -/
def Ix.rm (ix : Ix) (d : D) : Ix :=
  match d.tag with
  | some t => { ix with tags := ix.tags.filter (fun p => !(p.1 == t && p.2 == d.dig)) }
  | none => { ix with mans := ix.mans.filter (· != d.dig), tags := ix.tags.filter (fun p => p.2 != d.dig) }

inductive A
  | created | deleted | notFound | blobUnknown
  | tags (l : List Nat)
  | man (g : G)
  | refs (l : List Nat)
  deriving DecidableEq, Repr

structure S where
  index : Nat → Ix := fun _ => {}

def sig : Sig where
  S := S
  R := Nat
  G := G
  C := G
  D := D
  Ix := Ix
  K := Unit
  A := A
  read _ _ g := some g
  index s r := s.index r
  cached _ _ := none
  repoGet s _ := s
  blobCreate s _ _ _ := s
  blobDelete s _ _ := s
  indexInsert s r d ch := { index := fun r' => if r' = r then (s.index r).add d ch else s.index r' }
  indexRemove s r d := { index := fun r' => if r' = r then (s.index r).rm d else s.index r' }
  cacheSet s _ _ := s
  gc s _ := s

instance : DecidableEq sig.R := inferInstanceAs (DecidableEq Nat)
instance : DecidableEq sig.A := inferInstanceAs (DecidableEq A)
instance : DecidableEq sig.G := inferInstanceAs (DecidableEq G)
instance : DecidableEq sig.Ix := inferInstanceAs (DecidableEq Ix)

def findResp (sj : Nat) (ix : Ix) : Option G := (ix.resp.find? (fun p => p.1 == sj)).map (·.2)

def listOf : Option G → List Nat
  | some (.resp _ l) => l
  | _ => []

def respOut (sj : Nat) (l : List Nat) : G × G × D × List D :=
  (.resp sj l, .resp sj l, { dig := .resp sj l, subj := some sj }, [])

def refAdd (sj n : Nat) : RefUpd sig :=
  { find := findResp sj, next := fun old => let l := listOf old; respOut sj (if l.contains n then l else l ++ [n]) }

def refDel (sj n : Nat) : RefUpd sig :=
  { find := findResp sj, next := fun old => respOut sj ((listOf old).filter (· != n)) }

/-- the configuration blob every manifest refers to -/
def cfg : G := .man 0 none

/-- push of manifest `n` (an artifact of `subject`) into repository `r` by digest or under `tag` -/
def putReq (r n : Nat) (tag subject : Option Nat) : PutReq sig :=
  { r := r, refs := [cfg], missing := .blobUnknown, g := .man n subject, c := .man n subject,
    entry := { dig := .man n subject, tag := tag }, children := [], refAdd := subject.map fun sj => refAdd sj n, ok := .created }

def delReq (r : Nat) (find : Ix → Option D) : DelReq sig :=
  { r := r, find := find, notFound := .notFound, viaBlob := some fun d => d.dig,
    refDel := fun d c => match d.tag, c with
      | none, .man n (some sj) => some (refDel sj n)
      | _, _ => none,
    ok := .deleted }

def byDigest (g : G) (ix : Ix) : Option D := if ix.mans.contains g then some { dig := g } else none
def byTag (t : Nat) (ix : Ix) : Option D := (ix.tags.find? (fun p => p.1 == t)).map fun p => { dig := p.2, tag := some t }

/-- delete by tag: no manifest is read -/
def delTagReq (r t : Nat) : DelReq sig := { delReq r (byTag t) with viaBlob := none }

def getReq (r : Nat) (find : Ix → Option D) : GetReq sig :=
  { r := r, find := find, notFound := .notFound, pick := fun d => .ok d.dig,
    serve := fun d c => match c with | some _ => .man d.dig | none => .blobUnknown }

def tagsReq (r : Nat) : TagsReq sig := { r := r, ans := fun ix => .tags (ix.tags.map (·.1)) }

def refsReq (r sj : Nat) : RefsReq sig :=
  { r := r, find := fun ix => (findResp sj ix).map fun g => (g, ()), empty := .refs [], ans := fun _ c => .refs (listOf (some c)) }

/-- a repository 0 that holds subject 9 and what `mans`, `tags`, `resp` add -/
def store (ix : Ix) : S := { index := fun r => if r = 0 then ix else {} }

def run (progs : List (Prog sig)) (s : S) (sched : List Nat) : Cfg sig :=
  drain 64 (exec sched (Cfg.init s (progs.map fun p => [p])))
end Conc.Toy
