import Conc.Guarded
import Conc.UpdInst
import Upd.Frame
/-!
The `Upd` instance with an ideal blob store (`updIdeal`: every content can be read under its digest, no page cache) is
an ideal store in the sense of `Conc.Ideal`, with `Upd.addDesc` and `Upd.rmDesc` as the index functions: the
linearizability theorem applies to the handler programs the driver runs, up to the availability of blobs.
-/
namespace Conc
open Upd

def updIdeal : Sig := { upd with read := fun _ _ g => some (.raw g.content), cached := fun _ _ => none }

instance : DecidableEq updIdeal.R := inferInstanceAs (DecidableEq String)

theorem repo_set (s : Upd.State) (rp : Repo) (r' : String) : (s.setRepo rp).repo r' = if r' = rp.name then rp else s.repo r' := by
  by_cases h : r' = rp.name
  · rw [if_pos h, h]; exact repo_setRepo_same s rp
  · rw [if_neg h]; exact repo_setRepo_other s rp r' h

theorem index_setRepo_blobs (s : Upd.State) (r r' : String) (bl : List (Dig × String)) :
    ((s.setRepo { (s.repo r) with blobs := bl }).repo r').index = (s.repo r').index := by
  rw [repo_set]
  have hn : ({ (s.repo r) with blobs := bl } : Repo).name = r := repo_name s r
  rw [hn]
  by_cases h : r' = r
  · rw [if_pos h, h]
  · rw [if_neg h]

theorem index_setRepo_index (s : Upd.State) (r r' : String) (ix : Index) :
    ((s.setRepo { (s.repo r) with index := ix }).repo r').index = if r' = r then ix else (s.repo r').index := by
  rw [repo_set]
  have hn : ({ (s.repo r) with index := ix } : Repo).name = r := repo_name s r
  rw [hn]
  by_cases h : r' = r
  · rw [if_pos h, if_pos h]
  · rw [if_neg h, if_neg h]

theorem index_putContent (s : Upd.State) (r r' : String) (g : Dig) (c : String) :
    ((putContent s r g c).repo r').index = (s.repo r').index := by
  unfold putContent
  simp only []
  split
  · exact congrArg Repo.index (repo_touch s r r')
  · unfold Repo.putBlob
    split <;> exact index_setRepo_blobs s r r' _

def updIdealLaws : Ideal updIdeal where
  add := fun ix d ch => addDesc ix d ch
  rm := rmDesc
  rd := fun _ g => some (.raw g.content)
  read_eq := fun _ _ _ => rfl
  cached_none := fun _ _ => rfl
  index_repoGet := fun s r r' => congrArg Repo.index (repo_touch s.u r r')
  index_blobCreate := by
    intro s r g c r'
    cases c with
    | raw name => exact index_putContent s.u r r' g name
    | resp name ds => exact index_putContent (noteResp s.u name ds) r r' g name
  index_blobDelete := fun s r g r' => index_setRepo_blobs s.u r r' _
  index_cacheSet := fun _ _ _ _ => rfl
  index_insert := fun s r d ch r' => index_setRepo_index s.u r r' _
  index_remove := fun s r d r' => index_setRepo_index s.u r r' _
end Conc
