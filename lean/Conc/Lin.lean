import Conc.Step
/-!
# Linearizability of the handlers of the tree with `Server.indexMu` (ideal blob store)

`rw_linearizable`: for any number of threads, each issuing one request whose program has the shape `Pre`, and any
schedule that runs them all to the end, there is an order of the requests such that running the *handlers as
functions* (`Prog.alone`) one after the other in that order gives the same index in every repository and the same
answers.  The order is the one in which the requests took the lock (write or read) or — if they never did —
returned.  Nothing is assumed about `AddDesc`/`RmDesc`.

Proof: an invariant of `exec` with a ghost list `lin` of the requests linearized so far.  A request outside `lin` is in
its blob phase and still *means* what it meant at the start (`∀ s, p.alone s ≈ p₀.alone s`, because blob reads do not
depend on the store); the holder of the write lock, run alone from the current store, ends in the state the
specification has after `lin`; a reader holds the index still (no writer can start) and has its answer fixed when it
reads; after its section a request only performs blob actions and its answer is fixed.
-/
set_option linter.unusedSectionVars false
namespace Conc
variable {σ : Sig} [DecidableEq σ.R]

/-- the sequential specification: the handlers as functions, one after the other; the answers are logged -/
def specStep (progs : List (Prog σ)) (acc : σ.S × List (Nat × σ.A)) (t : Nat) : σ.S × List (Nat × σ.A) :=
  match progs[t]? with
  | some p => ((p.alone acc.1).1, acc.2 ++ [(t, (p.alone acc.1).2)])
  | none => acc

def spec (progs : List (Prog σ)) (s0 : σ.S) (order : List Nat) : σ.S × List (Nat × σ.A) :=
  order.foldl (specStep progs) (s0, [])

theorem spec_snoc (progs : List (Prog σ)) (s0 : σ.S) (lin : List Nat) (u : Nat) (p0 : Prog σ) (h : progs[u]? = some p0) :
    spec progs s0 (lin ++ [u]) =
      ((p0.alone (spec progs s0 lin).1).1, (spec progs s0 lin).2 ++ [(u, (p0.alone (spec progs s0 lin).1).2)]) := by
  simp [spec, List.foldl_append, specStep, h]

/-- the state of a linearized request `t` with answer `a`, the specification being in state `A` -/
inductive ThreadIn (c : Cfg σ) (t : Nat) (a : σ.A) (A : σ.S) : Prop
  | fin : Finished (c.thread t) a → c.wlock ≠ some t → t ∉ c.rlocks → ThreadIn c t a A
  | hold (p : Prog σ) : c.wlock = some t → Running (c.thread t) p → Crit p → AEq (p.alone c.s) (A, a) → ThreadIn c t a A
  | read (r : σ.R) (k : σ.Ix → (σ.K → Option σ.A) → Prog σ) : t ∈ c.rlocks → c.wlock ≠ some t →
      Running (c.thread t) (.indexGet r k) → (∀ ix ca, Post (k ix ca)) →
      (∀ s, Same s c.s → ((Prog.indexGet r k).alone s).2 = a) → ThreadIn c t a A
  | post (p : Prog σ) : c.wlock ≠ some t → t ∉ c.rlocks → Running (c.thread t) p → Post p →
      (∀ s, (p.alone s).2 = a) → ThreadIn c t a A

/-- a request that is not linearized yet: in its blob phase, holding nothing, meaning what it meant at the start -/
def ThreadOut (progs : List (Prog σ)) (c : Cfg σ) (t : Nat) : Prop :=
  ∃ p p0, progs[t]? = some p0 ∧ Running (c.thread t) p ∧ Pre p ∧ Plain p0 ∧ c.wlock ≠ some t ∧ t ∉ c.rlocks ∧
    ∀ s, AEq (p.alone s) (p0.alone s)

structure Inv (progs : List (Prog σ)) (s0 : σ.S) (c : Cfg σ) (lin : List Nat) : Prop where
  len : c.threads.length = progs.length
  nodup : lin.Nodup
  bound : ∀ t ∈ lin, t < progs.length
  out : ∀ t, t < progs.length → t ∉ lin → ThreadOut progs c t
  inn : ∀ t ∈ lin, ∃ a, (t, a) ∈ (spec progs s0 lin).2 ∧ ThreadIn c t a (spec progs s0 lin).1
  nolock : c.wlock = none → Same c.s (spec progs s0 lin).1
  wl : ∀ h, c.wlock = some h → h ∈ lin ∧ c.rlocks = []
  rl : ∀ t ∈ c.rlocks, t ∈ lin

theorem filter_ne_of_not_mem (l : List Nat) (u : Nat) (h : u ∉ l) : l.filter (· != u) = l := by
  apply List.filter_eq_self.mpr
  intro a ha
  have : a ≠ u := fun e => h (e ▸ ha)
  simp [this]

theorem mem_filter_ne (l : List Nat) (u t : Nat) (htu : t ≠ u) : t ∈ l.filter (· != u) ↔ t ∈ l := by
  simp [List.mem_filter, htu]

/-- a blob action (or none) is next -/
def Prog.blobNext : Prog σ → Bool
  | .done _ | .repoGet .. | .blobGet .. | .blobCreate .. | .blobDelete .. => true
  | _ => false

theorem blobNext_same (L : Ideal σ) (p : Prog σ) (h : p.blobNext = true) (s : σ.S) : Same (nextS p s) s := by
  cases p <;> simp [Prog.blobNext] at h
  · exact Same.refl _
  · exact L.index_repoGet _ _
  · exact same_afterGet L s _ _
  · exact L.index_blobCreate _ _ _ _
  · exact L.index_blobDelete _ _ _

theorem blobNext_cont (L : Ideal σ) (p : Prog σ) (h : p.blobNext = true) (s s' : σ.S) : nextP p s = nextP p s' := by
  cases p <;> simp [Prog.blobNext] at h <;> simp [nextP, L.read_eq]

theorem blobNext_W (p : Prog σ) (h : p.blobNext = true) (w : Option Nat) (t : Nat) : nextW w t p = w := by
  cases p <;> simp [Prog.blobNext] at h <;> rfl

theorem blobNext_R (p : Prog σ) (h : p.blobNext = true) (rl : List Nat) (t : Nat) (ht : t ∉ rl) : nextR rl t p = rl := by
  cases p <;> simp [Prog.blobNext] at h <;> simp [nextR, filter_ne_of_not_mem rl t ht]

theorem post_blobNext {p : Prog σ} (h : Post p) : p.blobNext = true := by cases h <;> rfl
theorem post_next {p : Prog σ} (h : Post p) (s : σ.S) : Post (nextP p s) := by
  cases h with
  | done a => exact .done a
  | repoGet h => exact h
  | blobGet h => exact h _
  | blobCreate h => exact h
  | blobDelete h => exact h _

theorem pre_next {p : Prog σ} (h : Pre p) (hb : p.blobNext = true) (s : σ.S) : Pre (nextP p s) := by
  cases h with
  | done a => exact .done a
  | repoGet h => exact h
  | blobGet h => exact h _
  | blobCreate h => exact h
  | blobDelete h => exact h _
  | lock _ => simp [Prog.blobNext] at hb
  | rlock _ => simp [Prog.blobNext] at hb

theorem crit_next {p : Prog σ} (h : Crit p) (s : σ.S) : Crit (nextP p s) := by
  cases h with
  | done a => exact .done a
  | repoGet h => exact h
  | blobGet h => exact h _
  | blobCreate h => exact h
  | blobDelete h => exact h _
  | indexGet h => exact h _ _
  | indexInsert h => exact h
  | indexRemove h => exact h

theorem crit_W {p : Prog σ} (h : Crit p) (w : Option Nat) (t : Nat) : nextW w t p = w := by cases h <;> rfl
theorem crit_R_nil {p : Prog σ} (h : Crit p) (t : Nat) : nextR [] t p = [] := by cases h <;> rfl

/-- a program whose next action is a blob action means, from any store, what its continuation means -/
theorem blobNext_alone (L : Ideal σ) {p : Prog σ} (hp : Plain (nextP p s0')) (h : p.blobNext = true) (s : σ.S) :
    AEq (p.alone s) ((nextP p s0').alone s) := by
  rw [alone_next p s, blobNext_cont L p h s s0']
  exact alone_congr L hp (blobNext_same L p h s)

theorem landed_done_or (th : Thread σ) (p : Prog σ) (h : Landed th p) :
    (∃ a, p = .done a ∧ Finished th a) ∨ (p.isDone = false ∧ Running th p) := by
  cases p with
  | done a => exact .inl ⟨a, rfl, h⟩
  | _ => exact .inr ⟨rfl, h⟩

theorem running_enabled_lt (c : Cfg σ) (u : Nat) (h : c.enabled u = true) : u < c.threads.length := by
  apply Classical.byContradiction
  intro hn
  have : c.thread u = {} := by
    unfold Cfg.thread
    simp [List.getD_eq_getElem?_getD, List.getElem?_eq_none (Nat.le_of_not_lt hn)]
  simp [Cfg.enabled, this] at h

/-- what one step of a running thread `u` with program `p` leaves -/
structure StepFacts (c : Cfg σ) (u : Nat) (p : Prog σ) (c' : Cfg σ) : Prop where
  s : c'.s = nextS p c.s
  rl : c'.rlocks = nextR c.rlocks u p
  wl : c'.wlock = if (nextP p c.s).isDone ∧ nextW c.wlock u p = some u then none else nextW c.wlock u p
  len : c'.threads.length = c.threads.length
  others : ∀ t, t ≠ u → c'.thread t = c.thread t
  me : Landed (c'.thread u) (nextP p c.s)

theorem step_facts (c : Cfg σ) (u : Nat) (p : Prog σ) (hr : Running (c.thread u) p) (hu : u < c.threads.length) :
    StepFacts c u p (c.step u) := by
  rw [step_eq c u p hr.1]
  let c1 : Cfg σ := { c with s := nextS p c.s, wlock := nextW c.wlock u p, rlocks := nextR c.rlocks u p, flight := nextF c.flight u p }
  have hf := continue_fields c1 u (nextP p c.s)
  have ht := fun t => continue_thread c1 t u (nextP p c.s) p hu hr
  exact ⟨hf.1, hf.2.1, hf.2.2.2, hf.2.2.1, fun t h => (ht t).1 h, (ht u).2⟩

theorem threadIn_mono {c : Cfg σ} {t : Nat} {a : σ.A} {A A' : σ.S} (h : ThreadIn c t a A) (hA : Same A' A) : ThreadIn c t a A' := by
  cases h with
  | fin h1 h2 h3 => exact .fin h1 h2 h3
  | hold p h1 h2 h3 h4 => exact .hold p h1 h2 h3 ⟨h4.1.trans hA.symm, h4.2⟩
  | read r k h1 h2 h3 h4 h5 => exact .read r k h1 h2 h3 h4 h5
  | post p h1 h2 h3 h4 h5 => exact .post p h1 h2 h3 h4 h5

/-- the step of `u` as seen by the other requests -/
theorem others_kept (L : Ideal σ) (progs : List (Prog σ)) (s0 : σ.S) (c c' : Cfg σ) (lin lin' : List Nat) (u : Nat)
    (hI : Inv progs s0 c lin)
    (hoth : ∀ t, t ≠ u → c'.thread t = c.thread t)
    (hwl : ∀ t, t ≠ u → (c'.wlock = some t ↔ c.wlock = some t))
    (hrl : ∀ t, t ≠ u → (t ∈ c'.rlocks ↔ t ∈ c.rlocks))
    (hs : Same c'.s c.s ∨ c.wlock = some u)
    (hA : Same (spec progs s0 lin').1 (spec progs s0 lin).1 ∨ c.wlock = none)
    (hmono : ∀ x, x ∈ (spec progs s0 lin).2 → x ∈ (spec progs s0 lin').2) :
    (∀ t, t ≠ u → ThreadOut progs c t → ThreadOut progs c' t) ∧
    (∀ t, t ≠ u → t ∈ lin → ∃ a, (t, a) ∈ (spec progs s0 lin').2 ∧ ThreadIn c' t a (spec progs s0 lin').1) := by
  constructor
  · intro t ht ⟨p, p0, h0, hr, hpre, hpl, hw, hr', hall⟩
    refine ⟨p, p0, h0, ?_, hpre, hpl, ?_, ?_, hall⟩
    · rw [hoth t ht]; exact hr
    · intro e; exact hw ((hwl t ht).mp e)
    · intro e; exact hr' ((hrl t ht).mp e)
  · intro t ht hin
    obtain ⟨a, hmem, hth⟩ := hI.inn t hin
    refine ⟨a, hmono _ hmem, ?_⟩
    cases hth with
    | fin h1 h2 h3 =>
      exact .fin (by rw [hoth t ht]; exact h1) (fun e => h2 ((hwl t ht).mp e)) (fun e => h3 ((hrl t ht).mp e))
    | hold p h1 h2 h3 h4 =>
      cases hA with
      | inr hA => rw [h1] at hA; cases hA
      | inl hA =>
        cases hs with
        | inl hs =>
          refine .hold p ((hwl t ht).mpr h1) (by rw [hoth t ht]; exact h2) h3 ?_
          exact ((alone_congr L h3.plain hs).trans h4).trans ⟨hA.symm, rfl⟩
        | inr hs => rw [h1] at hs; cases hs; exact absurd rfl ht
    | read r k h1 h2 h3 h4 h5 =>
      cases hs with
      | inl hs =>
        exact .read r k ((hrl t ht).mpr h1) (fun e => h2 ((hwl t ht).mp e)) (by rw [hoth t ht]; exact h3) h4
          (fun s hss => h5 s (hss.trans hs))
      | inr hs => have := (hI.wl u hs).2; rw [this] at h1; cases h1
    | post p h1 h2 h3 h4 h5 =>
      exact .post p (fun e => h1 ((hwl t ht).mp e)) (fun e => h2 ((hrl t ht).mp e)) (by rw [hoth t ht]; exact h3) h4 h5

theorem isDone_done (a : σ.A) : (Prog.done a : Prog σ).isDone = true := rfl

/-- a request after its section takes a blob action -/
theorem inv_step_post (L : Ideal σ) (progs : List (Prog σ)) (s0 : σ.S) (c : Cfg σ) (lin : List Nat) (u : Nat) (a : σ.A)
    (hI : Inv progs s0 c lin) (hu : u < c.threads.length) (hin : u ∈ lin) (hmem : (u, a) ∈ (spec progs s0 lin).2)
    (p : Prog σ) (h1 : c.wlock ≠ some u) (h2 : u ∉ c.rlocks) (h3 : Running (c.thread u) p) (h4 : Post p)
    (h5 : ∀ s, (p.alone s).2 = a) : Inv progs s0 (c.step u) lin := by
  have hF := step_facts c u p h3 hu
  have hb := post_blobNext h4
  have hsame : Same (c.step u).s c.s := by rw [hF.s]; exact blobNext_same L p hb c.s
  have hrl : (c.step u).rlocks = c.rlocks := by rw [hF.rl]; exact blobNext_R p hb _ _ h2
  have hwl : (c.step u).wlock = c.wlock := by
    rw [hF.wl, blobNext_W p hb]; simp [h1]
  have hK := others_kept L progs s0 c (c.step u) lin lin u hI hF.others (fun t _ => by rw [hwl]) (fun t _ => by rw [hrl])
    (.inl hsame) (.inl (Same.refl _)) (fun x hx => hx)
  refine ⟨hF.len.trans hI.len, hI.nodup, hI.bound, ?_, ?_, ?_, ?_, ?_⟩
  · intro t ht hnl
    have htu : t ≠ u := fun e => hnl (e ▸ hin)
    exact hK.1 t htu (hI.out t ht hnl)
  · intro t ht
    by_cases htu : t = u
    · subst htu
      refine ⟨a, hmem, ?_⟩
      have hp' := post_next h4 c.s
      rcases landed_done_or _ _ hF.me with ⟨a', hd, hfin⟩ | ⟨_, hrun⟩
      · have : a' = a := by
          have := h5 c.s
          rw [alone_next, hd] at this
          exact this
        subst this
        exact .fin hfin (by rw [hwl]; exact h1) (by rw [hrl]; exact h2)
      · refine .post _ (by rw [hwl]; exact h1) (by rw [hrl]; exact h2) hrun hp' ?_
        intro s
        rw [post_const L hp' s (nextS p c.s), ← alone_next]
        exact h5 c.s
    · exact hK.2 t htu ht
  · intro hn
    rw [hwl] at hn
    exact hsame.trans (hI.nolock hn)
  · intro h hh
    rw [hwl] at hh
    rw [hrl]
    exact hI.wl h hh
  · intro t ht
    rw [hrl] at ht
    exact hI.rl t ht

/-- a reader performs its `IndexGet` and releases the read lock -/
theorem inv_step_read (L : Ideal σ) (progs : List (Prog σ)) (s0 : σ.S) (c : Cfg σ) (lin : List Nat) (u : Nat) (a : σ.A)
    (hI : Inv progs s0 c lin) (hu : u < c.threads.length) (hin : u ∈ lin) (hmem : (u, a) ∈ (spec progs s0 lin).2)
    (r : σ.R) (k : σ.Ix → (σ.K → Option σ.A) → Prog σ) (h1 : u ∈ c.rlocks) (h2 : c.wlock ≠ some u)
    (h3 : Running (c.thread u) (.indexGet r k)) (h4 : ∀ ix ca, Post (k ix ca))
    (h5 : ∀ s, Same s c.s → ((Prog.indexGet r k).alone s).2 = a) : Inv progs s0 (c.step u) lin := by
  have hF := step_facts c u _ h3 hu
  have hs : (c.step u).s = c.s := hF.s
  have hrl : (c.step u).rlocks = c.rlocks.filter (· != u) := hF.rl
  have hwl : (c.step u).wlock = c.wlock := by
    rw [hF.wl]; simp [nextW, h2]
  have hK := others_kept L progs s0 c (c.step u) lin lin u hI hF.others (fun t _ => by rw [hwl])
    (fun t ht => by rw [hrl]; exact mem_filter_ne _ _ _ ht) (.inl (by rw [hs]; exact Same.refl _)) (.inl (Same.refl _)) (fun x hx => hx)
  have hnu : u ∉ (c.step u).rlocks := by rw [hrl]; simp [List.mem_filter]
  refine ⟨hF.len.trans hI.len, hI.nodup, hI.bound, ?_, ?_, ?_, ?_, ?_⟩
  · intro t ht hnl
    have htu : t ≠ u := fun e => hnl (e ▸ hin)
    exact hK.1 t htu (hI.out t ht hnl)
  · intro t ht
    by_cases htu : t = u
    · subst htu
      refine ⟨a, hmem, ?_⟩
      have hp' : Post (nextP (.indexGet r k) c.s) := h4 _ _
      have hans : ((nextP (.indexGet r k) c.s).alone c.s).2 = a := h5 c.s (Same.refl _)
      rcases landed_done_or _ _ hF.me with ⟨a', hd, hfin⟩ | ⟨_, hrun⟩
      · have : a' = a := by rw [hd] at hans; exact hans
        subst this
        exact .fin hfin (by rw [hwl]; exact h2) hnu
      · refine .post _ (by rw [hwl]; exact h2) hnu hrun hp' ?_
        intro s
        rw [post_const L hp' s c.s]
        exact hans
    · exact hK.2 t htu ht
  · intro hn
    rw [hwl] at hn
    rw [hs]
    exact hI.nolock hn
  · intro h hh
    rw [hwl] at hh
    have := (hI.wl h hh).2
    rw [this] at h1
    cases h1
  · intro t ht
    rw [hrl] at ht
    exact hI.rl t (List.mem_filter.mp ht).1

/-- the holder of the write lock takes an action of its section -/
theorem inv_step_hold (L : Ideal σ) (progs : List (Prog σ)) (s0 : σ.S) (c : Cfg σ) (lin : List Nat) (u : Nat) (a : σ.A)
    (hI : Inv progs s0 c lin) (hu : u < c.threads.length) (hin : u ∈ lin) (hmem : (u, a) ∈ (spec progs s0 lin).2)
    (p : Prog σ) (h1 : c.wlock = some u) (h2 : Running (c.thread u) p) (h3 : Crit p)
    (h4 : AEq (p.alone c.s) ((spec progs s0 lin).1, a)) : Inv progs s0 (c.step u) lin := by
  have hF := step_facts c u p h2 hu
  have hr0 : c.rlocks = [] := (hI.wl u h1).2
  have hrl : (c.step u).rlocks = [] := by rw [hF.rl, hr0]; exact crit_R_nil h3 u
  have hwl : (c.step u).wlock = if (nextP p c.s).isDone then none else some u := by
    rw [hF.wl, crit_W h3, h1]; simp
  have hwl' : ∀ t, t ≠ u → ((c.step u).wlock = some t ↔ c.wlock = some t) := by
    intro t ht
    rw [hwl, h1]
    constructor
    · intro e; split at e
      · cases e
      · exact e
    · intro e; cases e; exact absurd rfl ht
  have hK := others_kept L progs s0 c (c.step u) lin lin u hI hF.others hwl' (fun t _ => by rw [hrl, hr0])
    (.inr h1) (.inl (Same.refl _)) (fun x hx => hx)
  have hal : p.alone c.s = (nextP p c.s).alone (c.step u).s := by rw [hF.s]; exact alone_next p c.s
  refine ⟨hF.len.trans hI.len, hI.nodup, hI.bound, ?_, ?_, ?_, ?_, ?_⟩
  · intro t ht hnl
    have htu : t ≠ u := fun e => hnl (e ▸ hin)
    exact hK.1 t htu (hI.out t ht hnl)
  · intro t ht
    by_cases htu : t = u
    · subst htu
      refine ⟨a, hmem, ?_⟩
      rcases landed_done_or _ _ hF.me with ⟨a', hd, hfin⟩ | ⟨hnd, hrun⟩
      · rw [hal, hd] at h4
        have : a' = a := h4.2
        subst this
        exact .fin hfin (by rw [hwl, hd]; simp [Prog.isDone]) (by rw [hrl]; simp)
      · refine .hold _ (by rw [hwl, hnd]; simp) hrun (crit_next h3 _) ?_
        rw [← hal]; exact h4
    · exact hK.2 t htu ht
  · intro hn
    rw [hwl] at hn
    cases hd : (nextP p c.s).isDone with
    | false => rw [hd] at hn; simp at hn
    | true =>
      cases hp : nextP p c.s with
      | done a' =>
        rw [hal, hp] at h4
        exact h4.1
      | _ => rw [hp] at hd; simp [Prog.isDone] at hd
  · intro h hh
    rw [hwl] at hh
    split at hh
    · cases hh
    · cases hh; exact ⟨hin, hrl⟩
  · intro t ht
    rw [hrl] at ht
    cases ht

theorem spec_mono (progs : List (Prog σ)) (s0 : σ.S) (lin : List Nat) (u : Nat) (p0 : Prog σ) (h : progs[u]? = some p0) :
    ∀ x, x ∈ (spec progs s0 lin).2 → x ∈ (spec progs s0 (lin ++ [u])).2 := by
  intro x hx
  rw [spec_snoc progs s0 lin u p0 h]
  exact List.mem_append_left _ hx

theorem spec_last (progs : List (Prog σ)) (s0 : σ.S) (lin : List Nat) (u : Nat) (p0 : Prog σ) (h : progs[u]? = some p0) :
    (u, (p0.alone (spec progs s0 lin).1).2) ∈ (spec progs s0 (lin ++ [u])).2 := by
  rw [spec_snoc progs s0 lin u p0 h]
  simp

/-- a request in its blob phase takes a blob action; if it returns with that, it is linearized now -/
theorem inv_step_blob (L : Ideal σ) (progs : List (Prog σ)) (s0 : σ.S) (c : Cfg σ) (lin : List Nat) (u : Nat)
    (hI : Inv progs s0 c lin) (hu : u < c.threads.length) (hout : u ∉ lin)
    (p p0 : Prog σ) (h0 : progs[u]? = some p0) (hr : Running (c.thread u) p) (hpre : Pre p) (hpl : Plain p0)
    (hw : c.wlock ≠ some u) (hnr : u ∉ c.rlocks) (hall : ∀ s, AEq (p.alone s) (p0.alone s)) (hb : p.blobNext = true) :
    ∃ lin', Inv progs s0 (c.step u) lin' := by
  have hF := step_facts c u p hr hu
  have hsame : Same (c.step u).s c.s := by rw [hF.s]; exact blobNext_same L p hb c.s
  have hrl : (c.step u).rlocks = c.rlocks := by rw [hF.rl]; exact blobNext_R p hb _ _ hnr
  have hwl : (c.step u).wlock = c.wlock := by
    rw [hF.wl, blobNext_W p hb]; simp [hw]
  have hp' := pre_next hpre hb c.s
  have hcont : ∀ s, AEq (p.alone s) ((nextP p c.s).alone s) := fun s => blobNext_alone L hp'.plain hb s
  rcases landed_done_or _ _ hF.me with ⟨a', hd, hfin⟩ | ⟨_, hrun⟩
  · -- returned without ever taking the lock: the request changed no index
    let A := (spec progs s0 lin).1
    have hA1 : AEq (p0.alone A) (A, a') := by
      have := (hall A).symm.trans (hcont A)
      rw [hd] at this
      exact this
    have hA : Same (spec progs s0 (lin ++ [u])).1 A := by
      rw [spec_snoc progs s0 lin u p0 h0]; exact hA1.1
    have hK := others_kept L progs s0 c (c.step u) lin (lin ++ [u]) u hI hF.others (fun t _ => by rw [hwl]) (fun t _ => by rw [hrl])
      (.inl hsame) (.inl hA) (spec_mono progs s0 lin u p0 h0)
    refine ⟨lin ++ [u], hF.len.trans hI.len, ?_, ?_, ?_, ?_, ?_, ?_, ?_⟩
    · exact List.nodup_append.mpr ⟨hI.nodup, by simp, by intro x hx y hy; simp at hy; subst hy; exact fun e => hout (e ▸ hx)⟩
    · intro t ht
      rcases List.mem_append.mp ht with ht | ht
      · exact hI.bound t ht
      · simp at ht; subst ht; rw [← hI.len]; exact hu
    · intro t ht hnl
      have hnl' : t ∉ lin := fun e => hnl (List.mem_append_left _ e)
      have htu : t ≠ u := fun e => hnl (by simp [e])
      exact hK.1 t htu (hI.out t ht hnl')
    · intro t ht
      by_cases htu : t = u
      · subst htu
        refine ⟨a', ?_, .fin hfin (by rw [hwl]; exact hw) (by rw [hrl]; exact hnr)⟩
        have := spec_last progs s0 lin t p0 h0
        rw [hA1.2] at this
        exact this
      · have : t ∈ lin := by
          rcases List.mem_append.mp ht with ht | ht
          · exact ht
          · simp at ht; exact absurd ht htu
        exact hK.2 t htu this
    · intro hn
      rw [hwl] at hn
      exact (hsame.trans (hI.nolock hn)).trans hA.symm
    · intro h hh
      rw [hwl] at hh
      rw [hrl]
      exact ⟨List.mem_append_left _ (hI.wl h hh).1, (hI.wl h hh).2⟩
    · intro t ht
      rw [hrl] at ht
      exact List.mem_append_left _ (hI.rl t ht)
  · have hK := others_kept L progs s0 c (c.step u) lin lin u hI hF.others (fun t _ => by rw [hwl]) (fun t _ => by rw [hrl])
      (.inl hsame) (.inl (Same.refl _)) (fun x hx => hx)
    refine ⟨lin, hF.len.trans hI.len, hI.nodup, hI.bound, ?_, ?_, ?_, ?_, ?_⟩
    · intro t ht hnl
      by_cases htu : t = u
      · subst htu
        exact ⟨_, p0, h0, hrun, hp', hpl, by rw [hwl]; exact hw, by rw [hrl]; exact hnr, fun s => (hcont s).symm.trans (hall s)⟩
      · exact hK.1 t htu (hI.out t ht hnl)
    · intro t ht
      have htu : t ≠ u := fun e => hout (e ▸ ht)
      exact hK.2 t htu ht
    · intro hn
      rw [hwl] at hn
      exact hsame.trans (hI.nolock hn)
    · intro h hh
      rw [hwl] at hh
      rw [hrl]
      exact hI.wl h hh
    · intro t ht
      rw [hrl] at ht
      exact hI.rl t ht

theorem nodup_snoc {lin : List Nat} {u : Nat} (h : lin.Nodup) (hout : u ∉ lin) : (lin ++ [u]).Nodup :=
  List.nodup_append.mpr ⟨h, by simp, by intro x hx y hy; simp at hy; subst hy; exact fun e => hout (e ▸ hx)⟩

theorem mem_snoc {lin : List Nat} {u t : Nat} (h : t ∈ lin ++ [u]) (htu : t ≠ u) : t ∈ lin := by
  rcases List.mem_append.mp h with h | h
  · exact h
  · simp at h; exact absurd h htu

/-- a request takes the write lock: it is linearized now -/
theorem inv_step_lock (L : Ideal σ) (progs : List (Prog σ)) (s0 : σ.S) (c : Cfg σ) (lin : List Nat) (u : Nat)
    (hI : Inv progs s0 c lin) (hu : u < c.threads.length) (hout : u ∉ lin)
    (k p0 : Prog σ) (h0 : progs[u]? = some p0) (hr : Running (c.thread u) (.lock k)) (hk : Crit k) (hpl : Plain p0)
    (hall : ∀ s, AEq ((Prog.lock k).alone s) (p0.alone s)) (hw0 : c.wlock = none) (hr0 : c.rlocks = []) :
    Inv progs s0 (c.step u) (lin ++ [u]) := by
  have hF := step_facts c u _ hr hu
  have hs : (c.step u).s = c.s := hF.s
  have hrl : (c.step u).rlocks = [] := by rw [hF.rl, hr0]; rfl
  have hwl : (c.step u).wlock = if k.isDone then none else some u := by
    rw [hF.wl]; simp [nextW, nextP]
  have hwl' : ∀ t, t ≠ u → ((c.step u).wlock = some t ↔ c.wlock = some t) := by
    intro t ht
    rw [hwl, hw0]
    constructor
    · intro e; split at e
      · cases e
      · cases e; exact absurd rfl ht
    · intro e; cases e
  let A := (spec progs s0 lin).1
  let a := (p0.alone A).2
  have hcs : Same c.s A := hI.nolock hw0
  -- the section run alone from the current store ends where the specification ends after this request
  have hsec : AEq (k.alone c.s) ((spec progs s0 (lin ++ [u])).1, a) := by
    rw [spec_snoc progs s0 lin u p0 h0]
    exact ((alone_congr L hk.plain hcs).trans (hall A)).trans ⟨Same.refl _, rfl⟩
  have hK := others_kept L progs s0 c (c.step u) lin (lin ++ [u]) u hI hF.others hwl' (fun t _ => by rw [hrl, hr0])
    (.inl (by rw [hs]; exact Same.refl _)) (.inr hw0) (spec_mono progs s0 lin u p0 h0)
  refine ⟨hF.len.trans hI.len, nodup_snoc hI.nodup hout, ?_, ?_, ?_, ?_, ?_, ?_⟩
  · intro t ht
    by_cases htu : t = u
    · subst htu; rw [← hI.len]; exact hu
    · exact hI.bound t (mem_snoc ht htu)
  · intro t ht hnl
    have hnl' : t ∉ lin := fun e => hnl (List.mem_append_left _ e)
    have htu : t ≠ u := fun e => hnl (by simp [e])
    exact hK.1 t htu (hI.out t ht hnl')
  · intro t ht
    by_cases htu : t = u
    · subst htu
      refine ⟨a, spec_last progs s0 lin t p0 h0, ?_⟩
      have hme : Landed ((c.step t).thread t) k := hF.me
      rcases landed_done_or _ _ hme with ⟨a', hd, hfin⟩ | ⟨hnd, hrun⟩
      · rw [hd] at hsec
        have : a' = a := hsec.2
        rw [this] at hfin
        exact .fin hfin (by rw [hwl, hd]; simp [Prog.isDone]) (by rw [hrl]; simp)
      · exact .hold k (by rw [hwl, hnd]; simp) hrun hk (by rw [hs]; exact hsec)
    · exact hK.2 t htu (mem_snoc ht htu)
  · intro hn
    rw [hwl] at hn
    cases hd : k.isDone with
    | false => rw [hd] at hn; simp at hn
    | true =>
      cases hp : k with
      | done a' =>
        rw [hp] at hsec
        rw [hs]
        exact hsec.1
      | _ => rw [hp] at hd; simp [Prog.isDone] at hd
  · intro h hh
    rw [hwl] at hh
    split at hh
    · cases hh
    · cases hh; exact ⟨by simp, hrl⟩
  · intro t ht
    rw [hrl] at ht
    cases ht

/-- a request takes the read lock: it is linearized now (no writer can start before it has read) -/
theorem inv_step_rlock (L : Ideal σ) (progs : List (Prog σ)) (s0 : σ.S) (c : Cfg σ) (lin : List Nat) (u : Nat)
    (hI : Inv progs s0 c lin) (hu : u < c.threads.length) (hout : u ∉ lin)
    (r : σ.R) (k : σ.Ix → (σ.K → Option σ.A) → Prog σ) (p0 : Prog σ) (h0 : progs[u]? = some p0)
    (hr : Running (c.thread u) (.rlock (.indexGet r k))) (hk : ∀ ix ca, Post (k ix ca)) (hpl : Plain p0)
    (hall : ∀ s, AEq ((Prog.rlock (.indexGet r k)).alone s) (p0.alone s)) (hw0 : c.wlock = none) :
    Inv progs s0 (c.step u) (lin ++ [u]) := by
  have hF := step_facts c u _ hr hu
  have hs : (c.step u).s = c.s := hF.s
  have hrl : (c.step u).rlocks = u :: c.rlocks := hF.rl
  have hwl : (c.step u).wlock = none := by
    rw [hF.wl]; simp [nextW, hw0]
  let A := (spec progs s0 lin).1
  let a := (p0.alone A).2
  have hcs : Same c.s A := hI.nolock hw0
  -- the request changes no index
  have hA : Same (spec progs s0 (lin ++ [u])).1 A := by
    rw [spec_snoc progs s0 lin u p0 h0]
    exact (hall A).1.symm.trans (post_frame L (hk _ _) A)
  have hK := others_kept L progs s0 c (c.step u) lin (lin ++ [u]) u hI hF.others (fun t _ => by rw [hwl, hw0])
    (fun t ht => by rw [hrl]; simp [ht]) (.inl (by rw [hs]; exact Same.refl _)) (.inl hA) (spec_mono progs s0 lin u p0 h0)
  refine ⟨hF.len.trans hI.len, nodup_snoc hI.nodup hout, ?_, ?_, ?_, ?_, ?_, ?_⟩
  · intro t ht
    by_cases htu : t = u
    · subst htu; rw [← hI.len]; exact hu
    · exact hI.bound t (mem_snoc ht htu)
  · intro t ht hnl
    have hnl' : t ∉ lin := fun e => hnl (List.mem_append_left _ e)
    have htu : t ≠ u := fun e => hnl (by simp [e])
    exact hK.1 t htu (hI.out t ht hnl')
  · intro t ht
    by_cases htu : t = u
    · subst htu
      refine ⟨a, spec_last progs s0 lin t p0 h0, ?_⟩
      have hme : Landed ((c.step t).thread t) (.indexGet r k) := hF.me
      refine .read r k (by rw [hrl]; simp) (by rw [hwl]; simp) hme hk ?_
      intro s hss
      rw [hs] at hss
      have h1 : ((Prog.indexGet r k).alone s).2 = (p0.alone s).2 := (hall s).2
      rw [h1]
      exact (alone_congr L hpl (hss.trans hcs)).2
    · exact hK.2 t htu (mem_snoc ht htu)
  · intro _
    rw [hs]
    exact hcs.trans hA.symm
  · intro h hh
    rw [hwl] at hh
    cases hh
  · intro t ht
    rw [hrl] at ht
    rcases List.mem_cons.mp ht with e | e
    · subst e; simp
    · exact List.mem_append_left _ (hI.rl t e)

/-- the invariant is kept by every step of the scheduler -/
theorem inv_step (L : Ideal σ) (progs : List (Prog σ)) (s0 : σ.S) (c : Cfg σ) (lin : List Nat) (u : Nat)
    (hI : Inv progs s0 c lin) (hen : c.enabled u = true) : ∃ lin', Inv progs s0 (c.step u) lin' := by
  have hu := running_enabled_lt c u hen
  by_cases hin : u ∈ lin
  · obtain ⟨a, hmem, hth⟩ := hI.inn u hin
    cases hth with
    | fin h1 _ _ => simp [Cfg.enabled, h1.1] at hen
    | hold p h1 h2 h3 h4 => exact ⟨lin, inv_step_hold L progs s0 c lin u a hI hu hin hmem p h1 h2 h3 h4⟩
    | read r k h1 h2 h3 h4 h5 => exact ⟨lin, inv_step_read L progs s0 c lin u a hI hu hin hmem r k h1 h2 h3 h4 h5⟩
    | post p h1 h2 h3 h4 h5 => exact ⟨lin, inv_step_post L progs s0 c lin u a hI hu hin hmem p h1 h2 h3 h4 h5⟩
  · have hup : u < progs.length := by rw [← hI.len]; exact hu
    obtain ⟨p, p0, h0, hr, hpre, hpl, hw, hnr, hall⟩ := hI.out u hup hin
    cases hpre with
    | done a => exact inv_step_blob L progs s0 c lin u hI hu hin _ p0 h0 hr (.done a) hpl hw hnr hall rfl
    | repoGet h => exact inv_step_blob L progs s0 c lin u hI hu hin _ p0 h0 hr (.repoGet h) hpl hw hnr hall rfl
    | blobGet h => exact inv_step_blob L progs s0 c lin u hI hu hin _ p0 h0 hr (.blobGet h) hpl hw hnr hall rfl
    | blobCreate h => exact inv_step_blob L progs s0 c lin u hI hu hin _ p0 h0 hr (.blobCreate h) hpl hw hnr hall rfl
    | blobDelete h => exact inv_step_blob L progs s0 c lin u hI hu hin _ p0 h0 hr (.blobDelete h) hpl hw hnr hall rfl
    | lock hk =>
      have : c.wlock = none ∧ c.rlocks = [] := by
        simp [Cfg.enabled, hr.1] at hen
        exact ⟨hen.1, hen.2⟩
      exact ⟨_, inv_step_lock L progs s0 c lin u hI hu hin _ p0 h0 hr hk hpl hall this.1 this.2⟩
    | rlock hk =>
      have : c.wlock = none := by
        simp [Cfg.enabled, hr.1] at hen
        exact hen
      exact ⟨_, inv_step_rlock L progs s0 c lin u hI hu hin _ _ p0 h0 hr hk hpl hall this⟩

theorem inv_exec (L : Ideal σ) (progs : List (Prog σ)) (s0 : σ.S) :
    ∀ (sched : List Nat) (c : Cfg σ) (lin : List Nat), Inv progs s0 c lin → ∃ lin', Inv progs s0 (exec sched c) lin' := by
  intro sched
  induction sched with
  | nil => intro c lin h; exact ⟨lin, h⟩
  | cons t ts ih =>
    intro c lin h
    unfold exec
    by_cases hen : c.enabled t = true
    · rw [if_pos hen]
      obtain ⟨lin', h'⟩ := inv_step L progs s0 c lin t h hen
      exact ih _ lin' h'
    · rw [if_neg hen]
      exact ih c lin h

theorem firstEnabled_enabled (c : Cfg σ) : ∀ (n t0 t : Nat), c.firstEnabled n t0 = some t → c.enabled t = true := by
  intro n
  induction n with
  | zero => intro t0 t h; simp [Cfg.firstEnabled] at h
  | succ n ih =>
    intro t0 t h
    unfold Cfg.firstEnabled at h
    by_cases he : c.enabled t0 = true
    · rw [if_pos he] at h; cases h; exact he
    · rw [if_neg he] at h; exact ih _ _ h

theorem inv_drain (L : Ideal σ) (progs : List (Prog σ)) (s0 : σ.S) :
    ∀ (fuel : Nat) (c : Cfg σ) (lin : List Nat), Inv progs s0 c lin → ∃ lin', Inv progs s0 (drain fuel c) lin' := by
  intro fuel
  induction fuel with
  | zero => intro c lin h; exact ⟨lin, h⟩
  | succ n ih =>
    intro c lin h
    unfold drain
    cases hf : c.firstEnabled c.threads.length 0 with
    | none => exact ⟨lin, h⟩
    | some t =>
      obtain ⟨lin', h'⟩ := inv_step L progs s0 c lin t h (firstEnabled_enabled c _ _ _ hf)
      exact ih _ lin' h'

theorem load_single (p : Prog σ) (h : p.isDone = false) : (Thread.start [p] : Thread σ) = { cur := some p, rest := [], answers := [] } := by
  cases p <;> first | rfl | simp [Prog.isDone] at h

/-- at the start every request is in its blob phase -/
theorem inv_init (progs : List (Prog σ)) (hpre : ∀ p ∈ progs, Pre p ∧ p.isDone = false) (s0 : σ.S) :
    Inv progs s0 (Cfg.init s0 (progs.map fun p => [p])) [] := by
  refine ⟨by simp [Cfg.init], List.nodup_nil, by simp, ?_, by simp, fun _ => Same.refl _, by simp [Cfg.init], by simp [Cfg.init]⟩
  intro t ht _
  have hp : progs[t]? = some progs[t] := List.getElem?_eq_getElem ht
  have hmem : progs[t] ∈ progs := List.getElem_mem ht
  refine ⟨progs[t], progs[t], hp, ?_, (hpre _ hmem).1, (hpre _ hmem).1.plain, by simp [Cfg.init], by simp [Cfg.init], fun s => AEq.refl _⟩
  have : (Cfg.init s0 (progs.map fun p => [p])).thread t = Thread.start [progs[t]] := by
    simp [Cfg.init, Cfg.thread, List.getD_eq_getElem?_getD, ht]
  rw [this, load_single _ (hpre _ hmem).2]
  exact ⟨rfl, rfl, rfl⟩

theorem thread_cur_none_of_allDone (c : Cfg σ) (h : c.allDone = true) (t : Nat) (ht : t < c.threads.length) : (c.thread t).cur = none := by
  have := List.all_eq_true.mp h (c.threads[t]) (List.getElem_mem ht)
  simp [Cfg.thread, List.getD_eq_getElem?_getD, ht]
  simpa using this

/-- **Linearizability** (ideal blob store, lock discipline `rw`): whatever the number of requests and the schedule, if all
    requests have returned there is an order in which the handlers, run one at a time as functions, leave the same index
    in every repository and give every request the answer it got. -/
theorem rw_linearizable (L : Ideal σ) (progs : List (Prog σ)) (hpre : ∀ p ∈ progs, Pre p ∧ p.isDone = false) (s0 : σ.S)
    (sched : List Nat) (fuel : Nat)
    (hdone : (drain fuel (exec sched (Cfg.init s0 (progs.map fun p => [p])))).allDone = true) :
    ∃ order : List Nat, order.Nodup ∧ (∀ t, t ∈ order ↔ t < progs.length) ∧
      Same (drain fuel (exec sched (Cfg.init s0 (progs.map fun p => [p])))).s (spec progs s0 order).1 ∧
      ∀ t, t < progs.length → ∃ a, (t, a) ∈ (spec progs s0 order).2 ∧
        ((drain fuel (exec sched (Cfg.init s0 (progs.map fun p => [p])))).thread t).answers = [a] := by
  obtain ⟨lin1, h1⟩ := inv_exec L progs s0 sched _ [] (inv_init progs hpre s0)
  obtain ⟨lin, hI⟩ := inv_drain L progs s0 fuel _ lin1 h1
  generalize drain fuel (exec sched (Cfg.init s0 (progs.map fun p => [p]))) = c at hdone hI
  have hcur : ∀ t, t < progs.length → (c.thread t).cur = none := fun t ht =>
    thread_cur_none_of_allDone c hdone t (by rw [hI.len]; exact ht)
  have hall : ∀ t, t < progs.length → t ∈ lin := by
    intro t ht
    apply Classical.byContradiction
    intro hn
    obtain ⟨p, _, _, hr, _⟩ := hI.out t ht hn
    have := hr.1
    rw [hcur t ht] at this
    cases this
  have hfin : ∀ t, t ∈ lin → ∃ a, (t, a) ∈ (spec progs s0 lin).2 ∧ Finished (c.thread t) a ∧ c.wlock ≠ some t := by
    intro t ht
    obtain ⟨a, hmem, hth⟩ := hI.inn t ht
    have hc := hcur t (hI.bound t ht)
    cases hth with
    | fin h1 h2 _ => exact ⟨a, hmem, h1, h2⟩
    | hold p _ h2 _ _ => have := h2.1; rw [hc] at this; cases this
    | read r k _ _ h3 _ _ => have := h3.1; rw [hc] at this; cases this
    | post p _ _ h3 _ _ => have := h3.1; rw [hc] at this; cases this
  refine ⟨lin, hI.nodup, fun t => ⟨hI.bound t, hall t⟩, ?_, ?_⟩
  · apply hI.nolock
    cases hw : c.wlock with
    | none => rfl
    | some h =>
      obtain ⟨_, _, _, hne⟩ := hfin h (hI.wl h hw).1
      exact absurd hw hne
  · intro t ht
    obtain ⟨a, hmem, hf, _⟩ := hfin t (hall t ht)
    exact ⟨a, hmem, hf.2.2⟩
end Conc
