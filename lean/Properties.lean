-- property theorems
import Properties.C18
