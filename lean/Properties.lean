-- property theorems
import Properties.C18
import Properties.C20
import Properties.C01
import Properties.C02
import Properties.C03
import Properties.C04
import Properties.C07
import Properties.C08
import Properties.C14
import Properties.C15
import Properties.C16
import Properties.C19
import Properties.C12
import Properties.C13
import Properties.C05
import Properties.C06
import Properties.C10
