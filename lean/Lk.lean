import Lk.Rank
import Lk.Guard
