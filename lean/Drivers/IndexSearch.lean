import Ixd
import Std.Data.HashSet
open Ixd

deriving instance Hashable for Ann
deriving instance Hashable for Desc
deriving instance Hashable for Index

inductive Op | add (d : Desc) | rm (d : Desc) deriving Repr

def alphabet : List Op := Id.run do
  let mut ops := []
  for dig in [1, 2] do
    ops := ops ++ [Op.add { mt := 1, dig := dig, size := 10 }, Op.rm { mt := 1, dig := dig, size := 10 }]
    for tag in [1, 2] do
      ops := ops ++ [Op.add { mt := 1, dig := dig, size := 10, ann := { isNil := false, tag := tag } },
                     Op.rm  { mt := 1, dig := dig, size := 10, ann := { isNil := false, tag := tag } }]
  return ops

def apply (ix : Index) : Op → Index
  | .add d => addDesc ix d
  | .rm d => rmDesc ix d

/-- the invariants of C18 as executable checks -/
def tagUnique (ix : Index) : Bool :=
  [1, 2].all fun t => (ix.manifests.filter (fun e => ¬ e.ann.isNil ∧ e.ann.tag = t)).length ≤ 1
def untaggedOnce (ix : Index) : Bool :=
  [1, 2].all fun g => (ix.manifests.filter (fun e => e.dig = g ∧ e.ann.len = 0)).length ≤ 1

def showOp : Op → String
  | .add d => s!"add(d{d.dig}{if d.ann.tag ≠ 0 then s!":t{d.ann.tag}" else ""})"
  | .rm d => s!"rm(d{d.dig}{if d.ann.tag ≠ 0 then s!":t{d.ann.tag}" else ""})"

partial def bfs (inv : Index → Bool) (frontier : List (Index × List Op)) (seen : Std.HashSet Index) (depth : Nat) (states : Nat) :
    IO Unit := do
  if depth == 0 || frontier.isEmpty then
    IO.println s!"no violation; states explored: {states}"
    return
  let mut next := []
  let mut seen := seen
  let mut states := states
  for (ix, path) in frontier do
    for op in alphabet do
      let ix' := apply ix op
      if !seen.contains ix' then
        seen := seen.insert ix'
        states := states + 1
        if !inv ix' then
          IO.println s!"VIOLATION after {(path ++ [op]).length} ops: {" ; ".intercalate ((path ++ [op]).map showOp)}  (states explored: {states})"
          return
        next := (ix', path ++ [op]) :: next
  bfs inv next seen (depth - 1) states

def main : IO Unit := do
  IO.println "untagged-once:"
  bfs untaggedOnce [({}, [])] (Std.HashSet.emptyWithCapacity.insert {}) 8 1
  IO.println "tag-unique:"
  bfs tagUnique [({}, [])] (Std.HashSet.emptyWithCapacity.insert {}) 8 1
