import Upd.Router
import Upd.GC
open Upd

def kv (toks : List String) (k : String) : String :=
  match toks.find? (fun t => t.startsWith (k ++ "=")) with
  | some t => (t.drop (k.length + 1)).toString
  | none => ""

def mkQ (t : List String) : Q :=
  { mount := kv t "mount", fromR := kv t "from", digest := kv t "digest", algo := kv t "algo",
    cr := kv t "cr", state := kv t "state", body := kv t "body" }

def csv (s : String) : List String := if s = "" then [] else s.splitOn ","

/-- digest tokens are canonicalised (`x*40` and its expansion are one digest) -/
def canonDig (tok : String) : String := match DigArg.parse tok with | .ok d => d.str | .bad => tok

def parseChild (s : String) : Desc :=
  match s.splitOn "/" with
  | [mt, dig, size] => { mt := mt, dig := canonDig dig, size := size.toNat?.getD 0 }
  | _ => {}

def mkBody (kind : String) (t : List String) : Body :=
  { kind := kind, mtField := kv t "mt", cfg := canonDig (kv t "cfg"), cfgMt := kv t "cfgmt", layers := (csv (kv t "layers")).map canonDig,
    children := ((kv t "children").splitOn ";").filter (· ≠ "") |>.map parseChild,
    subj := canonDig (kv t "subj"), atype := kv t "at", rann := kv t "ann", len := (kv t "len").toNat?.getD 0 }

def pubOf (s : String) : Nat := ((s.drop 1).toString.toNat?).getD 0     -- "s3" ↦ 3, anything else ↦ 0 (unknown)

def flag (t : List String) (k : String) (dflt : Bool) : Bool :=
  match kv t k with | "" => dflt | v => v = "1"
def natOr (t : List String) (k : String) (dflt : Nat) : Nat :=
  match (kv t k).toNat? with | some n => if n = 0 then dflt else n | none => dflt

def mkConf (t : List String) : Conf :=
  { store := (match kv t "store" with | "" => "mem" | v => v), ro := flag t "ro" false, push := flag t "push" true,
    del := flag t "del" true, bdel := flag t "bdel" true, ref := flag t "ref" true,
    mlimit := natOr t "mlimit" 8388608, rlimit := natOr t "rlimit" 4194304, upmax := natOr t "upmax" 0,
    untagged := flag t "untagged" false, dangling := flag t "dangling" false, withsubj := flag t "withsubj" true,
    emptyrepo := flag t "emptyrepo" true, grace := (match kv t "grace" with | "" => false | "-1" => false | _ => true) }

def mkQ' (t : List String) : Q :=
  { mount := kv t "mount", fromR := kv t "from", digest := kv t "digest", algo := kv t "algo",
    cr := kv t "cr", state := kv t "state", body := expand (kv t "body") }

/-- percent-decoding of the two characters the generators encode -/
def unescape (p : String) : String :=
  (((p.replace "%2e" ".").replace "%2E" ".").replace "%2f" "/").replace "%2F" "/"

def out (p : State × Resp) : State × String := (p.1, p.2.line)

def step (s : State) (line : String) : State × String :=
  match (line.trimAscii.toString.splitOn " ").filter (· ≠ "") with
  | "UPOST" :: r :: rest => out (Upd.stepAged s (.uPost r (mkQ' rest)))
  | "UPATCH" :: r :: sid :: rest => out (Upd.stepAged s (.uPatch r (pubOf sid) (mkQ' rest)))
  | "UPUT" :: r :: sid :: rest => out (Upd.stepAged s (.uPut r (pubOf sid) (mkQ' rest)))
  | ["UGET", r, sid] => out (Upd.stepAged s (.uGet r (pubOf sid)))
  | ["UDEL", r, sid] => out (Upd.stepAged s (.uDel r (pubOf sid)))
  | "BGET" :: r :: a :: rest => out (Upd.stepAged s (.bGet r a false (kv rest "range")))
  | "BHEAD" :: r :: a :: rest => out (Upd.stepAged s (.bGet r a true (kv rest "range")))
  | ["BDEL", r, a] => out (Upd.stepAged s (.bDel r a))
  | "DEF" :: name :: kind :: rest => ({ s with defs := s.defs ++ [(name, mkBody kind rest)] }, "def")
  | "MPUT" :: r :: ref :: rest => out (Upd.stepAged s (.mPut r ref (kv rest "ct") (kv rest "qd") (kv rest "body") (kv rest "len" ≠ "unknown")))
  | "MGET" :: r :: ref :: rest => out (Upd.stepAged s (.mGet r ref (csv (kv rest "accept")) false (kv rest "range")))
  | "MHEAD" :: r :: ref :: rest => out (Upd.stepAged s (.mGet r ref (csv (kv rest "accept")) true (kv rest "range")))
  | ["MDEL", r, ref] => out (Upd.stepAged s (.mDel r ref))
  | "TAGS" :: r :: rest => out (Upd.stepAged s (.tags r (kv rest "n") (kv rest "last")))
  | "REFS" :: r :: arg :: rest => out (Upd.stepAged s (.refs r arg (kv rest "at") (kv rest "cache") (kv rest "page")))
  | ["RAW", m, path] => let (s', o) := Upd.stepRaw s m (unescape path); (s', s!"{o.status} code={o.code}")
  | ["RAW", m] => let (s', o) := Upd.stepRaw s m ""; (s', s!"{o.status} code={o.code}")
  | ["GC", r] => (gcRepo s r, "gc-ok")
  | "EXPIRY" :: _ => (s, "ok")   -- real-timer probe on a separate server: judged by monitors only
  | ["SETTIME", r, d, age] =>
    (match DigArg.parse d with
     | .ok dg =>
       let rp := s.repo r
       if (rp.blob dg).isSome then
         (s.setRepo { rp with old := if age = "old" then (if rp.old.contains dg then rp.old else rp.old ++ [dg]) else rp.old.filter (· ≠ dg) }, "settime-ok")
       else (s, "settime-error")
     | .bad => (s, "settime-error"))
  -- body definitions are global; the table of response documents is rebuilt by `storeResp` as a history creates them
  -- (kept across histories it grows without bound and every lookup walks it)
  | "NEW" :: conf => ({ defs := s.defs, conf := mkConf conf }, "new")
  | _ => (s, "bad-op")

/-- merge configuration tokens: later keys override earlier ones -/
def mergeToks (old new : List String) : List String :=
  let key := fun (t : String) => (t.splitOn "=").headD ""
  old.filter (fun t => !new.any (fun n => key n = key t)) ++ new

partial def loop (h : IO.FS.Stream) (out : IO.FS.Stream) (s : State) (toks : List String) : IO Unit := do
  let line ← h.getLine
  if line.isEmpty then return ()
  match (line.trimAscii.toString.splitOn " ").filter (· ≠ "") with
  | "NEW" :: conf =>
    let (s', o) := step s line
    out.putStrLn o
    loop h out s' conf
  | "RESTART" :: conf =>
    let toks' := mergeToks toks conf
    out.putStrLn "restarted"
    loop h out (restart s (mkConf toks')) toks'
  | _ =>
    let (s', o) := step s line
    out.putStrLn o
    loop h out s' toks

def main : IO Unit := do loop (← IO.getStdin) (← IO.getStdout) {} []
