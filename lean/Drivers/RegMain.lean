import Upd
open Upd

def kv (toks : List String) (k : String) : String :=
  match toks.find? (fun t => t.startsWith (k ++ "=")) with
  | some t => (t.drop (k.length + 1)).toString
  | none => ""

def mkQ (t : List String) : Q :=
  { mount := kv t "mount", fromR := kv t "from", digest := kv t "digest", algo := kv t "algo",
    cr := kv t "cr", state := kv t "state", body := kv t "body" }

def csv (s : String) : List String := if s = "" then [] else s.splitOn ","

def parseChild (s : String) : Desc :=
  match s.splitOn "/" with
  | [mt, dig, size] => { mt := mt, dig := dig, size := size.toNat?.getD 0 }
  | _ => {}

def mkBody (kind : String) (t : List String) : Body :=
  { kind := kind, mtField := kv t "mt", cfg := kv t "cfg", cfgMt := kv t "cfgmt", layers := csv (kv t "layers"),
    children := ((kv t "children").splitOn ";").filter (· ≠ "") |>.map parseChild,
    subj := kv t "subj", atype := kv t "at", rann := kv t "ann", len := (kv t "len").toNat?.getD 0 }

def pubOf (s : String) : Nat := ((s.drop 1).toString.toNat?).getD 0     -- "s3" ↦ 3, anything else ↦ 0 (unknown)

def step (s : State) (line : String) : State × String :=
  match (line.trimAscii.toString.splitOn " ").filter (· ≠ "") with
  | "UPOST" :: r :: rest => let (s', o) := uPost s r (mkQ rest); (s', o.line)
  | "UPATCH" :: r :: sid :: rest => let (s', o) := uPatch s r (pubOf sid) (mkQ rest); (s', o.line)
  | "UPUT" :: r :: sid :: rest => let (s', o) := uPut s r (pubOf sid) (mkQ rest); (s', o.line)
  | ["UGET", r, sid] => let (s', o) := uGet s r (pubOf sid); (s', o.line)
  | ["UDEL", r, sid] => let (s', o) := uDel s r (pubOf sid); (s', o.line)
  | ["BGET", r, a] => let (s', o) := bGet s r a false; (s', o.line)
  | ["BHEAD", r, a] => let (s', o) := bGet s r a true; (s', o.line)
  | ["BDEL", r, a] => let (s', o) := bDel s r a; (s', o.line)
  | "DEF" :: name :: kind :: rest => ({ s with defs := s.defs ++ [(name, mkBody kind rest)] }, "def")
  | "MPUT" :: r :: ref :: rest => let (s', o) := mPut s r ref (kv rest "ct") (kv rest "qd") (kv rest "body"); (s', o.line)
  | "MGET" :: r :: ref :: rest => let (s', o) := mGet s r ref (csv (kv rest "accept")) false; (s', o.line)
  | "MHEAD" :: r :: ref :: rest => let (s', o) := mGet s r ref (csv (kv rest "accept")) true; (s', o.line)
  | ["MDEL", r, ref] => let (s', o) := mDel s r ref; (s', o.line)
  | "TAGS" :: r :: rest => let (s', o) := tags s r (kv rest "n") (kv rest "last"); (s', o.line)
  | "REFS" :: r :: arg :: rest => let (s', o) := refs s r arg (kv rest "at"); (s', o.line)
  | ["NEW"] => ({ defs := s.defs }, "new")
  | _ => (s, "bad-op")

partial def loop (h : IO.FS.Stream) (out : IO.FS.Stream) (s : State) : IO Unit := do
  let line ← h.getLine
  if line.isEmpty then return ()
  let (s', o) := step s line
  out.putStrLn o
  loop h out s'

def main : IO Unit := do loop (← IO.getStdin) (← IO.getStdout) {}
