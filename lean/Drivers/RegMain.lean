import Upd.Router
open Upd

def kv (toks : List String) (k : String) : String :=
  match toks.find? (fun t => t.startsWith (k ++ "=")) with
  | some t => (t.drop (k.length + 1)).toString
  | none => ""

def mkQ (t : List String) : Q :=
  { mount := kv t "mount", fromR := kv t "from", digest := kv t "digest", algo := kv t "algo",
    cr := kv t "cr", state := kv t "state", body := kv t "body" }

def csv (s : String) : List String := if s = "" then [] else s.splitOn ","

def parseChild (s : String) : Desc :=
  match s.splitOn "/" with
  | [mt, dig, size] => { mt := mt, dig := dig, size := size.toNat?.getD 0 }
  | _ => {}

def mkBody (kind : String) (t : List String) : Body :=
  { kind := kind, mtField := kv t "mt", cfg := kv t "cfg", cfgMt := kv t "cfgmt", layers := csv (kv t "layers"),
    children := ((kv t "children").splitOn ";").filter (· ≠ "") |>.map parseChild,
    subj := kv t "subj", atype := kv t "at", rann := kv t "ann", len := (kv t "len").toNat?.getD 0 }

def pubOf (s : String) : Nat := ((s.drop 1).toString.toNat?).getD 0     -- "s3" ↦ 3, anything else ↦ 0 (unknown)

def flag (t : List String) (k : String) (dflt : Bool) : Bool :=
  match kv t k with | "" => dflt | v => v = "1"
def natOr (t : List String) (k : String) (dflt : Nat) : Nat :=
  match (kv t k).toNat? with | some n => if n = 0 then dflt else n | none => dflt

def mkConf (t : List String) : Conf :=
  { store := (match kv t "store" with | "" => "mem" | v => v), ro := flag t "ro" false, push := flag t "push" true,
    del := flag t "del" true, bdel := flag t "bdel" true, ref := flag t "ref" true,
    mlimit := natOr t "mlimit" 8388608, rlimit := natOr t "rlimit" 4194304, upmax := natOr t "upmax" 0 }

def mkQ' (t : List String) : Q :=
  { mount := kv t "mount", fromR := kv t "from", digest := kv t "digest", algo := kv t "algo",
    cr := kv t "cr", state := kv t "state", body := expand (kv t "body") }

/-- percent-decoding of the two characters the generators encode -/
def unescape (p : String) : String :=
  (((p.replace "%2e" ".").replace "%2E" ".").replace "%2f" "/").replace "%2F" "/"

def out (p : State × Resp) : State × String := (p.1, p.2.line)

def step (s : State) (line : String) : State × String :=
  match (line.trimAscii.toString.splitOn " ").filter (· ≠ "") with
  | "UPOST" :: r :: rest => out (Upd.step s (.uPost r (mkQ' rest)))
  | "UPATCH" :: r :: sid :: rest => out (Upd.step s (.uPatch r (pubOf sid) (mkQ' rest)))
  | "UPUT" :: r :: sid :: rest => out (Upd.step s (.uPut r (pubOf sid) (mkQ' rest)))
  | ["UGET", r, sid] => out (Upd.step s (.uGet r (pubOf sid)))
  | ["UDEL", r, sid] => out (Upd.step s (.uDel r (pubOf sid)))
  | "BGET" :: r :: a :: rest => out (Upd.step s (.bGet r a false (kv rest "range")))
  | "BHEAD" :: r :: a :: rest => out (Upd.step s (.bGet r a true (kv rest "range")))
  | ["BDEL", r, a] => out (Upd.step s (.bDel r a))
  | "DEF" :: name :: kind :: rest => ({ s with defs := s.defs ++ [(name, mkBody kind rest)] }, "def")
  | "MPUT" :: r :: ref :: rest => out (Upd.step s (.mPut r ref (kv rest "ct") (kv rest "qd") (kv rest "body") (kv rest "len" ≠ "unknown")))
  | "MGET" :: r :: ref :: rest => out (Upd.step s (.mGet r ref (csv (kv rest "accept")) false (kv rest "range")))
  | "MHEAD" :: r :: ref :: rest => out (Upd.step s (.mGet r ref (csv (kv rest "accept")) true (kv rest "range")))
  | ["MDEL", r, ref] => out (Upd.step s (.mDel r ref))
  | "TAGS" :: r :: rest => out (Upd.step s (.tags r (kv rest "n") (kv rest "last")))
  | "REFS" :: r :: arg :: rest => out (Upd.step s (.refs r arg (kv rest "at") (kv rest "cache") (kv rest "page")))
  | ["RAW", m, path] => let (s', o) := Upd.stepRaw s m (unescape path); (s', s!"{o.status} code={o.code}")
  | ["RAW", m] => let (s', o) := Upd.stepRaw s m ""; (s', s!"{o.status} code={o.code}")
  | "NEW" :: conf => ({ defs := s.defs, resps := s.resps, conf := mkConf conf }, "new")
  | _ => (s, "bad-op")

partial def loop (h : IO.FS.Stream) (out : IO.FS.Stream) (s : State) : IO Unit := do
  let line ← h.getLine
  if line.isEmpty then return ()
  let (s', o) := step s line
  out.putStrLn o
  loop h out s'

def main : IO Unit := do loop (← IO.getStdin) (← IO.getStdout) {}
