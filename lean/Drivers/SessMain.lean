import Sess.Basic
open Sess
/-!
Driver of the session object model (C08/C01): one scenario per line, `<store>/<pin> <op,op,…>` with pins `none a x` and ops `Wa Wb Vbad Vbad512 Vgood V512 Close CloseRaw Cancel`
(harness/inpkg/store/upload_harness_test.go); prints the outcome of every call and whether the accepted bytes are
published at the end: `<outs> pub=<0|1>`.
-/
def parseOp : String → Option Op
  | "Wa" => some (.w 1) | "Wb" => some (.w 2) | "Vbad" => some .vbad | "Vbad512" => some .vbadAlt | "Vgood" => some .vgood | "V512" => some .vgoodAlt | "Close" => some .close
  | "CloseRaw" => some .closeRaw | "Cancel" => some .cancel
  | _ => none

def fmtOut : Out → String | .ok => "ok" | .err => "err"

def answer (line : String) : String :=
  match (line.trimAscii.toString.splitOn " ").filter (· ≠ "") with
  | [kind, ops] =>
    match (ops.splitOn ",").mapM parseOp with
    | none => "bad-op"
    | some os =>
      let (store, pin) := match kind.splitOn "/" with | [a, b] => (a, b) | _ => (kind, "none")
      let s0 : S := { pin := match pin with | "a" => some [1] | "x" => some [99] | _ => none }
      let (s, outs) := run (store = "dir") s0 os
      ",".intercalate (outs.map fmtOut) ++ s!" pub={if s.published.contains s.written then 1 else 0}"
  | _ => "bad-op"

partial def loop (h : IO.FS.Stream) (out : IO.FS.Stream) : IO Unit := do
  let line ← h.getLine
  if line.isEmpty then return ()
  out.putStrLn (answer line)
  loop h out

def main : IO Unit := do
  let out ← IO.getStdout
  loop (← IO.getStdin) out
  out.flush
