import Upd
import Std.Data.HashSet
open Upd

/-! scratch: breadth-first search over distinct model states for a history that violates C07
    (referrers of S = manifests present in the repository whose subject is S) -/

deriving instance Hashable for Alg
deriving instance Hashable for Dig
deriving instance Hashable for Ann
deriving instance Hashable for Desc
deriving instance Hashable for Index
deriving instance Hashable for Upload
deriving instance BEq for Upload
deriving instance Hashable for Repo
deriving instance BEq for Repo

def bodies : List (String × Body) := [
  ("@S",  { kind := "image", mtField := "ocim", cfg := "sha256:c1", cfgMt := "cfg", len := 100 }),
  ("@A1", { kind := "image", mtField := "ocim", cfg := "sha256:c1", cfgMt := "cfg", subj := "sha256:@S", atype := "x/a", len := 200 }),
  ("@A2", { kind := "image", mtField := "ocim", cfg := "sha256:c1", cfgMt := "cfg", subj := "sha256:@S", atype := "x/b", len := 201 })]

def alphabet : List String := [
  "MPUT r t1 ct=ocim body=@S",
  "MPUT r t2 ct=ocim body=@A1",
  "MPUT r sha256:@A1 ct=ocim body=@A1",
  "MPUT r t2 ct=ocim body=@A2",
  "MPUT r sha256:@A2 ct=ocim body=@A2",
  "MDEL r t1", "MDEL r t2", "MDEL r sha256:@A1", "MDEL r sha256:@A2", "MDEL r sha256:@S"]

def kvs (toks : List String) (k : String) : String :=
  match toks.find? (fun t => t.startsWith (k ++ "=")) with
  | some t => (t.drop (k.length + 1)).toString
  | none => ""

def apply (s : State) (line : String) : State :=
  match (line.splitOn " ").filter (· ≠ "") with
  | "MPUT" :: r :: ref :: rest => (mPut s r ref (kvs rest "ct") (kvs rest "qd") (kvs rest "body")).1
  | ["MDEL", r, ref] => (mDel s r ref).1
  | _ => s

/-- manifests present (resolvable by digest) whose body names subject `S` -/
def expected (s : State) (r : String) (subject : String) : List String :=
  let ix := (s.repo r).index
  (bodies.filter fun (name, b) => b.subj = subject ∧ (getDescDig ix s!"sha256:{name}").isSome).map fun (name, _) => s!"sha256:{name}"

def listed (s : State) (r : String) (subject : String) : List String :=
  match currentResp s r subject with
  | some (_, ds) => ds.map (·.dig)
  | none => []

def refOK (s : State) : Bool :=
  let e := expected s "r" "sha256:@S"
  let l := listed s "r" "sha256:@S"
  e.all l.contains ∧ l.all e.contains

def init : State :=
  let s : State := { defs := bodies }
  -- the config blob exists
  s.setRepo ((s.repo "r").putBlob ⟨.sha256, "c1"⟩ "c1")

partial def bfs (frontier : List (State × List String)) (seen : Std.HashSet (List Repo)) (depth states : Nat) : IO Unit := do
  if depth == 0 || frontier.isEmpty then
    IO.println s!"no violation; distinct states: {states}"; return
  let mut next := []
  let mut seen := seen
  let mut states := states
  for (s, path) in frontier do
    for op in alphabet do
      let s' := apply s op
      if !seen.contains s'.repos then
        seen := seen.insert s'.repos
        states := states + 1
        if !refOK s' then
          IO.println s!"VIOLATION of C07 after {path.length + 1} requests ({states} distinct states):"
          for l in path ++ [op] do IO.println s!"    {l}"
          IO.println s!"  expected referrers of @S: {expected s' "r" "sha256:@S"}   listed: {listed s' "r" "sha256:@S"}"
          return
        next := (s', path ++ [op]) :: next
  bfs next seen (depth - 1) states

def main : IO Unit := bfs [(init, [])] (Std.HashSet.emptyWithCapacity.insert init.repos) 7 1
