import Ixd
open Ixd

/-! scratch: compare the collector model with an order-free "retained" specification on random cases -/

structure Case where
  p : Policy := ⟨false, false, false, false⟩
  blobs : List Blob := []
  ms : List Desc := []
  ks : List Desc := []

def n! (s : String) : Nat := s.toNat!
def parsePair (s : String) : Nat × Nat :=
  match s.splitOn ":" with
  | [a, b] => (n! a, n! b)
  | _ => (0, 0)

/-- one round of the closure: walked is a list of (dig, mt) -/
def closeStep (c : Case) (resp : List (Nat × Desc)) (w : List (Nat × Nat)) : List (Nat × Nat) :=
  w.foldl (fun acc (g, mt) =>
    match getBlob c.blobs g with
    | none => acc
    | some b =>
      let viaSubj := (resp.filter (·.1 = g)).map fun (_, r) => (r.dig, r.mt)
      let kids :=
        if isIndexMT mt then
          match decodeIndex b.node with
          | some cs => cs.map (fun (m, d) => (d, m)) ++ viaSubj
          | none => []
        else if isImageMT mt then
          match decodeImage b.node with
          | some _ => viaSubj
          | none => []
        else viaSubj
      kids.foldl (fun a k => if a.contains k || (getBlob c.blobs k.1).isNone then a else a ++ [k]) acc) w

def iter (f : α → α) : Nat → α → α
  | 0, x => x
  | n+1, x => iter f n (f x)

structure SpecOut where
  retained : List Nat
  alias : Bool          -- some digest is both walked as a manifest and marked as config/layer
  mixedMT : Bool        -- some digest is reached under two media types

def spec (c : Case) : SpecOut :=
  let p := c.p
  let recent := fun g => match getBlob c.blobs g with | some b => p.grace && b.recent | none => false
  let general := fun (d : Desc) => !p.untagged || (!d.ann.isNil && d.ann.tag ≠ 0) || recent d.dig
  -- responses bound to their subject, and unconditional roots
  let classify := c.ms.map fun d =>
    if !d.ann.isNil && d.ann.subj ≠ 0 then
      let s := d.ann.subj
      let ex := (getBlob c.blobs s).isSome
      if p.withSubj && ex then (some s, false)
      else if !p.dangling then (none, true)
      else if ex then (if recent d.dig then (none, true) else (some s, false))
      else (none, general d)
    else (none, general d)
  let zipped := c.ms.zip classify
  -- the code keeps only the LAST response registered per subject; an order-free spec keeps all of them
  let resp := zipped.filterMap fun (d, (s, _)) => s.map fun s => (s, d)
  let roots := zipped.filterMap fun (d, (_, r)) => if r && (getBlob c.blobs d.dig).isSome then some (d.dig, d.mt) else none
  let roots := roots.foldl (fun a k => if a.contains k then a else a ++ [k]) []
  let w := iter (closeStep c resp) (c.blobs.length * 3 + 3) roots
  let marks := w.foldl (fun acc (g, mt) =>
    if isImageMT mt then
      match (getBlob c.blobs g).bind (fun b => decodeImage b.node) with
      | some (cfg, ls) => acc ++ cfg :: ls
      | none => acc
    else acc) []
  let inIndex := c.ms.map (·.dig) ++ w.map (·.1)
  let recentLoose := c.blobs.filter (fun b => p.grace && b.recent && !inIndex.contains b.dig) |>.map (·.dig)
  let wd := w.map (·.1)
  let retained := (wd ++ marks.filter (fun g => (getBlob c.blobs g).isSome) ++ recentLoose)
  { retained := retained,
    alias := wd.any (fun g => marks.contains g),
    mixedMT := w.any (fun (g, mt) => w.any (fun (g', mt') => g = g' && mt ≠ mt')) ||
               c.ms.any (fun d => c.ms.any (fun e => d.dig = e.dig && d.mt ≠ e.mt)) ||
               -- two responses for one subject: excluded by the index invariant (subject-unique)
               (let subs := c.ms.filterMap (fun d => if !d.ann.isNil && d.ann.subj ≠ 0 then some d.ann.subj else none)
                subs.length ≠ subs.eraseDups.length) }

def check (c : Case) : Option String :=
  let out := gc c.p { manifests := c.ms, children := c.ks } c.blobs
  let sp := spec c
  let lost := sp.retained.filter (fun g => !out.blobs.contains g)
  let extra := out.blobs.filter (fun g => !sp.retained.contains g)
  if lost.isEmpty && extra.isEmpty then none
  else some s!"lost={lost} extra={extra} alias={sp.alias} mixed={sp.mixedMT}"

partial def loop (h : IO.FS.Stream) (c : Case) (lines : List String) (stats : Nat × Nat × Nat × Nat × Nat) (shown : Nat) : IO Unit := do
  let line ← h.getLine
  if line.isEmpty then
    let (n, lostPlain, lostAlias, lostMixed, extraOnly) := stats
    IO.println s!"cases={n} lost(no alias, no mixed)={lostPlain} lost(alias)={lostAlias} lost(mixed mt)={lostMixed} extra-only={extraOnly}"
    return ()
  let l := line.trimAscii.toString
  match (l.splitOn " ").filter (· ≠ "") with
  | ["CASE", u, d, w, g] => loop h { p := ⟨u == "1", d == "1", w == "1", g == "1"⟩ } [l] stats shown
  | "B" :: dig :: recent :: "raw" :: _ => loop h { c with blobs := c.blobs ++ [⟨n! dig, .raw, recent == "1"⟩] } (lines ++ [l]) stats shown
  | "B" :: dig :: recent :: "img" :: cfg :: ls => loop h { c with blobs := c.blobs ++ [⟨n! dig, .img (n! cfg) (ls.map n!), recent == "1"⟩] } (lines ++ [l]) stats shown
  | "B" :: dig :: recent :: "idx" :: cs => loop h { c with blobs := c.blobs ++ [⟨n! dig, .idx (cs.map parsePair), recent == "1"⟩] } (lines ++ [l]) stats shown
  | ["M", dig, mt, nl, tag, subj] => loop h { c with ms := c.ms ++ [{ dig := n! dig, mt := n! mt, ann := { isNil := nl == "1", tag := n! tag, subj := n! subj } }] } (lines ++ [l]) stats shown
  | ["K", dig, mt] => loop h { c with ks := c.ks ++ [{ dig := n! dig, mt := n! mt }] } (lines ++ [l]) stats shown
  | ["RUN"] =>
    let (n, a, b, m, e) := stats
    match check c with
    | none => loop h {} [] (n+1, a, b, m, e) shown
    | some msg =>
      let sp := spec c
      let out := gc c.p { manifests := c.ms, children := c.ks } c.blobs
      let lost := sp.retained.filter (fun g => !out.blobs.contains g)
      let isLost := !lost.isEmpty
      let plain := isLost && !sp.alias && !sp.mixedMT
      let showIt := (plain || (!isLost && !sp.alias && !sp.mixedMT)) && shown < 6
      if showIt then
        IO.println s!"--- {msg}"
        for x in lines do IO.println s!"    {x}"
      let stats' :=
        if isLost then (if sp.mixedMT then (n+1, a, b, m+1, e) else if sp.alias then (n+1, a, b+1, m, e) else (n+1, a+1, b, m, e))
        else (n+1, a, b, m, e+1)
      loop h {} [] stats' (if showIt then shown + 1 else shown)
  | _ => loop h c lines stats shown

def main : IO Unit := do loop (← IO.getStdin) {} [] (0, 0, 0, 0, 0) 0
