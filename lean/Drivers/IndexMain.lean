import Ixd
open Ixd

def fmtDesc (d : Desc) : String :=
  s!"{d.dig}:{d.mt}:{d.size}:{if d.ann.isNil then 1 else 0}:{d.ann.tag}:{d.ann.subj}:{d.ann.other}"
def fmtState (ix : Index) : String :=
  "M[" ++ " ".intercalate (ix.manifests.map fmtDesc) ++ "] C[" ++ " ".intercalate (ix.children.map fmtDesc) ++ "]"
def fmtOpt : Option Desc → String
  | none => "none"
  | some d => fmtDesc d

def nat! (s : String) : Nat := s.toNat!

-- desc tokens: dig mt size nilflag tag subj other
def parseDesc (t : List String) : Desc × List String :=
  match t with
  | dig :: mt :: size :: nl :: tag :: subj :: other :: rest =>
    ({ dig := nat! dig, mt := nat! mt, size := nat! size,
       ann := { isNil := nl == "1", tag := nat! tag, subj := nat! subj, other := nat! other } }, rest)
  | _ => ({ mt := 0, dig := 0 }, [])

partial def parseDescs (t : List String) : List Desc :=
  match t with
  | [] => []
  | _ => let (d, rest) := parseDesc t; d :: parseDescs rest

def step (ix : Index) (line : String) : Index × String :=
  match (line.trimAscii.toString.splitOn " ").filter (· ≠ "") with
  | "A" :: rest =>
    let (d, more) := parseDesc rest
    let ix' := addDesc ix d (parseDescs more)
    (ix', fmtState ix')
  | "R" :: rest =>
    let (d, _) := parseDesc rest
    let ix' := rmDesc ix d
    (ix', fmtState ix')
  | "C" :: rest =>
    let ix' := { ix with children := ix.children ++ parseDescs rest }
    (ix', fmtState ix')
  | ["J"] => let ix' := roundTrip ix; (ix', fmtState ix')
  | ["GT", t] => (ix, fmtOpt (getDescTag ix (nat! t)))
  | ["GD", g] => (ix, fmtOpt (getDescDig ix (nat! g)))
  | ["GS", s] => (ix, fmtOpt (getBySubj ix (nat! s)))
  | ["CP"] => (ix, "ok")          -- copy independence is a fact about Go aliasing; model values are immutable
  | ["CPX", _] => (ix, "ok")
  | ["NEW"] => ({}, "M[] C[]")
  | _ => (ix, "bad-op")

partial def loop (h : IO.FS.Stream) (out : IO.FS.Stream) (ix : Index) (stack : List Index) : IO Unit := do
  let line ← h.getLine
  if line.isEmpty then return ()
  if line.startsWith "SAVE" then
    loop h out ix (ix :: stack)
  else if line.startsWith "RESTORE" then
    match stack with
    | top :: rest => loop h out top rest
    | [] => loop h out ix []
  else
    let (ix', o) := step ix line
    out.putStrLn o
    loop h out ix' stack

def main : IO Unit := do
  let out ← IO.getStdout
  loop (← IO.getStdin) out {} []
