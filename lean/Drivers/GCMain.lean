import Ixd
open Ixd

structure Case where
  p : Policy := ⟨false, false, false, false⟩
  blobs : List Blob := []
  ms : List Desc := []
  ks : List Desc := []

def n! (s : String) : Nat := s.toNat!

def parsePair (s : String) : Nat × Nat :=
  match s.splitOn ":" with
  | [a, b] => (n! a, n! b)
  | _ => (0, 0)

def insertSorted (x : String) : List String → List String
  | [] => [x]
  | y :: ys => if x ≤ y then x :: y :: ys else y :: insertSorted x ys
def sortS (l : List String) : List String := l.foldl (fun acc x => insertSorted x acc) []
def insertSortedN (x : Nat) : List Nat → List Nat
  | [] => [x]
  | y :: ys => if x ≤ y then x :: y :: ys else y :: insertSortedN x ys
def sortN (l : List Nat) : List Nat := l.foldl (fun acc x => insertSortedN x acc) []

def fmtEnt (d : Desc) : String :=
  s!"{d.dig}:{d.mt}:{if d.ann.isNil then 1 else 0}:{d.ann.tag}:{d.ann.subj}"

def run (c : Case) : String :=
  let ix : Index := { manifests := c.ms, children := c.ks }
  let out := gc c.p ix c.blobs
  let ents := sortS (out.index.manifests.map fmtEnt)
  let univ := (List.range 9).filter (· ≠ 0)
  let found := univ.filter fun g => (getDescDig out.index g).isSome
  let blobs := sortN out.blobs
  s!"I[{" ".intercalate ents}] F[{" ".intercalate (found.map toString)}] B[{" ".intercalate (blobs.map toString)}]"

partial def loop (h : IO.FS.Stream) (out : IO.FS.Stream) (c : Case) : IO Unit := do
  let line ← h.getLine
  if line.isEmpty then return ()
  match (line.trimAscii.toString.splitOn " ").filter (· ≠ "") with
  | ["CASE", u, d, w, g] =>
    loop h out { p := ⟨u == "1", d == "1", w == "1", g == "1"⟩ }
  | "B" :: dig :: recent :: "raw" :: _ =>
    loop h out { c with blobs := c.blobs ++ [⟨n! dig, .raw, recent == "1"⟩] }
  | "B" :: dig :: recent :: "img" :: cfg :: ls =>
    loop h out { c with blobs := c.blobs ++ [⟨n! dig, .img (n! cfg) (ls.map n!), recent == "1"⟩] }
  | "B" :: dig :: recent :: "idx" :: cs =>
    loop h out { c with blobs := c.blobs ++ [⟨n! dig, .idx (cs.map parsePair), recent == "1"⟩] }
  | ["M", dig, mt, nl, tag, subj] =>
    loop h out { c with ms := c.ms ++ [{ dig := n! dig, mt := n! mt, ann := { isNil := nl == "1", tag := n! tag, subj := n! subj } }] }
  | ["K", dig, mt] =>
    loop h out { c with ks := c.ks ++ [{ dig := n! dig, mt := n! mt }] }
  | ["RUN"] =>
    out.putStrLn (run c)
    loop h out {}
  | _ => out.putStrLn "bad-op"; loop h out c

def main : IO Unit := do loop (← IO.getStdin) (← IO.getStdout) {}
