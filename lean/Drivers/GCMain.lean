import Ixd.GCPass
open Ixd

/-! Driver of the repository-level GC profile: interprets the line protocol of
    harness/inpkg/store/gc_harness_test.go (TestVerifGC) on the collector model.  `gcdriver mem|dir`. -/

structure St where
  dirMode : Bool := false
  started : Bool := false
  p : Policy := ⟨false, false, false, false⟩
  emptyRepo : Bool := false
  r : DirRepo := {}            -- index and blobs live here for both stores
  anyGC : Bool := false
  fuzzy : Bool := false

def n! (s : String) : Nat := s.toNat?.getD 0

def parsePair (s : String) : Nat × Nat :=
  match s.splitOn ":" with
  | [a, b] => (n! a, n! b)
  | _ => (0, 0)

def insertSorted (x : String) : List String → List String
  | [] => [x]
  | y :: ys => if x ≤ y then x :: y :: ys else y :: insertSorted x ys
def sortS (l : List String) : List String := l.foldl (fun acc x => insertSorted x acc) []
def insertSortedN (x : Nat) : List Nat → List Nat
  | [] => [x]
  | y :: ys => if x ≤ y then x :: y :: ys else y :: insertSortedN x ys
def sortN (l : List Nat) : List Nat := l.foldl (fun acc x => insertSortedN x acc) []

def fmtEnt (d : Desc) : String :=
  s!"{d.dig}:{d.mt}:{if d.ann.isNil then 1 else 0}:{d.ann.tag}:{d.ann.subj}"

def orderDependent (ms : List Desc) : Bool :=
  let subs := ms.filterMap (fun d => if !d.ann.isNil && d.ann.subj ≠ 0 then some d.ann.subj else none)
  subs.length ≠ subs.eraseDups.length

def canon (s : St) (err : Bool) : String :=
  let r := s.r
  let ents := sortS (r.index.manifests.map fmtEnt)
  let found := (List.range 10).filterMap fun g =>
    if g = 0 then none else (getDescDig r.index g).map fun _ => s!"{g}"
  let blobs := sortN (r.blobs.map (·.dig))
  let base := s!"I[{" ".intercalate ents}] F[{" ".intercalate found}] B[{" ".intercalate (blobs.map toString)}]"
  if !s.dirMode then base else
    let fl := (if r.repoDir then ["repo"] else []) ++ (if r.repoDir && r.indexFile then ["index"] else [])
      ++ (if r.repoDir && r.layoutFile then ["layout"] else []) ++ (if r.repoDir && r.uploadsDir then ["uploads"] else [])
      ++ (if r.repoDir && r.blobsDir then ["blobs"] else [])
      ++ (if r.repoDir && r.blobsDir then (sortN r.algos).map (fun a => s!"sha{a}") else [])
    let upfiles := r.sessions + (if r.upLeft then 1 else 0)
    let fl := fl ++ (if r.repoDir && r.uploadsDir && upfiles > 0 then [s!"upfiles={upfiles}"] else [])
      ++ (if r.repoDir && r.blobsDir && r.strayBlobs then ["foreign"] else []) ++ (if r.repoDir && r.strayRoot then ["foreign"] else [])
    let pers := if r.repoDir && r.indexFile && r.layoutFile then blobs else []
    s!"{base} D[{" ".intercalate fl}] P[{" ".intercalate (pers.map toString)}] err={if err then 1 else 0}"

def setBlob (bs : List Blob) (b : Blob) : List Blob := bs.filter (·.dig ≠ b.dig) ++ [b]

def ensureInit (s : St) : St := if s.dirMode then { s with r := s.r.init } else s

def addBlob (s : St) (b : Blob) : St :=
  let s := ensureInit s
  let r := s.r
  let r := if s.dirMode then { r with blobsDir := true, algos := insertAlgo (algoOf b.dig) r.algos } else r
  { s with r := { r with blobs := setBlob r.blobs b } }

def step (s : St) (toks : List String) : St × String :=
  match toks with
  | ["NEW", u, d, w, g, e] =>
    let r : DirRepo := if s.dirMode then ({} : DirRepo).init else {}
    ({ dirMode := s.dirMode, started := true, p := ⟨u == "1", d == "1", w == "1", g == "1"⟩, emptyRepo := e == "1", r := r }, "ok")
  | _ =>
  if !s.started then (s, "bad-op") else
  match toks with
  | "B" :: dig :: recent :: kind :: rest =>
    let g := n! dig
    if g < 1 || g > 9 then (s, "bad-op") else
    let rc := recent == "1"
    match kind, rest with
    | "raw", _ => (addBlob s { dig := g, json := false, recent := rc }, "ok")
    | "oth", _ => (addBlob s { dig := g, recent := rc }, "ok")
    | "img", cfg :: ls => (addBlob s { dig := g, cfg := n! cfg, layers := ls.map n!, recent := rc }, "ok")
    | "idx", cs => (addBlob s { dig := g, kids := cs.map parsePair, recent := rc }, "ok")
    | "poly", cfg :: nl :: more =>
      let k := n! nl
      if more.length < k then (s, "bad-op") else
      (addBlob s { dig := g, cfg := n! cfg, layers := (more.take k).map n!, kids := (more.drop k).map parsePair, recent := rc }, "ok")
    | _, _ => (s, "bad-op")
  | ["M", dig, mt, nl, tag, subj] =>
    let g := n! dig
    let m := n! mt
    if g < 1 || g > 9 || m > 5 then (s, "bad-op") else
    let s := ensureInit s
    let a : Ann := if nl != "0" then {} else Ann.mk false (n! tag) (n! subj) 0
    let d : Desc := { dig := g, mt := m, size := 1, ann := a }
    let r := s.r
    let r := { r with index := { r.index with manifests := r.index.manifests ++ [d] } }
    let r := if s.dirMode then { r with indexFile := true } else r
    ({ s with r := r }, "ok")
  | ["K", dig, mt] =>
    if n! dig < 1 || n! dig > 9 || n! mt > 5 then (s, "bad-op") else
    let r := s.r
    ({ s with r := { r with index := { r.index with children := r.index.children ++ [{ dig := n! dig, mt := n! mt, size := 1 }] } } }, "ok")
  | ["AGE"] =>
    let r := s.r
    ({ s with r := { r with blobs := r.blobs.map fun b => { b with recent := false } } }, "ok")
  | ["UP"] =>
    if !s.dirMode then (s, "ok") else
    let s := ensureInit s
    let r := s.r
    ({ s with r := { r with uploadsDir := true, sessions := r.sessions + 1 } }, "ok")
  | ["UPC"] =>
    let r := s.r
    ({ s with r := { r with sessions := 0 } }, "ok")
  | ["X", what] =>
    if what != "root" && what != "blobs" && what != "updir" && what != "upfile" then (s, "bad-op") else
    if !s.dirMode then (s, "ok") else
    let s := ensureInit s
    let r := s.r
    let r := match what with
      | "root" => { r with strayRoot := true }
      | "blobs" => { r with blobsDir := true, algos := insertAlgo 256 r.algos, strayBlobs := true }
      | "updir" => { r with uploadsDir := true }
      | _ => { r with uploadsDir := true, upLeft := true }
    ({ s with r := r }, "ok")
  | ["GC"] =>
    let fuzzy := s.fuzzy || (s.anyGC && orderDependent s.r.index.manifests)
    let (r', err) :=
      if s.dirMode then dirGC s.p s.emptyRepo s.r
      else
        let m := (memGC s.p { index := s.r.index, blobs := s.r.blobs }).1
        ({ s.r with index := m.index, blobs := m.blobs }, false)
    let s' := { s with r := r', anyGC := true, fuzzy := fuzzy }
    (s', (if fuzzy then "~ " else "") ++ canon s' err)
  | _ => (s, "bad-op")

partial def loop (h : IO.FS.Stream) (out : IO.FS.Stream) (s : St) : IO Unit := do
  let line ← h.getLine
  if line.isEmpty then return ()
  let toks := (line.trimAscii.toString.splitOn " ").filter (· ≠ "")
  let (s', ans) := step s toks
  out.putStrLn ans
  loop h out s'

def main (args : List String) : IO Unit := do
  loop (← IO.getStdin) (← IO.getStdout) { dirMode := args.head? == some "dir" }
