import Upd.Ingest
/-! Model side of the `ingest` correspondence profile (C17): reads the layout definition and the INGEST / REOPEN /
    CRASH requests of harness/inpkg/store/ingest_harness_test.go and prints the canonical observation of
    `Upd.ingest` for each request. -/
open Upd

def kvI (toks : List String) (k : String) : String :=
  match toks.find? (fun t => t.startsWith (k ++ "=")) with
  | some t => (t.drop (k.length + 1)).toString
  | none => ""

def hasKey (toks : List String) (k : String) : Bool := toks.any (fun t => t.startsWith (k ++ "="))

/-- split a comma separated list of descriptors whose digest tokens may themselves contain commas inside I(...) -/
def splitTop (s : String) : List String := Id.run do
  let mut depth := 0
  let mut cur := ""
  let mut out : List String := []
  for c in s.toList do
    if c = '(' then depth := depth + 1
    if c = ')' then depth := depth - 1
    if c = ',' ∧ depth = 0 then
      out := out ++ [cur]; cur := ""
    else cur := cur.push c
  if cur ≠ "" then out := out ++ [cur]
  return out

/-- dig/mt/size/at/ann where dig may contain '/' inside I(...): split from the right -/
def parseD (s : String) : Desc :=
  let parts := s.splitOn "/"
  let n := parts.length
  if n < 5 then {} else
  { dig := "/".intercalate (parts.take (n-4)), mt := parts[n-4]!, size := parts[n-3]!.toNat?.getD 0,
    atype := parts[n-2]!, rann := parts[n-1]! }

def parseDs (s : String) : List Desc := (splitTop s).map parseD

def insertS (x : String) : List String → List String
  | [] => [x]
  | y :: ys => if x ≤ y then x :: y :: ys else y :: insertS x ys
def sortSS (l : List String) : List String := l.foldl (fun a x => insertS x a) []
def uniqS : List String → List String
  | a :: b :: r => if a = b then uniqS (b :: r) else a :: uniqS (b :: r)
  | l => l

def subjects : List String := ["S1", "S2", "S3", "Q1"]

/-- index entries, canonical: sorted set, modulo untagged entries of a digest that is listed anyway -/
def canonEntries (ms : List Desc) : String :=
  let str := fun (d : Desc) => s!"{d.dig}:{d.mt}:{d.ann.tag}:{d.ann.subj}"
  let keep := ms.filter fun d => !(d.ann.tag = "" ∧ d.ann.subj = "" ∧ ms.any (fun o => o.dig = d.dig ∧ str o ≠ str d))
  " ".intercalate (uniqS (sortSS (keep.map str)))

def canonDisk (x : IState) : String := s!"conv={if x.converted then 1 else 0};{canonEntries x.index.manifests}"

structure Def where
  st : IState := {}
  mans : List String := []

def observe (df : Def) (store : String) (o : IState) (disk : IState) : String :=
  let rs := if !o.converted then "404" else
    ";".intercalate (subjects.filterMap fun s =>
      match getBySubj o.index s with
      | none => none
      | some e => match getIndex o.blobs e.dig with
        | some (some ds) => some (s ++ "={" ++ ",".intercalate (sortSS (ds.map fmtD)) ++ "}")
        | _ => some (s ++ "=?"))
  let found := df.mans.filter fun m => (getDescDig o.index m).isSome
  let newB := (o.blobs.drop df.st.blobs.length).map (·.1)
  let cs := sortSS (o.index.children.map (·.dig))
  let _ := store
  s!"err=0 conv={if o.converted then 1 else 0} I[{canonEntries o.index.manifests}] C[{" ".intercalate cs}] R[{rs}] F[{" ".intercalate found}] B[{" ".intercalate (sortSS newB)}] D[{canonDisk disk}]"

/-- branch coverage of one conversion, measured on the model (printed after " #cov", not compared) -/
def coverage (x : IState) : String :=
  if x.converted then "preconverted=1" else
  let p := pass1 x.index.manifests
  let c := phase1 x
  let skip := (p.digestTags.filter fun d => match getIndex x.blobs d.dig with | some (some _) => false | _ => true).length
  let adopt := p.digestTags.length - skip - c.rm.length
  -- invalid only because another response is recorded for the subject
  let clash := (c.rm.filter fun d => match getIndex x.blobs d.dig with
    | some (some cur) => (validReferrer x.blobs cur).valid
    | _ => false).length
  let (_, ex, merged, dd, viaAdopt) := c.addResp.foldl (fun (acc : IState × Nat × Nat × Nat × Nat) kv =>
    let (s, ex, merged, dd, va) := acc
    let old := oldContent s.blobs c.respOf kv.1
    let all := kv.2 ++ old
    let ds := dedup all
    let ex' := if (lookup s.blobs (idxName ds)).isSome then ex + 1 else ex
    let va' := if (lookupResp c.respOf kv.1).map (·.dig) ≠ (lookupResp p.respOf kv.1).map (·.dig) then va + 1 else va
    (regenStep idxName c.respOf s kv, ex', (if old.isEmpty then merged else merged + 1), dd + (all.length - ds.length), va'))
    ({ x with index := c.index }, 0, 0, 0, 0)
  let o := ingest idxName id x
  let q := pass1 o.index.manifests
  let rec iters (fuel : Nat) (a : Scan) (n nested : Nat) : Nat × Nat :=
    match fuel with
    | 0 => (n, nested)
    | fuel + 1 =>
      match scanIter o.blobs a with
      | none => (n, nested)
      | some a' =>
        let isNested := match a.queue with
          | c :: _ => !(q.scan.any (·.dig = c.dig))
          | [] => false
        iters fuel a' (n + 1) (if isNested then nested + 1 else nested)
  let (it, nested) := iters 10000 { queue := q.scan, seen := q.seen, children := [] } 0 0
  s!"tags={p.digestTags.length} skip={skip} adopt={adopt} requeue={c.rm.length} clash={clash} regen={c.addResp.length} exists={ex} merged={merged} viaAdopt={viaAdopt} dedup={dd} scan={it} nested={nested} children={o.index.children.length}"

def runIngest (df : Def) (store : String) (cov : Bool) : String :=
  let x := df.st
  let o := ingest idxName id x
  let disk := if store = "dir" ∧ ingestMod x then persist o else x
  let line := observe df store o disk
  -- the observation must not depend on the order in which the regenerated responses are inserted
  let o' := ingest idxName List.reverse x
  let line' := observe df store o' (if store = "dir" ∧ ingestMod x then persist o' else x)
  (if line = line' then line else line ++ " ORDER-DEPENDENT[" ++ line' ++ "]") ++ (if cov then " #cov " ++ coverage x else "")

def runReopen (df : Def) (store : String) : String :=
  let x := df.st
  let o1 := ingest idxName id x
  if store = "dir" then
    let x2 := if ingestMod x then persist o1 else { x with blobs := o1.blobs }
    let o2 := ingest idxName id x2
    observe df store o2 x2
  else
    observe df store (ingest idxName id x) x

def runCrash (df : Def) (store : String) (mask : Nat) : String :=
  let x := df.st
  let o1 := ingest idxName id x
  let nb := o1.blobs.drop x.blobs.length
  let names := sortSS (nb.map (·.1))
  let m := mask % (2 ^ names.length)
  let chosen := (List.range names.length).filter (fun i => (m / 2 ^ i) % 2 = 1) |>.filterMap (fun i => names[i]?)
  let pre := chosen.filterMap fun n => nb.find? (·.1 = n)
  let x' := { x with blobs := x.blobs ++ pre }
  let o := ingest idxName id x'
  let disk := if store = "dir" ∧ ingestMod x then persist o else x
  observe df store o disk

def step (cov : Bool) (df : Def) (line : String) : Def × Option String :=
  let s := df.st
  match (line.trimAscii.toString.splitOn " ").filter (· ≠ "") with
  | ["NEW"] => ({}, some "ok")
  | "HDR" :: rest => ({ df with st := { s with converted := kvI rest "conv" = "1" } }, some "ok")
  | "MAN" :: name :: rest =>
    let cfg := if kvI rest "cfgmt" = "none" then none else some (kvI rest "cfgmt")
    let kids := if hasKey rest "kids" then some (parseDs (kvI rest "kids")) else none
    let n := INode.man (kvI rest "subj") (kvI rest "mt") cfg (kvI rest "at") (kvI rest "ann") ((kvI rest "len").toNat?.getD 0) kids
    ({ st := { s with blobs := s.blobs ++ [(name, n)] }, mans := df.mans ++ [name] }, some "ok")
  | ["RAW", name] => ({ df with st := { s with blobs := s.blobs ++ [(name, .raw)] } }, some "ok")
  | ["IDXN", name] => ({ df with st := { s with blobs := s.blobs ++ [(name, .idxnil)] } }, some "ok")
  | ["IDX"] => ({ df with st := { s with blobs := s.blobs ++ [(idxName [], .idx [])] } }, some "ok")
  | ["IDX", ds] =>
    let descs := parseDs ds
    ({ df with st := { s with blobs := s.blobs ++ [(idxName descs, .idx descs)] } }, some "ok")
  | "TOP" :: rest =>
    let tag := kvI rest "tag"; let subj := kvI rest "subj"
    let d : Desc := { dig := kvI rest "dig", mt := kvI rest "mt", size := (kvI rest "size").toNat?.getD 0,
                      ann := if tag = "" ∧ subj = "" then {} else { isNil := false, tag := tag, subj := subj } }
    ({ df with st := { s with index := { s.index with manifests := s.index.manifests ++ [d] } } }, some "ok")
  | "INGEST" :: rest => (df, some (runIngest df (kvI rest "store") cov))
  | "REOPEN" :: rest => (df, some (runReopen df (kvI rest "store")))
  | "CRASH" :: rest => (df, some (runCrash df (kvI rest "store") ((kvI rest "k").toNat?.getD 0)))
  | _ => (df, some "bad-op")

partial def loop (cov : Bool) (h : IO.FS.Stream) (out : IO.FS.Stream) (df : Def) : IO Unit := do
  let line ← h.getLine
  if line.isEmpty then return ()
  let (df', o) := step cov df line
  match o with
  | some a => out.putStrLn a
  | none => pure ()
  loop cov h out df'

/-- with VERIF_COV=1 every INGEST answer is followed by " #cov …", the branch coverage of that conversion -/
def main : IO Unit := do
  let cov := (← IO.getEnv "VERIF_COV") == some "1"
  loop cov (← IO.getStdin) (← IO.getStdout) {}
