import Upd
open Upd

def kvI (toks : List String) (k : String) : String :=
  match toks.find? (fun t => t.startsWith (k ++ "=")) with
  | some t => (t.drop (k.length + 1)).toString
  | none => ""

/-- split a comma separated list of descriptors whose digest tokens may themselves contain commas inside I(...) -/
def splitTop (s : String) : List String := Id.run do
  let mut depth := 0
  let mut cur := ""
  let mut out : List String := []
  for c in s.toList do
    if c = '(' then depth := depth + 1
    if c = ')' then depth := depth - 1
    if c = ',' ∧ depth = 0 then
      out := out ++ [cur]; cur := ""
    else cur := cur.push c
  if cur ≠ "" then out := out ++ [cur]
  return out

/-- dig/mt/size/at/ann where dig may contain '/' inside I(...): split from the right -/
def parseD (s : String) : Desc :=
  let parts := s.splitOn "/"
  let n := parts.length
  if n < 5 then {} else
  let ann := parts[n-1]!
  let atRaw := parts[n-2]!
  -- artifact types like x/a contain a slash: the harness only uses "", "x/a", "x/b", "cfg", "empty"
  let (aty, k) := if (atRaw = "a" ∨ atRaw = "b") ∧ n ≥ 6 ∧ parts[n-3]! = "x" then ("x/" ++ atRaw, 3) else (atRaw, 2)
  let size := parts[n-k-1]!
  let mt := parts[n-k-2]!
  let dig := "/".intercalate (parts.take (n-k-2))
  { dig := dig, mt := mt, size := size.toNat?.getD 0, atype := aty, rann := ann }

def insertS (x : String) : List String → List String
  | [] => [x]
  | y :: ys => if x ≤ y then x :: y :: ys else y :: insertS x ys
def sortSS (l : List String) : List String := l.foldl (fun a x => insertS x a) []

def run (s : IState) (mans : List String) : String :=
  let o := ingest s
  if o.err then "err=1" else
  let ms := o.st.index.manifests
  -- compare modulo untagged entries of a digest that is listed anyway (see the Go side)
  let ms := ms.filter fun d => !(d.ann.tag = "" ∧ d.ann.subj = "" ∧ ms.any (fun o => o.dig = d.dig ∧ (o.mt ≠ d.mt ∨ o.ann.tag ≠ "" ∨ o.ann.subj ≠ "")))
  let ents := sortSS (ms.map fun d => s!"{d.dig}:{d.mt}:{d.ann.tag}:{d.ann.subj}")
  let found := mans.filter fun m => (getDescDig o.st.index m).isSome
  s!"err=0 mod={o.mod} I[{" ".intercalate ents}] F[{" ".intercalate found}] B[{" ".intercalate (sortSS o.st.newBlobs)}]"

partial def loop (h : IO.FS.Stream) (out : IO.FS.Stream) (s : IState) (mans : List String) : IO Unit := do
  let line ← h.getLine
  if line.isEmpty then return ()
  let l := line.trimAscii.toString
  match (l.splitOn " ").filter (· ≠ "") with
  | ["CASE"] => loop h out {} []
  | "MAN" :: name :: rest =>
    let n := INode.man (kvI rest "subj") (kvI rest "mt") (kvI rest "cfgmt") (kvI rest "at") (kvI rest "ann") ((kvI rest "len").toNat?.getD 0)
    loop h out { s with blobs := s.blobs ++ [(name, n)] } (mans ++ [name])
  | ["RAW", name] => loop h out { s with blobs := s.blobs ++ [(name, .raw)] } mans
  | ["IDX"] => loop h out { s with blobs := s.blobs ++ [(idxName [], .idx [])] } mans
  | ["IDX", ds] =>
    let descs := (splitTop ds).map parseD
    loop h out { s with blobs := s.blobs ++ [(idxName descs, .idx descs)] } mans
  | "TOP" :: rest =>
    let tag := kvI rest "tag"; let subj := kvI rest "subj"
    let d : Desc := { dig := kvI rest "dig", mt := kvI rest "mt", size := (kvI rest "size").toNat?.getD 0,
                      ann := if tag = "" ∧ subj = "" then {} else { isNil := false, tag := tag, subj := subj } }
    loop h out { s with index := { s.index with manifests := s.index.manifests ++ [d] } } mans
  | ["RUN"] => out.putStrLn (run s mans); loop h out {} []
  | _ => out.putStrLn "bad-op"; loop h out s mans

def main : IO Unit := do loop (← IO.getStdin) (← IO.getStdout) {} []
