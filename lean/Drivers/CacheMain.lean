import Ccd
open Ccd

def insertN (x : Nat) : List Nat → List Nat
  | [] => [x]
  | y :: ys => if x ≤ y then x :: y :: ys else y :: insertN x ys
def sortN (l : List Nat) : List Nat := l.foldl (fun a x => insertN x a) []

def fmt (c : Cache) (calls : List (Nat × Nat)) (err : Bool) (extra : String := "") : String :=
  let keys := sortN (c.entries.map (·.key))
  let cs := sortN (calls.map fun (k, v) => k * 1000 + v)
  let sp := fun (l : List Nat) => "[" ++ " ".intercalate (l.map toString) ++ "]"
  s!"keys={sp keys} calls={sp cs} err={if err then 1 else 0}{extra}"

partial def loop (h : IO.FS.Stream) (out : IO.FS.Stream) (c : Cache) : IO Unit := do
  let line ← h.getLine
  if line.isEmpty then return ()
  let n := fun (s : String) => s.toNat!
  match (line.trimAscii.toString.splitOn " ").filter (· ≠ "") with
  | ["NEW", age, count, fn] => let c := mkCache (n age) (n count) (fn == "1"); out.putStrLn "new"; loop h out c
  | ["SET", k, v, now] => let (c', cs, e) := set c (n k) (n v) (n now); out.putStrLn (fmt c' cs e); loop h out c'
  | ["GET", k, now] => let (c', r) := get c (n k) (n now); out.putStrLn (fmt c' [] false s!" got={r}"); loop h out c'
  | ["DEL", k] => let (c', cs, e) := delete c (n k); out.putStrLn (fmt c' cs e); loop h out c'
  | ["DELALL"] => let (c', cs, e) := deleteAll c; out.putStrLn (fmt c' cs e); loop h out c'
  | ["AGE", now] => let (c', cs, e) := pruneAge c (n now); out.putStrLn (fmt c' cs e); loop h out c'
  | ["COUNT", now] => let (c', cs, e) := pruneCount c (n now); out.putStrLn (fmt c' cs e); loop h out c'
  | _ => out.putStrLn "bad-op"; loop h out c

def main : IO Unit := do loop (← IO.getStdin) (← IO.getStdout) (mkCache 0 0 false)
