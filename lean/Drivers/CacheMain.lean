import Ccd
open Ccd
/-!
Driver of the cache model (C20): reads the request lines of `harness/inpkg/cache/cache_harness_test.go`
and prints one answer line per request.

    NEW age count fn            SET k v now ! f…      GET k now        DEL k ! f…       DELALL ! f…
    AGE now ! f…                COUNT now ! f…        LIST             EMPTY            MINCOUNT lo hi    TIMER ms
    DBEGIN t k                  DEND t r              ABEGIN t k ! f…  AEND t r

`! f…` lists the keys whose cleanup reports an error during this request; `r` is 0 (callback returns nil) or
1 (returns an error).  `DBEGIN`/`DEND` are the two critical sections of `Delete(k)` run by thread `t`,
`ABEGIN`/`AEND` a `DeleteAll` that is stopped inside the callback of key `k` (the cleanups of all other keys
must be scripted to fail, which makes the state independent of Go's map order).

With the argument `asis` the driver runs the model of the code before the F12/F27 repairs.
-/

def insertN (x : Nat) : List Nat → List Nat
  | [] => [x]
  | y :: ys => if x ≤ y then x :: y :: ys else y :: insertN x ys
def sortN (l : List Nat) : List Nat := l.foldl (fun a x => insertN x a) []

def insertBy {α} (key : α → Nat) (x : α) : List α → List α
  | [] => [x]
  | y :: ys => if key x ≤ key y then x :: y :: ys else y :: insertBy key x ys
def sortBy {α} (key : α → Nat) (l : List α) : List α := l.foldl (fun a x => insertBy key x a) []

def sp (l : List String) : String := "[" ++ " ".intercalate l ++ "]"
def fmtEnts (c : Cache) : String :=
  sp ((sortBy (·.key) c.entries).map fun e => s!"{e.key}:{e.val}:{e.used}")
def fmtCall (x : Call) : String := s!"{x.key}:{x.val}:{if x.ok then 0 else 1}"
def fmtCalls (cs : List Call) (sorted : Bool) : String :=
  sp ((if sorted then sortBy (fun (x : Call) => x.key * 1000003 + x.val) cs else cs).map fmtCall)
def fmtPend (s : SCache) : String :=
  sp ((sortBy (·.tid) s.pend).map fun p => s!"{p.tid}:{p.key}:{p.val}")

structure Thread where
  tid : Nat
  err : Bool := false
  calls : List Call := []

structure St where
  asis : Bool
  s : SCache
  clock : Nat := 0
  threads : List Thread := []     -- DeleteAll threads stopped in a callback
  started : Bool := false         -- a NEW line has been seen

def St.fix (st : St) : Bool := !st.asis

def answer (st : St) (calls : List Call) (sorted : Bool) (err : Bool) (extra : String := "") : String :=
  s!"ents={fmtEnts st.s.c} calls={fmtCalls calls sorted} err={if err then 1 else 0} pend={fmtPend st.s}{extra}"

/-- split the tokens at "!" -/
def splitBang (t : List String) : List String × List Nat :=
  let a := t.takeWhile (· ≠ "!")
  let b := (t.dropWhile (· ≠ "!")).drop 1
  (a, b.map String.toNat!)

def newCalls (old new : SCache) : List Call := new.log.drop old.log.length

def atomicOp (st : St) (op : Op) : St × List Call :=
  let s' := sstep st.fix st.s (.atomic op)
  ({ st with s := s' }, newCalls st.s s')

def sumMin (asis : Bool) (lo hi : Nat) : Nat := Id.run do
  let mut acc := 0
  for c in [lo:hi+1] do
    acc := acc + (if asis then mkCacheF12 0 c false else mkCache 0 c false).minCount
  return acc

def stepLine (st : St) (line : String) : St × String :=
  let toks := (line.trimAscii.toString.splitOn " ").filter (· ≠ "")
  let (t, fails) := splitBang toks
  let fl : Nat → Bool := fun k => fails.contains k
  let n := fun (s : String) => s.toNat!
  let timed (now : Nat) (f : Unit → St × String) : St × String :=
    if now ≤ st.clock then (st, "bad-time") else
      let (st', a) := f ()
      ({ st' with clock := now }, a)
  match t with
  | ["NEW", age, count, fn] =>
    let c := if st.asis then mkCacheF12 (n age) (n count) (fn == "1") else mkCache (n age) (n count) (fn == "1")
    ({ asis := st.asis, s := { c := c }, started := true }, "new")
  | [] => (st, "bad-op")
  | _ :: _ => if !st.started then (st, "bad-op") else
  match t with
  | ["SET", k, v, now] => timed (n now) fun _ =>
    let (st', cs) := atomicOp st (.set (n k) (n v) (n now) fl); (st', answer st' cs false false)
  | ["GET", k, now] => timed (n now) fun _ =>
    let r := (get st.s.c (n k) (n now)).2
    let (st', cs) := atomicOp st (.get (n k) (n now))
    (st', answer st' cs false false (match r with | some v => s!" got={v}" | none => " got=none"))
  | ["DEL", k] =>
    let e := (delete st.s.c (n k) fl).2.2
    let (st', cs) := atomicOp st (.delete (n k) fl); (st', answer st' cs false e)
  | ["DELALL"] =>
    let e := (deleteAll st.s.c fl).2.2
    let (st', cs) := atomicOp st (.deleteAll fl); (st', answer st' cs true e)
  | ["AGE", now] => timed (n now) fun _ =>
    let (st', cs) := atomicOp st (.pruneAge (n now) fl); (st', answer st' cs true false)
  | ["COUNT", now] => timed (n now) fun _ =>
    let (st', cs) := atomicOp st (.pruneCount (n now) fl); (st', answer st' cs false false)
  | ["LIST"] => (st, "list=" ++ sp ((sortN (st.s.c.entries.map (·.key))).map toString))
  | ["EMPTY"] => (st, s!"empty={if st.s.c.entries.isEmpty then 1 else 0}")
  | ["TIMER", _] => (st, "ok")     -- validation with the real timer, judged by a monitor of the harness only
  | ["MINCOUNT", lo, hi] => (st, s!"sum={sumMin st.asis (n lo) (n hi)}")
  | ["DBEGIN", tid, k] =>
    if (st.s.pending (n tid)).isSome then (st, "busy") else
    let s' := sstep st.fix st.s (.begin (n tid) (n k))
    let st' := { st with s := s' }
    match s'.pending (n tid) with
    | some p => (st', answer st' [] false false s!" cb={p.key}:{p.val}")
    | none => (st', answer st' [] false false " done")
  | ["DEND", tid, r] =>
    match st.s.pending (n tid) with
    | none => (st, "idle")
    | some _ =>
      if st.threads.any (·.tid = n tid) then (st, "bad-op") else
      let s' := sstep st.fix st.s (.finish (n tid) (r == "0"))
      let st' := { st with s := s' }
      (st', answer st' (newCalls st.s s') false (r != "0") " done")
  | ["ABEGIN", tid, k0] =>
    if (st.s.pending (n tid)).isSome then (st, "busy") else
    -- every other key must be scripted to fail (state independent of the iteration order)
    if st.s.c.hasFn && st.s.c.entries.any (fun e => e.key ≠ n k0 && !fl e.key) then (st, "bad-op") else
    if !st.s.c.hasFn then
      let e := (deleteAll st.s.c fl).2.2
      let (st', cs) := atomicOp st (.deleteAll fl); (st', answer st' cs true e " done")
    else
      -- the iterations on the other keys: begin/finish pairs of thread tid
      let others := st.s.c.entries.filter (·.key ≠ n k0)
      let s1 := others.foldl (fun s e => sstep st.fix (sstep st.fix s (.begin (n tid) e.key)) (.finish (n tid) false)) st.s
      let cs := newCalls st.s s1
      let s2 := sstep st.fix s1 (.begin (n tid) (n k0))
      match s2.pending (n tid) with
      | some p =>
        let st' := { st with s := s2, threads := ⟨n tid, !cs.isEmpty, cs⟩ :: st.threads }
        (st', answer st' [] true false s!" cb={p.key}:{p.val}")
      | none =>
        let st' := { st with s := s2 }
        (st', answer st' cs true (!cs.isEmpty) " done")
  | ["AEND", tid, r] =>
    match st.threads.find? (·.tid = n tid) with
    | none => (st, "idle")
    | some th =>
      let s' := sstep st.fix st.s (.finish (n tid) (r == "0"))
      let st' := { st with s := s', threads := st.threads.filter (·.tid ≠ n tid) }
      (st', answer st' (th.calls ++ newCalls st.s s') true (th.err || r != "0") " done")
  | _ => (st, "bad-op")

partial def loop (h : IO.FS.Stream) (out : IO.FS.Stream) (st : St) : IO Unit := do
  let line ← h.getLine
  if line.isEmpty then return ()
  let (st', a) := stepLine st line
  out.putStrLn a
  loop h out st'

def main (args : List String) : IO Unit := do
  let asis := args.contains "asis"
  loop (← IO.getStdin) (← IO.getStdout) { asis := asis, s := sinit 0 0 false }
