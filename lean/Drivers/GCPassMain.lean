import Ixd.GCPass
open Ixd

/-! Driver of the store-wide pass profile (TestVerifGCPass in harness/inpkg/store/gc_harness_test.go).
    `gcpassdriver mem|dir`.  The repositories are visited in the order in which they were added: the result of the
    (repaired) pass does not depend on the order (`C06.pass_independent`). -/

structure PSt where
  dirMode : Bool := false
  started : Bool := false
  p : Policy := ⟨false, false, false, false⟩
  emptyRepo : Bool := false
  names : List Nat := []
  kinds : List (Nat × String) := []
  mem : List (Nat × Entry MemRepo) := []
  dir : List (Nat × Entry DirRepo) := []

def repoNo (s : String) : Nat := (s.drop 1).toString.toNat?.getD 0

def garbage : Blob := { dig := 4, json := false }
def healthyBlobs : List Blob :=
  [{ dig := 1 }, { dig := 2, json := false }, { dig := 3, cfg := 1, layers := [2] }, garbage]
def healthyIndex : Index := { manifests := [{ mt := 1, dig := 3, size := 1, ann := { isNil := false, tag := 1 } }] }

def mkDir (kind : String) : DirRepo :=
  match kind with
  | "healthy" => { live := true, repoDir := true, indexFile := true, layoutFile := true, uploadsDir := true, blobsDir := true,
                   algos := [256], index := healthyIndex, blobs := healthyBlobs }
  | "corrupt" => { live := true, repoDir := true, indexFile := true, corrupt := true, layoutFile := true, uploadsDir := true,
                   blobsDir := true, algos := [256], index := healthyIndex, blobs := healthyBlobs }
  | "empty" => ({} : DirRepo).init
  | _ => {}

def mkMem (kind : String) : MemRepo :=
  if kind == "healthy" || kind == "corrupt" then { index := healthyIndex, blobs := healthyBlobs } else {}

def imgSuffix (bs : List Blob) : String := if bs.any (·.dig = 3) then "+i" else ""
def stateDir (r : DirRepo) : String :=
  if !r.repoDir then "gone" else if r.indexFile && r.corrupt then "corrupt"
  else (if r.blobs.any (·.dig = 4) then "dirty" else "clean") ++ imgSuffix r.blobs
def stateMem (r : MemRepo) : String := (if r.blobs.any (·.dig = 4) then "dirty" else "clean") ++ imgSuffix r.blobs

/-- the descriptor `T` / `U` pass to `IndexRemove` / `IndexInsert`: the image of a healthy repository with the tag `latest` -/
def latestDesc : Desc := { mt := 1, dig := 3, size := 1, ann := { isNil := false, tag := 1 } }

def pstep (s : PSt) (toks : List String) : PSt × String :=
  match toks with
  | ["NEW", u, d, w, g, e] =>
    ({ dirMode := s.dirMode, started := true, p := ⟨u == "1", d == "1", w == "1", g == "1"⟩, emptyRepo := e == "1" }, "ok")
  | _ =>
  if !s.started then (s, "bad-op") else
  match toks with
  | ["R", name, kind, due] =>
    let n := repoNo name
    if s.names.contains n then (s, "bad-op") else
    if kind != "healthy" && kind != "corrupt" && kind != "empty" && kind != "removed" then (s, "error unknown kind " ++ kind) else
    -- `a<ms>`: an exact age; the harness runs every pass with a tick interval of 1000 ms and a grace period of one hour
    let grace := if s.p.grace then 3600000 else 0
    let dueFor (slack : Nat) : Option Bool :=
      if due.startsWith "a" then ((due.drop 1).toString.toNat?).map (dueOf slack grace 1000) else some (due == "1")
    match dueFor 0, dueFor 250 with
    | some dm, some dd =>
      ({ s with names := s.names ++ [n], kinds := s.kinds ++ [(n, kind)],
                mem := s.mem ++ [(n, { due := dm, repo := mkMem kind })],
                dir := s.dir ++ [(n, { due := dd, repo := mkDir kind })] }, "ok")
    | _, _ => (s, "bad-op")
  | ["G", name] =>
    let n := repoNo name
    let kind := ((s.kinds.find? (·.1 = n)).map (·.2)).getD ""
    if kind == "healthy" || (kind == "corrupt" && !s.dirMode) then
      let addM (e : Entry MemRepo) : Entry MemRepo := { e with repo := { e.repo with blobs := e.repo.blobs.filter (·.dig ≠ 4) ++ [garbage] } }
      -- BlobCreate initialises the repository again if an earlier pass removed it as empty
      let addD (e : Entry DirRepo) : Entry DirRepo :=
        let r := e.repo.init
        { e with repo := { r with blobs := r.blobs.filter (·.dig ≠ 4) ++ [garbage], uploadsDir := true, blobsDir := true,
                                  algos := insertAlgo 256 r.algos } }
      ({ s with mem := s.mem.map (fun (m, e) => if m = n then (m, addM e) else (m, e)),
                dir := s.dir.map (fun (m, e) => if m = n then (m, addD e) else (m, e)) }, "ok")
    else (s, "ok")
  | [op, name] =>
    -- `T`: memRepo/dirRepo.IndexRemove (RmDesc with digest and tag: the entry stays, untagged); `U`: IndexInsert (AddDesc);
    -- either way the store notes the modification, so the repository is due for the next pass
    if op != "T" && op != "U" then (s, "bad-op") else
    let n := repoNo name
    let kind := ((s.kinds.find? (·.1 = n)).map (·.2)).getD ""
    if kind != "healthy" then (s, "ok") else
    let f (ix : Index) : Index := if op == "T" then rmDesc ix latestDesc else addDesc ix latestDesc
    let updM (e : Entry MemRepo) : Entry MemRepo := { due := true, repo := { e.repo with index := f e.repo.index } }
    let updD (e : Entry DirRepo) : Entry DirRepo :=
      if !e.repo.live then e else { due := true, repo := { e.repo with index := f e.repo.index } }
    ({ s with mem := s.mem.map (fun (m, e) => if m = n then (m, updM e) else (m, e)),
              dir := s.dir.map (fun (m, e) => if m = n then (m, updD e) else (m, e)) }, "ok")
  | ["PASS"] =>
    if s.dirMode then
      let (st, err) := gcPass (dirGC s.p s.emptyRepo) s.names s.dir
      let parts := s.names.map fun n => s!"r{n}=" ++ ((lookup n st).map (fun e => stateDir e.repo)).getD "error"
      ({ s with dir := st }, s!"err={if err then 1 else 0} " ++ " ".intercalate parts)
    else
      let (st, err) := gcPass (memGC s.p) s.names s.mem
      let parts := s.names.map fun n => s!"r{n}=" ++ ((lookup n st).map (fun e => stateMem e.repo)).getD "error"
      ({ s with mem := st }, s!"err={if err then 1 else 0} " ++ " ".intercalate parts)
  | _ => (s, "bad-op")

partial def ploop (h : IO.FS.Stream) (out : IO.FS.Stream) (s : PSt) : IO Unit := do
  let line ← h.getLine
  if line.isEmpty then return ()
  let toks := (line.trimAscii.toString.splitOn " ").filter (· ≠ "")
  let (s', ans) := pstep s toks
  out.putStrLn ans
  ploop h out s'

def main (args : List String) : IO Unit := do
  ploop (← IO.getStdin) (← IO.getStdout) { dirMode := args.head? == some "dir" }
