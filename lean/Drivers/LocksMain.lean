import Lk
/-! Prints what the regenerated lock facts violate, with witnesses (the same `rank` / `guardOf` the theorems of
    Properties/C12.lean and C13.lean decide over).  One line per failing entry; fields separated by tabs. -/
open Generated Lk

def main : IO Unit := do
  for (k, v) in lockStats ++ accessStats do
    IO.println s!"STAT\t{k}\t{v}"
  for e in badEdges do
    IO.println s!"EDGE\t{e.held}\t{e.acq}\t{e.heldAt}\t{e.acqAt}\t{e.root}\t{e.chain}"
  for (p, w) in lockUnrecognised do
    IO.println s!"UNREC\t{p}\t{w}"
  for (t, c) in lockLeaks do
    IO.println s!"LEAK\t{t}\t{c}"
  for c in lockedCalls do
    if !lockedCallOk c then
      IO.println s!"LOCKED\t{c.1}\t{c.2.2.2.2}"
  for a in wgAdds do
    if !wgAddOk a then
      IO.println s!"WGADD\t{a.1}\t{a.2.1}\t{a.2.2.2.2.2}"
  for w in repoWaits do
    let held := ", ".intercalate w.2.2.1
    if !repoWaitOk w then
      IO.println s!"WAIT\t{w.1}\t{w.2.1}\t{held}\t{w.2.2.2.1}\t{w.2.2.2.2.1}\t{w.2.2.2.2.2}"
    else if !shutdownRoots.contains w.2.2.2.1 && !w.2.2.1.isEmpty then
      IO.println s!"WAITEXC\t{w.1}\t{w.2.1}\t{held}\t{w.2.2.2.1}\t{w.2.2.2.2.1}\t{w.2.2.2.2.2}"
  for (f, c) in tokenTakes do
    IO.println s!"TOKEN\t{f}\t{c}"
  for f in lockUnreached do
    IO.println s!"UNREACHED\t{f}"
  for (a, k) in badAccesses do
    let held := ", ".intercalate k.held
    IO.println s!"ACCESS\t{k.field}\t{if k.write then "write" else "read"}\t[{held}]\t{k.own}\t{a.root}\t{a.fn}\t{a.pos}"
