import Cfg
import Generated
/-!
Model side of the C19 correspondence profiles (harness/cmd/cfg/main.go, harness/inpkg/olareg/ratelimit_harness_test.go).
One answer line per request line.

* `D <18 tokens>`                         `Cfg.setDefaults`
* `NEW RL <limit>` / `REQ a mode port t`  `Cfg.RL.step`   (mode and port are not part of a client address)
* `NEW push=.. …` / `P <probe>` / `REOPEN r` / `DISK`   `Cfg.route` on the regenerated table + the effect of the handlers
* `LC early|normal|load <limit>`          `Cfg.LC` (which endings are reachable)
* `BIN <flags> [sig=µs]`                  the documented flag table, then as `P`
-/
open Cfg

def ob (s : String) : Option Bool := if s = "t" then some true else if s = "f" then some false else none
def fb (o : Option Bool) : String := match o with | some true => "t" | some false => "f" | none => "n"

def defaultsLine (t : List String) : String :=
  match t with
  | [t1, t2, t3, t4, ml, pe, pl, rl, ro, st, rd, gf, gg, um, gu, ge, gd, gw] =>
    let toI := fun (s : String) => s.toInt!
    let c0 : Config :=
      { deleteEnabled := ob t1, pushEnabled := ob t2, blobDelete := ob t3, referrerEnabled := ob t4
        manifestLimit := toI ml, pageCacheExpire := toI pe, pageCacheLimit := toI pl, referrerLimit := toI rl
        readOnly := ob ro, storeType := st.toNat!, rootDir := (if rd = "-" then "" else rd)
        gcFrequency := toI gf, gcGrace := toI gg, repoUploadMax := toI um
        gcUntagged := ob gu, gcEmptyRepo := ob ge, gcDangling := ob gd, gcWithSubj := ob gw }
    let r := setDefaults c0
    s!"{fb r.deleteEnabled} {fb r.pushEnabled} {fb r.blobDelete} {fb r.referrerEnabled} {r.manifestLimit} {r.pageCacheExpire} {r.pageCacheLimit} {r.referrerLimit} {fb r.readOnly} {r.storeType} {if r.rootDir = "" then "-" else r.rootDir} {r.gcFrequency} {r.gcGrace} {r.repoUploadMax} {fb r.gcUntagged} {fb r.gcEmptyRepo} {fb r.gcDangling} {fb r.gcWithSubj}"
  | _ => "bad"

/-! ### switches: the registry as the probes see it -/

structure Reg where
  push : Bool := true
  del : Bool := false
  bdel : Bool := false
  ref : Bool := true
  ro : Bool := false
  dirStore : Bool := true
  nwarn : Nat := 0
  tagT2 : Bool := false        -- tag t2 exists (pushed by probe mput)
  b2 : Bool := true            -- the unreferenced blob exists in the store
  b2Disk : Bool := true
  t2Disk : Bool := false
  converted : Bool := true     -- index.json on disk carries the referrers-converted annotation
  stale : Bool := false        -- F24 (directory store): the next index load fails once
  broken : Bool := false       -- F24 (memory store over a directory): the repository cannot be loaded at all
  closed : Bool := false

/-- settings come from the `serve` flags through the documented table, or directly as configuration fields; a value
of `n` leaves the field unset, i.e. the documented default -/
def parseReg (toks : List String) : Reg × Bool :=
  let kv := toks.filterMap fun t => match t.splitOn "=" with | [k, v] => some (k, v) | _ => none
  let get := fun (k : String) (d : String) => ((kv.find? (·.1 == k)).map (·.2)).getD d
  let sw := fun (k : String) (d : Bool) => (ob (get k "n")).getD d
  let c : Config := setDefaults {
    pushEnabled := ob (get "push" "n"), deleteEnabled := ob (get "del" "n"), blobDelete := ob (get "bdel" "n"),
    referrerEnabled := ob (get "ref" "n"), readOnly := ob (get "ro" "n") }
  let seedref := sw "seedref" true
  ({ push := c.pushEnabled.getD true, del := c.deleteEnabled.getD false, bdel := c.blobDelete.getD false,
     ref := c.referrerEnabled.getD true, ro := c.readOnly.getD false, dirStore := get "store" "dir" != "mem",
     nwarn := (get "warn" "0").toNat!, converted := seedref }, seedref)

/-- opening a store on the directory: F24 — an index that was converted for the referrers API is refused when the
API is off (the directory store fails the first index load, the memory store every load) -/
def Reg.opened (r : Reg) : Reg :=
  let bad := r.converted && !r.ref
  { r with stale := bad && r.dirStore, broken := bad && !r.dirStore, closed := false }

def probeReq (name : String) : Option (String × List String) :=
  let r := ["v2", "proj", "app"]
  match name with
  | "ping" => some ("Get", ["v2"])
  | "mget" => some ("Get", r ++ ["manifests", "t"])
  | "mhead" => some ("Head", r ++ ["manifests", "sha256:m"])
  | "bhead" => some ("Head", r ++ ["blobs", "sha256:cfg"])
  | "tags" => some ("Get", r ++ ["tags", "list"])
  | "ref" => some ("Get", r ++ ["referrers", "sha256:m"])
  | "refput" => some ("Put", r ++ ["referrers", "sha256:m"])
  | "mopt" => some ("Options", r ++ ["manifests", "t"])
  | "mput" => some ("Put", r ++ ["manifests", "t2"])
  | "bpost" => some ("Post", r ++ ["blobs", "uploads"])
  | "upatch" => some ("Patch", r ++ ["blobs", "uploads", "nosuchsession"])
  | "uget" => some ("Get", r ++ ["blobs", "uploads", "nosuchsession"])
  | "uopt" => some ("Options", r ++ ["blobs", "uploads", "nosuchsession"])
  | "mdel" => some ("Delete", r ++ ["manifests", "t2"])
  | "bdel" => some ("Delete", r ++ ["blobs", "sha256:b2"])
  | "b2head" => some ("Head", r ++ ["blobs", "sha256:b2"])
  | "other" => some ("Get", r ++ ["nosuch", "x"])
  | _ => none

def probeNames : List String :=
  ["ping", "mget", "mhead", "bhead", "tags", "ref", "refput", "mopt", "mput", "bpost", "upatch", "uget", "uopt", "mdel",
   "bdel", "b2head", "other"]

/-- what a handler answers for the probe content: (status, error code) and the new state.
Read-only storage denies every mutating handler with 403 DENIED (documented: "read only disables all writes"). -/
def handlerEffect (r : Reg) (name : String) (call : String) : Reg × Nat × String :=
  let h := (call.splitOn "(").headD ""
  if h = "v2Ping" then (r, 200, "-")
  else if r.broken then (r, 500, "-")
  else
    let loadsIndex := h = "manifestGet" || h = "tagList" || h = "manifestDelete" || h = "referrerGet"
    if r.stale && loadsIndex && !(h = "manifestDelete" && r.ro) then ({ r with stale := false }, 404, "NAME_UNKNOWN")
    else
      let conv := fun (r : Reg) => if r.dirStore && r.ref && !r.ro then { r with converted := true } else r
      if h = "manifestGet" || h = "tagList" || h = "referrerGet" then (conv r, 200, "-")
      else if h = "blobGet" then
        (if name = "b2head" && !r.b2 then (r, 404, "-") else (r, 200, "-"))   -- HEAD: no body, no error code
      else if h = "manifestPut" then
        if r.ro then (r, 403, "DENIED")
        else ({ conv r with tagT2 := true, t2Disk := r.dirStore, stale := false }, 201, "-")
      else if h = "blobUploadPost" then (if r.ro then (r, 403, "DENIED") else (r, 202, "-"))
      else if h = "blobUploadPatch" || h = "blobUploadPut" || h = "blobUploadGet" || h = "blobUploadDelete" then
        (r, 400, "BLOB_UPLOAD_UNKNOWN")
      else if h = "manifestDelete" then
        if r.ro then (r, 403, "DENIED")
        else if r.tagT2 then ({ conv r with tagT2 := false, t2Disk := false }, 202, "-")
        else (conv r, 404, "MANIFEST_UNKNOWN")
      else if h = "blobDelete" then
        if r.ro then (r, 403, "DENIED")
        else if r.b2 then ({ r with b2 := false, b2Disk := !r.dirStore }, 202, "-")
        else (r, 404, "BLOB_UNKNOWN")
      else (r, 0, "unknown-handler")

def probe (r : Reg) (name : String) : Reg × String :=
  match probeReq name with
  | none => (r, "bad")
  | some (m, p) =>
    let sw : Switches := ⟨r.push, r.del, r.bdel, r.ref⟩
    match route sw m p with
    | .status n => (r, s!"{(statusCode n).getD 0} - w{r.nwarn}")
    | .handler call => let (r', st, code) := handlerEffect r name call; (r', s!"{st} {code} w{r.nwarn}")
    | .noAnswer => (r, s!"200 - w{r.nwarn}")
    | .unknown w => (r, "unknown " ++ w)

def diskLine (r : Reg) : String :=
  s!"t2={if r.t2Disk then "yes" else "no"} b2={if r.b2Disk then "yes" else "no"}"

/-! ### lifecycle -/

def lcLine (kind : String) (limit : Int) : String :=
  let shared := decide (Generated.limiterMutex = Generated.shutdownMutex)
  -- does the tree have the `s.stopped` handshake?  (`C19.lifecycle_shape` fixes the whole text; the driver only looks)
  let remembers := Generated.shutdownBody.contains "  s.stopped = true" && Generated.runBody.contains "if s.stopped {"
  match kind with
  | "early" =>
    -- Shutdown before Run has published the server: the endings in which Shutdown answered "server is not running"
    let p : LC.Params := ⟨shared, false, false, remembers⟩
    let ends := (LC.reachable p).filter fun s => LC.terminal p s && LC.get LC.gErr s = 1
    if ends.any LC.stuckServing then "shutdown=server-is-not-running run=serving"
    else if !ends.isEmpty && ends.all LC.stoppedBeforeStart then "shutdown=server-is-not-running run=returned"
    else "unexpected-ending"
  | "normal" => "shutdown=ok run=returned"
  | "load" =>
    let p : LC.Params := ⟨shared, decide (limit > 0), true, remembers⟩
    if (LC.reachable p).any fun s => LC.terminal p s && LC.deadlocked s then "shutdown=hang run=blocked"
    else "shutdown=ok run=returned"
  | _ => "bad"

/-! ### main loop -/

inductive Mode where
  | none
  | rl (limit : Nat) (s : RL.State)
  | sw (r : Reg)

def binLine (toks : List String) : String :=
  let sig := (toks.find? (·.startsWith "sig=")).map (·.drop 4)
  let (r0, _) := parseReg (toks.filter fun t => !t.startsWith "sig=")
  let r0 := r0.opened
  match sig with
  | some _ => "exit=stopped disk=ok"
  | none =>
    let (r, outs) := probeNames.foldl (fun (acc : Reg × List String) n =>
      let (r', a) := probe acc.1 n
      (r', acc.2 ++ [n ++ "=" ++ a.replace " " ","])) (r0, [])
    " ".intercalate outs ++ " exit=0 disk=ok " ++ (diskLine r).replace " " ","

def step (md : Mode) (line : String) : Mode × String :=
  match (line.trimAscii.toString.splitOn " ").filter (· ≠ "") with
  | "D" :: rest => (md, defaultsLine rest)
  | ["NEW"] => (.none, "ok")
  | ["NEW", "RL", l] => (.rl (l.toInt!).toNat RL.init, "ok")
  | "NEW" :: rest => (.sw (parseReg rest).1.opened, "ok")
  | ["REQ", a, _mode, _port, t] =>
    match md with
    | .rl limit s =>
      if limit = 0 then (md, "S - -")
      else
        let (s', ev) := RL.step limit s a.toNat! t.toInt!
        let e := (s' a.toNat!).getD ⟨0, 0⟩
        (.rl limit s', s!"{if ev.served then "S" else "B"} {e.first} {e.count}")
    | _ => (md, "bad")
  | ["FLOOD", n, t] =>
    -- n requests, one each from addresses no other line uses, at one instant: `Cfg.RL.step` per request
    match md with
    | .rl limit s =>
      if limit = 0 then (md, s!"F {n.toNat!}")
      else
        let (s', k) := (List.range n.toNat!).foldl (fun (acc : RL.State × Nat) i =>
          let (s1, ev) := RL.step limit acc.1 (20000 + i) t.toInt!
          (s1, if ev.served then acc.2 + 1 else acc.2)) (s, 0)
        (.rl limit s', s!"F {k}")
    | _ => (md, "bad")
  | ["P", name] =>
    match md with
    | .sw r => if r.closed then (md, "bad") else let (r', a) := probe r name; (.sw r', a)
    | _ => (md, "bad")
  | ["REOPEN", v] =>
    match md with
    | .sw r => (.sw { r with ref := v = "t", tagT2 := r.t2Disk, b2 := r.b2Disk }.opened, "ok")
    | _ => (md, "bad")
  | ["DISK"] =>
    match md with
    | .sw r => (.sw { r with closed := true }, diskLine r)
    | _ => (md, "bad")
  | ["LC", kind] => (md, lcLine kind 0)
  | ["LC", kind, l] => (md, lcLine kind l.toInt!)
  | "BIN" :: rest => (md, binLine rest)
  | _ => (md, "bad")

partial def loop (h : IO.FS.Stream) (out : IO.FS.Stream) (md : Mode) : IO Unit := do
  let line ← h.getLine
  if line.isEmpty then return ()
  let (md', o) := step md line
  out.putStrLn o
  loop h out md'

def main : IO Unit := do loop (← IO.getStdin) (← IO.getStdout) .none
