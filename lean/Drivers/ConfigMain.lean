import Cfg
open Cfg

def ob (s : String) : Option Bool := if s = "t" then some true else if s = "f" then some false else none
def fb (o : Option Bool) : String := match o with | some true => "t" | some false => "f" | none => "n"

partial def loop (h : IO.FS.Stream) (out : IO.FS.Stream) : IO Unit := do
  let line ← h.getLine
  if line.isEmpty then return ()
  match (line.trimAscii.toString.splitOn " ").filter (· ≠ "") with
  | [t1, t2, t3, t4, ml, pe, pl, rl, ro, st, rd, gf, gg, um, gu, ge, gd, gw] =>
    let toI := fun (s : String) => s.toInt!
    let c0 : Config :=
      { deleteEnabled := ob t1
        pushEnabled := ob t2
        blobDelete := ob t3
        referrerEnabled := ob t4
        manifestLimit := toI ml
        pageCacheExpire := toI pe
        pageCacheLimit := toI pl
        referrerLimit := toI rl
        readOnly := ob ro
        storeType := st.toNat!
        rootDir := (if rd = "-" then "" else rd)
        gcFrequency := toI gf
        gcGrace := toI gg
        repoUploadMax := toI um
        gcUntagged := ob gu
        gcEmptyRepo := ob ge
        gcDangling := ob gd
        gcWithSubj := ob gw }
    let r := setDefaults c0
    out.putStrLn s!"{fb r.deleteEnabled} {fb r.pushEnabled} {fb r.blobDelete} {fb r.referrerEnabled} {r.manifestLimit} {r.pageCacheExpire} {r.pageCacheLimit} {r.referrerLimit} {fb r.readOnly} {r.storeType} {if r.rootDir = "" then "-" else r.rootDir} {r.gcFrequency} {r.gcGrace} {r.repoUploadMax} {fb r.gcUntagged} {fb r.gcEmptyRepo} {fb r.gcDangling} {fb r.gcWithSubj}"
    loop h out
  | _ => out.putStrLn "bad"; loop h out

def main : IO Unit := do loop (← IO.getStdin) (← IO.getStdout)
