import Fs.Request
open Fs
/-!
Driver of the file-system model (C09): reads the request lines of a crash history as annotated by
`harness/cmd/reg/crash.go` (VERIF_FACTS: `KIND repo=… st=… <facts>`) and prints, per line, the list of mutating
`os` calls the directory store is expected to issue: `st=<st> fsops=[call;call;…]`.

Arguments: `stop` - the empty-repository removal gives up at the first entry it cannot remove (patch F5);
`readdir` - the algorithm directories removed are those found under blobs/ (patch F7); `notouch` - `blobCreate` does
not yet refresh the age of an existing blob (tree before repair F38).  Without arguments the
driver follows the unpatched code.  Which variant applies is read off the tree under test by `vlib/p_crash.py`.
-/

def kvOf (toks : List String) (k : String) : String :=
  match toks.find? (fun t => t.startsWith (k ++ "=")) with
  | some t => (t.drop (k.length + 1)).toString
  | none => ""

def flag (toks : List String) (k : String) : Bool := kvOf toks k == "1"

def algName : Nat → String
  | 0 => "sha256"
  | 1 => "sha384"
  | 2 => "sha512"
  | _ => "alg?"
def algNum (s : String) : Nat :=
  if s == "sha256" then 0 else if s == "sha384" then 1 else if s == "sha512" then 2 else 9

/-- blob roles of the canonical trace -/
def roleName : Nat → String
  | 0 => "$B"
  | 1 => "$M"
  | 2 => "$R"
  | _ => "$G"

def pathStr (repo : String) : Path → String
  | .repo _ => repo
  | .layout _ => repo ++ "/oci-layout"
  | .index _ => repo ++ "/index.json"
  | .indexTmp _ _ => repo ++ "/index.json.#"
  | .uploads _ => repo ++ "/_uploads"
  | .upload _ _ => repo ++ "/_uploads/upload.#"
  | .blobs _ => repo ++ "/blobs"
  | .algDir _ a => repo ++ "/blobs/" ++ algName a
  | .blob _ a h => repo ++ "/blobs/" ++ algName a ++ "/" ++ roleName h

def opStr (repo : String) : FsOp → String
  | .mkdirAll p => "mkdirall " ++ pathStr repo p
  | .createTemp p => "createtemp " ++ pathStr repo p
  | .write p _ => "write " ++ pathStr repo p
  | .close p => "close " ++ pathStr repo p
  | .rename a b => "rename " ++ pathStr repo a ++ " " ++ pathStr repo b
  | .remove p => "remove " ++ pathStr repo p
  | .writeFile p _ => "writefile " ++ pathStr repo p
  | .chtimes p => "chtimes " ++ pathStr repo p

def isChtimes : FsOp → Bool
  | .chtimes _ => true
  | _ => false

/-- `notouch`: a tree before repair F38 (`blobCreate` does not refresh the age of an existing blob) -/
def render (notouch : Bool) (repo : String) (ss : List Step) : String :=
  let ops := if notouch then (stepsOps ss).filter (fun o => !isChtimes o) else stepsOps ss
  "[" ++ ";".intercalate (ops.map (opStr repo)) ++ "]"

def preOf (t : List String) : Pre :=
  { r := 0, mex := flag t "mex", mconv := flag t "mconv", D := flag t "D", L := flag t "L", I := flag t "I", U := flag t "U",
    ann := (match kvOf t "ann" with | "1" => some true | "0" => some false | _ => none),
    refen := flag t "refen", ro := flag t "ro" }

/-- contents are invisible in the trace: a non-empty dummy where something is written -/
def contentsOf (t : List String) : Contents :=
  { layoutBytes := [1], initIndex := [1], convIndex := [1], index1 := [1], index2 := [1],
    body := if flag t "body" then [1] else [], resp := [1] }

structure Variant where
  stop : Bool
  readdir : Bool
  notouch : Bool := false

/-- `alg=<name>:<count before>:<removed>` facts of a collection, in directory order -/
def algFacts (toks : List String) : List (Nat × Nat × Nat) :=
  (toks.filter (fun t => t.startsWith "alg=")).filterMap fun t =>
    match ((t.drop 4).toString).splitOn ":" with
    | [a, n, g] => some (algNum a, n.toNat!, g.toNat!)
    | _ => none

def gcCands (v : Variant) (t : List String) : List Cand :=
  let algs := algFacts t
  let rem (a : Nat) : Bool := algs.any fun (x, n, g) => x == a && n > g
  let has (a : Nat) : Bool := algs.any fun (x, _, _) => x == a
  let upFails := false      -- _uploads was removed at the start of the collection or holds the files of open sessions (then nothing is removed)
  let listed : List Nat := if v.readdir then algs.map (·.1) else [0, 2]
  let blobsFails := algs.any fun (x, n, g) => n > g || !(listed.contains x)
  let repoFails := blobsFails || flag t "sub" || upFails
  [(Path.uploads 0, upFails)] ++ listed.map (fun a => (Path.algDir 0 a, rem a && has a)) ++
  [(Path.blobs 0, blobsFails), (Path.index 0, false), (Path.layout 0, false), (Path.repo 0, repoFails)]

def stepsOf (v : Variant) (kind : String) (t : List String) : Option (List Step) :=
  let p := preOf t
  let k := contentsOf t
  let st := kvOf t "st"
  let code := kvOf t "code"
  if !flag t "ok" then some [] else
  match kind with
  | "UPOST" =>
    if flag t "mount" then none else
    let reached := st == "201" || st == "202" || (st == "400" && code == "BLOB_UPLOAD_INVALID")
    some (uploadPost p k reached (flag t "mono") (flag t "bhad") (flag t "balgdir") (st == "201") (algNum (kvOf t "balg")) 0)
  | "UPATCH" => some (uploadPatch p k (st == "202") 1)
  | "UPUT" =>
    let wrote := st == "201" || (st == "400" && code == "BLOB_UPLOAD_INVALID" && flag t "open" && flag t "stateok")
    some (uploadPut p k wrote (st == "201") (flag t "balgdir") 1 (algNum (kvOf t "balg")) 0)
  | "UDEL" => some (uploadCancel p (st == "202") 1)
  | "BDEL" => some (blobDelete p (st == "202") (algNum (kvOf t "balg")) 0)
  | "MPUT" =>
    if st != "201" then some [] else
    if flag t "subj" && kvOf t "rhad" == "-" then none else
    some (manifestPut p k (flag t "mhad") (flag t "malgdir") (algNum (kvOf t "malg")) 1 (flag t "subj") (flag t "rhad") (flag t "ralgdir") 0 2)
  | "MDEL" =>
    let found := st == "202" || (st == "404" && code == "MANIFEST_UNKNOWN")
    if flag t "refdel" && kvOf t "rhad" == "-" then none else
    some (manifestDelete p k found (st == "202") (flag t "refdel") (flag t "rhad") (flag t "ralgdir") 0 2)
  | "TAGS" | "MGET" | "MHEAD" => some (indexRead p k true)
  | "REFS" => some (indexRead p k (st != "400"))
  | "BGET" | "BHEAD" | "UGET" => some []
  | "GC" =>
    let noSess := kvOf t "nsess" == "0"
    let garbage := (algFacts t).flatMap fun (a, _, g) => List.replicate g (a, 3)
    let empties := flag t "emptyrepo" && kvOf t "nman" == "0" && noSess
    some (collect p k noSess garbage (flag t "mod") empties (gcCands v t) v.stop)
  | _ => none

def answer (v : Variant) (line : String) : String :=
  let t := (line.splitOn " ").filter (· ≠ "")
  match t with
  | [] => "bad-op"
  | "NEW" :: _ => "new"
  | "DEF" :: _ => "def"
  | "PLAIN" :: _ => "plain"
  | kind :: rest =>
    let st := kvOf rest "st"
    match stepsOf v kind rest with
    | some ss => s!"st={st} fsops={render v.notouch (kvOf rest "repo") ss}"
    | none => s!"st={st} fsops=?"

partial def loop (v : Variant) (h : IO.FS.Stream) (out : IO.FS.Stream) : IO Unit := do
  let line ← h.getLine
  if line.isEmpty then return ()
  out.putStrLn (answer v ((line.splitOn "\n").headD ""))
  loop v h out

def main (args : List String) : IO Unit := do
  loop { stop := args.contains "stop", readdir := args.contains "readdir", notouch := args.contains "notouch" } (← IO.getStdin) (← IO.getStdout)
