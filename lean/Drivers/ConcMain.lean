import Conc.Lines
/-!
Driver of the C11 correspondence: reads the concurrent histories of `harness/cmd/reg/conc.go` (setup lines, `PAR k`,
`T<i> <request>`, `SCHED …`, `ANS i.j`, observation lines, `LIN`) and prints one answer per line.  The PAR block is
run by `Conc.exec` under the given schedule on the `Upd` instance; everything else by the sequential model
(`Conc.seqStep` = `Upd.step`).  `LIN` enumerates the orders of the requests that respect their real-time order, runs
each sequentially (`Upd.step`, the specification) from the state after the setup, and lists the orders that give
exactly the answers and the observation of the concurrent run; it also runs the *programs* one after the other in that
order and reports `MODEL-SERIAL-MISMATCH` if that differs from the sequential model.

    concdriver none|rw        the lock discipline of the tree under test (see `Conc.Disc`)
-/
open Conc Upd

structure ReqLog where
  tid : Nat            -- thread id as written in the history
  idx : Nat            -- 0-based position in the thread
  line : String
  trace : List ActName := []
  invoke : Nat := 0
  complete : Nat := 0
  ans : Option String := none

def ReqLog.id (r : ReqLog) : String := s!"T{r.tid}.{r.idx + 1}"

structure CS where
  s : State := {}                       -- sequential state (current)
  setupS : State := {}                  -- state after the last setup line
  inPar : Bool := false
  ran : Bool := false
  reqs : List ReqLog := []              -- in the order of the T lines
  obs : List (String × String) := []    -- observation lines with their answers
  schedStr : String := ""

def tidsOf (reqs : List ReqLog) : List Nat :=
  let rec ins (x : Nat) : List Nat → List Nat
    | [] => [x]
    | y :: ys => if x < y then x :: y :: ys else if x = y then y :: ys else y :: ins x ys
  reqs.foldl (fun acc r => ins r.tid acc) []

def indexOf (l : List Nat) (x : Nat) : Option Nat :=
  let rec go : List Nat → Nat → Option Nat
    | [], _ => none
    | y :: ys, i => if x = y then some i else go ys (i+1)
  go l 0

/-- one logged step of thread index `ti` (enabled) -/
def stepLogged (tids : List Nat) (c : Cfg upd) (logs : List ReqLog) (clock : Nat) (ti : Nat) : Cfg upd × List ReqLog × Nat :=
  let th := c.thread ti
  let name := th.cur.bind Prog.name
  let nBefore := th.answers.length
  let c' := c.step ti
  let th' := c'.thread ti
  let nAfter := th'.answers.length
  let clock' := clock + 1
  let tid := tids.getD ti 0
  let logs := logs.map fun r =>
    if r.tid ≠ tid then r else
    let r := if r.idx = nBefore then { r with trace := r.trace ++ (match name with | some n => [n] | none => []) } else r
    let r := if nBefore ≤ r.idx ∧ r.idx < nAfter then { r with complete := clock', ans := (th'.answers.getD r.idx unsupported) |> ansLine |> some } else r
    if nBefore < r.idx ∧ r.idx ≤ nAfter then { r with invoke := clock' } else r
  (c', logs, clock')

/-- requests that return before the first action (refused by the router): answered at time 0 -/
def initLogs (tids : List Nat) (c : Cfg upd) (logs : List ReqLog) : List ReqLog :=
  logs.map fun r =>
    match indexOf tids r.tid with
    | none => r
    | some ti =>
      let th := c.thread ti
      if r.idx < th.answers.length then { r with ans := some (ansLine (th.answers.getD r.idx unsupported)) } else r

partial def drainLogged (tids : List Nat) (c : Cfg upd) (logs : List ReqLog) (clock : Nat) (eff : List Nat) : Cfg upd × List ReqLog × Nat × List Nat :=
  match c.firstEnabled c.threads.length 0 with
  | none => (c, logs, clock, eff)
  | some ti =>
    let (c', logs', clock') := stepLogged tids c logs clock ti
    drainLogged tids c' logs' clock' (eff ++ [tids.getD ti 0])

def runPar (disc : Disc) (cs : CS) (sched : List Nat) : CS × String :=
  let tids := tidsOf cs.reqs
  let progs := tids.map fun t => (cs.reqs.filter (·.tid = t)).map fun r => compile disc cs.s r.line
  let c0 : Cfg upd := Cfg.init { u := cs.s } progs
  let logs0 := initLogs tids c0 cs.reqs
  let (c1, logs1, clock1, eff1) := sched.foldl (fun (acc : Cfg upd × List ReqLog × Nat × List Nat) t =>
    let (c, logs, clock, eff) := acc
    match indexOf tids t with
    | none => acc
    | some ti =>
      if c.enabled ti then
        let (c', logs', clock') := stepLogged tids c logs clock ti
        (c', logs', clock', eff ++ [t])
      else acc) (c0, logs0, 0, [])
  let (c2, logs2, _, eff2) := drainLogged tids c1 logs1 clock1 eff1
  let parts := tids.map fun t =>
    s!"T{t}:" ++ ";".intercalate ((logs2.filter (·.tid = t)).map fun r => ",".intercalate (r.trace.map ActName.str))
  let dead := if c2.allDone then [] else ["DEADLOCK"]
  let schedStr := " ".intercalate (eff2.map toString)
  ({ cs with s := c2.s.u, ran := true, reqs := logs2, schedStr := schedStr },
   "sched eff=" ++ ",".intercalate (eff2.map toString) ++ " | " ++ " | ".intercalate (parts ++ dead))

def precedes (x y : ReqLog) : Bool :=
  if x.tid = y.tid then x.idx < y.idx
  else x.ans.isSome ∧ x.complete ≤ y.invoke ∧ y.idx > 0

/-- all orders of the requests in which nothing comes before something that precedes it -/
partial def ordersOf (reqs : List ReqLog) : List (List ReqLog) :=
  if reqs.isEmpty then [[]] else
  (reqs.filter fun r => !(reqs.any fun o => (o.tid ≠ r.tid ∨ o.idx ≠ r.idx) ∧ precedes o r)).flatMap fun r =>
    (ordersOf (reqs.filter fun o => o.tid ≠ r.tid ∨ o.idx ≠ r.idx)).map (r :: ·)

def insertSortedS (x : String) : List String → List String
  | [] => [x]
  | y :: ys => if x ≤ y then x :: y :: ys else y :: insertSortedS x ys
def sortStrings (l : List String) : List String := l.foldl (fun acc x => insertSortedS x acc) []

/-- the requests of `order` run one at a time by the sequential model from the state after the setup, then the observation -/
def seqOutcome (cs : CS) (order : List ReqLog) : List String × List String :=
  let (s1, ans) := order.foldl (fun (acc : State × List String) r => let (s', a) := seqStep acc.1 r.line; (s', acc.2 ++ [a])) (cs.setupS, [])
  let (_, obs) := cs.obs.foldl (fun (acc : State × List String) o => let (s', a) := seqStep acc.1 o.1; (s', acc.2 ++ [a])) (s1, [])
  (ans, obs)

/-- the same order with the handler *programs* run one after the other (each alone, to its end) -/
def progOutcome (disc : Disc) (cs : CS) (order : List ReqLog) : List String × List String :=
  let (u1, ans) := order.foldl (fun (acc : US × List String) r =>
    let c : Cfg upd := Cfg.init acc.1 [[compile disc acc.1.u r.line]]
    let c' := runAlone 1000 0 c
    (c'.s, acc.2 ++ [match (c'.thread 0).answers.head? with | some a => ansLine a | none => "none"])) (({ u := cs.setupS } : US), [])
  let (_, obs) := cs.obs.foldl (fun (acc : State × List String) o => let (s', a) := seqStep acc.1 o.1; (s', acc.2 ++ [a])) (u1.u, [])
  (ans, obs)

def lin (disc : Disc) (cs : CS) : String :=
  if cs.reqs.any (·.ans.isNone) then "lin incomplete" else
  let orders := ordersOf cs.reqs
  let results : List (String × Bool × Bool) := orders.map fun (o : List ReqLog) =>
    let (ans, obs) := seqOutcome cs o
    let ok : Bool := ans == o.map (fun (r : ReqLog) => r.ans.getD "none") && obs == cs.obs.map (·.2)
    let same : Bool := progOutcome disc cs o == (ans, obs)
    (">".intercalate (o.map ReqLog.id), ok, same)
  let matching := sortStrings ((results.filter (·.2.1)).map (·.1))
  let mism := if results.all (·.2.2) then "" else " MODEL-SERIAL-MISMATCH"
  s!"lin orders={orders.length} match=" ++ "|".intercalate matching ++ mism

def ensureRan (disc : Disc) (cs : CS) : CS :=
  if cs.inPar ∧ !cs.ran ∧ !cs.reqs.isEmpty then (runPar disc cs []).1 else cs

def isThreadTok (op : String) : Bool :=
  match op.toList with
  | 'T' :: d :: _ => d.isDigit
  | _ => false

def stepLine (disc : Disc) (cs : CS) (line : String) : CS × String :=
  let toks := (line.trimAscii.toString.splitOn " ").filter (· ≠ "")
  match toks with
  | [] => (cs, "bad-op")
  | op :: rest =>
    if op = "NEW" then
      let (s', o) := seqStep cs.s line
      ({ s := s', setupS := s' }, o)
    else if op = "PAR" then ({ cs with inPar := true, ran := false, reqs := [], obs := [] }, "par")
    else if isThreadTok op ∧ !cs.ran then
      match (op.drop 1).toString.toNat? with
      | none => (cs, "bad-op")
      | some tid =>
        if tid = 0 ∨ rest.isEmpty then (cs, "bad-op") else
        let cs := if cs.inPar then cs else { cs with inPar := true, reqs := [] }
        let idx := (cs.reqs.filter (·.tid = tid)).length
        ({ cs with reqs := cs.reqs ++ [{ tid := tid, idx := idx, line := " ".intercalate rest }] }, "queued")
    else if op = "SCHED" then
      if !cs.inPar ∨ cs.ran ∨ cs.reqs.isEmpty then (cs, "sched none")
      else runPar disc cs (rest.filterMap String.toNat?)
    else if op = "ANS" then
      let cs := ensureRan disc cs
      match rest with
      | [] => (cs, "none")
      | a :: _ =>
        let p := a.splitOn "."
        let tid := (p.headD "").toNat?.getD 0
        let j := match p with | [_, x] => x.toNat?.getD 0 | _ => 1
        match cs.reqs.find? (fun r => r.tid = tid ∧ r.idx + 1 = j) with
        | some r => (cs, r.ans.getD "none")
        | none => (cs, "none")
    else if op = "LIN" then
      let cs := ensureRan disc cs
      if !cs.ran then (cs, "lin none") else (cs, lin disc cs)
    else
      let cs := ensureRan disc cs
      let (s', o) := seqStep cs.s line
      if !cs.inPar then ({ cs with s := s', setupS := s' }, o)
      else ({ cs with s := s', obs := cs.obs ++ [(line, o)] }, o)

partial def loop (disc : Disc) (h : IO.FS.Stream) (out : IO.FS.Stream) (cs : CS) : IO Unit := do
  let line ← h.getLine
  if line.isEmpty then return ()
  let (cs', o) := stepLine disc cs line
  out.putStrLn o
  loop disc h out cs'

def main (args : List String) : IO Unit := do
  let disc := match args with | "none" :: _ => Disc.none | _ => Disc.rw
  loop disc (← IO.getStdin) (← IO.getStdout) {}
