/-! referrerSplit (referrer.go:217-268) for an arbitrary size function (C07). -/
namespace PxS
variable {α : Type}

structure St (α : Type) where
  result : List (List α) := []
  cur    : List α := []
  last   : Option (List α) := none     -- `len(last) > 0` ⇔ `last.isSome` (a marshalled index is never empty)

/-- one iteration of the `for _, d := range in.Manifests` loop -/
def stepS (size : List α → Nat) (limit : Nat) (s : St α) (d : α) : St α :=
  let cur1 := s.cur ++ [d]
  if size cur1 > limit then
    let result1 := match s.last with
      | some p => if size p ≤ limit then s.result ++ [p] else s.result
      | none => s.result
    if size [d] > limit then { result := result1, cur := [], last := none }     -- single descriptor too large: dropped
    else { result := result1, cur := [d], last := some [d] }
  else { s with cur := cur1, last := some cur1 }

def finish (size : List α → Nat) (limit : Nat) (s : St α) : List (List α) :=
  match s.last with
  | some p => if size p ≤ limit then s.result ++ [p] else s.result
  | none => s.result

def split (size : List α → Nat) (limit : Nat) (l : List α) : List (List α) :=
  finish size limit (l.foldl (stepS size limit) {})

/-- invariant: `last` is exactly the page under construction, and it fits -/
def Inv (size : List α → Nat) (limit : Nat) (s : St α) : Prop :=
  (s.last = none ∧ s.cur = []) ∨ (s.last = some s.cur ∧ s.cur ≠ [] ∧ size s.cur ≤ limit)

theorem inv_step (size : List α → Nat) (limit : Nat) (s : St α) (d : α) (h : Inv size limit s) :
    Inv size limit (stepS size limit s d) := by
  unfold stepS
  simp only []
  split
  · split
    · left; simp
    · right; refine ⟨rfl, by simp, ?_⟩
      dsimp only; omega
  · right; refine ⟨rfl, by simp, ?_⟩
    dsimp only; omega

/-- every page respects the limit -/
def PagesFit (size : List α → Nat) (limit : Nat) (s : St α) : Prop := ∀ p ∈ s.result, size p ≤ limit

theorem fit_step (size : List α → Nat) (limit : Nat) (s : St α) (d : α) (h : PagesFit size limit s) :
    PagesFit size limit (stepS size limit s d) := by
  unfold stepS PagesFit
  simp only []
  have key : ∀ p ∈ (match s.last with
      | some p => if size p ≤ limit then s.result ++ [p] else s.result
      | none => s.result), size p ≤ limit := by
    intro p hp
    cases hl : s.last with
    | none => simp [hl] at hp; exact h p hp
    | some q =>
      simp only [hl] at hp
      split at hp
      · rcases List.mem_append.mp hp with h1 | h1
        · exact h p h1
        · simp at h1; subst h1; assumption
      · exact h p hp
  split
  · split <;> exact key
  · exact h

/-- content: pages so far ++ page under construction = what was kept -/
def Content (s : St α) : List α := s.result.flatten ++ s.cur

/-- `kept size limit l`: the elements that ended up on some page -/
theorem content_step (size : List α → Nat) (limit : Nat) (s : St α) (d : α) (h : Inv size limit s) :
    Content (stepS size limit s d) = Content s ++ (if size (s.cur ++ [d]) > limit ∧ size [d] > limit then [] else [d]) := by
  unfold stepS Content
  simp only []
  rcases h with ⟨hl, hc⟩ | ⟨hl, hne, hfit⟩
  · -- nothing under construction
    simp only [hl, hc, List.nil_append]
    by_cases h1 : size [d] > limit
    · simp [h1]
    · simp [h1]
  · simp only [hl]
    by_cases h1 : size (s.cur ++ [d]) > limit
    · simp only [h1, if_true, hfit]
      by_cases h2 : size [d] > limit
      · simp [h2]
      · simp [h2]
    · simp [h1]

theorem split_pages_fit (size : List α → Nat) (limit : Nat) (l : List α) :
    ∀ p ∈ split size limit l, size p ≤ limit := by
  have hinv : ∀ (l : List α) (s : St α), Inv size limit s → PagesFit size limit s →
      Inv size limit (l.foldl (stepS size limit) s) ∧ PagesFit size limit (l.foldl (stepS size limit) s) := by
    intro l
    induction l with
    | nil => intro s h1 h2; exact ⟨h1, h2⟩
    | cons d l ih => intro s h1 h2; exact ih _ (inv_step size limit s d h1) (fit_step size limit s d h2)
  obtain ⟨h1, h2⟩ := hinv l {} (Or.inl ⟨rfl, rfl⟩) (by intro p hp; simp at hp)
  intro p hp
  unfold split finish at hp
  cases hl : (l.foldl (stepS size limit) {}).last with
  | none => simp [hl] at hp; exact h2 p hp
  | some q =>
    simp only [hl] at hp
    split at hp
    · rcases List.mem_append.mp hp with h | h
      · exact h2 p h
      · simp at h; subst h; assumption
    · exact h2 p hp

/-- nothing is invented, nothing reordered, and every element that fits on a page of its own is served -/
theorem split_union (size : List α → Nat) (limit : Nat) (l : List α) :
    (split size limit l).flatten.Sublist l ∧
    (l.filter (fun d => size [d] ≤ limit)).Sublist (split size limit l).flatten := by
  have main : ∀ (l : List α) (s : St α), Inv size limit s →
      Inv size limit (l.foldl (stepS size limit) s) ∧
      (Content (l.foldl (stepS size limit) s)).Sublist (Content s ++ l) ∧
      (Content s ++ l.filter (fun d => size [d] ≤ limit)).Sublist (Content (l.foldl (stepS size limit) s)) := by
    intro l
    induction l with
    | nil => intro s h; exact ⟨h, by simp, by simp⟩
    | cons d l ih =>
      intro s h
      obtain ⟨i1, i2, i3⟩ := ih _ (inv_step size limit s d h)
      rw [content_step size limit s d h] at i2 i3
      refine ⟨i1, ?_, ?_⟩
      · refine i2.trans ?_
        simp only [List.foldl_cons, List.append_assoc]
        apply List.Sublist.append_left
        split
        · simp
        · simp
      · simp only [List.foldl_cons]
        refine List.Sublist.trans ?_ i3
        simp only [List.append_assoc]
        apply List.Sublist.append_left
        by_cases hd : size [d] ≤ limit
        · have : ¬ (size (s.cur ++ [d]) > limit ∧ size [d] > limit) := by omega
          simp [List.filter_cons, hd, this]
        · simp only [List.filter_cons, hd, decide_false]
          exact List.sublist_append_right _ _
  obtain ⟨h1, h2, h3⟩ := main l {} (Or.inl ⟨rfl, rfl⟩)
  have hfin : (split size limit l).flatten = Content (l.foldl (stepS size limit) {}) := by
    unfold split finish Content
    rcases h1 with ⟨hl, hc⟩ | ⟨hl, _, hfit⟩
    · simp [hl, hc]
    · simp [hl, hfit]
  rw [hfin]
  simpa [Content] using And.intro h2 h3
end PxS
