/-! Ordered locking ⇒ no deadlock, for any number of threads and locks (generic; C12). -/
namespace PxL

abbrev Lock := Nat

structure Th where
  held : List Lock          -- locks currently held
  next : Option Lock        -- `some l`: next action is `acquire l`; `none`: next action never blocks (or finished)
  deriving Repr

/-- a lock is free when no thread holds it -/
def freeIn (ts : List Th) (l : Lock) : Prop := ∀ t ∈ ts, l ∉ t.held

/-- thread `t` can take a step -/
def canStep (ts : List Th) (t : Th) : Prop :=
  match t.next with
  | none => True
  | some l => freeIn ts l

/-- every thread is stuck on an acquire -/
def Deadlocked (ts : List Th) : Prop :=
  (∃ t ∈ ts, t.next.isSome) ∧ ∀ t ∈ ts, t.next.isSome → ¬ canStep ts t

/-- the discipline: a thread only acquires locks ranked strictly above everything it holds -/
def Ordered (rank : Lock → Nat) (ts : List Th) : Prop :=
  ∀ t ∈ ts, ∀ l, t.next = some l → ∀ h ∈ t.held, rank h < rank l

/-- threads that hold a lock are not finished-and-idle forever: here, "every thread that holds a lock
    and whose next action is not an acquire can step" is built into `canStep`; what we need in
    addition is that a holder that is *not* blocked does not count as deadlocked. -/
theorem exists_max {β : Type} (f : β → Nat) : ∀ (l : List β), l ≠ [] → ∃ x ∈ l, ∀ y ∈ l, f y ≤ f x
  | [], h => absurd rfl h
  | [a], _ => ⟨a, by simp, by simp⟩
  | a :: b :: rest, _ => by
    obtain ⟨m, hm, hmax⟩ := exists_max f (b :: rest) (by simp)
    by_cases h : f m ≤ f a
    · refine ⟨a, by simp, ?_⟩
      intro y hy
      rcases List.mem_cons.mp hy with rfl | hy'
      · exact Nat.le_refl _
      · exact Nat.le_trans (hmax y hy') h
    · refine ⟨m, List.mem_cons_of_mem _ hm, ?_⟩
      intro y hy
      rcases List.mem_cons.mp hy with rfl | hy'
      · omega
      · exact hmax y hy'

theorem ordered_no_deadlock (rank : Lock → Nat) (ts : List Th)
    (hord : Ordered rank ts)
    -- every holder of a lock is either about to do a non-blocking step or is itself waiting
    -- (i.e. no thread terminates while holding a lock): holders with `next = none` can step, so
    -- in a deadlock every holder has `next = some _`
    : ¬ (Deadlocked ts ∧ ∀ t ∈ ts, t.held ≠ [] → t.next.isSome) := by
  rintro ⟨⟨⟨t0, ht0, hn0⟩, hall⟩, hholders⟩
  -- the blocked threads
  let bl := ts.filter (fun t => t.next.isSome)
  have hbl : bl ≠ [] := by
    intro h
    have : t0 ∈ bl := by simp [bl, ht0, hn0]
    simp [h] at this
  -- pick the one whose wanted lock has maximal rank
  obtain ⟨m, hm, hmax⟩ := exists_max (fun t => match t.next with | some l => rank l | none => 0) bl hbl
  have hm' : m ∈ ts ∧ m.next.isSome := by simpa [bl] using hm
  obtain ⟨lm, hlm⟩ := Option.isSome_iff_exists.mp hm'.2
  -- m cannot step: some thread u holds lm
  have hblocked := hall m hm'.1 hm'.2
  simp only [canStep, hlm, freeIn] at hblocked
  have : ∃ u ∈ ts, lm ∈ u.held := by
    apply Classical.byContradiction
    intro hno
    apply hblocked
    intro t ht hl
    exact hno ⟨t, ht, hl⟩
  obtain ⟨u, hu, hul⟩ := this
  -- u holds a lock, so u is waiting too, for a lock of strictly larger rank
  have hun : u.next.isSome := hholders u hu (by intro h; simp [h] at hul)
  obtain ⟨lu, hlu⟩ := Option.isSome_iff_exists.mp hun
  have hlt : rank lm < rank lu := hord u hu lu hlu lm hul
  have hub : u ∈ bl := by simp [bl, hu, hun]
  have := hmax u hub
  simp only [hlu, hlm] at this
  omega
end PxL
