/-! Ordered locking ⇒ no deadlock, for any number of threads and locks (generic; C12). -/
namespace PxL

abbrev Lock := Nat

structure Th where
  held : List Lock          -- locks currently held
  next : Option Lock        -- `some l`: next action is `acquire l`; `none`: next action never blocks (or finished)
  deriving Repr

/-- a lock is free when no thread holds it -/
def freeIn (ts : List Th) (l : Lock) : Prop := ∀ t ∈ ts, l ∉ t.held

/-- thread `t` can take a step -/
def canStep (ts : List Th) (t : Th) : Prop :=
  match t.next with
  | none => True
  | some l => freeIn ts l

/-- every thread is stuck on an acquire -/
def Deadlocked (ts : List Th) : Prop :=
  (∃ t ∈ ts, t.next.isSome) ∧ ∀ t ∈ ts, t.next.isSome → ¬ canStep ts t

/-- the discipline: a thread only acquires locks ranked strictly above everything it holds -/
def Ordered (rank : Lock → Nat) (ts : List Th) : Prop :=
  ∀ t ∈ ts, ∀ l, t.next = some l → ∀ h ∈ t.held, rank h < rank l

/-- threads that hold a lock are not finished-and-idle forever: here, "every thread that holds a lock
    and whose next action is not an acquire can step" is built into `canStep`; what we need in
    addition is that a holder that is *not* blocked does not count as deadlocked. -/
theorem exists_max {β : Type} (f : β → Nat) : ∀ (l : List β), l ≠ [] → ∃ x ∈ l, ∀ y ∈ l, f y ≤ f x
  | [], h => absurd rfl h
  | [a], _ => ⟨a, by simp, by simp⟩
  | a :: b :: rest, _ => by
    obtain ⟨m, hm, hmax⟩ := exists_max f (b :: rest) (by simp)
    by_cases h : f m ≤ f a
    · refine ⟨a, by simp, ?_⟩
      intro y hy
      rcases List.mem_cons.mp hy with rfl | hy'
      · exact Nat.le_refl _
      · exact Nat.le_trans (hmax y hy') h
    · refine ⟨m, List.mem_cons_of_mem _ hm, ?_⟩
      intro y hy
      rcases List.mem_cons.mp hy with rfl | hy'
      · omega
      · exact hmax y hy'

theorem ordered_no_deadlock (rank : Lock → Nat) (ts : List Th)
    (hord : Ordered rank ts)
    -- every holder of a lock is either about to do a non-blocking step or is itself waiting
    -- (i.e. no thread terminates while holding a lock): holders with `next = none` can step, so
    -- in a deadlock every holder has `next = some _`
    : ¬ (Deadlocked ts ∧ ∀ t ∈ ts, t.held ≠ [] → t.next.isSome) := by
  rintro ⟨⟨⟨t0, ht0, hn0⟩, hall⟩, hholders⟩
  -- the blocked threads
  let bl := ts.filter (fun t => t.next.isSome)
  have hbl : bl ≠ [] := by
    intro h
    have : t0 ∈ bl := by simp [bl, ht0, hn0]
    simp [h] at this
  -- pick the one whose wanted lock has maximal rank
  obtain ⟨m, hm, hmax⟩ := exists_max (fun t => match t.next with | some l => rank l | none => 0) bl hbl
  have hm' : m ∈ ts ∧ m.next.isSome := by simpa [bl] using hm
  obtain ⟨lm, hlm⟩ := Option.isSome_iff_exists.mp hm'.2
  -- m cannot step: some thread u holds lm
  have hblocked := hall m hm'.1 hm'.2
  simp only [canStep, hlm, freeIn] at hblocked
  have : ∃ u ∈ ts, lm ∈ u.held := by
    apply Classical.byContradiction
    intro hno
    apply hblocked
    intro t ht hl
    exact hno ⟨t, ht, hl⟩
  obtain ⟨u, hu, hul⟩ := this
  -- u holds a lock, so u is waiting too, for a lock of strictly larger rank
  have hun : u.next.isSome := hholders u hu (by intro h; simp [h] at hul)
  obtain ⟨lu, hlu⟩ := Option.isSome_iff_exists.mp hun
  have hlt : rank lm < rank lu := hord u hu lu hlu lm hul
  have hub : u ∈ bl := by simp [bl, hu, hun]
  have := hmax u hub
  simp only [hlu, hlm] at this
  omega
end PxL

/-! ## Class-level version used by C12

Locks are instances; the static analysis only sees *classes* (owner struct + field path). `cls` maps an instance to its
class, `E` is a set of (held class, wanted class) pairs that covers every thread, `rank` orders the classes.
A wait-for resource that has several holders at once (a `sync.WaitGroup`: `Add` = become a holder without ever blocking,
`Wait` = block until nobody holds it; "in-flight handlers" for `http.Server.Shutdown`) fits the same model: `held` may
contain the same resource in several threads, `next = some l` blocks until no thread holds `l`. -/
namespace PxL

/-- the system hangs: somebody waits, nobody who waits can proceed, and every thread that holds something waits too
    (a thread with `next = none` is either running — then it holds no obligation to be stuck — or finished, and a
    finished thread holds nothing) -/
def Hung (ts : List Th) : Prop :=
  Deadlocked ts ∧ ∀ t ∈ ts, t.held ≠ [] → t.next.isSome

/-- every (held, wanted) pair of every thread is, at class level, in `E` -/
def Covered {C : Type} (cls : Lock → C) (E : List (C × C)) (ts : List Th) : Prop :=
  ∀ t ∈ ts, ∀ l, t.next = some l → ∀ h ∈ t.held, (cls h, cls l) ∈ E

/-- ranked edge set ⇒ no hang; any number of threads, any number of lock instances per class.
    In particular no thread ever waits for an instance of a class of which it already holds an instance
    (`(c, c) ∈ E` contradicts `rank c < rank c`), so a self-deadlock on a non-reentrant mutex is excluded too. -/
theorem ranked_no_hang {C : Type} (cls : Lock → C) (rank : C → Nat) (E : List (C × C))
    (hE : ∀ e ∈ E, rank e.1 < rank e.2) (ts : List Th) (hcov : Covered cls E ts) : ¬ Hung ts := by
  intro h
  apply ordered_no_deadlock (fun l => rank (cls l)) ts
  · intro t ht l hl hh hmem
    exact hE (cls hh, cls l) (hcov t ht l hl hh hmem)
  · exact h

/-- progress form: if some thread waits (and finished threads hold nothing), then some thread that waits can proceed or
    some thread holding a lock is not waiting (it is inside a critical section and runs) -/
theorem ranked_progress {C : Type} (cls : Lock → C) (rank : C → Nat) (E : List (C × C))
    (hE : ∀ e ∈ E, rank e.1 < rank e.2) (ts : List Th) (hcov : Covered cls E ts)
    (hw : ∃ t ∈ ts, t.next.isSome) :
    (∃ t ∈ ts, t.next.isSome ∧ canStep ts t) ∨ (∃ t ∈ ts, t.held ≠ [] ∧ t.next = none) := by
  apply Classical.byContradiction
  intro hno
  apply ranked_no_hang cls rank E hE ts hcov
  refine ⟨⟨hw, ?_⟩, ?_⟩
  · intro t ht hs hc
    exact hno (Or.inl ⟨t, ht, hs, hc⟩)
  · intro t ht hh
    cases hn : t.next with
    | some l => simp
    | none => exact absurd (Or.inr ⟨t, ht, hh, hn⟩) hno

/-- the hypotheses are satisfiable and the conclusion is not vacuous: two threads, two lock instances of two classes,
    taken in rank order by both — one of them waits, the other runs -/
example : ¬ Hung [{ held := [0], next := some 1 }, { held := [1], next := none }] :=
  ranked_no_hang (fun l => l) (fun c => c) [(0, 1)] (by decide) _ (by
    intro t ht l hl h hh
    simp at ht
    rcases ht with rfl | rfl
    · simp at hl hh; subst hl; subst hh; simp
    · simp at hl)

/-- and without the rank condition the conclusion fails: the classic inversion hangs -/
example : Hung [{ held := [0], next := some 1 }, { held := [1], next := some 0 }] := by
  refine ⟨⟨⟨_, List.mem_cons_self, rfl⟩, ?_⟩, ?_⟩
  · intro t ht _ hc
    simp at ht
    rcases ht with rfl | rfl
    · exact absurd (hc { held := [1], next := some 0 } (by simp)) (by simp)
    · exact absurd (hc { held := [0], next := some 1 } (by simp)) (by simp)
  · intro t ht _
    simp at ht
    rcases ht with rfl | rfl <;> rfl
end PxL
