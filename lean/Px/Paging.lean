/-! tags/list pagination (tag.go:36-59) visits every tag exactly once, for every page size ≥ 1 (C03). -/
namespace PxP

/-- the handler for a sorted, duplicate-free tag list `ts`: filter by `last`, truncate to `n`, offer a next `last` -/
def tagPage (ts : List Nat) (last : Option Nat) (n : Nat) : List Nat × Option Nat :=
  let c := ts.filter (fun t => match last with | none => true | some l => decide (l < t))
  if c.length > n then (c.take n, (c.take n).getLast?) else (c, none)

/-- follow the Link header; `fuel` only makes the definition structurally recursive -/
def pages (ts : List Nat) (n : Nat) : Nat → Option Nat → List (List Nat)
  | 0, _ => []
  | f+1, last =>
    match tagPage ts last n with
    | (p, none) => [p]
    | (p, some l) => p :: pages ts n f (some l)

theorem filter_all_lt (pre : List Nat) (x : Nat) (h : ∀ a ∈ pre, a ≤ x) :
    pre.filter (fun t => decide (x < t)) = [] := by
  apply List.filter_eq_nil_iff.mpr
  intro a ha; have := h a ha; simp; omega

theorem filter_all_gt (suf : List Nat) (x : Nat) (h : ∀ b ∈ suf, x < b) :
    suf.filter (fun t => decide (x < t)) = suf := by
  apply List.filter_eq_self.mpr
  intro b hb; simp [h b hb]

/-- with `ts = pre ++ suf` strictly increasing and `x` the last element of `pre`, filtering by `x <` gives `suf` -/
theorem filter_suffix (pre suf : List Nat) (x : Nat) (hs : (pre ++ [x] ++ suf).Pairwise (· < ·)) :
    (pre ++ [x] ++ suf).filter (fun t => decide (x < t)) = suf := by
  have h := List.pairwise_append.mp hs
  obtain ⟨hpx, hsuf, hcross⟩ := h
  have h2 := List.pairwise_append.mp hpx
  obtain ⟨_, _, hpre⟩ := h2
  rw [List.filter_append, List.filter_append]
  have e1 : pre.filter (fun t => decide (x < t)) = [] :=
    filter_all_lt pre x (fun a ha => Nat.le_of_lt (hpre a ha x (by simp)))
  have e2 : [x].filter (fun t => decide (x < t)) = [] := by simp
  have e3 : suf.filter (fun t => decide (x < t)) = suf :=
    filter_all_gt suf x (fun b hb => hcross x (by simp) b hb)
  rw [e1, e2, e3]; simp

/-- main induction: after serving `pre` (ending in `x`), the remaining pages are exactly `suf` -/
theorem pages_suffix (n : Nat) (hn : 1 ≤ n) :
    ∀ (f : Nat) (pre suf : List Nat) (x : Nat), (pre ++ [x] ++ suf).Pairwise (· < ·) → suf.length < f →
      (pages (pre ++ [x] ++ suf) n f (some x)).flatten = suf := by
  intro f
  induction f with
  | zero => intro pre suf x _ h; omega
  | succ f ih =>
    intro pre suf x hs hf
    unfold pages tagPage
    simp only [filter_suffix pre suf x hs]
    by_cases hlen : suf.length > n
    · simp only [hlen, if_true]
      -- the page is `suf.take n`, non-empty because n ≥ 1; its last element is the new `last`
      have hne : suf.take n ≠ [] := by
        intro h0
        have h1 := List.length_take (i := n) (l := suf)
        rw [h0] at h1
        simp only [List.length_nil] at h1; omega
      obtain ⟨q, y, hq⟩ : ∃ q y, suf.take n = q ++ [y] := by
        rcases List.eq_nil_or_concat (suf.take n) with h | ⟨q, y, h⟩
        · exact absurd h hne
        · exact ⟨q, y, by simpa using h⟩
      have hlast : (suf.take n).getLast? = some y := by rw [hq]; simp
      simp only [hlast]
      have hsplit : suf = q ++ [y] ++ suf.drop n := by rw [← hq]; simp
      have hts : pre ++ [x] ++ suf = (pre ++ [x] ++ q) ++ [y] ++ suf.drop n := by
        conv => lhs; rw [hsplit]
        simp
      have hrec := ih (pre ++ [x] ++ q) (suf.drop n) y (by rw [← hts]; exact hs)
        (by simp; omega)
      rw [← hts] at hrec
      simp only [List.flatten_cons, hrec]
      simp
    · simp only [hlen, if_false]
      simp

theorem paging (ts : List Nat) (hs : ts.Pairwise (· < ·)) (n : Nat) (hn : 1 ≤ n) :
    (pages ts n (ts.length + 1) none).flatten = ts := by
  have hnone : tagPage ts none n =
      if ts.length > n then (ts.take n, (ts.take n).getLast?) else (ts, none) := by
    have hf : ts.filter (fun _ => true) = ts := List.filter_eq_self.mpr (by intro a _; rfl)
    simp [tagPage, hf]
  unfold pages
  rw [hnone]
  by_cases hlen : ts.length > n
  · simp only [hlen, if_true]
    have hne : ts.take n ≠ [] := by
      intro h0
      have h1 := List.length_take (i := n) (l := ts)
      rw [h0] at h1
      simp only [List.length_nil] at h1; omega
    obtain ⟨q, y, hq⟩ : ∃ q y, ts.take n = q ++ [y] := by
      rcases List.eq_nil_or_concat (ts.take n) with h | ⟨q, y, h⟩
      · exact absurd h hne
      · exact ⟨q, y, by simpa using h⟩
    have hlast : (ts.take n).getLast? = some y := by rw [hq]; simp
    simp only [hlast]
    have hsplit : ts = q ++ [y] ++ ts.drop n := by rw [← hq]; simp
    have hrec := pages_suffix n hn ts.length q (ts.drop n) y (by rw [← hsplit]; exact hs)
      (by simp; omega)
    rw [← hsplit] at hrec
    simp only [List.flatten_cons, hrec]
    simp
  · simp only [hlen, if_false]
    simp
end PxP
