/-! Generic descending loop with swap-remove (the shape of every loop in types/manifest.go):
    up to permutation it is a fold over the reversed list. -/
namespace Px
variable {α σ : Type}

inductive Act (α : Type) | keep | set (a : α) | drop

/-- Go: `l[i] = l[len(l)-1]; l = l[:len(l)-1]` -/
def swapRemove (l : List α) (i : Nat) : List α :=
  match l.getLast? with
  | none => l
  | some x => (l.set i x).dropLast

/-- Go: `for mi := len(l)-1; mi >= 0; mi-- { … }`, each step keeps, overwrites or swap-removes -/
def descLoop (f : σ → α → σ × Act α) : Nat → σ → List α → σ × List α
  | 0, s, l => (s, l)
  | mi+1, s, l =>
    match l[mi]? with
    | none => descLoop f mi s l
    | some x =>
      match f s x with
      | (s', .keep)  => descLoop f mi s' l
      | (s', .set y) => descLoop f mi s' (l.set mi y)
      | (s', .drop)  => descLoop f mi s' (swapRemove l mi)

/-- the specification: a plain recursion over the list in visiting order (= reversed) -/
def revSpec (f : σ → α → σ × Act α) : List α → σ → σ × List α
  | [], s => (s, [])
  | x :: xs, s =>
    match f s x with
    | (s', .keep)  => let r := revSpec f xs s'; (r.1, x :: r.2)
    | (s', .set y) => let r := revSpec f xs s'; (r.1, y :: r.2)
    | (s', .drop)  => revSpec f xs s'

def swapTail (suf : List α) : List α :=
  match suf.getLast? with
  | none => []
  | some z => z :: suf.dropLast

theorem swapTail_perm (suf : List α) : (swapTail suf).Perm suf := by
  unfold swapTail
  rcases List.eq_nil_or_concat suf with h | ⟨suf', z, h⟩
  · subst h; simp
  · subst h
    simp only [List.concat_eq_append, List.getLast?_concat, List.dropLast_concat]
    exact (List.perm_append_singleton z suf').symm

theorem swapRemove_append (pre : List α) (x : α) (suf : List α) :
    swapRemove (pre ++ x :: suf) pre.length = pre ++ swapTail suf := by
  unfold swapRemove swapTail
  rcases List.eq_nil_or_concat suf with h | ⟨suf', z, h⟩
  · subst h
    simp [List.getLast?_append]
  · subst h
    simp only [List.concat_eq_append]
    have hl : (pre ++ x :: (suf' ++ [z])).getLast? = some z := by
      have : pre ++ x :: (suf' ++ [z]) = (pre ++ x :: suf') ++ [z] := by simp
      rw [this, List.getLast?_concat]
    rw [hl]
    have h1 : (pre ++ x :: (suf' ++ [z])).set pre.length z = (pre ++ z :: suf') ++ [z] := by
      simp
    simp only [h1, List.dropLast_concat, List.getLast?_concat]

/-- `pre` is the unvisited prefix, `done` whatever the visited tail has become -/
theorem descLoop_spec (f : σ → α → σ × Act α) :
    ∀ (n : Nat) (pre : List α), pre.length = n → ∀ (s : σ) (done : List α),
      ∃ l', descLoop f n s (pre ++ done) = ((revSpec f pre.reverse s).1, l')
        ∧ l'.Perm ((revSpec f pre.reverse s).2 ++ done) := by
  intro n
  induction n with
  | zero =>
    intro pre h s done
    have : pre = [] := List.eq_nil_of_length_eq_zero h
    subst this
    exact ⟨done, by simp [descLoop, revSpec]⟩
  | succ n ih =>
    intro pre h s done
    rcases List.eq_nil_or_concat pre with h0 | ⟨pre', x, hx⟩
    · subst h0; simp at h
    · subst hx
      simp only [List.concat_eq_append] at *
      have hlen : pre'.length = n := by simpa using h
      have hget : (pre' ++ [x] ++ done)[n]? = some x := by
        rw [← hlen]; simp
      simp only [descLoop, hget, List.reverse_append, List.reverse_cons, List.reverse_nil,
        List.nil_append, List.singleton_append, revSpec]
      rcases hf : f s x with ⟨s', act⟩
      cases act with
      | keep =>
        simp only []
        obtain ⟨l', h1, h2⟩ := ih pre' hlen s' (x :: done)
        refine ⟨l', ?_, ?_⟩
        · simpa using h1
        · refine h2.trans ?_
          simp
      | set y =>
        simp only []
        have hs : (pre' ++ [x] ++ done).set n y = pre' ++ (y :: done) := by
          rw [← hlen]; simp
        rw [hs]
        obtain ⟨l', h1, h2⟩ := ih pre' hlen s' (y :: done)
        refine ⟨l', h1, ?_⟩
        refine h2.trans ?_
        simp
      | drop =>
        simp only []
        have hs : swapRemove (pre' ++ [x] ++ done) n = pre' ++ swapTail done := by
          have := swapRemove_append pre' x done
          rw [hlen] at this; simpa using this
        rw [hs]
        obtain ⟨l', h1, h2⟩ := ih pre' hlen s' (swapTail done)
        refine ⟨l', h1, ?_⟩
        exact h2.trans (List.Perm.append_left _ (swapTail_perm done))

/-- the form used by clients: run on the whole list -/
theorem descLoop_perm (f : σ → α → σ × Act α) (s : σ) (l : List α) :
    (descLoop f l.length s l).1 = (revSpec f l.reverse s).1 ∧
    (descLoop f l.length s l).2.Perm (revSpec f l.reverse s).2 := by
  obtain ⟨l', h1, h2⟩ := descLoop_spec f l.length l rfl s []
  simp only [List.append_nil] at h1 h2
  rw [h1]; exact ⟨rfl, h2⟩
end Px
