/-! Mark phase of the collector as a work-list walk: termination and the closure invariant (C05 core).
    This is the *repaired* shape (a digest marked as a layer is still walked when it turns up as a
    manifest); the unrepaired code shares one `seen` set for both and the invariant below is false for it. -/
namespace PxM

inductive MT | index | image | other deriving DecidableEq, Repr
structure Desc where
  dig : Nat
  mt  : MT
  deriving DecidableEq, Repr

/-- what is stored under a digest, as far as the walk can tell -/
inductive Node
  | index (children : List Desc)
  | image (refs : List Nat)         -- config and layer digests
  | raw
  deriving Repr

def decodeIndex : Node → Option (List Desc)
  | .index cs => some cs
  | .image _  => some []            -- a JSON object always decodes; unknown fields ignored
  | .raw      => none
def decodeImage : Node → Option (List Nat)
  | .image rs => some rs
  | .index _  => some []
  | .raw      => none

abbrev Blobs := List (Nat × Node)
def get (b : Blobs) (k : Nat) : Option Node := (b.find? (fun p => p.1 == k)).map (·.2)
def keys (b : Blobs) : List Nat := b.map (·.1)

theorem get_mem_keys {b : Blobs} {k : Nat} {n : Node} (h : get b k = some n) : k ∈ keys b := by
  unfold get at h
  cases hf : b.find? (fun p => p.1 == k) with
  | none => simp [hf] at h
  | some p =>
    have hp := List.mem_of_find?_eq_some hf
    have hk := List.find?_some hf
    simp at hk
    unfold keys; rw [← hk]; exact List.mem_map_of_mem hp

def unwalked (b : Blobs) (w : List Nat) : Nat := ((keys b).filter (fun k => k ∉ w)).length

theorem filter_notin_le (ks : List Nat) (a : Nat) (w : List Nat) :
    (ks.filter (fun k => k ∉ a :: w)).length ≤ (ks.filter (fun k => k ∉ w)).length := by
  induction ks with
  | nil => simp
  | cons k ks ih =>
    simp only [List.filter_cons]
    by_cases h1 : k ∈ w
    · have h2 : k ∈ a :: w := List.mem_cons_of_mem _ h1
      simp [h1, h2]; simpa using ih
    · by_cases h2 : k = a
      · subst h2; simp [h1]
        have := ih; simp at this; omega
      · have h3 : k ∉ a :: w := by simp [h1, h2]
        simp [h1, h3]; simpa using ih

theorem filter_notin_lt (ks : List Nat) (a : Nat) (w : List Nat) (ha : a ∈ ks) (hw : a ∉ w) :
    (ks.filter (fun k => k ∉ a :: w)).length < (ks.filter (fun k => k ∉ w)).length := by
  induction ks with
  | nil => simp at ha
  | cons k ks ih =>
    simp only [List.filter_cons]
    by_cases hka : k = a
    · subst hka
      have := filter_notin_le ks k w
      simp at this
      simp [hw]; omega
    · have ha' : a ∈ ks := by
        rcases List.mem_cons.mp ha with h | h
        · exact absurd h.symm hka
        · exact h
      have := ih ha'
      simp at this
      by_cases hkw : k ∈ w
      · have h2 : k ∈ a :: w := List.mem_cons_of_mem _ hkw
        simp [hkw]; omega
      · have h3 : k ∉ a :: w := by simp [hkw, hka]
        simp [hkw, hka]; omega

theorem unwalked_lt {b : Blobs} {k : Nat} {n : Node} {w : List Nat} (h : get b k = some n) (hw : k ∉ w) :
    unwalked b (k :: w) < unwalked b w :=
  filter_notin_lt (keys b) k w (get_mem_keys h) hw

/-- successors pushed when `d` is walked: children of an index, plus the referrers response of `d` -/
def pushes (subj : Nat → Option Desc) (d : Desc) (n : Node) : List Desc :=
  match d.mt with
  | .index => match decodeIndex n with
      | some cs => cs ++ (subj d.dig).toList
      | none => []                                   -- decode error: `continue`
  | .image => match decodeImage n with
      | some _ => (subj d.dig).toList
      | none => []
  | .other => (subj d.dig).toList
def marks (d : Desc) (n : Node) : List Nat :=
  match d.mt with
  | .image => (decodeImage n).getD []
  | _ => []

/-- the walk: work list (stack), walked descriptors, marked digests -/
def walk (b : Blobs) (subj : Nat → Option Desc) : List Desc → List Desc → List Nat → List Desc × List Nat
  | [], w, m => (w, m)
  | d :: work, w, m =>
    if hin : d.dig ∈ w.map (·.dig) then walk b subj work w m
    else
      match hg : get b d.dig with
      | none => walk b subj work w m
      | some n => walk b subj (pushes subj d n ++ work) (d :: w) (marks d n ++ m)
termination_by work w _ => (unwalked b (w.map (·.dig)), work.length)
decreasing_by
  · apply Prod.Lex.right; simp
  · apply Prod.Lex.right; simp
  · apply Prod.Lex.left
    simpa using unwalked_lt hg hin

/-- the closure invariant -/
def Closed (b : Blobs) (subj : Nat → Option Desc) (work w : List Desc) (m : List Nat) : Prop :=
  ∀ d ∈ w, ∀ n, get b d.dig = some n →
    (∀ c ∈ pushes subj d n, get b c.dig ≠ none → c.dig ∈ w.map (·.dig) ∨ c.dig ∈ work.map (·.dig)) ∧
    (∀ r ∈ marks d n, r ∈ m)

def Covers (b : Blobs) (roots work w : List Desc) : Prop :=
  ∀ r ∈ roots, get b r.dig ≠ none → r.dig ∈ w.map (·.dig) ∨ r.dig ∈ work.map (·.dig)

theorem walk_inv (b : Blobs) (subj : Nat → Option Desc) (roots : List Desc) :
    ∀ work w m, Closed b subj work w m → Covers b roots work w →
      Closed b subj [] (walk b subj work w m).1 (walk b subj work w m).2 ∧
      Covers b roots [] (walk b subj work w m).1 := by
  intro work w m
  fun_induction walk b subj work w m with
  | case1 w m => intro hc hr; exact ⟨hc, hr⟩
  | case2 d work w m hin ih =>
    intro hc hr
    apply ih
    · intro e he n hn
      obtain ⟨h1, h2⟩ := hc e he n hn
      refine ⟨?_, h2⟩
      intro c hcm hex
      rcases h1 c hcm hex with h | h
      · exact Or.inl h
      · simp only [List.map_cons, List.mem_cons] at h
        rcases h with h | h
        · left; rw [h]; exact hin
        · exact Or.inr h
    · intro r hrm hex
      rcases hr r hrm hex with h | h
      · exact Or.inl h
      · simp only [List.map_cons, List.mem_cons] at h
        rcases h with h | h
        · left; rw [h]; exact hin
        · exact Or.inr h
  | case3 d work w m hin hg ih =>
    intro hc hr
    apply ih
    · intro e he n hn
      obtain ⟨h1, h2⟩ := hc e he n hn
      refine ⟨?_, h2⟩
      intro c hcm hex
      rcases h1 c hcm hex with h | h
      · exact Or.inl h
      · simp only [List.map_cons, List.mem_cons] at h
        rcases h with h | h
        · exfalso; rw [h] at hex; exact hex hg
        · exact Or.inr h
    · intro r hrm hex
      rcases hr r hrm hex with h | h
      · exact Or.inl h
      · simp only [List.map_cons, List.mem_cons] at h
        rcases h with h | h
        · exfalso; rw [h] at hex; exact hex hg
        · exact Or.inr h
  | case4 d work w m hin n hg ih =>
    intro hc hr
    apply ih
    · intro e he n' hn'
      rcases List.mem_cons.mp he with rfl | he'
      · -- the newly walked descriptor: its pushes are on the work list, its marks in m
        have : n' = n := by rw [hg] at hn'; exact (Option.some.inj hn').symm
        subst this
        refine ⟨?_, ?_⟩
        · intro c hcm _
          right
          simp only [List.map_append, List.mem_append]
          exact Or.inl (List.mem_map_of_mem hcm)
        · intro r hrm; exact List.mem_append_left _ hrm
      · obtain ⟨h1, h2⟩ := hc e he' n' hn'
        refine ⟨?_, fun r hrm => List.mem_append_right _ (h2 r hrm)⟩
        intro c hcm hex
        rcases h1 c hcm hex with h | h
        · left; simp only [List.map_cons, List.mem_cons]; exact Or.inr h
        · simp only [List.map_cons, List.mem_cons] at h
          rcases h with h | h
          · left; simp only [List.map_cons, List.mem_cons]; exact Or.inl h
          · right; simp only [List.map_append, List.mem_append]; exact Or.inr h
    · intro r hrm hex
      rcases hr r hrm hex with h | h
      · left; simp only [List.map_cons, List.mem_cons]; exact Or.inr h
      · simp only [List.map_cons, List.mem_cons] at h
        rcases h with h | h
        · left; simp only [List.map_cons, List.mem_cons]; exact Or.inl h
        · right; simp only [List.map_append, List.mem_append]; exact Or.inr h

/-- what the sweep needs: everything reachable from the roots through existing blobs is walked or marked -/
theorem walk_closed (b : Blobs) (subj : Nat → Option Desc) (roots : List Desc) :
    let r := walk b subj roots [] []
    (∀ x ∈ roots, get b x.dig ≠ none → x.dig ∈ r.1.map (·.dig)) ∧
    (∀ d ∈ r.1, ∀ n, get b d.dig = some n →
        (∀ c ∈ pushes subj d n, get b c.dig ≠ none → c.dig ∈ r.1.map (·.dig)) ∧ (∀ x ∈ marks d n, x ∈ r.2)) := by
  intro r
  have := walk_inv b subj roots roots [] [] (by intro d hd; simp at hd)
    (by intro x hx _; exact Or.inr (List.mem_map_of_mem hx))
  obtain ⟨hc, hr⟩ := this
  refine ⟨?_, ?_⟩
  · intro x hx hex
    rcases hr x hx hex with h | h
    · exact h
    · simp at h
  · intro d hd n hn
    obtain ⟨h1, h2⟩ := hc d hd n hn
    refine ⟨?_, h2⟩
    intro c hcm hex
    rcases h1 c hcm hex with h | h
    · exact h
    · simp at h
end PxM
