/-! Lockset discipline ⇒ every two accesses of a guarded variable by different threads are ordered by
    happens-before (generic; C13). -/
namespace PxR

abbrev Tid := Nat
abbrev Lock := Nat
abbrev Var := Nat

inductive Ev
  | acq (t : Tid) (l : Lock)
  | rel (t : Tid) (l : Lock)
  | rd  (t : Tid) (x : Var)
  | wr  (t : Tid) (x : Var)
  deriving DecidableEq, Repr

def Ev.tid : Ev → Tid
  | .acq t _ | .rel t _ | .rd t _ | .wr t _ => t

def Ev.accesses (e : Ev) (x : Var) : Prop := e = .rd e.tid x ∨ e = .wr e.tid x

def stepHolder (l : Lock) (h : Option Tid) : Ev → Option Tid
  | .acq t l' => if l' = l then some t else h
  | .rel _ l' => if l' = l then none else h
  | _ => h

/-- who holds `l` after the events of `tr` (chronological list) -/
def holder (l : Lock) (tr : List Ev) : Option Tid := tr.foldl (stepHolder l) none

/-- mutexes behave like mutexes: acquire only when free, release only by the holder -/
def WellLocked (tr : List Ev) : Prop :=
  ∀ k e, tr[k]? = some e →
    (∀ t l, e = .acq t l → holder l (tr.take k) = none) ∧
    (∀ t l, e = .rel t l → holder l (tr.take k) = some t)

inductive HB (tr : List Ev) : Nat → Nat → Prop
  | po {i j ei ej} : i < j → tr[i]? = some ei → tr[j]? = some ej → ei.tid = ej.tid → HB tr i j
  | sw {i j t u l} : i < j → tr[i]? = some (.rel t l) → tr[j]? = some (.acq u l) → HB tr i j
  | trans {i k j} : HB tr i k → HB tr k j → HB tr i j

theorem holder_take_succ (l : Lock) (tr : List Ev) (k : Nat) (e : Ev) (h : tr[k]? = some e) :
    holder l (tr.take (k+1)) = stepHolder l (holder l (tr.take k)) e := by
  unfold holder
  rw [List.take_succ, h]
  simp [List.foldl_append]

theorem holder_take_of_none (l : Lock) (tr : List Ev) (k : Nat) (h : tr[k]? = none) :
    holder l (tr.take (k+1)) = holder l (tr.take k) := by
  unfold holder
  rw [List.take_succ, h]
  simp

/-- Lemma B: if `t` holds `l` at `i` and no longer at `k ≥ i`, then `t` released it in `[i,k)` -/
theorem released (tr : List Ev) (hw : WellLocked tr) (l : Lock) (t : Tid) (i : Nat)
    (hi : holder l (tr.take i) = some t) :
    ∀ d, holder l (tr.take (i+d)) ≠ some t → ∃ r, i ≤ r ∧ r < i+d ∧ tr[r]? = some (.rel t l) := by
  intro d
  induction d with
  | zero => intro h; exact absurd hi h
  | succ d ih =>
    intro h
    by_cases hk : holder l (tr.take (i+d)) = some t
    · -- the change happens at position i+d
      cases he : tr[i+d]? with
      | none =>
        have := holder_take_of_none l tr (i+d) he
        rw [Nat.add_succ] at h; rw [this] at h; exact absurd hk h
      | some e =>
        have hs := holder_take_succ l tr (i+d) e he
        rw [Nat.add_succ] at h; rw [hs, hk] at h
        obtain ⟨hacq, hrel⟩ := hw (i+d) e he
        cases e with
        | acq t' l' =>
          by_cases hl : l' = l
          · subst hl
            have := hacq t' l' rfl
            rw [hk] at this; cases this
          · simp [stepHolder, hl] at h
        | rel t' l' =>
          by_cases hl : l' = l
          · subst hl
            have := hrel t' l' rfl
            rw [hk] at this
            have : t' = t := by cases this; rfl
            subst this
            exact ⟨i+d, by omega, by omega, he⟩
          · simp [stepHolder, hl] at h
        | rd _ _ => simp [stepHolder] at h
        | wr _ _ => simp [stepHolder] at h
    · obtain ⟨r, h1, h2, h3⟩ := ih hk
      exact ⟨r, h1, by omega, h3⟩

/-- Lemma A: `t` holds `l` at `i`, a different `u` holds it at `j ≥ i` ⇒ release by `t`, then acquire by `u`, in between -/
theorem handover (tr : List Ev) (hw : WellLocked tr) (l : Lock) (t u : Tid) (htu : t ≠ u) (i : Nat)
    (hi : holder l (tr.take i) = some t) :
    ∀ d, holder l (tr.take (i+d)) = some u →
      ∃ r a, i ≤ r ∧ r < a ∧ a < i+d ∧ tr[r]? = some (.rel t l) ∧ tr[a]? = some (.acq u l) := by
  intro d
  induction d with
  | zero =>
    intro h
    rw [Nat.add_zero, hi] at h
    cases h; exact absurd rfl htu
  | succ d ih =>
    intro h
    cases he : tr[i+d]? with
    | none =>
      have := holder_take_of_none l tr (i+d) he
      rw [Nat.add_succ, this] at h
      obtain ⟨r, a, h1, h2, h3, h4, h5⟩ := ih h
      exact ⟨r, a, h1, h2, by omega, h4, h5⟩
    | some e =>
      have hs := holder_take_succ l tr (i+d) e he
      rw [Nat.add_succ, hs] at h
      obtain ⟨hacq, _⟩ := hw (i+d) e he
      cases e with
      | acq t' l' =>
        by_cases hl : l' = l
        · subst hl
          simp only [stepHolder, if_true] at h
          have : t' = u := by cases h; rfl
          subst this
          have hfree := hacq t' l' rfl
          have hne : holder l' (tr.take (i+d)) ≠ some t := by rw [hfree]; simp
          obtain ⟨r, h1, h2, h3⟩ := released tr hw l' t i hi d hne
          exact ⟨r, i+d, h1, h2, by omega, h3, he⟩
        · simp only [stepHolder, hl, if_false] at h
          obtain ⟨r, a, h1, h2, h3, h4, h5⟩ := ih h
          exact ⟨r, a, h1, h2, by omega, h4, h5⟩
      | rel t' l' =>
        by_cases hl : l' = l
        · subst hl; simp [stepHolder] at h
        · simp only [stepHolder, hl, if_false] at h
          obtain ⟨r, a, h1, h2, h3, h4, h5⟩ := ih h
          exact ⟨r, a, h1, h2, by omega, h4, h5⟩
      | rd _ _ =>
        simp only [stepHolder] at h
        obtain ⟨r, a, h1, h2, h3, h4, h5⟩ := ih h
        exact ⟨r, a, h1, h2, by omega, h4, h5⟩
      | wr _ _ =>
        simp only [stepHolder] at h
        obtain ⟨r, a, h1, h2, h3, h4, h5⟩ := ih h
        exact ⟨r, a, h1, h2, by omega, h4, h5⟩

/-- every access of `x` is made while holding `g` -/
def Guarded (tr : List Ev) (x : Var) (g : Lock) : Prop :=
  ∀ k e, tr[k]? = some e → e.accesses x → holder g (tr.take k) = some e.tid

/-- the lockset theorem: two accesses of a guarded variable by different threads are HB-ordered, hence never a race -/
theorem lockset_ordered (tr : List Ev) (hw : WellLocked tr) (x : Var) (g : Lock) (hg : Guarded tr x g)
    (i j : Nat) (ei ej : Ev) (hij : i < j) (hi : tr[i]? = some ei) (hj : tr[j]? = some ej)
    (ai : ei.accesses x) (aj : ej.accesses x) (hne : ei.tid ≠ ej.tid) : HB tr i j := by
  have h1 := hg i ei hi ai
  have h2 := hg j ej hj aj
  obtain ⟨d, rfl⟩ : ∃ d, j = i + d := ⟨j - i, by omega⟩
  obtain ⟨r, a, hr1, hr2, hr3, hrel, hacq⟩ := handover tr hw g ei.tid ej.tid hne i h1 d h2
  have hir : i < r := by
    rcases Nat.lt_or_ge i r with h | h
    · exact h
    · have hri : r = i := by omega
      subst hri
      rw [hi] at hrel
      have heq : ei = .rel ei.tid g := Option.some.inj hrel
      cases ei <;> simp [Ev.accesses, Ev.tid] at ai heq
  exact HB.trans (HB.po hir hi hrel rfl) (HB.trans (HB.sw hr2 hrel hacq) (HB.po hr3 hacq hj rfl))
end PxR

/-! ## The lockset theorem in the form used by C13 -/
namespace PxR

def Ev.isWrite : Ev → Bool
  | .wr _ _ => true
  | _ => false

/-- a data race: two accesses of one variable by different threads, at least one of them a write, not ordered by
    happens-before (program order ∪ release→acquire, transitively closed) -/
def HasRace (tr : List Ev) : Prop :=
  ∃ i j ei ej x, i < j ∧ tr[i]? = some ei ∧ tr[j]? = some ej ∧ ei.accesses x ∧ ej.accesses x ∧
    (ei.isWrite = true ∨ ej.isWrite = true) ∧ ei.tid ≠ ej.tid ∧ ¬ HB tr i j

/-- the variable is not written in the trace (the trace is the execution after the object was published; writes during
    construction precede publication) -/
def ReadOnly (tr : List Ev) (x : Var) : Prop := ∀ (k : Nat) (t : Tid), tr[k]? ≠ some (Ev.wr t x)

/-- lockset discipline ⇒ race freedom: every variable is either only read or always accessed under its guard -/
theorem lockset_race_free (tr : List Ev) (hw : WellLocked tr) (guard : Var → Option Lock)
    (h : ∀ x, ReadOnly tr x ∨ ∃ g, guard x = some g ∧ Guarded tr x g) : ¬ HasRace tr := by
  rintro ⟨i, j, ei, ej, x, hij, hi, hj, ai, aj, hwr, hne, hnhb⟩
  rcases h x with hro | ⟨g, _, hg⟩
  · -- a write to a read-only variable
    rcases hwr with hwi | hwj
    · cases ei with
      | wr t y =>
        have : y = x := by
          rcases ai with h | h <;> simp [Ev.tid] at h
          exact h
        subst this
        exact hro i t hi
      | _ => simp [Ev.isWrite] at hwi
    · cases ej with
      | wr t y =>
        have : y = x := by
          rcases aj with h | h <;> simp [Ev.tid] at h
          exact h
        subst this
        exact hro j t hj
      | _ => simp [Ev.isWrite] at hwj
  · exact hnhb (lockset_ordered tr hw x g hg i j ei ej hij hi hj ai aj hne)

/-- non-vacuity: a well-locked trace in which two threads write `x = 0` under lock `7` -/
example : ¬ HasRace [.acq 1 7, .wr 1 0, .rel 1 7, .acq 2 7, .wr 2 0, .rel 2 7] := by
  apply lockset_race_free _ _ (fun _ => some 7)
  · intro x
    by_cases hx : x = 0
    · subst hx
      refine Or.inr ⟨7, rfl, ?_⟩
      intro k e hk ha
      match k, hk with
      | 0, hk => simp at hk; subst hk; simp [Ev.accesses, Ev.tid] at ha
      | 1, hk => simp at hk; subst hk; decide
      | 2, hk => simp at hk; subst hk; simp [Ev.accesses, Ev.tid] at ha
      | 3, hk => simp at hk; subst hk; simp [Ev.accesses, Ev.tid] at ha
      | 4, hk => simp at hk; subst hk; decide
      | 5, hk => simp at hk; subst hk; simp [Ev.accesses, Ev.tid] at ha
      | k+6, hk => simp at hk
    · refine Or.inl ?_
      unfold ReadOnly
      intro k t hk
      match k, hk with
      | 0, hk => simp at hk
      | 1, hk => simp at hk; exact hx hk.2.symm
      | 2, hk => simp at hk
      | 3, hk => simp at hk
      | 4, hk => simp at hk; exact hx hk.2.symm
      | 5, hk => simp at hk
      | k+6, hk => simp at hk
  · intro k e hk
    match k, hk with
    | 0, hk => simp at hk; subst hk; refine ⟨?_, ?_⟩ <;> intro t l h <;> cases h <;> decide
    | 1, hk => simp at hk; subst hk; refine ⟨?_, ?_⟩ <;> intro t l h <;> cases h <;> decide
    | 2, hk => simp at hk; subst hk; refine ⟨?_, ?_⟩ <;> intro t l h <;> cases h <;> decide
    | 3, hk => simp at hk; subst hk; refine ⟨?_, ?_⟩ <;> intro t l h <;> cases h <;> decide
    | 4, hk => simp at hk; subst hk; refine ⟨?_, ?_⟩ <;> intro t l h <;> cases h <;> decide
    | 5, hk => simp at hk; subst hk; refine ⟨?_, ?_⟩ <;> intro t l h <;> cases h <;> decide
    | k+6, hk => simp at hk

/-- and the same two writes without the lock do race -/
example : HasRace [.wr 1 0, .wr 2 0] := by
  refine ⟨0, 1, .wr 1 0, .wr 2 0, 0, by decide, rfl, rfl, Or.inr rfl, Or.inr rfl, Or.inl rfl, by decide, ?_⟩
  intro h
  -- happens-before between positions 0 and 1 would need program order (different threads) or a release/acquire pair
  have key : ∀ a b, HB [Ev.wr 1 0, Ev.wr 2 0] a b → False := by
    intro a b hab
    induction hab with
    | po hlt hi hj ht =>
      rename_i i j ei ej
      match i, j, hi, hj with
      | 0, 1, hi, hj => simp at hi hj; subst hi; subst hj; simp [Ev.tid] at ht
      | 0, 0, _, _ => omega
      | 1, 0, _, _ => omega
      | 1, 1, _, _ => omega
      | i+2, _, hi, _ => simp at hi
      | 0, j+2, _, hj => simp at hj
      | 1, j+2, _, hj => simp at hj
    | sw hlt hi hj =>
      rename_i i j t u l
      match i, hi with
      | 0, hi => simp at hi
      | 1, hi => simp at hi
      | i+2, hi => simp at hi
    | trans _ _ ih1 _ => exact ih1
  exact key 0 1 h
end PxR
