/-! The token (`wgBlock`, a channel of capacity one) + `sync.WaitGroup` protocol between `RepoGet` / `Done` / `gc` / `Close`
    of one repository (internal/store/dir.go, mem.go), for any number of requests and collectors (C12).

    Threads are counted per phase, so the model covers every population size at once:

    request   `rS` not yet in RepoGet → `rW` in the `select` (token or ctx.Done) → `rT` took the token → `rA` did `wg.Add(1)`
              → `rK` put the token back, works on the repository → gone after `Done()`;  from `rW` also gone by cancellation
    collector `gI` before `<-wgBlock` (ticker pass, prune of the repository cache, Close's `repos.Delete`) → `gT` holds the
              token, in `wg.Wait()` → `gC` collects (terminates, see C06) → gone after putting the token back
    closer    `cW` in `repo.wg.Wait()` of `Close` (no token) → gone
-/
namespace PxT

structure St where
  token : Nat    -- tokens in the channel `wgBlock` (capacity one)
  count : Nat
  rS : Nat
  rW : Nat
  rT : Nat
  rA : Nat
  rK : Nat
  gI : Nat
  gT : Nat
  gC : Nat
  cW : Nat
  deriving DecidableEq, Repr

/-- protocol steps that do not depend on the environment -/
inductive Step : St → St → Prop
  | start (s : St) : 0 < s.rS → Step s { s with rS := s.rS - 1, rW := s.rW + 1 }
  | take (s : St) : 0 < s.rW → 0 < s.token → Step s { s with rW := s.rW - 1, rT := s.rT + 1, token := s.token - 1 }
  | add (s : St) : 0 < s.rT → Step s { s with rT := s.rT - 1, rA := s.rA + 1, count := s.count + 1 }
  | put (s : St) : 0 < s.rA → Step s { s with rA := s.rA - 1, rK := s.rK + 1, token := s.token + 1 }
  | done (s : St) : 0 < s.rK → Step s { s with rK := s.rK - 1, count := s.count - 1 }
  | gtake (s : St) : 0 < s.gI → 0 < s.token → Step s { s with gI := s.gI - 1, gT := s.gT + 1, token := s.token - 1 }
  | gwait (s : St) : 0 < s.gT → s.count = 0 → Step s { s with gT := s.gT - 1, gC := s.gC + 1 }
  | gput (s : St) : 0 < s.gC → Step s { s with gC := s.gC - 1, token := s.token + 1 }
  | cwait (s : St) : 0 < s.cW → s.count = 0 → Step s { s with cW := s.cW - 1 }

/-- the request's context is cancelled while it waits in the `select`: it returns `ctx.Err()`; enabled whatever the token does -/
inductive Cancel : St → St → Prop
  | cancel (s : St) : 0 < s.rW → Cancel s { s with rW := s.rW - 1 }

def Sys (s s' : St) : Prop := Step s s' ∨ Cancel s s'

/-- the counter counts exactly the requests between `Add` and `Done`; there is one token: in the channel or with exactly one thread -/
def Inv (s : St) : Prop :=
  s.count = s.rA + s.rK ∧ s.token + s.rT + s.rA + s.gT + s.gC = 1

/-- threads that have not finished -/
def pending (s : St) : Nat := s.rS + s.rW + s.rT + s.rA + s.rK + s.gI + s.gT + s.gC + s.cW

def init (requests collectors closers : Nat) : St :=
  { token := 1, count := 0, rS := requests, rW := 0, rT := 0, rA := 0, rK := 0, gI := collectors, gT := 0, gC := 0, cW := closers }

theorem inv_init (r g c : Nat) : Inv (init r g c) := by simp [Inv, init]

theorem inv_step {s s' : St} (h : Inv s) (st : Step s s') : Inv s' := by
  obtain ⟨h1, h2⟩ := h
  cases st <;> simp only [Inv] <;> omega

theorem inv_cancel {s s' : St} (h : Inv s) (st : Cancel s s') : Inv s' := by
  cases st; simpa [Inv] using h

theorem inv_sys {s s' : St} (h : Inv s) (st : Sys s s') : Inv s' :=
  st.elim (inv_step h) (inv_cancel h)

inductive Reach (r g c : Nat) : St → Prop
  | init : Reach r g c (init r g c)
  | step {s s'} : Reach r g c s → Sys s s' → Reach r g c s'

theorem inv_reach {r g c : Nat} {s : St} (h : Reach r g c s) : Inv s := by
  induction h with
  | init => exact inv_init r g c
  | step _ st ih => exact inv_sys ih st

/-- **no state in which everybody is blocked**: while any thread is unfinished some protocol step is enabled — and it is
    never the cancellation step, so progress does not depend on a client giving up -/
theorem progress {s : St} (h : Inv s) (hp : 0 < pending s) : ∃ s', Step s s' := by
  obtain ⟨h1, h2⟩ := h
  by_cases hT : 0 < s.rT
  · exact ⟨_, .add s hT⟩
  by_cases hA : 0 < s.rA
  · exact ⟨_, .put s hA⟩
  by_cases hC : 0 < s.gC
  · exact ⟨_, .gput s hC⟩
  by_cases hK : 0 < s.rK
  · exact ⟨_, .done s hK⟩
  by_cases hG : 0 < s.gT
  · exact ⟨_, .gwait s hG (by omega)⟩
  -- nobody holds the token: it is in the channel
  have ht : 0 < s.token := by omega
  by_cases hS : 0 < s.rS
  · exact ⟨_, .start s hS⟩
  by_cases hW : 0 < s.rW
  · exact ⟨_, .take s hW ht⟩
  by_cases hI : 0 < s.gI
  · exact ⟨_, .gtake s hI ht⟩
  have hc : 0 < s.cW := by simp only [pending] at hp; omega
  exact ⟨_, .cwait s hc (by omega)⟩

/-- **a request blocked on the token returns when its context is cancelled**, whoever holds the token and for however long -/
theorem waiting_request_returns_on_cancel (s : St) (hw : 0 < s.rW) :
    ∃ s', Cancel s s' ∧ s'.rW = s.rW - 1 ∧ s'.token = s.token ∧ s'.count = s.count :=
  ⟨_, .cancel s hw, rfl, rfl, rfl⟩

/-- while a collector holds the token nobody can add to the wait group: the counter only goes down -/
theorem no_add_while_collector_waits {s s' : St} (h : Inv s) (hg : 0 < s.gT) (st : Sys s s') : s'.count ≤ s.count := by
  obtain ⟨h1, h2⟩ := h
  rcases st with st | st
  · cases st <;> simp only [] <;> omega
  · cases st; simp

/-- `n` requests call `Done` -/
inductive Dones : Nat → St → St → Prop
  | zero (s : St) : Dones 0 s s
  | succ {n s s' s''} : Step s s' → s' = { s with rK := s.rK - 1, count := s.count - 1 } → Dones n s' s'' → Dones (n + 1) s s''

/-- **the collector eventually proceeds when every request calls `Done`**: in a state where a collector waits, exactly
    `count` requests are outstanding, none can join, and after their `Done` calls the collector's wait is over -/
theorem gc_proceeds {s : St} (h : Inv s) (hg : 0 < s.gT) :
    s.rK = s.count ∧ ∃ s', Dones s.count s s' ∧ s'.count = 0 ∧ ∃ s'', Step s' s'' ∧ s''.gC = s.gC + 1 := by
  have hk : s.rK = s.count := by
    obtain ⟨h1, h2⟩ := h
    omega
  refine ⟨hk, ?_⟩
  generalize hn : s.count = n
  induction n generalizing s with
  | zero => exact ⟨s, .zero s, hn, _, .gwait s hg hn, rfl⟩
  | succ n ih =>
    have hK : 0 < s.rK := by omega
    have hs' := inv_step h (.done s hK)
    obtain ⟨s2, hd, hc, s3, hst, hgc⟩ := ih hs' (by simpa using hg) (by simp; omega) (by simp; omega)
    exact ⟨s2, .succ (.done s hK) rfl hd, hc, s3, hst, by simpa using hgc⟩

/-- every step (protocol or cancellation) brings every thread closer to its end -/
def pot (s : St) : Nat := 5 * s.rS + 4 * s.rW + 3 * s.rT + 2 * s.rA + s.rK + 3 * s.gI + 2 * s.gT + s.gC + s.cW

theorem pot_decreases {s s' : St} (st : Sys s s') : pot s' < pot s := by
  rcases st with st | st
  · cases st <;> simp [pot] <;> omega
  · cases st; simp [pot]; omega

inductive Run : Nat → St → St → Prop
  | nil (s : St) : Run 0 s s
  | cons {n s s' s''} : Sys s s' → Run n s' s'' → Run (n + 1) s s''

/-- no infinite execution: a run has at most `pot s` steps (each thread's program is finite and is never restarted) -/
theorem run_bounded {n : Nat} {s s' : St} (r : Run n s s') : n + pot s' ≤ pot s := by
  induction r with
  | nil => omega
  | cons st _ ih => have := pot_decreases st; omega

/-- **every request completes, every collector finishes, Close returns**: from any reachable state some run ends with
    nothing pending — and by `run_bounded` every run that keeps stepping gets there -/
theorem all_complete {s : St} (h : Inv s) : ∃ n s', Run n s s' ∧ pending s' = 0 := by
  generalize hp : pot s = p
  induction p using Nat.strongRecOn generalizing s with
  | _ p ih =>
    by_cases h0 : pending s = 0
    · exact ⟨0, s, .nil s, h0⟩
    · obtain ⟨s1, st⟩ := progress h (by omega)
      have hlt := pot_decreases (Or.inl st : Sys s s1)
      obtain ⟨n, s2, r, hz⟩ := ih (pot s1) (by omega) (inv_step h st) rfl
      exact ⟨n + 1, s2, .cons (Or.inl st) r, hz⟩

/-- a maximal run (no step possible at its end) has nothing pending at its end -/
theorem maximal_run_complete {n : Nat} {s s' : St} (h : Inv s) (r : Run n s s') (hmax : ¬ ∃ s'', Step s' s'') :
    pending s' = 0 := by
  have hinv : Inv s' := by
    clear hmax
    induction r with
    | nil => exact h
    | cons st _ ih => exact ih (inv_sys h st)
  apply Classical.byContradiction
  intro hne
  exact hmax (progress hinv (by omega))

/-- non-vacuity: two requests, a ticker collector and Close on one repository; the collector has taken the token while
    one request is working and one waits in the `select` -/
example : Reach 2 1 1 { token := 0, count := 1, rS := 0, rW := 1, rT := 0, rA := 0, rK := 1, gI := 0, gT := 1, gC := 0, cW := 1 } := by
  have s0 : Reach 2 1 1 (init 2 1 1) := .init
  have s1 := Reach.step s0 (Or.inl (.start _ (by decide)))
  have s2 := Reach.step s1 (Or.inl (.take _ (by decide) (by decide)))
  have s3 := Reach.step s2 (Or.inl (.add _ (by decide)))
  have s4 := Reach.step s3 (Or.inl (.put _ (by decide)))
  have s5 := Reach.step s4 (Or.inl (.start _ (by decide)))
  have s6 := Reach.step s5 (Or.inl (.gtake _ (by decide) (by decide)))
  exact s6

/-- the protocol matters: without the token (a request may `Add` while the collector waits) the counter can grow under a
    waiting collector — the model's `add` needs `rT`, i.e. the token, which the waiting collector holds -/
example : ¬ ∃ s', Step { token := 0, count := 1, rS := 0, rW := 1, rT := 0, rA := 0, rK := 1, gI := 0, gT := 1, gC := 0, cW := 0 } s' ∧ s'.count = 2 := by
  rintro ⟨s', st, hc⟩
  cases st <;> simp_all
end PxT
