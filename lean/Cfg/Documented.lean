import Cfg.Basic
import Cfg.Router
import Generated.Flags
import Generated.Defaults
/-!
# What the documentation says (written by hand) and how the regenerated tables are read against it

Sources: the help strings and the examples of `olareg serve` (cmd/olareg/serve.go), the field comments of
config/config.go ("enabled by default", "disabled by default", "default is 8MB", "OCI recommends 4MiB",
"requests per second from a given IP address"), the OCI distribution specification for the routes.
-/
namespace Cfg
open Generated

/-! ## flags -/

/-- a documented flag: name, kind, default (durations in nanoseconds) and the configuration fields it sets -/
structure DocFlag where
  name : String
  kind : String
  dflt : String
  sets : List String
  deriving DecidableEq, Repr

def documentedFlags : List DocFlag := [
  ⟨"addr", "String", "", ["HTTP.Addr"]⟩,                          -- listener interface or address
  ⟨"port", "Int", "5000", ["HTTP.Addr"]⟩,                         -- listener port
  ⟨"tls-cert", "String", "", ["HTTP.CertFile"]⟩,
  ⟨"tls-key", "String", "", ["HTTP.KeyFile"]⟩,
  ⟨"dir", "String", ".", ["Storage.RootDir"]⟩,                    -- root directory for storage
  ⟨"store-type", "String", "dir", ["Storage.StoreType"]⟩,         -- storage type (dir, mem)
  ⟨"store-ro", "Bool", "false", ["Storage.ReadOnly"]⟩,            -- restrict storage as read-only
  ⟨"api-push", "Bool", "true", ["API.PushEnabled"]⟩,              -- enable push APIs
  ⟨"api-delete", "Bool", "false", ["API.DeleteEnabled"]⟩,         -- enable delete APIs
  ⟨"api-blob-delete", "Bool", "false", ["API.Blob.DeleteEnabled"]⟩,   -- enable blob delete API
  ⟨"api-referrer", "Bool", "true", ["API.Referrer.Enabled"]⟩,     -- enable referrer API
  ⟨"rate-limit", "Int", "0", ["API.RateLimit"]⟩,                  -- limit requests per second per source IP
  ⟨"gc-frequency", "Duration", "900000000000", ["Storage.GC.Frequency"]⟩,      -- 15 minutes
  ⟨"gc-grace-period", "Duration", "3600000000000", ["Storage.GC.GracePeriod"]⟩, -- one hour
  ⟨"gc-untagged", "Bool", "false", ["Storage.GC.Untagged"]⟩,
  ⟨"gc-referrer-dangling", "Bool", "false", ["Storage.GC.ReferrersDangling"]⟩,
  ⟨"gc-referrer-subject", "Bool", "true", ["Storage.GC.ReferrersWithSubj"]⟩,
  ⟨"warning", "StringArray", "[]", ["API.Warnings"]⟩]             -- warning headers to include with all responses

/-- configuration fields that `serve` sets from something that is not a flag of `serve` -/
def documentedNonFlag : List String := ["Log"]

/-- does the Go expression of a wire read the option field `t`?  (the four shapes that occur) -/
def exprUses (expr t : String) : Bool :=
  expr = "opts." ++ t || expr = "&opts." ++ t || expr = "UnmarshalText([]byte(opts." ++ t ++ "))" ||
    (expr = "fmt.Sprintf(\"%s:%d\", opts.addr, opts.port)" && (t = "addr" || t = "port"))

/-- a wire into a local variable `$v` is followed to the configuration fields assigned from `v` -/
def resolve (ws : List Wire) (p : String) : List String :=
  let via := ws.filter fun w => "$" ++ w.expr = p
  if via.isEmpty then [p] else via.map (·.path)

/-- the configuration fields a flag's value reaches -/
def reaches (ws : List Wire) (f : Flag) : List String :=
  ((ws.filter fun w => exprUses w.expr f.target).map (·.path)).flatMap (resolve ws)

def flagTable (fs : List Flag) (ws : List Wire) : List DocFlag :=
  fs.map fun f => ⟨f.name, f.kind, f.dflt, reaches ws f⟩

/-- every wire is fed by a flag (directly or through a local variable) or is a documented non-flag field, and no
configuration field is assigned twice -/
def wiringExact (fs : List Flag) (ws : List Wire) : Bool :=
  let reached := fs.flatMap (reaches ws)
  let locals := ws.filter fun w => fs.any fun f => exprUses w.expr f.target
  (ws.all fun w => reached.contains w.path || documentedNonFlag.contains w.path || locals.contains w) &&
    ((ws.map (·.path)).eraseDups.length == ws.length) &&
    ((fs.map (·.name)).eraseDups.length == fs.length) && ((fs.map (·.target)).eraseDups.length == fs.length)

/-! ## defaults: `Generated.defaults` against the constants of the model `Cfg.setDefaults` -/

def bD (f : String) (v : Bool) : Default :=
  { field := f, guard := "nil", cond := "", kind := "bool", boolVal := v, intVal := 0, strVal := "" }
def iD (f g : String) (v : Int) : Default :=
  { field := f, guard := g, cond := "", kind := "int", boolVal := false, intVal := v, strVal := "" }

/-- the defaulting steps `setDefaults` was written for, from the model's own constants, in source order -/
def modelledDefaults : List Default := [
  bD "API.DeleteEnabled" dDeleteEnabled,
  bD "API.PushEnabled" dPushEnabled,
  bD "API.Blob.DeleteEnabled" dBlobDelete,
  bD "API.Referrer.Enabled" dReferrerEnabled,
  iD "API.Manifest.Limit" "<= 0" dManifestLimit,
  iD "API.Referrer.PageCacheExpire" "== 0" dPageCacheExpire,
  iD "API.Referrer.PageCacheLimit" "== 0" dPageCacheLimit,
  iD "API.Referrer.Limit" "== 0" dReferrerLimit,
  bD "Storage.ReadOnly" dReadOnly,
  { field := "Storage.RootDir", guard := "== \"\"", cond := "Storage.StoreType == StoreDir", kind := "string",
    boolVal := false, intVal := 0, strVal := dRootDir },
  iD "Storage.GC.Frequency" "== 0" dGcFrequency,
  iD "Storage.GC.GracePeriod" "== 0" dGcGrace,
  iD "Storage.GC.RepoUploadMax" "== 0" dRepoUploadMax,
  bD "Storage.GC.Untagged" dGcUntagged,
  bD "Storage.GC.EmptyRepo" dGcEmptyRepo,
  bD "Storage.GC.ReferrersDangling" dGcDangling,
  bD "Storage.GC.ReferrersWithSubj" dGcWithSubj]

/-- `boolDefault` as modelled by `Cfg.boolDefault` -/
def modelledBoolDefault : List String := ["if cur != nil {", "  return cur", "}", "return &def"]

/-- the documented defaults (config.go comments, flag help): the values a user may rely on -/
def documentedDefaults : List (String × String) := [
  ("API.PushEnabled", "true"),            -- "enable push to repository, enabled by default"
  ("API.DeleteEnabled", "false"),         -- "enable deletion, disabled by default"
  ("API.Blob.DeleteEnabled", "false"),    -- "enable blob deletion, disabled by default"
  ("API.Referrer.Enabled", "true"),       -- "enable referrer API, enabled by default"
  ("API.Manifest.Limit", "8388608"),      -- "default is 8MB"
  ("API.Referrer.Limit", "4194304"),      -- "OCI recommends 4MiB"
  ("Storage.ReadOnly", "false"),
  ("Storage.RootDir", "."),               -- example: "serving content from the current directory"
  ("Storage.GC.Frequency", "900000000000"),
  ("Storage.GC.GracePeriod", "3600000000000"),
  ("Storage.GC.Untagged", "false"),
  ("Storage.GC.ReferrersDangling", "false"),
  ("Storage.GC.ReferrersWithSubj", "true")]

def renderDefault (d : Default) : String :=
  if d.kind = "bool" then (if d.boolVal then "true" else "false")
  else if d.kind = "int" then toString d.intVal
  else d.strVal

/-- every documented default is the value `SetDefaults` fills in -/
def documentedDefaultsHold (ds : List Default) : Bool :=
  documentedDefaults.all fun (f, v) => (ds.filter fun d => d.field = f).map renderDefault == [v]

/-- a flag that sets a defaulted configuration field has the same default as the library (so leaving the flag out
and leaving the field unset agree) -/
def flagDefaultsAgree (fs : List Flag) (ws : List Wire) (ds : List Default) : Bool :=
  fs.all fun f => (reaches ws f).all fun p => (ds.filter fun d => d.field = p).all fun d => renderDefault d = f.dflt

/-! ## routes: the documented API surface and its switches -/

/-- a documented endpoint: methods, path class, handler call, switches that must all be on -/
structure DocRoute where
  methods : List String
  path : List String
  handler : String
  needs : List String
  deriving DecidableEq, Repr

def documentedRoutes : List DocRoute := [
  ⟨["Get", "Head"], ["v2"], "v2Ping", []⟩,
  ⟨["Get", "Head"], ["v2", "r", "manifests", "t"], "manifestGet(matches[0], matches[1])", []⟩,
  ⟨["Put"], ["v2", "r", "manifests", "t"], "manifestPut(matches[0], matches[1])", ["API.PushEnabled"]⟩,
  ⟨["Delete"], ["v2", "r", "manifests", "t"], "manifestDelete(matches[0], matches[1])", ["API.DeleteEnabled"]⟩,
  ⟨["Get", "Head"], ["v2", "a", "b", "manifests", "t"], "manifestGet(matches[0], matches[1])", []⟩,
  ⟨["Put"], ["v2", "a", "b", "manifests", "t"], "manifestPut(matches[0], matches[1])", ["API.PushEnabled"]⟩,
  ⟨["Delete"], ["v2", "a", "b", "manifests", "t"], "manifestDelete(matches[0], matches[1])", ["API.DeleteEnabled"]⟩,
  ⟨["Get", "Head"], ["v2", "r", "blobs", "d"], "blobGet(matches[0], matches[1])", []⟩,
  ⟨["Delete"], ["v2", "r", "blobs", "d"], "blobDelete(matches[0], matches[1])", ["API.DeleteEnabled", "API.Blob.DeleteEnabled"]⟩,
  ⟨["Get", "Head"], ["v2", "r", "blobs", "uploads"], "blobGet(matches[0], matches[1])", []⟩,
  ⟨["Delete"], ["v2", "r", "blobs", "uploads"], "blobDelete(matches[0], matches[1])", ["API.DeleteEnabled", "API.Blob.DeleteEnabled"]⟩,
  ⟨["Post"], ["v2", "r", "blobs", "uploads"], "blobUploadPost(matches[0])", ["API.PushEnabled"]⟩,
  ⟨["Get", "Head"], ["v2", "r", "referrers", "d"], "referrerGet(matches[0], matches[1])", ["API.Referrer.Enabled"]⟩,
  ⟨["Get", "Head"], ["v2", "r", "tags", "list"], "tagList(matches[0])", []⟩,
  ⟨["Patch"], ["v2", "r", "blobs", "uploads", "s"], "blobUploadPatch(matches[0], matches[1])", ["API.PushEnabled"]⟩,
  ⟨["Put"], ["v2", "r", "blobs", "uploads", "s"], "blobUploadPut(matches[0], matches[1])", ["API.PushEnabled"]⟩,
  ⟨["Get"], ["v2", "r", "blobs", "uploads", "s"], "blobUploadGet(matches[0], matches[1])", ["API.PushEnabled"]⟩,
  ⟨["Delete"], ["v2", "r", "blobs", "uploads", "s"], "blobUploadDelete(matches[0], matches[1])", ["API.PushEnabled"]⟩,
  ⟨["Patch"], ["v2", "a", "b", "blobs", "uploads", "s"], "blobUploadPatch(matches[0], matches[1])", ["API.PushEnabled"]⟩,
  ⟨["Put"], ["v2", "a", "b", "blobs", "uploads", "s"], "blobUploadPut(matches[0], matches[1])", ["API.PushEnabled"]⟩,
  ⟨["Get"], ["v2", "a", "b", "blobs", "uploads", "s"], "blobUploadGet(matches[0], matches[1])", ["API.PushEnabled"]⟩,
  ⟨["Delete"], ["v2", "a", "b", "blobs", "uploads", "s"], "blobUploadDelete(matches[0], matches[1])", ["API.PushEnabled"]⟩]

/-- the documented answer of the router: the handler when the endpoint exists and its switches are on, a direct 4xx
answer in every other case -/
def documentedOutcomeOk (sw : Switches) (m : String) (p : List String) (o : Outcome) : Bool :=
  match documentedRoutes.filter fun r => r.methods.contains m && r.path = p with
  | [r] => if r.needs.all fun n => sw.get n == some true then o == .handler r.handler else o.refused
  | [] => o.refused
  | _ => false

/-- executable form of "the router is the documented one" for one table -/
def routesDocumented (tbl : List Branch) : Bool :=
  allSwitches.all fun sw => methods.all fun m => pathClasses.all fun p => documentedOutcomeOk sw m p (routeIn tbl sw m p)

/-! ## the source text the hand-written models were written for (log calls removed by the extractor) -/

def limiterModelled : List String := [
  "if s.conf.API.RateLimit > 0 {",
  "  ip := req.Header.Get(\"X-Forwarded-For\")",
  "  if ip != \"\" {",
  "    ip, _, _ = strings.Cut(ip, \", \")",
  "  } else {",
  "    ip = req.RemoteAddr",
  "    portSep := strings.LastIndex(ip, \":\")",
  "    if portSep > 0 {",
  "      ip = ip[:portSep]",
  "    }",
  "  }",
  "  <mu>.Lock()",
  "  now := time.Now()",
  "  limit, err := s.rateLimit.Get(ip)",
  "  count := 1",
  "  if err != nil || limit == nil {",
  "    limit = &rateLimitEntry{ first: now, count: count, }",
  "    s.rateLimit.Set(ip, limit)",
  "  } else {",
  "    if now.Sub(limit.first) > time.Second {",
  "      limit.count = count",
  "      limit.first = now",
  "    } else {",
  "      limit.count++",
  "      count = limit.count",
  "    }",
  "  }",
  "  s.rateLimit.Set(ip, limit)",
  "  <mu>.Unlock()",
  "  if count > s.conf.API.RateLimit {",
  "    resp.Header().Add(\"Retry-After\", \"1\")",
  "    resp.WriteHeader(http.StatusTooManyRequests)",
  "    return",
  "  }",
  "}"]

def servePreambleModelled : List String := [
  "if s.store == nil",
  "pathEl := strings.Split(strings.Trim(path.Clean(\"/\"+req.URL.Path), \"/\"), \"/\")",
  "resp.Header().Set(\"Docker-Distribution-API-Version\", \"registry/2.0\")",
  "range s.conf.API.Warnings",
  "if s.conf.API.RateLimit > 0"]

def runModelled : List String := [
  "s.mu.Lock()",
  "defer s.mu.Unlock()",
  "if s.httpServer != nil {",
  "  return fmt.Errorf(\"server is already running, run shutdown first\")",
  "}",
  "if s.stopped {",
  "  return nil",
  "}",
  "hs := &http.Server{ Addr: s.conf.HTTP.Addr, ReadHeaderTimeout: 5 * time.Second, Handler: httplog.New(s, s.log, LogTrace), }",
  "s.httpServer = hs",
  "if ctx != nil {",
  "  hs.BaseContext = func(l net.Listener) context.Context { return ctx }",
  "}",
  "s.mu.Unlock()",
  "var err error",
  "if s.conf.HTTP.CertFile != \"\" && s.conf.HTTP.KeyFile != \"\" {",
  "  err = hs.ListenAndServeTLS(s.conf.HTTP.CertFile, s.conf.HTTP.KeyFile)",
  "} else {",
  "  err = hs.ListenAndServe()",
  "}",
  "s.mu.Lock()",
  "if err != nil && errors.Is(err, http.ErrServerClosed) {",
  "  err = nil",
  "}",
  "return err"]

def shutdownModelled : List String := [
  "s.mu.Lock()",
  "defer s.mu.Unlock()",
  "if s.httpServer == nil {",
  "  s.stopped = true",
  "  return fmt.Errorf(\"server is not running\")",
  "}",
  "err := s.httpServer.Shutdown(ctx)",
  "s.httpServer = nil",
  "if err != nil {",
  "  return err",
  "}",
  "if s.store != nil {",
  "  err = s.store.Close()",
  "  s.store = nil",
  "}",
  "return err"]

def serveRunModelled : List String := [
  "s := olareg.New(conf)",
  "ctx := cmd.Context()",
  "if ctx == nil {",
  "  ctx = context.Background()",
  "}",
  "ctx, cancel := context.WithCancel(ctx)",
  "cleanShutdown := make(chan struct{})",
  "go func() {",
  "  sig := make(chan os.Signal, 1)",
  "  signal.Notify(sig, os.Interrupt, syscall.SIGTERM)",
  "  select {",
  "  case <-sig:",
  "  case <-ctx.Done():",
  "  }",
  "  err := s.Shutdown(ctx)",
  "  if err != nil {",
  "  }",
  "  cancel()",
  "  close(cleanShutdown)",
  "}()",
  "err = s.Run(ctx)",
  "if err != nil {",
  "  return err",
  "}",
  "<-cleanShutdown",
  "return nil"]

/-- `New`: defaults first, the limiter exists iff the limit is positive, the store follows the store type -/
def newModelled : List String := [
  "conf.SetDefaults()",
  "s := &Server{ conf: conf, log: conf.Log, referrerCache: cache.New[referrerKey, referrerResponses](cache.Opts[referrerKey, referrerResponses]{ Age: conf.API.Referrer.PageCacheExpire, Count: conf.API.Referrer.PageCacheLimit, }), }",
  "if conf.API.RateLimit > 0 {",
  "  s.rateLimit = cache.New(cache.Opts[string, *rateLimitEntry]{ Age: time.Second * 10, })",
  "}",
  "if s.log == nil {",
  "  s.log = slog.New(sloghandle.Discard)",
  "}",
  "switch s.conf.Storage.StoreType {",
  "case config.StoreMem:",
  "  s.store = store.NewMem(s.conf, store.WithLog(s.log))",
  "case config.StoreDir:",
  "  s.store = store.NewDir(s.conf, store.WithLog(s.log))",
  "}",
  "return s"]

end Cfg
