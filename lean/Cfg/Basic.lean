/-! scratch pilot: config.SetDefaults (config/config.go:85-123). Durations in nanoseconds as Int; `none` = nil pointer -/
namespace Cfg

structure Config where
  deleteEnabled : Option Bool := none
  pushEnabled : Option Bool := none
  blobDelete : Option Bool := none
  referrerEnabled : Option Bool := none
  manifestLimit : Int := 0
  pageCacheExpire : Int := 0
  pageCacheLimit : Int := 0
  referrerLimit : Int := 0
  readOnly : Option Bool := none
  storeType : Nat := 0          -- 0 undef, 1 mem, 2 dir, 3 shared
  rootDir : String := ""
  gcFrequency : Int := 0
  gcGrace : Int := 0
  repoUploadMax : Int := 0
  gcUntagged : Option Bool := none
  gcEmptyRepo : Option Bool := none
  gcDangling : Option Bool := none
  gcWithSubj : Option Bool := none
  deriving DecidableEq, Repr

def boolDefault (cur : Option Bool) (d : Bool) : Option Bool := match cur with | some b => some b | none => some d

def minute : Int := 60 * 1000000000
def hour : Int := 60 * minute

def setDefaults (c : Config) : Config :=
  { c with
    deleteEnabled := boolDefault c.deleteEnabled false
    pushEnabled := boolDefault c.pushEnabled true
    blobDelete := boolDefault c.blobDelete false
    referrerEnabled := boolDefault c.referrerEnabled true
    manifestLimit := if c.manifestLimit ≤ 0 then 1024 * 1024 * 8 else c.manifestLimit
    pageCacheExpire := if c.pageCacheExpire = 0 then 5 * minute else c.pageCacheExpire
    pageCacheLimit := if c.pageCacheLimit = 0 then 1000 else c.pageCacheLimit
    referrerLimit := if c.referrerLimit = 0 then 1024 * 1024 * 4 else c.referrerLimit
    readOnly := boolDefault c.readOnly false
    rootDir := if c.storeType = 2 ∧ c.rootDir = "" then "." else c.rootDir
    gcFrequency := if c.gcFrequency = 0 then 15 * minute else c.gcFrequency
    gcGrace := if c.gcGrace = 0 then hour else c.gcGrace
    repoUploadMax := if c.repoUploadMax = 0 then 1000 else c.repoUploadMax
    gcUntagged := boolDefault c.gcUntagged false
    gcEmptyRepo := boolDefault c.gcEmptyRepo true
    gcDangling := boolDefault c.gcDangling false
    gcWithSubj := boolDefault c.gcWithSubj true }

/-- C19: defaulting is idempotent -/
theorem setDefaults_idem (c : Config) : setDefaults (setDefaults c) = setDefaults c := by
  unfold setDefaults boolDefault
  cases c
  simp only [Config.mk.injEq]
  refine ⟨?_, ?_, ?_, ?_, ?_, ?_, ?_, ?_, ?_, ?_, ?_, ?_, ?_, ?_, ?_, ?_, ?_, ?_⟩
  case refine_11 =>
    rename_i rootDir _ _ _ _ _ _ _
    by_cases h : rootDir = ""
    · simp [h]
    · simp [h]
  all_goals first
    | trivial
    | rfl
    | (split <;> rfl)
    | (split <;> split <;> simp_all <;> omega)
    | (split <;> split <;> simp_all)
    | simp_all

/-- C19: an explicitly set switch is never overridden -/
theorem explicit_switch_kept (c : Config) (b : Bool) :
    (c.deleteEnabled = some b → (setDefaults c).deleteEnabled = some b) ∧
    (c.pushEnabled = some b → (setDefaults c).pushEnabled = some b) ∧
    (c.blobDelete = some b → (setDefaults c).blobDelete = some b) ∧
    (c.referrerEnabled = some b → (setDefaults c).referrerEnabled = some b) ∧
    (c.readOnly = some b → (setDefaults c).readOnly = some b) ∧
    (c.gcUntagged = some b → (setDefaults c).gcUntagged = some b) ∧
    (c.gcEmptyRepo = some b → (setDefaults c).gcEmptyRepo = some b) ∧
    (c.gcDangling = some b → (setDefaults c).gcDangling = some b) ∧
    (c.gcWithSubj = some b → (setDefaults c).gcWithSubj = some b) := by
  unfold setDefaults boolDefault
  refine ⟨?_, ?_, ?_, ?_, ?_, ?_, ?_, ?_, ?_⟩ <;> (intro h; simp [h])

/-- C19: a numeric setting in its documented domain (non-zero; positive for the manifest limit) is kept -/
theorem explicit_number_kept (c : Config) :
    (0 < c.manifestLimit → (setDefaults c).manifestLimit = c.manifestLimit) ∧
    (c.referrerLimit ≠ 0 → (setDefaults c).referrerLimit = c.referrerLimit) ∧
    (c.gcFrequency ≠ 0 → (setDefaults c).gcFrequency = c.gcFrequency) ∧
    (c.gcGrace ≠ 0 → (setDefaults c).gcGrace = c.gcGrace) ∧
    (c.repoUploadMax ≠ 0 → (setDefaults c).repoUploadMax = c.repoUploadMax) := by
  unfold setDefaults
  refine ⟨?_, ?_, ?_, ?_, ?_⟩ <;> (intro h; simp only []; split <;> first | rfl | omega | (exfalso; omega) | simp_all)
end Cfg
