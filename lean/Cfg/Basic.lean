/-! `config.Config.SetDefaults` (config/config.go). Durations in nanoseconds as Int; `none` = nil pointer.
The constants are named so that `Cfg/Defaults.lean` can tie them to the regenerated table `Generated.defaults`. -/
namespace Cfg

structure Config where
  deleteEnabled : Option Bool := none
  pushEnabled : Option Bool := none
  blobDelete : Option Bool := none
  referrerEnabled : Option Bool := none
  manifestLimit : Int := 0
  pageCacheExpire : Int := 0
  pageCacheLimit : Int := 0
  referrerLimit : Int := 0
  readOnly : Option Bool := none
  storeType : Nat := 0          -- 0 undef, 1 mem, 2 dir, 3 shared
  rootDir : String := ""
  gcFrequency : Int := 0
  gcGrace : Int := 0
  repoUploadMax : Int := 0
  gcUntagged : Option Bool := none
  gcEmptyRepo : Option Bool := none
  gcDangling : Option Bool := none
  gcWithSubj : Option Bool := none
  deriving DecidableEq, Repr

def boolDefault (cur : Option Bool) (d : Bool) : Option Bool := match cur with | some b => some b | none => some d

abbrev minute : Int := 60 * 1000000000
abbrev hour : Int := 60 * minute

/-! the defaults -/
abbrev dDeleteEnabled : Bool := false
abbrev dPushEnabled : Bool := true
abbrev dBlobDelete : Bool := false
abbrev dReferrerEnabled : Bool := true
abbrev dManifestLimit : Int := 1024 * 1024 * 8
abbrev dPageCacheExpire : Int := 5 * minute
abbrev dPageCacheLimit : Int := 1000
abbrev dReferrerLimit : Int := 1024 * 1024 * 4
abbrev dReadOnly : Bool := false
abbrev dRootDir : String := "."
abbrev dGcFrequency : Int := 15 * minute
abbrev dGcGrace : Int := hour
abbrev dRepoUploadMax : Int := 1000
abbrev dGcUntagged : Bool := false
abbrev dGcEmptyRepo : Bool := true
abbrev dGcDangling : Bool := false
abbrev dGcWithSubj : Bool := true
/-- `config.StoreDir` -/
abbrev storeDir : Nat := 2

def setDefaults (c : Config) : Config :=
  { c with
    deleteEnabled := boolDefault c.deleteEnabled dDeleteEnabled
    pushEnabled := boolDefault c.pushEnabled dPushEnabled
    blobDelete := boolDefault c.blobDelete dBlobDelete
    referrerEnabled := boolDefault c.referrerEnabled dReferrerEnabled
    manifestLimit := if c.manifestLimit ≤ 0 then dManifestLimit else c.manifestLimit
    pageCacheExpire := if c.pageCacheExpire = 0 then dPageCacheExpire else c.pageCacheExpire
    pageCacheLimit := if c.pageCacheLimit = 0 then dPageCacheLimit else c.pageCacheLimit
    referrerLimit := if c.referrerLimit = 0 then dReferrerLimit else c.referrerLimit
    readOnly := boolDefault c.readOnly dReadOnly
    rootDir := if c.storeType = storeDir ∧ c.rootDir = "" then dRootDir else c.rootDir
    gcFrequency := if c.gcFrequency = 0 then dGcFrequency else c.gcFrequency
    gcGrace := if c.gcGrace = 0 then dGcGrace else c.gcGrace
    repoUploadMax := if c.repoUploadMax = 0 then dRepoUploadMax else c.repoUploadMax
    gcUntagged := boolDefault c.gcUntagged dGcUntagged
    gcEmptyRepo := boolDefault c.gcEmptyRepo dGcEmptyRepo
    gcDangling := boolDefault c.gcDangling dGcDangling
    gcWithSubj := boolDefault c.gcWithSubj dGcWithSubj }

/-- C19: defaulting is idempotent -/
theorem setDefaults_idem (c : Config) : setDefaults (setDefaults c) = setDefaults c := by
  unfold setDefaults boolDefault
  cases c
  simp only [Config.mk.injEq]
  refine ⟨?_, ?_, ?_, ?_, ?_, ?_, ?_, ?_, ?_, ?_, ?_, ?_, ?_, ?_, ?_, ?_, ?_, ?_⟩
  case refine_11 =>
    rename_i rootDir _ _ _ _ _ _ _
    by_cases h : rootDir = ""
    · simp [h, dRootDir, storeDir]
    · simp [h, storeDir]
  all_goals first
    | trivial
    | rfl
    | (split <;> rfl)
    | (split <;> split <;> simp_all <;> omega)
    | (split <;> split <;> simp_all)
    | simp_all

/-- C19: an explicitly set switch is never overridden -/
theorem explicit_switch_kept (c : Config) (b : Bool) :
    (c.deleteEnabled = some b → (setDefaults c).deleteEnabled = some b) ∧
    (c.pushEnabled = some b → (setDefaults c).pushEnabled = some b) ∧
    (c.blobDelete = some b → (setDefaults c).blobDelete = some b) ∧
    (c.referrerEnabled = some b → (setDefaults c).referrerEnabled = some b) ∧
    (c.readOnly = some b → (setDefaults c).readOnly = some b) ∧
    (c.gcUntagged = some b → (setDefaults c).gcUntagged = some b) ∧
    (c.gcEmptyRepo = some b → (setDefaults c).gcEmptyRepo = some b) ∧
    (c.gcDangling = some b → (setDefaults c).gcDangling = some b) ∧
    (c.gcWithSubj = some b → (setDefaults c).gcWithSubj = some b) := by
  unfold setDefaults boolDefault
  refine ⟨?_, ?_, ?_, ?_, ?_, ?_, ?_, ?_, ?_⟩ <;> (intro h; simp [h])

/-- C19: a numeric setting in its documented domain (non-zero; positive for the manifest limit) is kept -/
theorem explicit_number_kept (c : Config) :
    (0 < c.manifestLimit → (setDefaults c).manifestLimit = c.manifestLimit) ∧
    (c.referrerLimit ≠ 0 → (setDefaults c).referrerLimit = c.referrerLimit) ∧
    (c.gcFrequency ≠ 0 → (setDefaults c).gcFrequency = c.gcFrequency) ∧
    (c.gcGrace ≠ 0 → (setDefaults c).gcGrace = c.gcGrace) ∧
    (c.repoUploadMax ≠ 0 → (setDefaults c).repoUploadMax = c.repoUploadMax) := by
  unfold setDefaults
  refine ⟨?_, ?_, ?_, ?_, ?_⟩ <;> (intro h; simp only []; split <;> first | rfl | omega | (exfalso; omega) | simp_all)

/-- C19: the two numeric cache settings not covered above, the root directory and the store type -/
theorem explicit_other_kept (c : Config) :
    (c.pageCacheExpire ≠ 0 → (setDefaults c).pageCacheExpire = c.pageCacheExpire) ∧
    (c.pageCacheLimit ≠ 0 → (setDefaults c).pageCacheLimit = c.pageCacheLimit) ∧
    (c.rootDir ≠ "" → (setDefaults c).rootDir = c.rootDir) ∧
    (c.storeType ≠ storeDir → (setDefaults c).rootDir = c.rootDir) ∧
    (setDefaults c).storeType = c.storeType := by
  unfold setDefaults
  refine ⟨?_, ?_, ?_, ?_, ?_⟩
  · intro h; simp [h]
  · intro h; simp [h]
  · intro h; simp [h]
  · intro h; simp [h]
  · rfl

/-- C19: an unset field (nil pointer, zero number, empty directory of a directory store) gets its default -/
theorem unset_default (c : Config) :
    (c.deleteEnabled = none → (setDefaults c).deleteEnabled = some dDeleteEnabled) ∧
    (c.pushEnabled = none → (setDefaults c).pushEnabled = some dPushEnabled) ∧
    (c.blobDelete = none → (setDefaults c).blobDelete = some dBlobDelete) ∧
    (c.referrerEnabled = none → (setDefaults c).referrerEnabled = some dReferrerEnabled) ∧
    (c.readOnly = none → (setDefaults c).readOnly = some dReadOnly) ∧
    (c.gcUntagged = none → (setDefaults c).gcUntagged = some dGcUntagged) ∧
    (c.gcEmptyRepo = none → (setDefaults c).gcEmptyRepo = some dGcEmptyRepo) ∧
    (c.gcDangling = none → (setDefaults c).gcDangling = some dGcDangling) ∧
    (c.gcWithSubj = none → (setDefaults c).gcWithSubj = some dGcWithSubj) ∧
    (c.manifestLimit ≤ 0 → (setDefaults c).manifestLimit = dManifestLimit) ∧
    (c.pageCacheExpire = 0 → (setDefaults c).pageCacheExpire = dPageCacheExpire) ∧
    (c.pageCacheLimit = 0 → (setDefaults c).pageCacheLimit = dPageCacheLimit) ∧
    (c.referrerLimit = 0 → (setDefaults c).referrerLimit = dReferrerLimit) ∧
    (c.gcFrequency = 0 → (setDefaults c).gcFrequency = dGcFrequency) ∧
    (c.gcGrace = 0 → (setDefaults c).gcGrace = dGcGrace) ∧
    (c.repoUploadMax = 0 → (setDefaults c).repoUploadMax = dRepoUploadMax) ∧
    (c.storeType = storeDir → c.rootDir = "" → (setDefaults c).rootDir = dRootDir) := by
  unfold setDefaults boolDefault
  refine ⟨?_, ?_, ?_, ?_, ?_, ?_, ?_, ?_, ?_, ?_, ?_, ?_, ?_, ?_, ?_, ?_, ?_⟩
  case refine_17 => intro h h'; simp [h, h']
  all_goals (intro h; simp [h])

/-- after defaulting no switch is nil and no defaulted number is zero: `New` may dereference every pointer -/
theorem defaults_total (c : Config) :
    (setDefaults c).deleteEnabled ≠ none ∧ (setDefaults c).pushEnabled ≠ none ∧ (setDefaults c).blobDelete ≠ none ∧
    (setDefaults c).referrerEnabled ≠ none ∧ (setDefaults c).readOnly ≠ none ∧ (setDefaults c).gcUntagged ≠ none ∧
    (setDefaults c).gcEmptyRepo ≠ none ∧ (setDefaults c).gcDangling ≠ none ∧ (setDefaults c).gcWithSubj ≠ none ∧
    0 < (setDefaults c).manifestLimit := by
  unfold setDefaults boolDefault
  refine ⟨?_, ?_, ?_, ?_, ?_, ?_, ?_, ?_, ?_, ?_⟩
  all_goals first
    | (simp only []; split <;> simp)
    | (simp only [dManifestLimit]; split <;> omega)
end Cfg
