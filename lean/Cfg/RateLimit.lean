/-!
# The rate limiter at the top of `Server.ServeHTTP` (olareg.go, the `if s.conf.API.RateLimit > 0 { … }` block)

Pure model.  The implementation keeps, per client address (first element of `X-Forwarded-For`, else `RemoteAddr`
without the port), an entry `{first, count}` in a cache whose entries live 10 s after their last use; an entry that
has expired is more than one second old, so expiry is indistinguishable from the reset branch and the cache is
modelled as a total map.  All of it runs under `Server.mu`, so a request is one atomic step
`step : State → (addr, now) → State × Ev`.

A **window** (the *accounting second* of the property) is opened by a request that finds no entry or finds
`now - first > 1s` (strictly); it consists of that request and the following requests of the same address up to the
next opening one.  A request in a window is served iff its 1-based position in the window is `≤ limit`.
-/
namespace Cfg.RL

/-- `time.Second` in the unit of the time stamps (nanoseconds) -/
def second : Int := 1000000000

structure Entry where
  first : Int
  count : Nat
  deriving DecidableEq, Repr

/-- one answered request as the harness observes it: `opened` = the entry's `first` was set to this request's time -/
structure Ev where
  addr : Nat
  time : Int
  served : Bool
  opened : Bool
  deriving DecidableEq, Repr

/-- the accounting for one address: new entry, reset (`now.Sub(first) > time.Second`) or increment -/
def account (e : Option Entry) (now : Int) : Entry × Bool :=
  match e with
  | none => (⟨now, 1⟩, true)
  | some e => if now - e.first > second then (⟨now, 1⟩, true) else (⟨e.first, e.count + 1⟩, false)

abbrev State := Nat → Option Entry

def State.set (s : State) (a : Nat) (e : Entry) : State := fun b => if b = a then some e else s b

def init : State := fun _ => none

/-- one request of address `a` at time `now` under a positive limit; blocked iff `count > limit` -/
def step (limit : Nat) (s : State) (a : Nat) (now : Int) : State × Ev :=
  let r := account (s a) now
  (s.set a r.1, ⟨a, now, decide (r.1.count ≤ limit), r.2⟩)

def run (limit : Nat) : State → List (Nat × Int) → List Ev
  | _, [] => []
  | s, r :: rs => (step limit s r.1 r.2).2 :: run limit (step limit s r.1 r.2).1 rs

/-- the whole block including its guard: a limit of 0 (or less, in Go) switches the limiter off -/
def trace (limit : Nat) (reqs : List (Nat × Int)) : List Ev :=
  if limit = 0 then reqs.map fun r => ⟨r.1, r.2, true, false⟩ else run limit init reqs

/-- the same accounting for a single address, as a function of that address's entry and arrival times only -/
def run1 (limit : Nat) (a : Nat) : Option Entry → List Int → List Ev
  | _, [] => []
  | e, t :: ts => ⟨a, t, decide ((account e t).1.count ≤ limit), (account e t).2⟩ :: run1 limit a (some (account e t).1) ts

def servedCount (l : List Ev) : Nat := (l.filter (·.served)).length

@[simp] theorem servedCount_nil : servedCount [] = 0 := rfl
theorem servedCount_cons (e : Ev) (l : List Ev) : servedCount (e :: l) = (if e.served then 1 else 0) + servedCount l := by
  unfold servedCount
  by_cases h : e.served <;> simp [List.filter, h] <;> omega
theorem servedCount_append (l₁ l₂ : List Ev) : servedCount (l₁ ++ l₂) = servedCount l₁ + servedCount l₂ := by
  unfold servedCount; simp [List.filter_append]

/-- **isolation**: what an address observes is a function of its own entry and its own arrival times -/
theorem run_proj (limit : Nat) (a : Nat) : ∀ (reqs : List (Nat × Int)) (s : State),
    (run limit s reqs).filter (fun e => e.addr == a)
      = run1 limit a (s a) ((reqs.filter (fun r => r.1 == a)).map (·.2)) := by
  intro reqs
  induction reqs with
  | nil => intro s; rfl
  | cons r rs ih =>
    intro s
    by_cases h : r.1 = a
    · have hb : (r.1 == a) = true := by simp [h]
      simp only [run, step, List.filter, hb, List.map, run1]
      rw [ih]
      simp [State.set, h]
    · have hb : (r.1 == a) = false := by simp [h]
      simp only [run, step, List.filter, hb]
      rw [ih]
      have : a ≠ r.1 := fun e => h e.symm
      simp [State.set, this]

theorem account_count_pos (e : Option Entry) (t : Int) : 1 ≤ (account e t).1.count := by
  unfold account
  cases e with
  | none => simp
  | some e => by_cases h : t - e.first > second <;> simp [h]

theorem account_opened (e : Option Entry) (t : Int) (h : (account e t).2 = true) : (account e t).1 = ⟨t, 1⟩ := by
  unfold account at *
  cases e with
  | none => rfl
  | some e => by_cases h' : t - e.first > second <;> simp_all

/-- a suffix of a single-address trace is again a single-address trace -/
theorem run1_suffix (limit a : Nat) : ∀ (pre : List Ev) (e : Option Entry) (ts : List Int) (rest : List Ev),
    run1 limit a e ts = pre ++ rest → ∃ e' ts', rest = run1 limit a e' ts' := by
  intro pre
  induction pre with
  | nil => intro e ts rest h; exact ⟨e, ts, by simpa using h.symm⟩
  | cons p pre ih =>
    intro e ts rest h
    cases ts with
    | nil => simp [run1] at h
    | cons t ts =>
      simp only [run1, List.cons_append, List.cons.injEq] at h
      exact ih _ _ _ h.2

/-- inside a window: starting from an entry with `count = c`, requests that do not open a new window are served at
most `limit - c` times -/
theorem window_tail_bound (limit a : Nat) : ∀ (w : List Ev) (post : List Ev) (f : Int) (c : Nat) (ts : List Int),
    run1 limit a (some ⟨f, c⟩) ts = w ++ post → (∀ x ∈ w, x.opened = false) → servedCount w ≤ limit - c := by
  intro w
  induction w with
  | nil => intros; simp
  | cons x w ih =>
    intro post f c ts h hno
    cases ts with
    | nil => simp [run1] at h
    | cons t ts =>
      simp only [run1, List.cons_append, List.cons.injEq] at h
      obtain ⟨hx, hrest⟩ := h
      have hxo : x.opened = false := hno x (by simp)
      have hacc : (account (some ⟨f, c⟩) t) = (⟨f, c + 1⟩, false) := by
        unfold account
        by_cases hgt : t - f > second
        · have : x.opened = true := by rw [← hx]; simp [account, hgt]
          simp [this] at hxo
        · simp [hgt]
      rw [hacc] at hrest hx
      have ih' := ih post f (c + 1) ts hrest (fun y hy => hno y (by simp [hy]))
      rw [servedCount_cons]
      have hs : x.served = decide (c + 1 ≤ limit) := by rw [← hx]
      by_cases hle : c + 1 ≤ limit
      · simp [hs, hle]; omega
      · simp [hs, hle]; omega

/-- **per-window bound, single address** -/
theorem run1_window (limit a : Nat) (e : Option Entry) (ts : List Int) (pre w post : List Ev)
    (h : run1 limit a e ts = pre ++ w ++ post) (hno : ∀ x ∈ w.tail, x.opened = false) :
    servedCount w ≤ limit := by
  rw [List.append_assoc] at h
  obtain ⟨e', ts', h'⟩ := run1_suffix limit a pre e ts (w ++ post) h
  cases w with
  | nil => simp
  | cons x w =>
    cases ts' with
    | nil => simp [run1] at h'
    | cons t ts' =>
      simp only [run1, List.cons_append, List.cons.injEq] at h'
      obtain ⟨hx, hrest⟩ := h'
      have hpos := account_count_pos e' t
      have hb := window_tail_bound limit a w post (account e' t).1.first (account e' t).1.count ts' hrest.symm
        (fun y hy => hno y (by simpa using hy))
      rw [servedCount_cons]
      have hs : x.served = decide ((account e' t).1.count ≤ limit) := by rw [hx]
      by_cases hle : (account e' t).1.count ≤ limit
      · simp [hs, hle]; omega
      · simp [hs, hle]; omega

/-- inside a window opened at `f`: a following request stays in the window iff it comes at most one second after `f` -/
theorem window_span (limit a : Nat) : ∀ (mid : List Ev) (f : Int) (c : Nat) (ts : List Int) (e : Ev) (post : List Ev),
    run1 limit a (some ⟨f, c⟩) ts = mid ++ e :: post → (∀ x ∈ mid, x.opened = false) →
    (e.opened = false → e.time - f ≤ second) ∧ (e.opened = true → e.time - f > second) := by
  intro mid
  induction mid with
  | nil =>
    intro f c ts e post h _
    cases ts with
    | nil => simp [run1] at h
    | cons t ts =>
      simp only [run1, List.nil_append, List.cons.injEq] at h
      obtain ⟨he, _⟩ := h
      subst he
      unfold account
      by_cases hgt : t - f > second
      · simp [hgt]
      · simp [hgt]; omega
  | cons x mid ih =>
    intro f c ts e post h hno
    cases ts with
    | nil => simp [run1] at h
    | cons t ts =>
      simp only [run1, List.cons_append, List.cons.injEq] at h
      obtain ⟨hx, hrest⟩ := h
      have hxo : x.opened = false := hno x (by simp)
      have hacc : (account (some ⟨f, c⟩) t) = (⟨f, c + 1⟩, false) := by
        unfold account
        by_cases hgt : t - f > second
        · have : x.opened = true := by rw [← hx]; simp [account, hgt]
          simp [this] at hxo
        · simp [hgt]
      rw [hacc] at hrest
      exact ih f (c + 1) ts e post hrest (fun y hy => hno y (by simp [hy]))

/-- **window extent, single address**: `o` opens a window, `mid` stays in it; then the next request `e` is in the
window iff it arrives at most one second after `o` -/
theorem run1_span (limit a : Nat) (e0 : Option Entry) (ts : List Int) (pre mid post : List Ev) (o e : Ev)
    (h : run1 limit a e0 ts = pre ++ o :: (mid ++ e :: post)) (ho : o.opened = true)
    (hno : ∀ x ∈ mid, x.opened = false) :
    (e.opened = false → e.time - o.time ≤ second) ∧ (e.opened = true → e.time - o.time > second) := by
  obtain ⟨e', ts', h'⟩ := run1_suffix limit a pre e0 ts _ h
  cases ts' with
  | nil => simp [run1] at h'
  | cons t ts' =>
    simp only [run1, List.cons.injEq] at h'
    obtain ⟨hx, hrest⟩ := h'
    have hop : (account e' t).2 = true := by rw [← ho, hx]
    have hent := account_opened e' t hop
    have hot : o.time = t := by rw [hx]
    rw [hent] at hrest
    rw [hot]
    exact window_span limit a mid t 1 ts' e post hrest.symm hno

/-- a list either has no opening event or splits at its first one -/
theorem split_first_opened : ∀ (l : List Ev), (∀ x ∈ l, x.opened = false) ∨
    ∃ m1 o m2, l = m1 ++ o :: m2 ∧ (∀ x ∈ m1, x.opened = false) ∧ o.opened = true := by
  intro l
  induction l with
  | nil => left; simp
  | cons x l ih =>
    by_cases hx : x.opened = true
    · right; exact ⟨[], x, l, by simp, by simp, hx⟩
    · have hx' : x.opened = false := by simpa using hx
      cases ih with
      | inl h => left; intro y hy; cases List.mem_cons.mp hy with
        | inl e => rw [e]; exact hx'
        | inr m => exact h y m
      | inr h =>
        obtain ⟨m1, o, m2, hl, hm1, ho⟩ := h
        right
        refine ⟨x :: m1, o, m2, by simp [hl], ?_, ho⟩
        intro y hy; cases List.mem_cons.mp hy with
        | inl e => rw [e]; exact hx'
        | inr m => exact hm1 y m

/-- **any real second, single address**: a contiguous run of requests of one address whose time stamps lie within one
second of each other meets at most two windows, hence at most `2 * limit` of them are served -/
theorem run1_sliding (limit a : Nat) (e0 : Option Entry) (ts : List Int) (pre seg post : List Ev)
    (h : run1 limit a e0 ts = pre ++ seg ++ post)
    (hspan : ∀ x ∈ seg, ∀ y ∈ seg, y.time - x.time ≤ second) : servedCount seg ≤ 2 * limit := by
  cases seg with
  | nil => simp
  | cons x rest =>
    cases split_first_opened rest with
    | inl hno =>
      have := run1_window limit a e0 ts pre (x :: rest) post h (by simpa using hno)
      omega
    | inr hsp =>
      obtain ⟨m1, o, m2, hrest, hm1, ho⟩ := hsp
      subst hrest
      cases split_first_opened m2 with
      | inl hno2 =>
        have h1 := run1_window limit a e0 ts pre (x :: m1) (o :: m2 ++ post) (by simpa [List.append_assoc] using h)
          (by simpa using hm1)
        have h2 := run1_window limit a e0 ts (pre ++ x :: m1) (o :: m2) post (by simpa [List.append_assoc] using h)
          (by simpa using hno2)
        have : servedCount (x :: (m1 ++ o :: m2)) = servedCount (x :: m1) + servedCount (o :: m2) := by
          rw [← servedCount_append]; simp
        omega
      | inr hsp2 =>
        obtain ⟨m3, o', m4, hm2, hm3, ho'⟩ := hsp2
        subst hm2
        have hsp := run1_span limit a e0 ts (pre ++ x :: m1) m3 (m4 ++ post) o o'
          (by simpa [List.append_assoc] using h) ho hm3
        have hgt := hsp.2 ho'
        have hle := hspan o (by simp) o' (by simp)
        omega

/-- times of a single-address trace are the arrival times -/
theorem run1_times (limit a : Nat) : ∀ (ts : List Int) (e : Option Entry), (run1 limit a e ts).map (·.time) = ts := by
  intro ts
  induction ts with
  | nil => intro e; rfl
  | cons t ts ih => intro e; simp [run1, ih]

end Cfg.RL
