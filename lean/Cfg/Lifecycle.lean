/-!
# Run / Shutdown / signal handshake (`serveOpts.run` in cmd/olareg/serve.go, `Server.Run`, `Server.Shutdown` in olareg.go)

A small transition system with four actors; every step is one atomic action of the code.

* **M**, the main goroutine: `s.Run(ctx)` — `mu.Lock`; if `s.stopped` return nil (deferred `Unlock`) — else publish
  `s.httpServer`; `mu.Unlock`; `ListenAndServe` (returns
  `ErrServerClosed` at once if `http.Server.Shutdown` was already called, otherwise serves until it is called);
  `mu.Lock`; return (deferred `Unlock`); then `<-cleanShutdown`; then the process exits.
* **G**, the signal goroutine: `signal.Notify`; wait for the signal; `s.Shutdown(ctx)` — `mu.Lock`; if `s.httpServer == nil`
  set `s.stopped` and return "server is not running" (deferred `Unlock`); else `http.Server.Shutdown` (closes the listener, then waits until
  no handler is active — its context is only cancelled by G itself afterwards, so it waits without bound);
  `s.httpServer = nil`; close the store; `Unlock` — then `cancel()`, `close(cleanShutdown)`.
* **H**, one request (optional): arrives while the listener is open; with a rate limit it takes the limiter's mutex
  around the accounting; finishes.
* the environment delivers the termination signal once, at any time: before `signal.Notify` the default disposition
  kills the process, afterwards the signal is queued for G.

Parameters (facts about the tree under test, tied to the source text by `C19.lifecycle_shape`):
`sharedMu` — the limiter locks `Server.mu`, the mutex `Shutdown` holds across `http.Server.Shutdown`;
`limiterOn` — `conf.API.RateLimit > 0`; `handler` — a request arrives at all; `remembers` — `Shutdown` records in
`s.stopped` that it was called while no listener was published and `Run` honours it (the repair of F26a; `false` is
the handshake before that repair, kept to show what it did).

A state is a record of small numbers; it is *stored packed in one natural number* (field `f` occupies the digit
`(s / f.shift) % f.width`), because the kernel evaluates arithmetic on literals quickly and record updates slowly, and
the theorems below are checked by evaluating the whole reachable state space in the kernel.

Residue (not modelled): signal delivery and process exit themselves, the listener and `net/http` internals, a failing
`ListenAndServe` (port in use), more than one request, a second signal.
-/
namespace Cfg.LC

structure Params where
  sharedMu : Bool
  limiterOn : Bool
  handler : Bool
  remembers : Bool
  deriving DecidableEq, Repr

abbrev St := Nat

structure Field where
  shift : Nat
  width : Nat

def get (f : Field) (s : St) : Nat := (s / f.shift) % f.width
def set (f : Field) (v : Nat) (s : St) : St := s - get f s * f.shift + v * f.shift

def pcM : Field := ⟨1, 16⟩               -- program counter of M (0..8)
def pcG : Field := ⟨16, 16⟩              -- program counter of G (0..8)
def pcH : Field := ⟨256, 8⟩              -- program counter of H (0..4)
def mu : Field := ⟨2048, 4⟩              -- Server.mu: 0 free, 1 held by M, 2 by G, 3 by H
def closes : Field := ⟨8192, 4⟩          -- number of store.Close calls
def sig : Field := ⟨32768, 4⟩            -- 0 not sent, 1 queued for G, 2 consumed
def httpServer : Field := ⟨131072, 2⟩    -- s.httpServer != nil
def store : Field := ⟨262144, 2⟩         -- s.store != nil
def listening : Field := ⟨524288, 2⟩
def hsDown : Field := ⟨1048576, 2⟩       -- http.Server.Shutdown has been called
def notify : Field := ⟨2097152, 2⟩       -- signal.Notify is installed
def sigAfterPublish : Field := ⟨4194304, 2⟩   -- history: the signal arrived after Run had published s.httpServer
def cleanClosed : Field := ⟨8388608, 2⟩
def gErr : Field := ⟨16777216, 2⟩        -- Shutdown answered "server is not running"
def killed : Field := ⟨33554432, 2⟩      -- default disposition (signal before signal.Notify)
def exited : Field := ⟨67108864, 2⟩      -- serveOpts.run returned nil
def stopped : Field := ⟨134217728, 2⟩    -- s.stopped: Shutdown was called while no listener was published

/-- after `olareg.New`: everything zero except the open store -/
def init : St := set store 1 0

def stepM (s : St) : List St :=
  match get pcM s with
  | 0 => if get mu s = 0 then [s |> set mu 1 |> set pcM 1] else []
  | 1 => if get stopped s = 1 then [s |> set mu 0 |> set pcM 7]    -- Shutdown came first: return nil (deferred Unlock)
         else [s |> set httpServer 1 |> set pcM 2]        -- the nil check passes: Run is called once
  | 2 => [s |> set mu 0 |> set pcM 3]
  | 3 => if get hsDown s = 1 then [set pcM 5 s] else [s |> set listening 1 |> set pcM 4]
  | 4 => if get hsDown s = 1 then [set pcM 5 s] else []
  | 5 => if get mu s = 0 then [s |> set mu 1 |> set pcM 6] else []
  | 6 => [s |> set mu 0 |> set pcM 7]
  | 7 => if get cleanClosed s = 1 then [s |> set exited 1 |> set pcM 8] else []
  | _ => []

def handlerActive (s : St) : Bool := get pcH s = 1 || get pcH s = 2 || get pcH s = 3

def stepG (p : Params) (s : St) : List St :=
  match get pcG s with
  | 0 => [s |> set notify 1 |> set pcG 1]
  | 1 => if get sig s = 1 then [s |> set sig 2 |> set pcG 2] else []
  | 2 => if get mu s = 0 then [s |> set mu 2 |> set pcG 3] else []
  | 3 => if get httpServer s = 1 then [s |> set hsDown 1 |> set listening 0 |> set pcG 4]
         else [s |> set gErr 1 |> set stopped (if p.remembers then 1 else 0) |> set mu 0 |> set pcG 7]
  | 4 => if handlerActive s then [] else [set pcG 5 s]
  | 5 => [s |> set httpServer 0 |> set closes (get closes s + get store s) |> set store 0 |> set pcG 6]
  | 6 => [s |> set mu 0 |> set pcG 7]
  | 7 => [s |> set cleanClosed 1 |> set pcG 8]
  | _ => []

def stepH (p : Params) (s : St) : List St :=
  if !p.handler then [] else
  match get pcH s with
  | 0 => if get listening s = 1 then [set pcH 1 s] else []
  | 1 => if p.limiterOn && p.sharedMu then (if get mu s = 0 then [s |> set mu 3 |> set pcH 2] else [])
         else [set pcH 3 s]
  | 2 => [s |> set mu 0 |> set pcH 3]
  | 3 => [set pcH 4 s]
  | _ => []

def stepEnv (s : St) : List St :=
  if get sig s = 0 then
    (if get notify s = 1 then [s |> set sig 1 |> set sigAfterPublish (if 2 ≤ get pcM s then 1 else 0)]
     else [s |> set sig 1 |> set killed 1])
  else []

/-- all successors; a dead process (killed or exited) does nothing -/
def next (p : Params) (s : St) : List St :=
  if get killed s = 1 || get exited s = 1 then [] else stepM s ++ stepG p s ++ stepH p s ++ stepEnv s

inductive Reach (p : Params) : St → Prop
  | init : Reach p init
  | step {s t : St} : Reach p s → t ∈ next p s → Reach p t

/-- a run is over -/
def terminal (p : Params) (s : St) : Bool := (next p s).isEmpty

/-- the server stopped, the store was closed exactly once, `run` returned -/
def clean (s : St) : Bool :=
  get exited s = 1 && get killed s = 0 && get listening s = 0 && get httpServer s = 0 && get store s = 0 &&
    get closes s = 1 && get mu s = 0 && get gErr s = 0

/-- the signal came before `signal.Notify`: the process was killed by the default disposition, nothing was closed -/
def killedEarly (s : St) : Bool :=
  get killed s = 1 && get closes s = 0 && get notify s = 0 && get sigAfterPublish s = 0

/-- the signal came during start-up, before `Run` had published its listener: `Shutdown` answered "server is not
running" and left `s.stopped`, `Run` saw it and returned nil, `run` returned.  No listener was ever opened, no request
served; the store is still open (`Shutdown` closes it only after stopping a listener) and the mutex is free. -/
def stoppedBeforeStart (s : St) : Bool :=
  get exited s = 1 && get killed s = 0 && get gErr s = 1 && get stopped s = 1 && get listening s = 0 && get hsDown s = 0 &&
    get httpServer s = 0 && get pcH s = 0 && get store s = 1 && get closes s = 0 && get mu s = 0 && get sigAfterPublish s = 0

/-- F26a (the handshake before `s.stopped`): `Shutdown` found no server, the goroutine that listens for signals is gone, the server serves for ever -/
def stuckServing (s : St) : Bool :=
  get gErr s = 1 && get exited s = 0 && get listening s = 1 && get pcM s = 4 && get pcG s = 8 && get store s = 1 &&
    get closes s = 0 && get sig s = 2

/-- F26b: `Shutdown` holds `Server.mu` and waits for a handler that waits for `Server.mu` -/
def deadlocked (s : St) : Bool :=
  get pcG s = 4 && get pcH s = 1 && get mu s = 2 && get exited s = 0 && get store s = 1 && get closes s = 0

/-- breadth-first exploration; `seen` accumulates every state once (this only *proposes* a set; `closedSet` checks it) -/
def explore (p : Params) : Nat → List St → List St → List St
  | 0, _, seen => seen
  | _ + 1, [], seen => seen
  | fuel + 1, s :: front, seen =>
    let new := (next p s).foldl (fun acc t => if seen.contains t || acc.contains t then acc else acc ++ [t]) []
    explore p fuel (front ++ new) (seen ++ new)

def reachable (p : Params) : List St := explore p 4000 [init] [init]

/-- `l` contains `init` and is closed under `next` -/
def closedSet (p : Params) (l : List St) : Bool :=
  l.contains init && l.all fun s => (next p s).all fun t => l.contains t

theorem reach_mem (p : Params) (l : List St) (hc : closedSet p l = true) {s : St} (h : Reach p s) : s ∈ l := by
  simp only [closedSet, Bool.and_eq_true, List.all_eq_true] at hc
  induction h with
  | init => simpa using hc.1
  | step _ ht ih => simpa using hc.2 _ ih _ ht

def allParams : List Params :=
  [false, true].flatMap fun a => [false, true].flatMap fun b => [false, true].map fun c => ⟨a, b, c, true⟩

/-- every parameter set of the handshake with `s.stopped` -/
theorem mem_allParams (p : Params) (h : p.remembers = true) : p ∈ allParams := by
  cases p with
  | mk a b c d => cases a <;> cases b <;> cases c <;> cases d <;> first | decide | cases h

/-- the verdict on a terminal state: how a run may end -/
def verdict (p : Params) (s : St) : Bool :=
  clean s || killedEarly s || (stoppedBeforeStart s && p.remembers) ||
    (stuckServing s && !p.remembers && get sigAfterPublish s = 0) ||
    (deadlocked s && p.sharedMu && p.limiterOn && p.handler)

/-- executable classification of every terminal state in `l` -/
def classifiedOn (p : Params) (l : List St) : Bool :=
  l.all fun s => !terminal p s || verdict p s

/-- the proposed set is closed and all its terminal states are classified -/
def checked (p : Params) : Bool := closedSet p (reachable p) && classifiedOn p (reachable p)

/-! ### certificate

The three lists below are the output of `reachable` for `remembers = true` (`#eval reachable ⟨…, true⟩`, see notes/design-C19.md) pasted as literals,
so that the kernel does not have to run the exploration: they are only *proposals* — `certified` checks in the kernel
that each contains `init`, is closed under `next` and that every terminal state in it has a verdict. -/

def certNoHandler : List St := [
  262144, 264193, 2359312, 33849344, 395266, 2361361, 33851393, 2392080, 393219, 2492434,
  33982466, 2394129, 2424864, 917508, 2490387, 33980419, 6719506, 2525202, 2426913, 2428976,
  3014676, 34504708, 6717459, 6752290, 2523155, 2557986, 153419888, 7241748, 6750243, 3047444,
  2555939, 153421937, 161808512, 7274532, 6754355, 3080228, 2560051, 153419895, 161810561, 7278644,
  7802947, 3084340, 3608643, 161808519, 7802948, 7802949, 7802963, 3608644, 3608645, 3608659,
  228917384, 7802964, 7802965, 7417955, 3608660, 3608661, 3223651, 7417956, 7417957, 7413875,
  3223652, 3223653, 3219571, 7413876, 7413877, 15802499, 3219572, 3219573, 11608195, 15802500,
  7415926, 15802501, 11608196, 3221622, 11608197, 7413879, 15804550, 3219575, 11610246, 15802503,
  11608199, 82911368, 78717064]

def certPlain : List St := [
  262144, 264193, 2359312, 33849344, 395266, 2361361, 33851393, 2392080, 393219, 2492434,
  33982466, 2394129, 2424864, 917508, 2490387, 33980419, 6719506, 2525202, 2426913, 2428976,
  3014676, 917764, 34504708, 6717459, 6752290, 2523155, 2557986, 153419888, 3014932, 7241748,
  918276, 34504964, 6750243, 3047444, 2555939, 153421937, 161808512, 3015444, 7242004, 7274532,
  918532, 34505476, 6754355, 3080228, 3047700, 2560051, 153419895, 161810561, 3015700, 7242516,
  7274788, 7278644, 34505732, 7802947, 3084340, 3080484, 3048212, 3608643, 161808519, 7242772,
  7275300, 7278900, 7802948, 7802949, 7802963, 3608644, 3084596, 3080996, 3048468, 3608645,
  3608659, 228917384, 7275556, 7279412, 7803204, 7802964, 7802965, 7417955, 3608660, 3608900,
  3085108, 3081252, 3608661, 3223651, 7279668, 7803716, 7803205, 7417956, 7417957, 7413875,
  3223652, 3608901, 3609412, 3085364, 3223653, 3219571, 7803972, 7803717, 7413876, 7413877,
  15802499, 3219572, 3609413, 3609668, 3219573, 11608195, 7803973, 7803988, 15802500, 7415926,
  15802501, 11608196, 3609669, 3609684, 3221622, 11608197, 7803989, 7418980, 7413879, 15804550,
  3609685, 3224676, 3219575, 11610246, 7418981, 7414900, 15802503, 3224677, 3220596, 11608199,
  7414901, 15803524, 82911368, 3220597, 11609220, 78717064, 7416950, 15803525, 3222646, 11609221,
  7414903, 15805574, 3220599, 11611270, 15803527, 11609223, 82912392, 78718088]

def certShared : List St := [
  262144, 264193, 2359312, 33849344, 395266, 2361361, 33851393, 2392080, 393219, 2492434,
  33982466, 2394129, 2424864, 917508, 2490387, 33980419, 6719506, 2525202, 2426913, 2428976,
  3014676, 917764, 34504708, 6717459, 6752290, 2523155, 2557986, 153419888, 3014932, 7241748,
  924164, 34504964, 6750243, 3047444, 2555939, 153421937, 161808512, 3021332, 7242004, 7274532,
  918276, 34511364, 6754355, 3080228, 3047700, 2560051, 153419895, 161810561, 3015444, 7248404,
  7274788, 7278644, 918532, 34505476, 7802947, 3084340, 3080484, 3054100, 3608643, 161808519,
  3015700, 7242516, 7281188, 7278900, 7802948, 34505732, 7802949, 7802963, 3608644, 3084596,
  3086884, 3048212, 3608645, 3608659, 228917384, 7242772, 7275300, 7803204, 7802964, 7802965,
  7417955, 3608660, 3608900, 3080996, 3048468, 3608661, 3223651, 7275556, 7279412, 7803205,
  7417956, 7417957, 7413875, 3223652, 3608901, 3085108, 3081252, 3223653, 3219571, 7279668,
  7803716, 7413876, 7413877, 15802499, 3219572, 3609412, 3085364, 3219573, 11608195, 7803972,
  7803717, 15802500, 7415926, 15802501, 11608196, 3609413, 3609668, 3221622, 11608197, 7803973,
  7803988, 7413879, 15804550, 3609669, 3609684, 3219575, 11610246, 7803989, 7418980, 15802503,
  3609685, 3224676, 11608199, 7418981, 7414900, 82911368, 3224677, 3220596, 78717064, 7414901,
  15803524, 3220597, 11609220, 7416950, 15803525, 3222646, 11609221, 7414903, 15805574, 3220599,
  11611270, 15803527, 11609223, 82912392, 78718088]

def certificate (p : Params) : List St :=
  if !p.handler then certNoHandler else if p.limiterOn && p.sharedMu then certShared else certPlain

/-- for the handshake with `s.stopped` (`p.remembers`) -/
def certified (p : Params) : Bool := closedSet p (certificate p) && classifiedOn p (certificate p)

/-- follow a schedule: the k-th entry picks the k-th successor -/
def exec (p : Params) : St → List Nat → Option St
  | s, [] => some s
  | s, k :: ks => match (next p s)[k]? with
    | some t => exec p t ks
    | none => none

theorem exec_reach (p : Params) : ∀ (ks : List Nat) (s t : St), Reach p s → exec p s ks = some t → Reach p t := by
  intro ks
  induction ks with
  | nil => intro s t hs h; simp [exec] at h; exact h ▸ hs
  | cons k ks ih =>
    intro s t hs h
    simp only [exec] at h
    cases hk : (next p s)[k]? with
    | none => simp [hk] at h
    | some u =>
      simp only [hk] at h
      exact ih u t (Reach.step hs (List.mem_of_getElem? hk)) h

/-- readable form of a state -/
structure View where
  pcM : Nat
  pcG : Nat
  pcH : Nat
  mu : Nat
  httpServer : Bool
  store : Bool
  closes : Nat
  listening : Bool
  hsDown : Bool
  sig : Nat
  gErr : Bool
  killed : Bool
  exited : Bool
  deriving Repr, DecidableEq

def view (s : St) : View :=
  { pcM := get pcM s, pcG := get pcG s, pcH := get pcH s, mu := get mu s, httpServer := get httpServer s = 1,
    store := get store s = 1, closes := get closes s, listening := get listening s = 1, hsDown := get hsDown s = 1,
    sig := get sig s, gErr := get gErr s = 1, killed := get killed s = 1, exited := get exited s = 1 }

end Cfg.LC
