import Generated.Routes
/-!
# The method/path router of `Server.ServeHTTP`, as an *interpreter* of the regenerated route table

`Generated.routes` is the `if … else if …` chain of `ServeHTTP` (olareg.go) as data.  `route` evaluates it the way Go
evaluates the chain: the first branch whose `matchV2` pattern matches and whose further conjuncts hold is taken and is
never left again; inside it the first arm whose guard holds answers.  Nothing in this file mentions a concrete route.

Not modelled here: the repository-name regular expression inside `matchV2` (C16) — the path classes used below all
carry valid names — and what the handlers do once reached (the other properties).
-/
namespace Cfg
open Generated

/-- the four switches that appear in the routing conditions -/
structure Switches where
  push : Bool
  del : Bool
  blobDel : Bool
  ref : Bool
  deriving DecidableEq, Repr

/-- value of the switch `*s.conf.<name>`; `none` for a name the model does not know -/
def Switches.get (s : Switches) (name : String) : Option Bool :=
  if name = "API.PushEnabled" then some s.push
  else if name = "API.DeleteEnabled" then some s.del
  else if name = "API.Blob.DeleteEnabled" then some s.blobDel
  else if name = "API.Referrer.Enabled" then some s.ref
  else none

/-- `matchV2` after the leading `v2`: a literal or `*` parameter consumes one element, `...` consumes everything but
one element per remaining parameter (at least one element).  A match is the list of captured values, the repository
as its list of segments. -/
def matchParams : List String → List String → Option (List (List String))
  | [], [] => some []
  | _ :: _, [] => none
  | rest, p :: ps =>
    if p = "..." then
      if rest.length < ps.length + 1 then none
      else
        let k := rest.length - ps.length
        (matchParams (rest.drop k) ps).map (rest.take k :: ·)
    else match rest with
      | [] => none
      | e :: rest' =>
        if p = "*" then (matchParams rest' ps).map ([e] :: ·)
        else if e = p then matchParams rest' ps
        else none

def matchV2 (pathEl : List String) (params : List String) : Option (List (List String)) :=
  match pathEl with
  | [] => none
  | e :: rest => if e = "v2" then matchParams rest params else none

/-- what the router does with a request -/
inductive Outcome where
  | handler (call : String)      -- the request is handed to this handler
  | status (name : String)       -- answered directly with `http.Status<name>`
  | noAnswer                     -- the chain is left without writing anything (implicit 200)
  | unknown (why : String)       -- the table contains something the model does not understand
  deriving DecidableEq, Repr

def methodOk (ms : List String) (m : String) : Bool := ms.isEmpty || ms.contains m

/-- conjunction of the named switches; `none` if one of the names is unknown -/
def switchesOk (sw : Switches) : List String → Option Bool
  | [] => some true
  | n :: ns => match sw.get n, switchesOk sw ns with
    | some a, some b => some (a && b)
    | _, _ => none

def extraOk (ms : List (List String)) (cs : List Cond) : Bool :=
  cs.all fun c => ms[c.idx]? == some [c.lit]

def armOutcome (a : Arm) : Outcome :=
  if a.kind = "handler" then .handler a.target
  else if a.kind = "status" then .status a.target
  else .unknown a.target

/-- the arm chosen inside a branch -/
def selectArm (sw : Switches) (m : String) (ms : List (List String)) : List Arm → Option (Except String Arm)
  | [] => none
  | a :: as =>
    if a.kind ≠ "handler" ∧ a.kind ≠ "status" then some (.error a.target)
    else match switchesOk sw a.switches with
      | none => some (.error "unknown switch")
      | some s => if methodOk a.methods m && s && extraOk ms a.extra then some (.ok a) else selectArm sw m ms as

/-- the (branch, arm) the chain selects -/
def select (sw : Switches) (m : String) (pathEl : List String) : List Branch → Option (Except String (Branch × Arm))
  | [] => none
  | b :: bs =>
    let mt := if b.pattern = ["<else>"] then some [] else matchV2 pathEl b.pattern
    match mt with
    | none => select sw m pathEl bs
    | some ms =>
      match switchesOk sw b.switches with
      | none => some (.error "unknown switch")
      | some s =>
        if methodOk b.methods m && s then
          match selectArm sw m ms b.arms with
          | none => some (.error "no answer")      -- branch taken, no arm answers: nothing is written
          | some (.error e) => some (.error e)
          | some (.ok a) => some (.ok (b, a))
        else select sw m pathEl bs

def routeIn (tbl : List Branch) (sw : Switches) (m : String) (pathEl : List String) : Outcome :=
  match select sw m pathEl tbl with
  | none => .noAnswer
  | some (.error e) => if e = "no answer" then .noAnswer else .unknown e
  | some (.ok (_, a)) => armOutcome a

/-- the router of the tree under test -/
def route (sw : Switches) (m : String) (pathEl : List String) : Outcome := routeIn routes sw m pathEl

/-- is the selected (branch, arm) guarded by the switch `name`? -/
def guardedBy (name : String) (tbl : List Branch) (sw : Switches) (m : String) (pathEl : List String) : Bool :=
  match select sw m pathEl tbl with
  | some (.ok (b, a)) => b.switches.contains name || a.switches.contains name
  | _ => false

def statusCode (name : String) : Option Nat :=
  if name = "MethodNotAllowed" then some 405
  else if name = "NotFound" then some 404
  else if name = "TooManyRequests" then some 429
  else if name = "InternalServerError" then some 500
  else none

/-- the outcome is a direct 4xx answer -/
def Outcome.refused : Outcome → Bool
  | .status n => match statusCode n with
    | some c => decide (400 ≤ c ∧ c < 500)
    | none => false
  | _ => false

def Outcome.isHandler : Outcome → Bool
  | .handler _ => true
  | _ => false

/-- methods distinguished by the table, plus one that is not mentioned anywhere -/
def methods : List String := ["Get", "Head", "Put", "Post", "Patch", "Delete", "Options"]

/-- one representative request path per class of paths the chain distinguishes (already split at `/`) -/
def pathClasses : List (List String) := [
  ["v2"],
  ["v2", "r", "manifests", "t"],
  ["v2", "a", "b", "manifests", "t"],
  ["v2", "r", "blobs", "d"],
  ["v2", "r", "blobs", "uploads"],
  ["v2", "r", "referrers", "d"],
  ["v2", "r", "tags", "list"],
  ["v2", "r", "blobs", "uploads", "s"],
  ["v2", "a", "b", "blobs", "uploads", "s"],
  ["v2", "r", "tags", "other"],
  ["v2", "r"],
  ["v1"],
  [""]]

def allSwitches : List Switches :=
  [false, true].flatMap fun p => [false, true].flatMap fun d => [false, true].flatMap fun b => [false, true].map fun r =>
    { push := p, del := d, blobDel := b, ref := r }

theorem mem_allSwitches (sw : Switches) : sw ∈ allSwitches := by
  cases sw with
  | mk p d b r => cases p <;> cases d <;> cases b <;> cases r <;> decide

def Switches.set (sw : Switches) (name : String) (v : Bool) : Switches :=
  if name = "API.PushEnabled" then { sw with push := v }
  else if name = "API.DeleteEnabled" then { sw with del := v }
  else if name = "API.Blob.DeleteEnabled" then { sw with blobDel := v }
  else if name = "API.Referrer.Enabled" then { sw with ref := v }
  else sw

def switchNames : List String := ["API.PushEnabled", "API.DeleteEnabled", "API.Blob.DeleteEnabled", "API.Referrer.Enabled"]

/-- executable form of the switch-effect statement for one table (used by `decide` in Properties/C19 and by the
check's mutation self-test): for every combination, method, path class and switch `x`
* the outcome never is `unknown`/`noAnswer`;
* the outcomes with `x` on and off differ **iff** the arm selected with `x` on is guarded by `x`;
* when they differ, the outcome with `x` off is a direct 4xx answer. -/
def switchEffectHolds (tbl : List Branch) : Bool :=
  allSwitches.all fun sw => methods.all fun m => pathClasses.all fun p => switchNames.all fun x =>
    let on := routeIn tbl (sw.set x true) m p
    let off := routeIn tbl (sw.set x false) m p
    let g := guardedBy x tbl (sw.set x true) m p
    (on.isHandler || on.refused) && (off.isHandler || off.refused) &&
      (decide (on ≠ off) == g) && (!g || off.refused)

end Cfg
