"""C11: concurrent requests never lose or tear updates (forced schedules at store-action granularity)."""
import hashlib
import json
import os
import re
import shutil

from . import core
from .common import Built, T
from .inpkg import Profile, check_profile, check_corpus, known_from_file, mon_parse

W = os.path.join(core.WORK, "conc")
_tag = re.sub(r"[^A-Za-z0-9]", "_", core.REPO)


def sched_overlay():
    """the scheduler hook as <REPO>/verif_sched.go, and the sync.Mutex fields of package olareg rewritten to VerifMutex
    (same lines, so positions in messages stay those of the tree under test); nothing is written to the tree"""
    d = os.path.join(W, "overlay_%s_%d" % (_tag, os.getpid()))
    shutil.rmtree(d, ignore_errors=True)
    os.makedirs(d)
    repl = {os.path.join(core.REPO, "verif_sched.go"): T("overlay", "sched", "verif_sched.go")}
    for fn in sorted(os.listdir(core.REPO)):
        if not fn.endswith(".go") or fn.endswith("_test.go"):
            continue
        src = open(os.path.join(core.REPO, fn), encoding="utf-8").read()
        if "sync.Mutex" not in src and "sync.RWMutex" not in src:
            continue
        out = src.replace("sync.RWMutex", "VerifRWMutex").replace("sync.Mutex", "VerifMutex")
        if re.search(r"\bsync\.", out) is None:
            out += "\nvar _ sync.Locker = (*VerifMutex)(nil) // keeps the import used under the overlay\n"
        dst = os.path.join(d, fn)
        with open(dst, "w", encoding="utf-8") as f:
            f.write(out)
        repl[os.path.join(core.REPO, fn)] = dst
    return repl


def sched_binary(o, race=False):
    key = ("b", "reg_sched", race)
    if key not in Built.cache:
        # the tree under test and the process are part of the name: go_build removes and rewrites its output, so runs at the same
        # time (other trees via VERIF_REPO, or the same tree) must not share a binary; check_C11 removes it at the end
        Built.cache[key] = core.go_build("reg", tags="verif,sched", race=race, overlay=sched_overlay(),
                                         out_name="reg_sched_%s_%d" % (hashlib.sha256(core.REPO.encode()).hexdigest()[:8], os.getpid()))
    b, out = Built.cache[key]
    if b is None and o is not None:
        o.violation("harness reg (sched) does not build against the tree under test: %s" % out[-1500:],
                    {"kind": "build", "output": out[-4000:]}, no_input=True)
    return b


def _run_bin(b, env, timeout=3000):
    e = dict(core.GOENV)
    e.update({k: str(v) for k, v in env.items()})
    work = os.path.join(W, "work")
    os.makedirs(work, exist_ok=True)
    e["VERIF_WORK"] = work
    p = core.sh([b], env=e, check=False, timeout=timeout)
    return p.returncode == 0, p.stdout


PUT_RW = "RepoGet,BlobGet,BlobCreate,Lock,IndexInsert,IndexGet,BlobCreate,IndexInsert"
DEL_RW = "RepoGet,Lock,IndexGet,BlobGet,IndexGet,BlobGet,BlobCreate,IndexInsert,IndexRemove"


def lock_discipline(b):
    """which handler-level lock discipline does the tree under test have?  The harness runs an artifact push and a
    delete by digest alone and prints their store-action traces: no Lock -> 'none' (the model of the tree before the
    repair, on which the lost update is a theorem); Lock where Server.indexMu is taken -> 'rw' (the model the
    linearizability theorems are about).  Anything else is reported: the model does not know it."""
    d = os.path.join(W, "probe_%d" % os.getpid())
    os.makedirs(d, exist_ok=True)
    ok, out = _run_bin(b, {"VERIF_MODE": "conc", "VERIF_CONC": "probe", "VERIF_OPS": os.path.join(d, "ops"),
                           "VERIF_IMPL": os.path.join(d, "impl"), "VERIF_MON": os.path.join(d, "mon")})
    line = (core.read_lines(os.path.join(d, "impl")) or [""])[-1]
    shutil.rmtree(d, ignore_errors=True)
    m = re.search(r"T1:([A-Za-z,]*);([A-Za-z,]*);", line)
    if not ok or not m:
        return None, line or out[-400:]
    put, dele = m.group(1), m.group(2)
    if "Lock" not in put and "Lock" not in dele:
        return "none", line
    if put == PUT_RW and dele == DEL_RW:
        return "rw", line
    return "other", line


def conc_profile(o, race=False, monitors_only=False):
    """monitors_only: nothing of the model's output is compared (view = None everywhere): the statement monitors on the
    implementation - which judge the real server by sequential runs of the real server, not by the model - decide alone.
    Used when the tree takes its handler-level lock where the model does not know it, or a trace disagrees."""
    b = sched_binary(o, race)
    if b is None or not Built.driver(o, "concdriver"):
        return None
    key = ("disc", race)
    if key not in Built.cache:
        Built.cache[key] = lock_discipline(b)
    disc, probe = Built.cache[key]
    if disc is None:
        o.violation("the scheduler probe failed: %s" % probe, {"kind": "machinery", "output": probe}, no_input=True)
        return None
    o.notes["lock_discipline"] = {"detected": disc, "probe": probe}
    if disc == "other" and not Built.cache.get(("disc_reported", race)):
        Built.cache[("disc_reported", race)] = True
        o.violation("the tree under test takes a handler-level lock in a place the model does not know: %s" % probe,
                    {"kind": "obligation", "detail": "lock discipline of the tree is neither none nor rw (Conc.Disc)", "probe": probe}, no_input=True)
    if disc == "other":
        disc = "rw"

    def run(env):
        env = dict(env)
        if env.get("VERIF_MODE") == "replay":
            env["VERIF_MODE"] = "concreplay"
        ok, out = _run_bin(b, env)
        if env.get("VERIF_MODE") == "conc":
            conc_profile.last_output = out   # the generator's statistics (replays during shrinking do not overwrite them)
        return ok, out
    if monitors_only:
        return Profile("sched", run, "concdriver", driver_args=(disc,), view=lambda op, ans: None)
    return Profile("sched", run, "concdriver", driver_args=(disc,))


conc_profile.last_output = ""


class C11Monitors:
    def __contains__(self, name):
        return name.startswith("C11.")


def keep_line(l):
    return l.startswith("NEW") or l.startswith("DEF")


def nontrivial(op, ans):
    k = op.split(" ", 1)[0]
    return k not in ("NEW", "DEF", "PAR") and ans != "queued"


def _stats(out):
    m = re.search(r"CONCSTATS (\{.*\})", out or "")
    return json.loads(m.group(1)) if m else {}


RULE = ("concurrent histories: a sequential setup, then 2-4 threads of requests (manifest pushes by tag and digest, tag moves, deletes by tag and "
        "digest, artifacts with a shared subject pushed and deleted, tag listings, manifest and referrers GETs, blob upload and delete, collection) "
        "run on the real Server.ServeHTTP with every store action (RepoGet, IndexGet, IndexInsert, IndexRemove, BlobGet, BlobCreate, BlobDelete, "
        "taking Server.indexMu) gated by a controller that lets exactly one request goroutine advance per schedule entry; for the curated cases "
        "ALL schedules are enumerated (depth-first over the enabled sets, up to a bound per case), random cases get random schedules; the same "
        "schedule is executed by Conc.exec (lean/Conc, driver concdriver); compared line by line: the executed schedule and the store-action "
        "trace of every request, every answer, the quiescent observation (tags, every tag and manifest, referrers of every subject), and the set "
        "of sequential orders consistent with the real-time order that explain answers and observation (implementation: the requests re-run one at "
        "a time on a fresh server; model: Upd.step).  Statement monitors on the implementation: C11.not-linearizable (no order), C11.torn-read, "
        "C11.lost-referrer, C11.lost-tag, C11.tag-never-pushed, C11.lost-manifest, C11.deadlock.  Then free-running stress (real goroutines, no "
        "parking) with the same monitors at quiescence. distinct_nontrivial = distinct (line, answer) pairs; a history = one case under one schedule")


def forced(o, prof, store, profile, n, cap, label):
    params = {"VERIF_SEED": o.seed, "VERIF_N": n, "VERIF_PROFILE": profile, "VERIF_STORE": store, "VERIF_CAP": cap}
    res = check_profile(o, prof, "conc", params, label, C11Monitors(), nontrivial=nontrivial, keep=keep_line)
    st = _stats(conc_profile.last_output)
    o.notes.setdefault("schedules", {})[label] = st
    tot = o.notes.setdefault("totals", {"cases": 0, "histories": 0, "exhaustive_cases": 0, "capped_cases": 0, "not_linearizable": 0,
                                        "lin_sequential_runs": 0})
    for k in tot:
        tot[k] += st.get(k, 0)
    return res


def stress(o, race, store, rounds, label, profile=""):
    b = sched_binary(o, race)
    if b is None:
        return
    d = os.path.join(W, "stress_%s_%d" % (label, os.getpid()))
    os.makedirs(d, exist_ok=True)
    env = {"VERIF_MODE": "conc", "VERIF_CONC": "stress", "VERIF_SEED": o.seed, "VERIF_N": rounds, "VERIF_STORE": store, "VERIF_PROFILE": profile,
           "VERIF_OPS": os.path.join(d, "ops"), "VERIF_IMPL": os.path.join(d, "impl"), "VERIF_MON": os.path.join(d, "mon")}
    ok, out = _run_bin(b, env)
    st = _stats(out)
    mon = mon_parse(core.read_lines(os.path.join(d, "mon"))) if os.path.exists(os.path.join(d, "mon")) else []
    shutil.rmtree(d, ignore_errors=True)
    o.notes.setdefault("stress", {})[label] = st
    o.cov["evaluations"] += st.get("rounds", 0)
    races = "DATA RACE" in out
    if not ok or races:
        at = out.find("WARNING: DATA RACE") if races else -1
        o.violation("free-running stress (%s) failed%s: %s" % (label, " with a data race report" if races else "",
                                                                 out[at:at + 1800] if at >= 0 else out[-1500:]),
                    {"kind": "stress", "label": label, "output": out[-6000:]}, no_input=not races)
        return
    hits = [m for m in mon if m[1].startswith("C11.")]
    if hits:
        names = sorted(set(m[1] for m in hits))
        cases = re.findall(r"STRESSCASE (.*)", out)
        o.violation("free-running stress (%s, %d rounds): %s; first: %s" % (label, st.get("rounds", 0), ", ".join(names), hits[0][2][:300]),
                    {"kind": "stress", "label": label, "monitors": ["MON %d %s %s" % m for m in hits[:10]], "cases": cases[:3], "env": {k: str(v) for k, v in env.items()},
                     "note": "not deterministic: re-run the harness with this environment; the forced-schedule part gives the deterministic replay"})


def first_touch(o, repos, label):
    """free-running first-touch stress on the directory store (harness/cmd/reg/conc_first.go): below the granularity of the
    model (a check-then-act inside one store action, dir.RepoGet); judged at quiescence only: every tag acknowledged with
    201 is listed and resolves, now and after a restart"""
    b = sched_binary(o, False)
    if b is None:
        return
    d = os.path.join(W, "first_%s_%d" % (label, os.getpid()))
    os.makedirs(d, exist_ok=True)
    env = {"VERIF_MODE": "conc", "VERIF_CONC": "firsttouch", "VERIF_SEED": o.seed, "VERIF_N": repos,
           "VERIF_OPS": os.path.join(d, "ops"), "VERIF_IMPL": os.path.join(d, "impl"), "VERIF_MON": os.path.join(d, "mon")}
    ok, out = _run_bin(b, env)
    st = _stats(out)
    mon = mon_parse(core.read_lines(os.path.join(d, "mon"))) if os.path.exists(os.path.join(d, "mon")) else []
    shutil.rmtree(d, ignore_errors=True)
    o.notes.setdefault("stress", {})[label] = st
    o.cov["evaluations"] += st.get("tags_acknowledged", 0)
    if not ok or not st:
        o.violation("first-touch stress (%s) failed: %s" % (label, out[-1500:]), {"kind": "stress", "label": label, "output": out[-6000:]}, no_input=True)
        return
    hits = [m for m in mon if m[1].startswith("C11.")]
    if hits:
        o.violation("first-touch stress (%s; %d repositories, %d clients each, directory store): %s in %d repositories; first: %s"
                    % (label, st.get("repositories", 0), st.get("clients_per_repository", 0), ", ".join(sorted(set(m[1] for m in hits))),
                       st.get("repositories_with_lost_tags", 0), hits[0][2][:500]),
                    {"kind": "stress", "label": label, "monitors": ["MON %d %s %s" % m for m in hits[:10]], "stats": st,
                     "env": {k: str(v) for k, v in env.items()},
                     "note": "a free-running workload (real goroutines released together, no forced schedule): not deterministic in which "
                             "repositories lose tags; what is judged is deterministic (acknowledged tags at quiescence). Re-run: "
                             "VERIF_MODE=conc VERIF_CONC=firsttouch VERIF_N=%d <.work/bin/reg_sched> with VERIF_OPS/IMPL/MON set, or bin/check C11 quick" % repos})


def check_C11(o, tier):
    try:
        _check_C11(o, tier)
    finally:
        for key, val in list(Built.cache.items()):
            if key[:2] == ("b", "reg_sched") and val[0] and os.path.exists(val[0]):
                os.remove(val[0])
                del Built.cache[key]
        shutil.rmtree(os.path.join(W, "overlay_%s_%d" % (_tag, os.getpid())), ignore_errors=True)


def _check_C11(o, tier):
    o.add_audit(core.audit("C11", tier == "thorough"))
    o.cov["rule"] = RULE
    prof = conc_profile(o)
    if prof is None:
        return
    thorough = tier == "thorough"
    unknown_lock = o.notes.get("lock_discipline", {}).get("detected") == "other"
    mismatch = unknown_lock
    if not unknown_lock:
        n0 = len(o.violations)
        check_corpus(o, prof, "C11", C11Monitors())
        mismatch = any("disagree" in v[0] for v in o.violations[n0:])
        # all schedules of the curated cases (bounded per case), both stores; random cases, random schedules
        for store, profile, n, cap, label in (("mem", "curated", 0, 4000 if thorough else 300, "sched-curated-mem"),
                                              ("dir", "curated", 0, 400 if thorough else 20, "sched-curated-dir"),
                                              ("mem", "random", 12000 if thorough else 2500, 60, "sched-random-mem"),
                                              ("dir", "random", 1500 if thorough else 200, 60, "sched-random-dir")):
            res = forced(o, prof, store, profile, n, cap, label)
            mismatch = mismatch or res["diffs"] > 0
    prof.cleanup()
    if mismatch:
        # the model does not describe this tree (lock taken elsewhere, or a store-action trace differs): that alarm has no
        # failing input.  The monitors do not depend on the model: enumerate on the implementation alone and report the
        # schedules whose outcome no sequential order of the real server explains, each with its (shrunk) replay
        mp = conc_profile(o, monitors_only=True)
        if mp is not None:
            if unknown_lock:
                check_corpus(o, mp, "C11", C11Monitors())
            forced(o, mp, "mem", "curated", 0, 4000 if thorough else 800, "sched-monitors-curated-mem")
            if unknown_lock:
                forced(o, mp, "dir", "curated", 0, 400 if thorough else 20, "sched-monitors-curated-dir")
                forced(o, mp, "mem", "random", 12000 if thorough else 2000, 60, "sched-monitors-random-mem")
            mp.cleanup()
    # free running
    stress(o, False, "mem", 3000 if thorough else 150, "stress-mem")
    stress(o, False, "dir", 300 if thorough else 25, "stress-dir")
    # first touch of a repository by several clients at once, fresh and after a restart (directory store)
    first_touch(o, 400 if thorough else 150, "stress-first-touch-dir")
    # under the race detector: tag moves on one digest against reads of the tag and the listing (what a handler does with
    # the index between two store actions is below the granularity of the model; C13 owns it, this is a cheap tripwire)
    stress(o, True, "mem", 1500 if thorough else 250, "stress-tagmoves-race", profile="tagrace")
    stress(o, True, "mem", 1500 if thorough else 250, "stress-childrecords-race", profile="childrace")
    if thorough:
        stress(o, True, "mem", 1500, "stress-mem-race")
        stress(o, True, "dir", 150, "stress-dir-race")
        rp = conc_profile(o, race=True)
        if rp is not None:
            forced(o, rp, "mem", "curated", 0, 150, "sched-curated-mem-race")
            rp.cleanup()
    t = o.notes.get("totals", {})
    o.notes["summary"] = ("%d cases, %d forced schedules (= distinct interleavings), %d cases enumerated completely, %d capped; "
                          "%d not explained by any sequential order" % (t.get("cases", 0), t.get("histories", 0), t.get("exhaustive_cases", 0),
                                                                      t.get("capped_cases", 0), t.get("not_linearizable", 0)))


CHECKS = {"C11": check_C11}
PROFILES = {"sched": conc_profile}
