"""C11: concurrent requests never lose or tear updates (forced schedules at store-action granularity)."""
import json
import os
import re
import shutil

from . import core
from .common import Built, T
from .inpkg import Profile, check_profile, check_corpus, known_from_file, mon_parse

W = os.path.join(core.WORK, "conc")
_tag = re.sub(r"[^A-Za-z0-9]", "_", core.REPO)


def sched_overlay():
    """the scheduler hook as <REPO>/verif_sched.go, and the sync.Mutex fields of package olareg rewritten to VerifMutex
    (same lines, so positions in messages stay those of the tree under test); nothing is written to the tree"""
    d = os.path.join(W, "overlay_%s" % _tag)
    shutil.rmtree(d, ignore_errors=True)
    os.makedirs(d)
    repl = {os.path.join(core.REPO, "verif_sched.go"): T("overlay", "sched", "verif_sched.go")}
    for fn in sorted(os.listdir(core.REPO)):
        if not fn.endswith(".go") or fn.endswith("_test.go"):
            continue
        src = open(os.path.join(core.REPO, fn), encoding="utf-8").read()
        if "sync.Mutex" not in src and "sync.RWMutex" not in src:
            continue
        out = src.replace("sync.RWMutex", "VerifRWMutex").replace("sync.Mutex", "VerifMutex")
        if re.search(r"\bsync\.", out) is None:
            out += "\nvar _ sync.Locker = (*VerifMutex)(nil) // keeps the import used under the overlay\n"
        dst = os.path.join(d, fn)
        with open(dst, "w", encoding="utf-8") as f:
            f.write(out)
        repl[os.path.join(core.REPO, fn)] = dst
    return repl


def sched_binary(o, race=False):
    key = ("b", "reg_sched", race)
    if key not in Built.cache:
        Built.cache[key] = core.go_build("reg", tags="verif,sched", race=race, overlay=sched_overlay(), out_name="reg_sched")
    b, out = Built.cache[key]
    if b is None and o is not None:
        o.violation("harness reg (sched) does not build against the tree under test: %s" % out[-1500:],
                    {"kind": "build", "output": out[-4000:]}, no_input=True)
    return b
