"""C20: internal/cache against the Ccd model (sequential requests and the unlock window of Delete/DeleteAll)."""
from . import core
from .common import Built, T
from .inpkg import Profile, check_profile


def cache_profile(o, asis=False):
    b = Built.test_binary(o, "internal/cache", [T("inpkg", "cache", "cache_harness_test.go")], "cache_harness")
    if b is None or not Built.driver(o, "cachedriver"):
        return None
    return Profile("cacheasis" if asis else "cache", lambda env: core.go_test_run(b, "^TestVerifCache$", env), "cachedriver",
                   driver_args=("asis",) if asis else ())


# the monitors that decide C20 (mincount-float is a validation of the model's arithmetic convention and is
# reported as an obligation, not as a verdict on the property)
C20_MONITORS = {"removed-without-cleanup", "failed-cleanup-removed", "expired-early", "not-lru-first", "not-pruned-to-limit",
                # a hit that is found leaves the stamp that expiry and eviction go by where it was: the use does not count
                "use-not-recorded"}


def _nontrivial(req, ans):
    """a request/answer pair counts when a callback ran, an entry went away or a window was open"""
    return "calls=[]" not in ans or "pend=[]" not in ans or req.split(" ", 1)[0] in ("AGE", "COUNT", "DEL", "DELALL")


def check_C20(o, tier):
    o.add_audit(core.audit("C20", tier == "thorough"))
    prof = cache_profile(o)
    if prof is None:
        return
    quick = tier == "quick"
    o.cov["rule"] = (
        "cache profile: the real internal/cache.Cache driven in-package (Set/Get/Delete/DeleteAll/List/IsEmpty, pruneAge and "
        "pruneCount called directly, the goroutine started by Set awaited) with scripted cleanup outcomes per request and key, "
        "Count in {0,1,2,3,4,10,11,20}, Age in {0,1,2,3,5} ticks, logical time written into and decoded from the implementation's "
        "own `used` stamps; every answer (entries with value and last use, callback invocations with outcome, error, pending "
        "callbacks) is compared with the Lean model's.  Streams: random sequential histories; random histories with requests "
        "landing in the unlock window of Delete/DeleteAll (blocking callbacks on separate goroutines); every sequence up to the "
        "stated depth over a 13-letter sequential and a 13-letter window alphabet.  distinct_nontrivial counts distinct "
        "(request, answer) pairs in which a callback ran, an entry was removed or a window was open.")
    mc = 1000000 if quick else 10000000
    runs = [
        ("cache-random", "gen", {"VERIF_SEED": o.seed, "VERIF_N": 6000 if quick else 150000, "VERIF_MINCOUNT": mc,
                                 "VERIF_TIMER": "20,35" if quick else "20,35,50,80,120"}),
        ("cache-window", "win", {"VERIF_SEED": o.seed, "VERIF_N": 6000 if quick else 150000}),
        ("cache-enum", "enum", {"VERIF_DEPTH": 4 if quick else 5, "VERIF_ALPHABET": "seq"}),
        ("cache-enum-window", "enum", {"VERIF_DEPTH": 4 if quick else 5, "VERIF_ALPHABET": "window"}),
        ("cache-enum-windowall", "enum", {"VERIF_DEPTH": 5 if quick else 6, "VERIF_ALPHABET": "windowall"}),
    ]
    for label, mode, params in runs:
        check_profile(o, prof, mode, params, label, C20_MONITORS, nontrivial=_nontrivial,
                      keep=lambda l: l.startswith("NEW"))
    # validation: int(float64(Count)*0.9) == 9*Count/10 for every Count up to mc (monitor line of the first stream)
    import os
    monp = os.path.join(prof.paths("cache-random")["mon"])
    bad = [l for l in core.read_lines(monp) if " mincount-float " in l] if os.path.exists(monp) else ["no monitor file"]
    o.add_obligation(not bad, "validation: minCount float expression equals integer arithmetic for Count <= %d %s" % (mc, bad[:1]))
    o.notes["mincount_validated_up_to"] = mc
    # validation: the real timer fired for the TIMER requests (lateness is not judged, a timer that never fires is reported)
    late = [l for l in core.read_lines(monp) if " timer-not-fired " in l] if os.path.exists(monp) else []
    o.add_obligation(not late, "validation: the age timer of a real cache fires and prunes %s" % late[:1])
    o.cov["exhaustive"] = False
    prof.cleanup()


CHECKS = {"C20": check_C20}
PROFILES = {"cache": cache_profile, "cacheasis": lambda o: cache_profile(o, asis=True)}
