"""Generic runner for correspondence profiles: an implementation-side harness (in-package test binary or
external harness binary) that speaks the line protocol, the compiled Lean driver, diffing, monitors,
shrinking and replay files."""
import collections
import json
import os
import re

from . import core


class Profile:
    """one correspondence stream.

    impl_run(mode, env) -> (ok, output): runs the implementation-side harness; env carries VERIF_OPS,
    VERIF_IMPL, VERIF_MON and the generator parameters.  driver: name of the lean_exe."""

    def __init__(self, name, impl_run, driver, driver_args=(), view=None, start="NEW", silent=("SAVE", "RESTORE")):
        self.name, self.impl_run, self.driver, self.driver_args = name, impl_run, driver, tuple(driver_args)
        self.view, self.start, self.silent = view, start, silent

    def paths(self, tag):
        d = os.path.join(core.WORK, "runs", "%s_%s_%d" % (self.name, tag, os.getpid()))
        os.makedirs(d, exist_ok=True)
        return {k: os.path.join(d, k) for k in ("ops", "impl", "mon", "model")}

    def answered(self, ops):
        """request lines that have an answer line"""
        return [l for l in ops if l.split(" ", 1)[0] not in self.silent]

    def generate(self, mode, params, tag="gen"):
        p = self.paths(tag)
        env = {"VERIF_MODE": mode, "VERIF_OPS": p["ops"], "VERIF_IMPL": p["impl"], "VERIF_MON": p["mon"]}
        env.update(params)
        ok, out = self.impl_run(env)
        if not ok:
            raise RuntimeError("harness %s failed: %s" % (self.name, out[-3000:]))
        okd, err = core.run_driver(self.driver, p["ops"], p["model"], self.driver_args)
        if not okd:
            raise RuntimeError("driver %s failed: %s" % (self.driver, err[-2000:]))
        return p

    def replay(self, ops_lines, tag="replay"):
        """run a list of request lines on implementation and model; returns (impl, model, mon) line lists"""
        p = self.paths(tag)
        with open(p["ops"], "w") as f:
            f.write("\n".join(ops_lines) + "\n")
        env = {"VERIF_MODE": "replay", "VERIF_OPS": p["ops"], "VERIF_IMPL": p["impl"], "VERIF_MON": p["mon"]}
        ok, out = self.impl_run(env)
        if not ok:
            return None, None, ["HARNESS-FAILED " + out[-500:]]
        okd, err = core.run_driver(self.driver, p["ops"], p["model"], self.driver_args)
        impl = core.read_lines(p["impl"])
        model = core.read_lines(p["model"]) if okd else []
        mon = core.read_lines(p["mon"]) if os.path.exists(p["mon"]) else []
        return impl, model, mon

    def cleanup(self):
        import shutil
        d = os.path.join(core.WORK, "runs")
        if os.path.isdir(d):
            for e in os.listdir(d):
                if e.startswith(self.name + "_") and e.endswith("_%d" % os.getpid()):
                    shutil.rmtree(os.path.join(d, e), ignore_errors=True)


def history_of(ops, line_idx, start="NEW"):
    """the NEW-delimited history containing request line `line_idx` (index into ops), as a list of lines.
    For SAVE/RESTORE trees the history is the root-to-node path.  Definitions (`DEF name …`) are global: those made in
    earlier histories that this one refers to (transitively) are put in front."""
    lo = line_idx
    while lo > 0 and ops[lo].split(" ", 1)[0] != start:
        lo -= 1
    seg = ops[lo:line_idx + 1]
    if any(l == "SAVE" or l == "RESTORE" for l in seg):
        # reconstruct the path: RESTORE pops back to the matching SAVE
        path, marks = [], []
        for l in seg:
            if l == "SAVE":
                marks.append(len(path))
            elif l == "RESTORE":
                if marks:
                    path = path[:marks.pop()]
            else:
                path.append(l)
        return path
    defs = {}
    for l in ops[:lo]:
        if l.startswith("DEF "):
            t = l.split(" ", 2)
            if len(t) > 1:
                defs[t[1]] = l
    if defs:
        need, order = set(), []
        todo = list(seg)
        while todo:
            l = todo.pop()
            for name in re.findall(r"@[A-Za-z0-9_]+", l):
                if name in defs and name not in need and not l.startswith("DEF " + name + " "):
                    need.add(name)
                    todo.append(defs[name])
        order = [defs[n] for n in defs if n in need]   # original definition order
        if order:
            return [seg[0]] + order + seg[1:] if seg and seg[0].split(" ", 1)[0] == start else order + seg
    return seg


def mon_parse(lines):
    out = []
    for l in lines:
        m = re.match(r"MON (\d+) (\S+) ?(.*)", l)
        if m:
            out.append((int(m.group(1)), m.group(2), m.group(3)))
    return out


def known_from_file(prop):
    """matcher for open known findings: a monitor whose name (including its cause suffix) is listed for the property"""
    table = {}
    for k in core.known_findings().get("open", []):
        if k.get("property") == prop and k.get("monitor"):
            table[k["monitor"]] = k
    def known(name, shrunk, detail):
        k = table.get(name)
        if k is None:
            return None
        return "%s monitor=%s %s" % (k.get("id", ""), name, k.get("what", ""))
    return known


def check_profile(o, prof, mode, params, label, monitors_relevant=None, max_report=3, nontrivial=None,
                  known=None, keep=lambda l: False):
    """generate, run both sides, diff, evaluate monitors, shrink, report into Outcome `o`.

    monitors_relevant: set of monitor names that decide this property (None = all).
    known(monitor, shrunk_ops, detail) -> text or None: matches an open known finding."""
    if known is None:
        known = known_from_file(o.prop)
    p = prof.generate(mode, params, tag=label)
    ops = core.read_lines(p["ops"])
    impl = core.read_lines(p["impl"])
    model = core.read_lines(p["model"])
    mon = mon_parse(core.read_lines(p["mon"])) if os.path.exists(p["mon"]) else []
    answered_idx = [i for i, l in enumerate(ops) if l.split(" ", 1)[0] not in prof.silent]
    aops = [ops[i] for i in answered_idx]
    n_hist = sum(1 for l in ops if l.split(" ", 1)[0] == prof.start)
    o.cov["evaluations"] += len(aops)
    # distinct non-trivial: distinct (request kind, answer) pairs beyond the trivial ones, and distinct histories
    distinct = set()
    for a, b in zip(aops, impl):
        if nontrivial is None or nontrivial(a, b):
            distinct.add((a, b))
    o.cov["distinct_nontrivial"] += len(distinct)
    kinds = collections.Counter(l.split(" ", 1)[0] for l in aops)
    o.notes.setdefault("profiles", {})[label] = {
        "mode": mode, "params": {k: str(v) for k, v in params.items()}, "request_lines": len(aops), "histories": n_hist,
        "op_mix": dict(kinds), "distinct_request_answer_pairs": len(distinct), "monitor_hits": len(mon)}
    if len(o.cov["samples"]) < 12 and aops:
        k = min(len(aops), 6)
        o.cov["samples"].append({"profile": label, "requests": aops[:k], "implementation": impl[:k], "model": model[:k]})
    # ---- correspondence
    diffs = core.first_diffs(aops, impl, model, prof.view)
    o.cov.setdefault("disagreements_checked", 0)
    o.cov["disagreements_checked"] += len(aops)
    reported = 0
    relevant = [m for m in mon if monitors_relevant is None or m[1] in monitors_relevant]
    diff_obj = None
    if diffs:
        i, op, a, b = diffs[0]
        hist = history_of(ops, answered_idx[i] if i < len(answered_idx) else len(ops) - 1, prof.start) if i < len(aops) else ops[-50:]

        def still_differs(sub):
            im, mo, _ = prof.replay(sub, tag="shrink")
            if im is None:
                return False
            return bool(core.first_diffs(prof.answered(sub), im, mo, prof.view, limit=1))
        shrunk = core.ddmin(hist, still_differs, keep) if len(hist) < 400 else hist
        im, mo, mn = prof.replay(shrunk, tag="shrunk")
        hits = [m for m in mon_parse(mn or []) if monitors_relevant is None or m[1] in monitors_relevant]
        diff_obj = {"kind": "correspondence", "profile": label, "ops": shrunk, "implementation": im, "model": mo,
                    "monitors": mn, "first_diff": {"line": i, "request": op, "implementation": a, "model": b},
                    "replay_cmd": "bin/check %s --replay <this file>" % o.prop}
        if hits and not all(known(h[1], shrunk, h[2]) for h in hits):
            o.violation("model and implementation disagree and a monitor of the property fails (%s): %s" % (label, hits[0][1]), diff_obj)
            reported += 1
            diff_obj = None
    # ---- monitors on the implementation (the search for a failing input)
    seen_mon = set()
    for (ln, name, detail) in relevant:
        if name in seen_mon or reported >= max_report:
            continue
        seen_mon.add(name)
        hist = history_of(ops, ln - 1, prof.start)

        def still_fires(sub, name=name):
            _, _, mn = prof.replay(sub, tag="shrink")
            return any(m[1] == name for m in mon_parse(mn or []))
        shrunk = core.ddmin(hist, still_fires, keep) if len(hist) < 400 else hist
        im, mo, mn = prof.replay(shrunk, tag="shrunk")
        text = known(name, shrunk, detail) if known else None
        if text:
            o.known_finding(text)
            continue
        obj = {"kind": "monitor", "profile": label, "monitor": name, "detail": detail, "ops": shrunk,
               "implementation": im, "model": mo, "monitors": mn,
               "replay_cmd": "bin/check %s --replay <this file>" % o.prop}
        if diff_obj is not None:
            obj["disagreement"] = diff_obj["first_diff"]
        o.violation("monitor %s fails on the implementation: %s" % (name, detail), obj)
        reported += 1
    if diff_obj is not None and reported == 0:
        # the tie is broken and no failing input for the property was found anywhere in this run
        i, op, a, b = diffs[0]
        diff_obj["unchecked"] = "correspondence stream '%s' (implementation vs lean driver %s)" % (label, prof.driver)
        o.violation("correspondence '%s' no longer holds: %s | impl: %s | model: %s" % (label, op, a, b), diff_obj, no_input=True)
    return {"ops": len(aops), "diffs": len(diffs), "monitor_hits": len(relevant)}


def check_corpus(o, prof, prop, monitors_relevant=None, known=None):
    """replay the stored histories of a property first: minimised past failures and the witnesses of the open known
    findings.  A witness whose monitor fires and is listed prints KNOWN-FINDING; anything else is reported."""
    if known is None:
        known = known_from_file(prop)
    d = os.path.join(core.ROOT, "corpus", prop)
    if not os.path.isdir(d):
        return
    for fn in sorted(os.listdir(d)):
        if not fn.endswith(".ops"):
            continue
        lines = [l for l in core.read_lines(os.path.join(d, fn)) if l.strip() and not l.startswith("#")]
        im, mo, mn = prof.replay(lines, tag="corpus")
        if im is None:
            o.violation("corpus history %s cannot be replayed: %s" % (fn, mn), {"kind": "corpus", "file": fn}, no_input=True)
            continue
        o.cov["evaluations"] += len(im)
        o.notes.setdefault("corpus", {})[fn] = {"lines": len(lines), "monitors": mn}
        diffs = core.first_diffs(prof.answered(lines), im, mo, prof.view, limit=1)
        if diffs:
            i, op, a, b = diffs[0]
            o.violation("corpus history %s: model and implementation disagree at %s" % (fn, op),
                        {"kind": "correspondence", "profile": "corpus", "ops": lines, "implementation": im, "model": mo,
                         "first_diff": {"request": op, "implementation": a, "model": b}}, no_input=True)
        for (ln, name, detail) in mon_parse(mn or []):
            if monitors_relevant is not None and name not in monitors_relevant:
                continue
            text = known(name, lines, detail)
            if text:
                o.known_finding(text)
            else:
                o.violation("corpus history %s: monitor %s fails: %s" % (fn, name, detail),
                            {"kind": "monitor", "profile": "corpus", "monitor": name, "detail": detail, "ops": lines, "implementation": im, "model": mo})
