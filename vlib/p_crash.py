"""C09: a crash at any file-system step loses nothing acknowledged and tears nothing (directory store)."""
import json
import os
import re
import shutil
import subprocess
import time

from . import core
from .common import Built, T
from .inpkg import Profile, check_profile, check_corpus, known_from_file, mon_parse

W = os.path.join(core.WORK, "crash")

# the names of package os that internal/store/dir.go may use; each has a stand-in of identical signature in verifvfs
OS_NAMES = ("Stat", "Remove", "MkdirAll", "IsNotExist", "Rename", "ReadFile", "ReadDir", "Open", "CreateTemp", "WriteFile",
            "File", "ErrNotExist")


def strip_comments_and_strings(src):
    """Go source with comments, string and rune literals blanked (enough to look for identifiers)"""
    out, i, n = [], 0, len(src)
    while i < n:
        c = src[i]
        if src.startswith("//", i):
            j = src.find("\n", i)
            i = n if j < 0 else j
        elif src.startswith("/*", i):
            j = src.find("*/", i + 2)
            i = n if j < 0 else j + 2
        elif c == '"':
            j = i + 1
            while j < n and src[j] != '"':
                j += 2 if src[j] == "\\" else 1
            out.append('""')
            i = j + 1
        elif c == "`":
            j = src.find("`", i + 1)
            out.append('""')
            i = n if j < 0 else j + 1
        elif c == "'":
            j = i + 1
            while j < n and src[j] != "'":
                j += 2 if src[j] == "\\" else 1
            out.append("' '")
            i = j + 1
        else:
            out.append(c)
            i += 1
    return "".join(out)


_RE_OS = re.compile(r"(?<![A-Za-z0-9_.])os\.([A-Za-z_][A-Za-z0-9_]*)")


def rewrite_dir_go(src, module):
    """internal/store/dir.go with every use of package os redirected to the shim; fails loudly on a name the shim lacks"""
    used = set(_RE_OS.findall(strip_comments_and_strings(src)))
    unknown = sorted(used - set(OS_NAMES))
    if unknown:
        raise RuntimeError("internal/store/dir.go uses os.%s which the FS shim (harness/overlay/verifvfs/vfs.go) does not provide; "
                           "add a stand-in with the same signature and list it in vlib/p_crash.py:OS_NAMES" % ", os.".join(unknown))
    if not used:
        raise RuntimeError("internal/store/dir.go does not use package os any more: the FS shim has nothing to intercept")
    out = _RE_OS.sub(lambda m: "verifvfs." + m.group(1), src)
    imp = '\t"%s/verifvfs"\n' % module
    out, k = re.subn(r'^\t"os"\n', imp, out, count=1, flags=re.M)
    if k != 1:
        raise RuntimeError('internal/store/dir.go: no `"os"` import line found to replace')
    return out, sorted(used)


def module_path():
    with open(os.path.join(core.REPO, "go.mod")) as f:
        m = re.search(r"^module\s+(\S+)", f.read(), re.M)
    return m.group(1)


def vfs_overlay():
    """{path in the tree under test: replacement}: the rewritten dir.go, the shim package, two read-only state accessors"""
    os.makedirs(W, exist_ok=True)
    tag = core.hashlib.sha256(core.REPO.encode()).hexdigest()[:10]
    d = os.path.join(W, "overlay_" + tag)
    os.makedirs(d, exist_ok=True)
    with open(os.path.join(core.REPO, "internal", "store", "dir.go")) as f:
        src = f.read()
    out, used = rewrite_dir_go(src, module_path())
    rew = os.path.join(d, "dir.go")
    with open(rew, "w") as f:
        f.write(out)
    repl = {os.path.join(core.REPO, "internal", "store", "dir.go"): rew,
            os.path.join(core.REPO, "verifvfs", "vfs.go"): T("overlay", "verifvfs", "vfs.go")}
    for name, dst in (("store_state.go.in", os.path.join("internal", "store", "zz_verifvfs_state.go")),
                      ("server_state.go.in", "zz_verifvfs_state.go")):
        cp = os.path.join(d, name[:-3])
        shutil.copyfile(T("overlay", "verifvfs", name), cp)
        repl[os.path.join(core.REPO, dst)] = cp
    return repl, used
