"""C09: a crash at any file-system step loses nothing acknowledged and tears nothing (directory store)."""
import json
import os
import re
import shutil
import subprocess
import time

from . import core
from .common import Built, T
from .inpkg import Profile, check_profile, check_corpus, known_from_file, mon_parse

W = os.path.join(core.WORK, "crash")

# the names of package os that internal/store/dir.go may use; each has a stand-in of identical signature in verifvfs
OS_NAMES = ("Stat", "Remove", "MkdirAll", "IsNotExist", "Rename", "ReadFile", "ReadDir", "Open", "CreateTemp", "WriteFile",
            "File", "ErrNotExist", "Chtimes")


def strip_comments_and_strings(src):
    """Go source with comments, string and rune literals blanked (enough to look for identifiers)"""
    out, i, n = [], 0, len(src)
    while i < n:
        c = src[i]
        if src.startswith("//", i):
            j = src.find("\n", i)
            i = n if j < 0 else j
        elif src.startswith("/*", i):
            j = src.find("*/", i + 2)
            i = n if j < 0 else j + 2
        elif c == '"':
            j = i + 1
            while j < n and src[j] != '"':
                j += 2 if src[j] == "\\" else 1
            out.append('""')
            i = j + 1
        elif c == "`":
            j = src.find("`", i + 1)
            out.append('""')
            i = n if j < 0 else j + 1
        elif c == "'":
            j = i + 1
            while j < n and src[j] != "'":
                j += 2 if src[j] == "\\" else 1
            out.append("' '")
            i = j + 1
        else:
            out.append(c)
            i += 1
    return "".join(out)


_RE_OS = re.compile(r"(?<![A-Za-z0-9_.])os\.([A-Za-z_][A-Za-z0-9_]*)")


def rewrite_dir_go(src, module):
    """internal/store/dir.go with every use of package os redirected to the shim; fails loudly on a name the shim lacks"""
    used = set(_RE_OS.findall(strip_comments_and_strings(src)))
    unknown = sorted(used - set(OS_NAMES))
    if unknown:
        raise RuntimeError("internal/store/dir.go uses os.%s which the FS shim (harness/overlay/verifvfs/vfs.go) does not provide; "
                           "add a stand-in with the same signature and list it in vlib/p_crash.py:OS_NAMES" % ", os.".join(unknown))
    if not used:
        raise RuntimeError("internal/store/dir.go does not use package os any more: the FS shim has nothing to intercept")
    out = _RE_OS.sub(lambda m: "verifvfs." + m.group(1), src)
    imp = '\t"%s/verifvfs"\n' % module
    out, k = re.subn(r'^\t"os"\n', imp, out, count=1, flags=re.M)
    if k != 1:
        raise RuntimeError('internal/store/dir.go: no `"os"` import line found to replace')
    return out, sorted(used)


def module_path():
    with open(os.path.join(core.REPO, "go.mod")) as f:
        m = re.search(r"^module\s+(\S+)", f.read(), re.M)
    return m.group(1)


def vfs_overlay():
    """{path in the tree under test: replacement}: the rewritten dir.go, the shim package, two read-only state accessors"""
    os.makedirs(W, exist_ok=True)
    tag = core.hashlib.sha256(core.REPO.encode()).hexdigest()[:10]
    d = os.path.join(W, "overlay_" + tag)
    os.makedirs(d, exist_ok=True)
    with open(os.path.join(core.REPO, "internal", "store", "dir.go")) as f:
        src = f.read()
    out, used = rewrite_dir_go(src, module_path())
    rew = os.path.join(d, "dir.go")
    with open(rew, "w") as f:
        f.write(out)
    repl = {os.path.join(core.REPO, "internal", "store", "dir.go"): rew,
            os.path.join(core.REPO, "verifvfs", "vfs.go"): T("overlay", "verifvfs", "vfs.go")}
    for name, dst in (("store_state.go.in", os.path.join("internal", "store", "zz_verifvfs_state.go")),
                      ("server_state.go.in", "zz_verifvfs_state.go")):
        cp = os.path.join(d, name[:-3])
        shutil.copyfile(T("overlay", "verifvfs", name), cp)
        repl[os.path.join(core.REPO, dst)] = cp
    return repl, used


# ---------------------------------------------------------------- variant of the tree under test (pending repairs F5 / F7)

def driver_variant():
    """which form of the empty-repository removal the tree under test has: read off internal/store/dir.go"""
    with open(os.path.join(core.REPO, "internal", "store", "dir.go")) as f:
        src = f.read()
    i = src.find("prune an empty repo dir")
    j = src.find("finished GC", i)
    blk = src[i:j] if i >= 0 and j > i else ""
    args = []
    if re.search(r"errs = append\(errs, err\)\s*(//[^\n]*\n\s*)*break", blk):
        args.append("stop")
    if "ReadDir" in blk:
        args.append("readdir")
    if "os.Chtimes" not in src:
        args.append("notouch")   # a tree before repair F38: blobCreate does not refresh the age of an existing blob
    return args


# ---------------------------------------------------------------- profile

_RE_TAG = re.compile(r" ![a-z]+")


def view(op, ans):
    """the compared part of an answer: the list of calls without the outcome marks (`!noent`, `!notempty`, `!err`)"""
    if "fsops=?" in ans:
        return None
    return _RE_TAG.sub("", ans)


class CrashProfile(Profile):
    """harness: reg_vfs in crash / crashreplay mode; model: fsdriver on the annotated request lines (VERIF_FACTS)"""

    def __init__(self, binary, driver_args, jobs=1, extra_env=None):
        super().__init__("crash", None, "fsdriver", driver_args, view=view, start="NEW")
        self.binary, self.jobs, self.extra_env = binary, jobs, dict(extra_env or {})
        self.stats = []

    def paths(self, tag):
        p = super().paths(tag)
        d = os.path.dirname(p["ops"])
        p["facts"], p["stats"], p["dir"] = os.path.join(d, "facts"), os.path.join(d, "stats"), d
        return p

    def _env(self, p, mode, params, suffix=""):
        e = dict(core.GOENV)
        e.update({"VERIF_MODE": mode, "VERIF_OPS": p["ops"] + suffix, "VERIF_IMPL": p["impl"] + suffix, "VERIF_MON": p["mon"] + suffix,
                  "VERIF_FACTS": p["facts"] + suffix, "VERIF_STATS": p["stats"] + suffix,
                  "VERIF_WORK": os.path.join(W, "work")})
        e.update({k: str(v) for k, v in self.extra_env.items()})
        e.update({k: str(v) for k, v in params.items()})
        return e

    def _model(self, p):
        okd, err = core.run_driver(self.driver, p["facts"], p["model"], self.driver_args)
        if not okd:
            raise RuntimeError("driver %s failed: %s" % (self.driver, err[-2000:]))

    def generate(self, mode, params, tag="gen"):
        """VERIF_N histories, split over self.jobs processes (seed of job j: VERIF_SEED*1000+j); the streams are concatenated"""
        p = self.paths(tag)
        os.makedirs(os.path.join(W, "work"), exist_ok=True)
        n = int(params.get("VERIF_N", 1))
        jobs = max(1, min(self.jobs, n))
        procs = []
        for j in range(jobs):
            pj = dict(params)
            pj["VERIF_N"] = n // jobs + (1 if j < n % jobs else 0)
            pj["VERIF_SEED"] = int(params.get("VERIF_SEED", 1)) * 1000 + j
            procs.append(subprocess.Popen([self.binary], env=self._env(p, mode, pj, ".%d" % j), stdout=subprocess.PIPE, stderr=subprocess.STDOUT, text=True))
        outs = [pr.communicate(timeout=6000)[0] for pr in procs]
        for pr, out in zip(procs, outs):
            if pr.returncode != 0:
                raise RuntimeError("harness reg_vfs failed (%d): %s" % (pr.returncode, out[-3000:]))
        offset = 0
        with open(p["ops"], "w") as fo, open(p["impl"], "w") as fi, open(p["facts"], "w") as ff, open(p["mon"], "w") as fm:
            for j in range(jobs):
                sfx = ".%d" % j
                ops = core.read_lines(p["ops"] + sfx)
                fo.write("".join(l + "\n" for l in ops))
                fi.write(open(p["impl"] + sfx).read())
                ff.write(open(p["facts"] + sfx).read())
                for (ln, name, detail) in mon_parse(core.read_lines(p["mon"] + sfx)):
                    fm.write("MON %d %s %s\n" % (ln + offset, name, detail))
                offset += len(ops)
                if os.path.exists(p["stats"] + sfx):
                    self.stats.append(json.load(open(p["stats"] + sfx)))
                for k in ("ops", "impl", "facts", "mon", "stats"):
                    if os.path.exists(p[k] + sfx):
                        os.remove(p[k] + sfx)
        self._model(p)
        return p

    def replay(self, ops_lines, tag="replay"):
        p = self.paths(tag)
        os.makedirs(os.path.join(W, "work"), exist_ok=True)
        with open(p["ops"], "w") as f:
            f.write("\n".join(ops_lines) + "\n")
        pr = core.sh([self.binary], env=self._env(p, "crashreplay", {}), check=False, timeout=3000)
        if pr.returncode != 0:
            return None, None, ["HARNESS-FAILED " + pr.stdout[-500:]]
        if os.path.exists(p["stats"]) and tag == "corpus":
            self.stats.append(json.load(open(p["stats"])))
        try:
            self._model(p)
            model = core.read_lines(p["model"])
        except RuntimeError:
            model = []
        return core.read_lines(p["impl"]), model, core.read_lines(p["mon"]) if os.path.exists(p["mon"]) else []


def build_vfs(o):
    key = ("b", "reg_vfs")
    if key not in Built.cache:
        try:
            repl, used = vfs_overlay()
        except RuntimeError as e:
            Built.cache[key] = (None, str(e), [])
        else:
            b, out = core.go_build("reg", tags="verif,vfs", overlay=repl, out_name="reg_vfs")
            Built.cache[key] = (b, out, used)
    b, out, used = Built.cache[key]
    if b is None:
        o.violation("crash harness (FS shim overlay) does not build against the tree under test: %s" % out[-1500:],
                    {"kind": "build", "output": out[-4000:]}, no_input=True)
    return b, used


def crash_profile(o, jobs=1, extra_env=None):
    b, used = build_vfs(o)
    if b is None or not Built.driver(o, "fsdriver"):
        return None
    return CrashProfile(b, driver_variant(), jobs=jobs, extra_env=extra_env)


class MonitorSet:
    def __init__(self, prefix):
        self.prefix = prefix

    def __contains__(self, name):
        return name.startswith(self.prefix)


def keep_line(l):
    return l.startswith("NEW") or l.startswith("DEF")


def check_crash_profile(o, prof, params, label, known):
    """like inpkg.check_profile, except that a monitor hit whose name (with its cause suffix) is an open known finding
    is reported as such without shrinking the history again - the minimal witness is the corpus file"""
    from .inpkg import history_of
    p = prof.generate("crash", params, tag=label)
    ops, impl, model = core.read_lines(p["ops"]), core.read_lines(p["impl"]), core.read_lines(p["model"])
    mon = [m for m in mon_parse(core.read_lines(p["mon"])) if m[1].startswith("C09.")]
    o.cov["evaluations"] += len(ops)
    distinct = set()
    for a, b in zip(ops, impl):
        if "fsops=[]" not in b and a.split(" ", 1)[0] not in ("NEW", "DEF"):
            distinct.add((a.split(" ", 1)[0], view(a, b)))
    o.cov["distinct_nontrivial"] += len(distinct)
    import collections
    o.notes.setdefault("profiles", {})[label] = {
        "params": {k: str(v) for k, v in params.items()}, "request_lines": len(ops),
        "histories": sum(1 for l in ops if l.startswith("NEW")), "op_mix": dict(collections.Counter(l.split(" ", 1)[0] for l in ops)),
        "distinct_kind_trace_pairs": len(distinct), "monitor_hits": dict(collections.Counter(m[1] for m in mon))}
    if len(o.cov["samples"]) < 12:
        idx = [i for i, b in enumerate(impl) if "fsops=[]" not in b and not ops[i].startswith(("NEW", "DEF"))][:4]
        o.cov["samples"].append({"profile": label, "requests": [ops[i] for i in idx], "implementation": [impl[i] for i in idx],
                                 "model": [model[i] if i < len(model) else "" for i in idx]})
    reported = 0
    diffs = core.first_diffs(ops, impl, model, prof.view)
    if diffs:
        i, op, a, b = diffs[0]
        hist = history_of(ops, min(i, len(ops) - 1), prof.start)

        def still_differs(sub):
            im, mo, _ = prof.replay(sub, tag="shrink")
            return im is not None and bool(core.first_diffs(sub, im, mo, prof.view, limit=1))
        shrunk = core.ddmin(hist, still_differs, keep_line) if len(hist) < 200 else hist
        im, mo, mn = prof.replay(shrunk, tag="shrunk")
        o.violation("FS-operation trace of the code differs from the model's op list (%s): %s | code: %s | model: %s" % (label, op, a, b),
                    {"kind": "correspondence", "profile": label, "ops": shrunk, "implementation": im, "model": mo, "monitors": mn,
                     "first_diff": {"line": i, "request": op, "implementation": a, "model": b},
                     "unchecked": "trace correspondence '%s' (reg_vfs vs lean driver fsdriver)" % label,
                     "replay_cmd": "bin/check C09 --replay <this file>"}, no_input=True)
        reported += 1
    seen = set()
    for (ln, name, detail) in mon:
        if name in seen:
            continue
        seen.add(name)
        text = known(name, None, detail)
        if text:
            o.known_finding(text)
            continue
        if reported >= 3:
            continue
        hist = history_of(ops, ln - 1, prof.start)

        def still_fires(sub, name=name):
            _, _, mn = prof.replay(sub, tag="shrink")
            return any(m[1] == name for m in mon_parse(mn or []))
        shrunk = core.ddmin(hist, still_fires, keep_line) if len(hist) < 200 else hist
        im, mo, mn = prof.replay(shrunk, tag="shrunk")
        o.violation("monitor %s fails on the implementation: %s" % (name, detail),
                    {"kind": "monitor", "profile": label, "monitor": name, "detail": detail, "ops": shrunk, "implementation": im, "model": mo,
                     "monitors": mn, "replay_cmd": "bin/check C09 --replay <this file>"})
        reported += 1


RULE = ("crash-point enumeration on the directory store: generated histories (profiles refs, tags, mix, upload and their collection-heavy "
        "variants gcrefs, gctags; 8-12 generator steps each with `GC r` lines inserted, every random choice from VERIF_SEED) run on the real "
        "Server.ServeHTTP built with the FS-shim overlay (package os replaced in internal/store/dir.go).  For every request the shim copies the "
        "directory before each mutating call and inside each write (after half of the bytes; thorough: after 1, half and all but one); a fresh "
        "olareg.New is opened on every distinct copy and the monitors load-error, blob-torn, tag-dangling, ack-lost, not-atomic are evaluated "
        "against fresh servers on the directory before and after the request.  evaluations = request lines whose recorded trace of mutating FS "
        "calls was compared with the op list the Lean model (fsdriver) prints from the same facts; distinct_nontrivial = distinct (request kind, "
        "non-empty canonical trace) pairs")


def check_C09(o, tier):
    o.add_audit(core.audit("C09", tier == "thorough"))
    o.cov["rule"] = RULE
    thorough = tier == "thorough"
    prof = crash_profile(o, jobs=8 if thorough else 6, extra_env={"VERIF_CUTS": "3"} if thorough else None)
    if prof is None:
        return
    _, used = build_vfs(o)
    o.add_obligation(bool(used), "every name of package os used by internal/store/dir.go has a stand-in in the FS shim (%s)" % ", ".join(used))
    o.notes["driver_variant"] = prof.driver_args or ["as-is"]
    known = known_from_file("C09")
    mons = MonitorSet("C09.")
    check_corpus(o, prof, "C09", mons, known)
    plan = [("refs", 18, 8), ("gcrefs", 16, 8), ("tags", 14, 8), ("gctags", 14, 8), ("mix", 16, 10), ("upload", 12, 10)]
    if thorough:
        plan = [(pr, 25 * n, st) for pr, n, st in plan]
    t0 = time.time()
    for pr, n, steps in plan:
        check_crash_profile(o, prof, {"VERIF_SEED": o.seed, "VERIF_N": n, "VERIF_PROFILE": pr, "VERIF_STEPS": steps}, "crash-" + pr, known)
    tot = {}
    for s in prof.stats:
        for k, v in s.items():
            if isinstance(v, dict):
                d = tot.setdefault(k, {})
                for kk, vv in v.items():
                    d[kk] = d.get(kk, 0) + vv
            else:
                tot[k] = tot.get(k, 0) + v
    o.notes["crash"] = tot
    o.notes["crash_wall_s"] = round(time.time() - t0, 1)
    # conversions of fallback tags under interruption (legacy layouts cannot be built through the API)
    from . import p_ingest
    p_ingest.extra_C09(o, tier)
    o.assumptions += ["process-crash model: what is on disk at the crash point is what the restarted server finds; loss of un-synced pages (power failure) is outside the claim",
                      "kernel semantics assumed, not modelled: rename is atomic, a write leaves a prefix of its bytes, CreateTemp returns an unused name",
                      "a collection is read as a sequence of independent removals: interrupted half way, every retained item must be intact (not: all or nothing)",
                      "a mount attempt (UPOST mount=&from=) is crash-tested by the monitors but its trace is not compared with the model"]
    prof.cleanup()


CHECKS = {"C09": check_C09}
PROFILES = {"crash": crash_profile}
