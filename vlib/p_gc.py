"""C05 (garbage collection never removes retained or recent content) and C06 (collection removes exactly the garbage,
converges, and is not starved): the real repoGarbageCollect / memRepo.gc / dirRepo.gc / mem.gc / dir.gc against the
collector model of lean/Ixd/GC*.lean, plus statement-level monitors computed by the harness from the state before each
collection with its own order-free `Retained` (see notes/design-C05-C06.md).

Profiles (names carry no '-', labels are '<profile>-<what>'):
  gc         repository level, memory store      (gcdriver mem)
  gcdir      repository level, directory store   (gcdriver dir)  - also empty-repository removal
  gcpass     store-wide pass, memory store       (gcpassdriver mem)
  gcpassdir  store-wide pass, directory store    (gcpassdriver dir)

Further profiles (e.g. an HTTP-level GC profile driven through the build-tag hooks) are appended to EXTRA_C05 /
EXTRA_C06 as callables (o, tier); the check functions call them at the end."""
import os

from . import core
from .common import Built, T
from .inpkg import Profile, check_profile

HARNESS_FILE = T("inpkg", "store", "gc_harness_test.go")
GC_WORK = os.path.join(core.WORK, "gc")

C05_MONITORS = {"gc-removed-retained", "gc-removed-recent", "tagged-image-incomplete-after-gc", "gc-retained-unreachable"}
C06_MONITORS = {"gc-kept-garbage", "index-entry-without-blob", "child-record-without-blob", "second-pass-changes", "empty-repo-not-removed",
                "repo-half-removed", "pass-starved"}

EXTRA_C05 = []   # callables (o, tier) appended by other modules
EXTRA_C06 = []


def _view(op, answer):
    """answers marked '~' belong to a history whose later collections depend on the order swap-removes left in the
    index (two responses registered for one subject) - both sides mark them, they are not compared"""
    if answer.startswith("~ "):
        return None
    return answer


def _binary(o):
    # one test binary for every GC profile; the ingest harness of the same package is built separately by its owner
    # the name carries the tree under test so that a run against a scratch worktree (VERIF_REPO) and one against /repo
    # do not overwrite each other's binary
    import hashlib
    return Built.test_binary(o, "internal/store", [HARNESS_FILE], "store_gc_" + hashlib.sha256(core.REPO.encode()).hexdigest()[:8])


def _profile(o, name, test, store, driver):
    b = _binary(o)
    if b is None or not Built.driver(o, driver):
        return None
    tmp = os.path.join(GC_WORK, "tmp")
    os.makedirs(tmp, exist_ok=True)
    cov = os.path.join(GC_WORK, "cov_%s_%d" % (name, os.getpid()))

    def run(env):
        e = dict(env)
        e["VERIF_STORE"] = store
        e["VERIF_TMP"] = tmp
        if e.get("VERIF_MODE") == "gen":
            e["VERIF_COV"] = cov
        return core.go_test_run(b, "^%s$" % test, e)

    p = Profile(name, run, driver, driver_args=(store,), view=_view)
    p.cov_path = cov
    return p


def gc_profile(o):
    return _profile(o, "gc", "TestVerifGC", "mem", "gcdriver")


def gcdir_profile(o):
    return _profile(o, "gcdir", "TestVerifGC", "dir", "gcdriver")


def gcpass_profile(o):
    return _profile(o, "gcpass", "TestVerifGCPass", "mem", "gcpassdriver")


def gcpassdir_profile(o):
    return _profile(o, "gcpassdir", "TestVerifGCPass", "dir", "gcpassdriver")


def _read_cov(prof):
    out = {}
    p = getattr(prof, "cov_path", None)
    if p and os.path.exists(p):
        for l in core.read_lines(p):
            k, _, v = l.rpartition(" ")
            try:
                out[k] = out.get(k, 0) + int(v)
            except ValueError:
                pass
        os.remove(p)
    return out


def _merge_cov(o, label, cov):
    tot = o.notes.setdefault("gc_coverage", {})
    tot[label] = {"collections": cov.get("gc-runs", 0) + cov.get("pass-runs", 0),
                  "policy_cells": len([k for k in cov if k.startswith("policy:")]),
                  "branch_tags": {k[4:]: v for k, v in cov.items() if k.startswith("tag:")},
                  "judged": {k: v for k, v in cov.items() if k.startswith("judged-") or k.startswith("skipped-") or
                             k in ("recent-blob-judged", "tagged-complete-before", "starved", "order-dependent-pass")},
                  "visiting_orders_seen": len([k for k in cov if k.startswith("order:")]),
                  "monitor_hits": {k[4:]: v for k, v in cov.items() if k.startswith("mon:")}}


def _nontrivial(req, ans):
    return req.split(" ", 1)[0] in ("GC", "PASS")


def _run(o, prof, label, params, monitors):
    if prof is None:
        return
    check_profile(o, prof, "gen", params, label, monitors, nontrivial=_nontrivial)
    _merge_cov(o, label, _read_cov(prof))
    prof.cleanup()


RULE = ("gc/gcdir profiles: random repository states built line by line (blobs of kind raw/other/image/index/both naming "
        "arbitrary digests - cycles, missing blobs, a digest that is manifest and layer, children under lying media types; "
        "index entries with tags, subject annotations, nil/empty maps; child lists; ages old/recent; foreign files and "
        "upload sessions on the directory store) under every combination of Untagged/ReferrersDangling/ReferrersWithSubj/"
        "grace/EmptyRepo, a collection at the end, a second pass, and sometimes ageing + further pushes + two more passes; "
        "the real memRepo.gc / dirRepo.gc result (entries, resolvable digests, blobs, directory entries, what a fresh "
        "read-only store instance serves) is compared with the Lean collector model after every line; "
        "gcpass/gcpassdir: 2-5 repositories (healthy, empty, removed, corrupt index.json; due or not) and one or two "
        "store-wide passes, each repeated 6 times from a snapshot so that several map iteration orders are visited; "
        "distinct_nontrivial counts distinct (GC|PASS request, answer) pairs; the monitors judge every collection from "
        "the state before it (order-free Retained computation of the harness)")


# Regression witnesses of the confirmed findings (notes/design-C05-C06.md): replayed on every run, before the seeded
# generation.  On the repaired tree implementation and model agree on them and no monitor fires.
WITNESSES = {
    "F4a-manifest-and-layer": (["gc", "gcdir"], {"C05", "C06"}, [
        "NEW 1 1 1 0 0", "B 1 0 oth", "B 4 0 raw", "B 3 0 img 1 5", "B 5 0 img 1 4",
        "M 5 1 0 1 0", "M 3 1 0 2 0", "GC", "GC"]),
    "F4b-child-under-other-media-type": (["gc", "gcdir"], {"C05", "C06"}, [
        "NEW 1 1 1 0 0", "B 1 0 oth", "B 2 0 raw", "B 4 0 img 1 2", "B 5 0 idx 3:4",
        "M 4 1 0 1 0", "M 5 2 0 2 0", "GC", "GC"]),
    "F5-blobs-without-manifest": (["gcdir"], {"C05", "C06"}, [
        "NEW 0 0 1 1 1", "B 3 1 oth", "GC", "M 3 1 0 1 0", "GC"]),
    "F5b-foreign-file-keeps-directory": (["gcdir"], {"C05", "C06"}, [
        "NEW 1 1 1 0 1", "X root", "GC", "B 4 0 raw", "M 4 1 0 1 0", "GC", "B 2 0 raw", "GC"]),
    "F41-child-record-without-content": (["gc", "gcdir"], {"C06"}, [
        "NEW 0 0 1 0 0", "B 1 0 oth", "B 6 0 img 1", "M 6 1 0 1 0", "K 5 1", "GC", "GC"]),
    "W1-untag-puts-repository-back-into-window": (["gcpass", "gcpassdir"], {"C06"}, [
        "NEW 1 0 1 0 0", "R r1 healthy 0", "R r2 healthy a999999999", "T r1", "T r2", "PASS", "U r1", "PASS"]),
    "F7-sha384-directory": (["gcdir"], {"C06"}, [
        "NEW 0 0 1 0 1", "B 8 0 raw", "GC", "GC"]),
    "F6-pass-stops-at-failing-repository": (["gcpassdir"], {"C06"}, [
        "NEW 0 0 1 0 1", "R r1 removed 1", "R r2 healthy 1", "R r3 healthy 1", "R r4 corrupt 1", "R r5 healthy 1", "PASS"]),
}


def _witnesses(o, prop, profs, monitors):
    from .inpkg import mon_parse
    for fid, (pnames, props_, ops) in WITNESSES.items():
        if prop not in props_:
            continue
        for pname in pnames:
            prof = profs.get(pname)
            if prof is None:
                continue
            im, mo, mn = prof.replay(ops, tag="witness")
            o.cov["evaluations"] += len(ops)
            o.notes.setdefault("witnesses_replayed", []).append("%s on %s" % (fid, pname))
            if im is None:
                o.violation("harness failed on witness %s" % fid, {"kind": "machinery", "detail": str(mn)}, no_input=True)
                continue
            diffs = core.first_diffs(prof.answered(ops), im, mo, prof.view, limit=1)
            hits = [m for m in mon_parse(mn or []) if m[1] in monitors]
            if diffs or hits:
                what = "regression witness %s fails on the %s profile: %s" % (
                    fid, pname, "; ".join("%s %s" % (m[1], m[2]) for m in hits[:2]) or
                    "implementation %s | model %s" % (diffs[0][2], diffs[0][3]))
                o.violation(what, {"kind": "witness", "profile": "%s-witness-%s" % (pname, fid), "finding": fid, "ops": ops,
                                   "implementation": im, "model": mo, "monitors": mn,
                                   "replay_cmd": "bin/check %s --replay <this file>" % o.prop})
            prof.cleanup()


def check_C05(o, tier):
    o.add_audit(core.audit("C05", tier == "thorough"))
    o.cov["rule"] = RULE
    quick = tier == "quick"
    profs = {"gc": gc_profile(o), "gcdir": gcdir_profile(o)}
    _witnesses(o, "C05", profs, C05_MONITORS)
    _run(o, profs["gc"], "gc-random", {"VERIF_SEED": o.seed, "VERIF_N": 12000 if quick else 200000}, C05_MONITORS)
    _run(o, profs["gcdir"], "gcdir-random", {"VERIF_SEED": o.seed + 1, "VERIF_N": 2500 if quick else 40000}, C05_MONITORS)
    _run(o, profs["gc"], "gc-matrix", {"VERIF_SEED": o.seed + 2, "VERIF_N": 3200 if quick else 64000, "VERIF_MATRIX": 1}, C05_MONITORS)
    o.cov["exhaustive"] = False
    for fn in EXTRA_C05:
        fn(o, tier)


def check_C06(o, tier):
    o.add_audit(core.audit("C06", tier == "thorough"))
    o.cov["rule"] = RULE
    quick = tier == "quick"
    profs = {"gc": gc_profile(o), "gcdir": gcdir_profile(o), "gcpass": gcpass_profile(o), "gcpassdir": gcpassdir_profile(o)}
    _witnesses(o, "C06", profs, C06_MONITORS)
    _run(o, profs["gc"], "gc-random", {"VERIF_SEED": o.seed + 10, "VERIF_N": 8000 if quick else 100000}, C06_MONITORS)
    _run(o, profs["gcdir"], "gcdir-random", {"VERIF_SEED": o.seed + 11, "VERIF_N": 2000 if quick else 25000}, C06_MONITORS)
    _run(o, profs["gcdir"], "gcdir-matrix", {"VERIF_SEED": o.seed + 12, "VERIF_N": 1280 if quick else 16000, "VERIF_MATRIX": 1}, C06_MONITORS)
    _run(o, profs["gcpass"], "gcpass-random", {"VERIF_SEED": o.seed + 13, "VERIF_N": 400 if quick else 3000}, C06_MONITORS)
    _run(o, profs["gcpassdir"], "gcpassdir-random", {"VERIF_SEED": o.seed + 14, "VERIF_N": 250 if quick else 1000}, C06_MONITORS)
    o.cov["exhaustive"] = False
    for fn in EXTRA_C06:
        fn(o, tier)


CHECKS = {"C05": check_C05, "C06": check_C06}
PROFILES = {"gc": gc_profile, "gcdir": gcdir_profile, "gcpass": gcpass_profile, "gcpassdir": gcpassdir_profile}
