"""C18 (and the index part of C03): types.Index against the Ixd model."""
from . import core
from .common import Built, T
from .inpkg import Profile, check_profile

# ------------------------------------------------------------------ index (C18, C03)

def index_profile(o):
    b = Built.test_binary(o, "types", [T("inpkg", "types", "index_harness_test.go")], "types_index")
    if b is None or not Built.driver(o, "indexdriver"):
        return None
    return Profile("index", lambda env: core.go_test_run(b, "^TestVerifIndex$", env), "indexdriver")


C18_MONITORS = {"tag-unique", "tag-last", "subject-unique", "untagged-once", "get-digest-iff",
                "rm-tag-keeps-digest", "rm-digest-all", "copy-independent", "copy-equal"}


def check_C18(o, tier):
    o.add_audit(core.audit("C18", tier == "thorough"))
    prof = index_profile(o)
    if prof is None:
        return
    o.cov["rule"] = ("index profile: random AddDesc/RmDesc/AddChildren/JSON round trip/GetDesc/GetByAnnotation/Copy sequences over 2-4 digests, "
                     "1-3 tags, 1-2 subjects, plus the exhaustive tree of all sequences up to the stated depth over a 12- or 18-letter alphabet; "
                     "every answer of the real types.Index is compared with the Lean model's; distinct_nontrivial counts distinct (request, answer) pairs")
    n = 40000 if tier == "quick" else 150000
    check_profile(o, prof, "gen", {"VERIF_SEED": o.seed, "VERIF_N": n}, "index-random", C18_MONITORS)
    depth = 6 if tier == "quick" else 7
    check_profile(o, prof, "tree", {"VERIF_DEPTH": depth}, "index-tree", C18_MONITORS)
    check_profile(o, prof, "tree", {"VERIF_DEPTH": 3 if tier == "quick" else 5, "VERIF_ALPHABET": "wide"}, "index-tree-wide", C18_MONITORS)
    o.cov["exhaustive"] = False
    prof.cleanup()



CHECKS = {"C18": check_C18}
PROFILES = {"index": index_profile}
