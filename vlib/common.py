"""Helpers shared by the per-property modules vlib/p_*.py."""
import json
import os
import traceback

from . import core
from .inpkg import Profile, check_profile

T = lambda *p: os.path.join(core.HARNESS, *p)


class Built:
    """lazily built artefacts shared by the checks of one run"""
    cache = {}

    @classmethod
    def test_binary(cls, o, pkg_dir, files, name, **kw):
        key = ("t", name)
        if key not in cls.cache:
            b, out = core.go_test_build(pkg_dir, files, name, **kw)
            cls.cache[key] = (b, out)
        b, out = cls.cache[key]
        if b is None:
            o.violation("harness %s does not build against /repo: %s" % (name, out[-1500:]),
                        {"kind": "build", "output": out[-4000:]}, no_input=True)
        return b

    @classmethod
    def driver(cls, o, exe):
        key = ("d", exe)
        if key not in cls.cache:
            cls.cache[key] = core.lake_build([exe])
        ok, out = cls.cache[key]
        if not ok:
            o.violation("lean driver %s does not build: %s" % (exe, out[-1500:]), {"kind": "build", "output": out[-4000:]}, no_input=True)
        return ok


