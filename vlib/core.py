"""Shared machinery of the olareg verification checks (see DESIGN.md sections 4, 5, 8).

Everything a registered command needs lives under /verif; scratch goes to /verif/.work.
"""
import fcntl
import hashlib
import json
import os
import re
import shutil
import subprocess
import sys
import time

ROOT = os.path.dirname(os.path.dirname(os.path.abspath(__file__)))
REPO = os.environ.get("VERIF_REPO", "/repo")
WORK = os.path.join(ROOT, ".work")
BIN = os.path.join(WORK, "bin")
LEAN = os.path.join(ROOT, "lean")
HARNESS = os.path.join(ROOT, "harness")
EVID = os.path.join(ROOT, "evidence")
REPLAYS = os.path.join(ROOT, "replays")
ALLOWED_AXIOMS = {"propext", "Classical.choice", "Quot.sound"}
FORBIDDEN = re.compile(r"\b(sorry|admit|native_decide|bv_decide|implemented_by|unsafe)\b|^axiom |maxHeartbeats 0")

GOENV = dict(os.environ, GOFLAGS="-mod=mod", GOPROXY="off", GOSUMDB="off", GOTOOLCHAIN="local",
             CARGO_NET_OFFLINE="true", PIP_NO_INDEX="1")

TRUSTED_BASE = [
    "Lean 4.33 kernel (thorough tier re-checks with leanchecker)",
    "axioms allowed in property theorems: propext, Classical.choice, Quot.sound (printed per theorem); no native_decide, no bv_decide, no own axioms, no sorry",
    "hand-written Lean model; tied to /repo by the correspondence harness (differential runs of the real code against the model's compiled driver) and by regenerated fact tables",
    "modelled, not verified: encoding/json, net/http, regexp, go-digest, SHA-2 (uninterpreted, injective in the driver), os/kernel file semantics, time, Go scheduler and memory model",
]


def log(*a):
    print(*a, file=sys.stderr, flush=True)


def sh(cmd, cwd=None, env=None, timeout=None, check=True, stdin=None, capture=True):
    p = subprocess.run(cmd, cwd=cwd, env=env or GOENV, timeout=timeout, input=stdin,
                       stdout=subprocess.PIPE if capture else None,
                       stderr=subprocess.STDOUT if capture else None, text=True)
    if check and p.returncode != 0:
        raise RuntimeError("command failed (%d): %s\n%s" % (p.returncode, cmd, (p.stdout or "")[-4000:]))
    return p


class Lock:
    def __init__(self, name):
        os.makedirs(WORK, exist_ok=True)
        self.path = os.path.join(WORK, name + ".lock")

    def __enter__(self):
        self.f = open(self.path, "w")
        fcntl.flock(self.f, fcntl.LOCK_EX)
        return self

    def __exit__(self, *a):
        fcntl.flock(self.f, fcntl.LOCK_UN)
        self.f.close()


# ---------------------------------------------------------------- builds

def lake_build(targets):
    """incremental build of the named lake targets (modules or executables)"""
    with Lock("lake"):
        p = sh(["lake", "build"] + list(targets), cwd=LEAN, check=False, timeout=3000)
    return p.returncode == 0, p.stdout


def driver_path(exe):
    return os.path.join(LEAN, ".lake", "build", "bin", exe)


def prepare_harness_module():
    """the harness is its own module that replaces github.com/olareg/olareg by the tree under test; the go.mod
    actually used is generated under .work (so VERIF_REPO can point at a scratch worktree) next to a copy of
    that tree's go.sum"""
    d = os.path.join(WORK, "mod")
    os.makedirs(d, exist_ok=True)
    tag = hashlib.sha256(REPO.encode()).hexdigest()[:10]
    mod = os.path.join(d, "harness_%s.mod" % tag)
    with open(os.path.join(HARNESS, "go.mod")) as f:
        src = f.read()
    src = re.sub(r"replace github.com/olareg/olareg => \S+", "replace github.com/olareg/olareg => " + REPO, src)
    with open(mod, "w") as f:
        f.write(src)
    shutil.copyfile(os.path.join(REPO, "go.sum"), os.path.join(d, "harness_%s.sum" % tag))
    return mod


_OWNED = []


def _own(path):
    """remember a file of this process and remove it when the process ends"""
    if not _OWNED:
        import atexit
        atexit.register(lambda: [os.path.exists(f) and os.remove(f) for f in _OWNED])
    _OWNED.append(path)
    return path


def go_build(cmd_name, tags="verif", race=False, overlay=None, out_name=None):
    """build /verif/harness/cmd/<cmd_name> against the working tree of REPO.
    overlay: {path in the tree under test: replacement file} applied with go build -overlay (nothing is written to it)."""
    os.makedirs(BIN, exist_ok=True)
    # one binary per check process (removed at exit): concurrent checks, possibly against different trees, share nothing
    out = _own(os.path.join(BIN, "%s%s_%d" % (out_name or cmd_name, "_race" if race else "", os.getpid())))
    with Lock("gobuild"):
        mod = prepare_harness_module()
        if os.path.exists(out):
            os.remove(out)
        cmd = ["go", "build", "-modfile", mod, "-tags", tags, "-o", out]
        if race:
            cmd.append("-race")
        ov = None
        if overlay:
            ov = os.path.join(WORK, "overlay_build_%s_%d.json" % (out_name or cmd_name, os.getpid()))
            with open(ov, "w") as f:
                json.dump({"Replace": overlay}, f)
            cmd += ["-overlay", ov]
        p = sh(cmd + ["./cmd/" + cmd_name], cwd=HARNESS, check=False, timeout=900)
        if ov and os.path.exists(ov):
            os.remove(ov)
    if p.returncode != 0 or not os.path.exists(out):
        return None, p.stdout
    return out, p.stdout


def go_test_build(pkg_dir, test_files, name, race=False, extra_overlay=None, tags="verif"):
    """compile an in-package harness: the test files are added to the package by `go test -c -overlay`,
    nothing is written into /repo.  pkg_dir is relative to /repo ('' for the root package).
    Returns (path of the test binary | None, build output)."""
    os.makedirs(BIN, exist_ok=True)
    repl = {}
    for tf in test_files:
        repl[os.path.join(REPO, pkg_dir, "zz_verif_" + os.path.basename(tf))] = tf
    if extra_overlay:
        repl.update(extra_overlay)
    ov = os.path.join(WORK, "overlay_%s_%d.json" % (name, os.getpid()))
    with open(ov, "w") as f:
        json.dump({"Replace": repl}, f)
    out = _own(os.path.join(BIN, "%s_%d.test" % (name, os.getpid())))
    cmd = ["go", "test", "-c", "-tags", tags, "-vet=off", "-overlay", ov, "-o", out]
    if race:
        cmd.append("-race")
    cmd.append("./" + pkg_dir if pkg_dir else ".")
    try:
        with Lock("gobuild"):
            if os.path.exists(out):
                os.remove(out)
            p = sh(cmd, cwd=REPO, check=False, timeout=1200)
    finally:
        if os.path.exists(ov):
            os.remove(ov)
    if p.returncode != 0 or not os.path.exists(out):
        return None, p.stdout
    return out, p.stdout


def go_test_run(binary, run, env_extra, timeout=3000, cwd=None):
    env = dict(GOENV)
    env.update({k: str(v) for k, v in env_extra.items()})
    p = sh([binary, "-test.run", run, "-test.count=1", "-test.timeout", "%ds" % timeout, "-test.v"],
           cwd=cwd, env=env, check=False, timeout=timeout + 60)
    return p.returncode == 0, p.stdout


# ---------------------------------------------------------------- proof obligations

def inventory():
    with open(os.path.join(LEAN, "Audit", "inventory.json")) as f:
        return json.load(f)


def norm_stmt(s):
    return re.sub(r"\s+", " ", s).strip()


def lean_audit_raw(module, names):
    os.makedirs(os.path.join(WORK, "audit"), exist_ok=True)
    fn = os.path.join(WORK, "audit", "Audit_%s_%d.lean" % (module.replace(".", "_"), os.getpid()))
    with open(fn, "w") as f:
        f.write("import %s\nset_option pp.width 100000\n" % module)
        for n in names:
            f.write('#eval IO.println "@@CHECK %s"\n#check @%s\n#eval IO.println "@@AXIOMS %s"\n#print axioms %s\n' % (n, n, n, n))
    with Lock("lake"):
        p = sh(["lake", "env", "lean", fn], cwd=LEAN, check=False, timeout=1800)
    os.remove(fn)
    out = p.stdout
    res = {}
    cur, mode = None, None
    for line in out.splitlines():
        m = re.match(r"@@(CHECK|AXIOMS) (\S+)", line)
        if m:
            mode, cur = m.group(1), m.group(2)
            res.setdefault(cur, {"stmt": "", "axioms_raw": ""})
            continue
        if cur is None:
            continue
        if mode == "CHECK":
            res[cur]["stmt"] += line + "\n"
        else:
            res[cur]["axioms_raw"] += line + "\n"
    for n, r in res.items():
        r["stmt"] = norm_stmt(r["stmt"])
        raw = r["axioms_raw"]
        if "does not depend on any axioms" in raw:
            r["axioms"] = []
        else:
            m = re.search(r"depends on axioms: \[(.*?)\]", raw, re.S)
            r["axioms"] = [a.strip() for a in m.group(1).split(",")] if m else ["<unparsed>"]
        r["sha"] = hashlib.sha256(r["stmt"].encode()).hexdigest()[:16]
    return res, out, p.returncode


def import_closure(module):
    """the project files a module depends on (transitively), by reading `import` lines"""
    seen, todo = {}, [module]
    while todo:
        m = todo.pop()
        path = os.path.join(LEAN, m.replace(".", os.sep) + ".lean")
        if m in seen or not os.path.exists(path):
            continue
        seen[m] = path
        for line in open(path, encoding="utf-8"):
            mm = re.match(r"\s*import\s+(\S+)", line)
            if mm:
                todo.append(mm.group(1))
            elif line.strip() and not line.startswith("--") and not line.startswith("/-") and not line.startswith("import"):
                if not re.match(r"\s*(import|--|/-)", line):
                    pass
    return seen


def grep_forbidden(module=None):
    """sorry/admit/native_decide/... in the sources the module depends on (comments stripped)"""
    hits = []
    if module is not None:
        paths = sorted(import_closure(module).values())
    else:
        paths = []
        for base, _, files in os.walk(LEAN):
            if ".lake" in base:
                continue
            paths += [os.path.join(base, fn) for fn in files if fn.endswith(".lean")]
    for path in paths:
        in_block = 0
        for i, line in enumerate(open(path, encoding="utf-8"), 1):
            s = line
            if in_block:
                if "-/" in s:
                    in_block = 0
                    s = s.split("-/", 1)[1]
                else:
                    continue
            if "/-" in s:
                pre, rest = s.split("/-", 1)
                if "-/" in rest:
                    s = pre + rest.split("-/", 1)[1]
                else:
                    s = pre
                    in_block = 1
            s = s.split("--", 1)[0]
            if FORBIDDEN.search(s):
                hits.append("%s:%d: %s" % (os.path.relpath(path, LEAN), i, line.strip()))
    return hits


def audit(prop, thorough=False):
    """proof obligations of one property: Properties/Cxx.lean and, where present, its continuation Properties/Cxxb.lean"""
    a = audit1(prop, thorough)
    if re.fullmatch(r"C\d+", prop) and (prop + "b") in inventory():
        b = audit1(prop + "b", thorough)
        a = {"obligations": a["obligations"] + b["obligations"], "discharged": a["discharged"] + b["discharged"],
             "failed": a["failed"] + b["failed"], "theorems": {**a["theorems"], **b["theorems"]},
             "checker_cmd": a.get("checker_cmd", "") + " ; " + b.get("checker_cmd", "")}
    return a


def audit1(prop, thorough=False):
    """proof obligations of one property module: it builds, every inventoried theorem exists with the
    inventoried statement, uses only allowed axioms; no forbidden token in any source."""
    inv = inventory().get(prop, {"module": "Properties." + prop, "theorems": []})
    module = inv["module"]
    obligations, failed, details = 0, [], {}
    ok, out = lake_build([module])
    obligations += 1
    if not ok:
        failed.append("lake build %s failed: %s" % (module, out[-1500:]))
        return {"obligations": obligations + len(inv["theorems"]), "discharged": 0, "failed": failed, "theorems": {}}
    names = [t["name"] for t in inv["theorems"]]
    res, raw, rc = lean_audit_raw(module, names)
    for t in inv["theorems"]:
        n = t["name"]
        obligations += 1
        r = res.get(n)
        if r is None or not r["stmt"] or re.search(r"unknown (identifier|constant)|error:", r["stmt"], re.I):
            failed.append("theorem %s not found" % n)
            continue
        bad_ax = [a for a in r["axioms"] if a not in ALLOWED_AXIOMS]
        if bad_ax:
            failed.append("theorem %s depends on axioms %s" % (n, bad_ax))
            continue
        if r["sha"] != t["sha"]:
            failed.append("theorem %s: statement changed (inventory %s, now %s): %s" % (n, t["sha"], r["sha"], r["stmt"][:300]))
            continue
        details[n] = {"axioms": r["axioms"], "statement": r["stmt"][:600]}
    obligations += 1
    hits = grep_forbidden(module)
    if hits:
        failed.append("forbidden tokens: " + "; ".join(hits[:5]))
    if thorough:
        obligations += 1
        with Lock("lake"):
            p = sh(["lake", "env", "leanchecker", module], cwd=LEAN, check=False, timeout=3000)
        if p.returncode != 0:
            failed.append("leanchecker %s failed: %s" % (module, p.stdout[-800:]))
    return {"obligations": obligations, "discharged": obligations - len(failed), "failed": failed, "theorems": details,
            "checker_cmd": "cd /verif/lean && lake build %s && lake env lean <generated #print axioms file>%s" % (
                module, " && lake env leanchecker " + module if thorough else "")}


def update_inventory(props=None):
    """developer tool: recompute the statement inventory from Properties/Cxx.lean"""
    path = os.path.join(LEAN, "Audit", "inventory.json")
    inv = json.load(open(path)) if os.path.exists(path) else {}
    pdir = os.path.join(LEAN, "Properties")
    for fn in sorted(os.listdir(pdir)):
        m = re.match(r"(C\d+b?)\.lean$", fn)
        if not m or (props and m.group(1) not in props):
            continue
        prop = m.group(1)
        src = open(os.path.join(pdir, fn), encoding="utf-8").read()
        names = ["%s.%s" % (prop, n) for n in re.findall(r"^theorem\s+([A-Za-z0-9_'.]+)", src, re.M)]
        ok, out = lake_build(["Properties." + prop])
        if not ok:
            raise RuntimeError(out[-3000:])
        res, raw, rc = lean_audit_raw("Properties." + prop, names)
        ths = []
        for n in names:
            if n not in res or not res[n]["stmt"]:
                raise RuntimeError("no statement for %s\n%s" % (n, raw[-2000:]))
            bad = [a for a in res[n]["axioms"] if a not in ALLOWED_AXIOMS]
            if bad:
                raise RuntimeError("%s uses axioms %s" % (n, bad))
            ths.append({"name": n, "sha": res[n]["sha"], "axioms": res[n]["axioms"]})
        inv[prop] = {"module": "Properties." + prop, "theorems": ths}
        log("inventory %s: %d theorems" % (prop, len(ths)))
    os.makedirs(os.path.dirname(path), exist_ok=True)
    json.dump(inv, open(path, "w"), indent=1, sort_keys=True)


# ---------------------------------------------------------------- correspondence

def run_driver(exe, ops_path, out_path, args=()):
    with open(ops_path) as fin, open(out_path, "w") as fout:
        p = subprocess.run([driver_path(exe)] + list(args), stdin=fin, stdout=fout, stderr=subprocess.PIPE, text=True, timeout=3000)
    return p.returncode == 0, p.stderr


def split_histories(ops_lines, start="NEW"):
    """indices [(lo, hi)) of the histories in an op stream; a history starts at a line beginning with `start`"""
    idx = [i for i, l in enumerate(ops_lines) if l.split(" ", 1)[0] == start]
    if not idx or idx[0] != 0:
        idx = [0] + idx
    return [(idx[k], idx[k + 1] if k + 1 < len(idx) else len(ops_lines)) for k in range(len(idx))]


def read_lines(path):
    with open(path, encoding="utf-8", errors="replace") as f:
        return [l.rstrip("\n") for l in f]


SLOW_SKIPPED = [0]


def first_diffs(ops, impl, model, view=None, limit=20):
    """compare response streams line by line (after projection by `view`); returns [(line_no, op, impl, model)]"""
    diffs = []
    n = min(len(impl), len(model), len(ops))
    for i in range(n):
        a, b = impl[i], model[i]
        if a.startswith("~slow "):
            # the harness measured more real time than its clock normalisations allow for (a loaded machine): the store's own
            # one-second revalidation and tick windows have moved; the answer is printed but not judged
            SLOW_SKIPPED[0] += 1
            continue
        if view is not None:
            pa, pb = view(ops[i], a), view(ops[i], b)
            if pa is None and pb is None:
                continue
        else:
            pa, pb = a, b
        if pa != pb:
            diffs.append((i, ops[i], a, b))
            if len(diffs) >= limit:
                break
    if len(impl) != len(ops) or len(model) != len(ops):
        diffs.append((n, "<stream length>", "impl=%d ops=%d" % (len(impl), len(ops)), "model=%d" % len(model)))
    return diffs


def ddmin(lines, test, keep=lambda l: False):
    """delta debugging on a list of lines: smallest sublist (locally) for which test(sub) is still True.
    Lines for which keep(l) is True are never removed."""
    cur = list(lines)
    n = 2
    while len(cur) >= 2:
        chunk = max(1, len(cur) // n)
        reduced = False
        i = 0
        while i < len(cur):
            cand = cur[:i] + [l for l in cur[i:i + chunk] if keep(l)] + cur[i + chunk:]
            if len(cand) < len(cur) and test(cand):
                cur = cand
                n = max(n - 1, 2)
                reduced = True
            else:
                i += chunk
        if not reduced:
            if chunk == 1:
                break
            n = min(n * 2, len(cur))
    return cur


# ---------------------------------------------------------------- outcome

class Outcome:
    def __init__(self, prop, tier, seed):
        self.prop, self.tier, self.seed = prop, tier, seed
        self.t0 = time.time()
        self.violations = []      # (what, replay_path, tail)
        self.known = []           # text
        self.cov = {"evaluations": 0, "distinct_nontrivial": 0, "rule": "", "samples": [],
                    "obligations": 0, "discharged": 0, "checker_cmd": "", "trusted_base": list(TRUSTED_BASE)}
        self.assumptions = []
        self.notes = {}

    def add_audit(self, a):
        self.cov["obligations"] += a["obligations"]
        self.cov["discharged"] += a["discharged"]
        self.cov["checker_cmd"] = a.get("checker_cmd", self.cov["checker_cmd"])
        self.cov.setdefault("theorems", {}).update(a.get("theorems", {}))
        for f in a["failed"]:
            self.violation("proof obligation no longer checks: " + f, {"kind": "obligation", "detail": f}, no_input=True)

    def add_obligation(self, ok, what):
        self.cov["obligations"] += 1
        if ok:
            self.cov["discharged"] += 1
        else:
            self.violation("obligation no longer checks: " + what, {"kind": "obligation", "detail": what}, no_input=True)

    def violation(self, what, replay_obj, no_input=False):
        os.makedirs(REPLAYS, exist_ok=True)
        k = len(self.violations) + 1
        path = os.path.join(REPLAYS, "%s-%s-%d-%d.json" % (self.prop, self.tier, self.seed, k))
        replay_obj = dict(replay_obj)
        replay_obj.setdefault("property", self.prop)
        replay_obj.setdefault("what", what)
        replay_obj.setdefault("seed", self.seed)
        with open(path, "w") as f:
            json.dump(replay_obj, f, indent=1)
        self.violations.append((what, path, " no-failing-input-found" if no_input else ""))

    def known_finding(self, text):
        if text not in self.known:
            self.known.append(text)

    def finish(self):
        wall = time.time() - self.t0
        os.makedirs(EVID, exist_ok=True)
        cov = self.cov
        cov["samples"] = cov["samples"][:12]
        ev = {"property_id": self.prop, "tier": self.tier, "seed": self.seed, "level": "proof", "coverage": cov,
              "assumptions": self.assumptions, "wall_s": round(wall, 2), "violations": len(self.violations),
              "known_findings_printed": self.known, "notes": self.notes}
        with open(os.path.join(EVID, self.prop + ".json"), "w") as f:
            json.dump(ev, f, indent=1)
        for k in self.known:
            print("KNOWN-FINDING: property=%s %s" % (self.prop, k))
        for what, path, tail in self.violations:
            log("violation: " + what)
            print("VIOLATION property=%s replay=%s%s" % (self.prop, path, tail))
        sys.stdout.flush()
        return 1 if self.violations else 0


def known_findings():
    p = os.path.join(ROOT, "known_findings.json")
    if not os.path.exists(p):
        return {"open": [], "fixed": []}
    return json.load(open(p))


def seed_from_env(default=1):
    try:
        return int(os.environ.get("VERIF_SEED", default))
    except ValueError:
        return default
