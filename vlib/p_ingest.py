"""C17: converting fallback-tag referrers (store.indexIngest) against the Upd.Ingest model."""
import collections
import os

from . import core
from .common import Built, T
from .inpkg import Profile, check_profile, history_of, mon_parse

# ------------------------------------------------------------------ ingest (C17)


def _view(op, line):
    """the model appends its branch coverage after ' #cov'; it is measured, not compared"""
    return line.split(" #cov", 1)[0]


def ingest_profile(o):
    b = Built.test_binary(o, "internal/store", [T("inpkg", "store", "ingest_harness_test.go")], "store_ingest")
    if b is None or not Built.driver(o, "ingestdriver"):
        return None
    work = os.path.join(core.WORK, "ingest")
    os.makedirs(work, exist_ok=True)

    def run(env):
        env = dict(env)
        env.setdefault("VERIF_WORK", work)
        return core.go_test_run(b, "^TestVerifIngest$", env)
    return Profile("ingest", run, "ingestdriver", view=_view)


C17_MONITORS = {"convert-wrong-descriptor", "convert-lost-referrer", "convert-extra-referrer", "convert-lost-tag", "convert-lost-manifest",
                "convert-lost-blob", "not-marked-converted", "reconvert-differs", "interrupted-reconvert-differs",
                "ingest-hangs", "ingest-error"}

REQUESTS = ("INGEST", "REOPEN", "CRASH")

# fixed witnesses of the confirmed findings (shrunk replays of the first runs): replayed on every run, so that a tree
# without the repair is reported at once and deterministically
WITNESSES = {
    "F21-stale-index-dir": [
        "NEW",
        "MAN m1 subj=S1 mt=ocim cfgmt=cfg at= ann= len=555",
        "IDX m1/ocim/9/cfg/",
        "TOP dig=I(m1/ocim/9/cfg/) mt=ocii tag=fbS1 subj= size=0",
        "INGEST store=dir",
    ],
    "F23-valid-then-stale": [
        "NEW",
        "MAN m1 subj=S1 mt=ocim cfgmt=cfg at= ann= len=555",
        "MAN m2 subj=S1 mt=ocim cfgmt=cfg at= ann= len=555",
        "IDX m1/ocim/555/cfg/",
        "TOP dig=I(m1/ocim/555/cfg/) mt=ocii tag=fbS1 subj= size=0",
        "IDX m2/ocim/9/cfg/",
        "TOP dig=I(m2/ocim/9/cfg/) mt=ocii tag=fbS9 subj= size=0",
        "INGEST store=mem",
        "INGEST store=dir",
    ],
    "F23-two-valid-one-subject": [
        "NEW",
        "MAN m1 subj=S1 mt=ocim cfgmt=cfg at= ann= len=555",
        "MAN m2 subj=S1 mt=ocim cfgmt=cfg at= ann= len=555",
        "IDX m1/ocim/555/cfg/",
        "TOP dig=I(m1/ocim/555/cfg/) mt=ocii tag=fbS1 subj= size=0",
        "IDX m2/ocim/555/cfg/",
        "TOP dig=I(m2/ocim/555/cfg/) mt=ocii tag=fbS9 subj= size=0",
        "INGEST store=mem",
        "INGEST store=dir",
    ],
    "F30-regenerated-equals-old-response": [
        "NEW",
        "MAN m1 subj=S1 mt=ocim cfgmt=cfg at= ann= len=555",
        "IDX m1/ocim/555/cfg/",
        "TOP dig=I(m1/ocim/555/cfg/) mt=ocii tag= subj=S1 size=0",
        "IDX m1/ocim/9/cfg/",
        "TOP dig=I(m1/ocim/9/cfg/) mt=ocii tag=fbS1 subj= size=0",
        "INGEST store=dir",
        "INGEST store=mem",
    ],
    "F30-interrupted-then-repeated": [
        "NEW",
        "MAN m1 subj=S1 mt=ocim cfgmt=cfg at= ann= len=555",
        "IDX m1/ocim/9/cfg/",
        "TOP dig=I(m1/ocim/9/cfg/) mt=ocii tag=fbS1 subj= size=0",
        "CRASH store=dir k=1",
    ],
    "F34-children-after-restart": [
        "NEW",
        "MAN m4 subj= mt=ocim cfgmt=cfg at= ann= len=394",
        "MAN m5 subj=S2 mt=ocii cfgmt=none at= ann= len=401 kids=m4/ocim/394//",
        "IDX m5/dockm/399//",
        "TOP dig=I(m5/dockm/399//) mt=ocii tag=fbS2 subj= size=0",
        "TOP dig=I(m5/dockm/399//) mt=ocii tag=t3 subj= size=0",
        "REOPEN store=dir",
    ],
}



def _coverage(o, prof, label):
    """branch tags of the conversion, summed over the INGEST requests of one run (taken from the model's answers,
    which were just compared with the implementation's)"""
    p = prof.paths(label)
    if not (os.path.exists(p["ops"]) and os.path.exists(p["model"])):
        return
    tot, layouts_with, mx = collections.Counter(), collections.Counter(), collections.Counter()
    layouts = requests = 0
    for op, ans in zip(core.read_lines(p["ops"]), core.read_lines(p["model"])):
        kind = op.split(" ", 1)[0]
        if kind == "NEW":
            layouts += 1
        if kind in REQUESTS:
            requests += 1
        if " #cov " not in ans or not op.startswith("INGEST store=mem"):
            continue
        for kv in ans.split(" #cov ", 1)[1].split():
            k, v = kv.split("=")
            v = int(v)
            tot[k] += v
            layouts_with[k] += 1 if v > 0 else 0
            mx[k] = max(mx[k], v)
    c = o.notes.setdefault("conversion_coverage", {})
    c[label] = {"layouts": layouts, "open_requests": requests,
                "branches": {k: {"total": tot[k], "layouts": layouts_with[k], "max_per_layout": mx[k]} for k in sorted(tot)}}
    o.cov["layouts"] = o.cov.get("layouts", 0) + layouts
    o.cov["open_requests"] = o.cov.get("open_requests", 0) + requests


def _report_each_monitor(o, prof, label, limit=4):
    """check_profile reports one violation when model and implementation disagree; the model follows the repaired
    code, so on an unrepaired tree every defect is a disagreement. Report each monitor with its own shrunk replay."""
    p = prof.paths(label)
    if not os.path.exists(p["mon"]):
        return
    ops = core.read_lines(p["ops"])
    seen = set()
    for (ln, name, detail) in mon_parse(core.read_lines(p["mon"])):
        if name in seen or name not in C17_MONITORS or len(seen) >= limit:
            continue
        seen.add(name)
        hist = history_of(ops, ln - 1, prof.start)

        def still_fires(sub, name=name):
            _, _, mn = prof.replay(sub, tag="shrink")
            return any(m[1] == name for m in mon_parse(mn or []))
        shrunk = core.ddmin(hist, still_fires)
        im, mo, mn = prof.replay(shrunk, tag="shrunk")
        o.violation("monitor %s fails on the implementation: %s" % (name, detail[:400]),
                    {"kind": "monitor", "profile": label, "monitor": name, "detail": detail, "ops": shrunk,
                     "implementation": im, "model": mo, "monitors": mn,
                     "replay_cmd": "bin/check %s --replay <this file>" % o.prop})


def _witnesses(o, prof):
    """replay the fixed witnesses; a monitor hit or a disagreement with the model is a violation with that replay"""
    ok = True
    for name, ops in WITNESSES.items():
        im, mo, mn = prof.replay(list(ops), tag="witness")
        hits = [m for m in mon_parse(mn or []) if m[1] in C17_MONITORS]
        diffs = core.first_diffs(prof.answered(ops), im or [], mo or [], prof.view, limit=1) if im is not None else [(0, "", "", "")]
        o.cov["evaluations"] += len(ops)
        if hits or diffs:
            ok = False
            what = ("witness %s: monitor %s fails on the implementation: %s" % (name, hits[0][1], hits[0][2][:300])) if hits else \
                   ("witness %s: model and implementation disagree" % name)
            o.violation(what, {"kind": "monitor" if hits else "correspondence", "profile": "ingest-witness", "monitor": hits[0][1] if hits else None,
                               "detail": hits[0][2] if hits else None, "ops": list(ops), "implementation": im, "model": mo, "monitors": mn,
                               "replay_cmd": "bin/check %s --replay <this file>" % o.prop}, no_input=not hits)
    o.notes["witnesses_replayed"] = sorted(WITNESSES)
    return ok


def _run(o, prof, mode, params, label):
    before = len(o.violations)
    r = check_profile(o, prof, mode, params, label, C17_MONITORS, nontrivial=lambda a, b: a.split(" ", 1)[0] in REQUESTS)
    _coverage(o, prof, label)
    if r["diffs"] and r["monitor_hits"]:
        _report_each_monitor(o, prof, label)
    return len(o.violations) == before


def check_C17(o, tier):
    os.environ["VERIF_COV"] = "1"   # the driver appends its branch coverage to the INGEST answers
    o.add_audit(core.audit("C17", tier == "thorough"))
    prof = ingest_profile(o)
    if prof is None:
        return
    o.cov["rule"] = ("ingest profile: generated legacy OCI layouts (2-6 artifacts over sha256 and sha512 subjects, image and index "
                     "artifacts; 1-3 fallback tags whose indexes are accurate, stale in size / artifactType / annotations / media "
                     "type, mixed-subject, empty, list missing or non-JSON blobs, or are not indexes; stale tag names; coexisting "
                     "converted responses; the same index under a fallback and an ordinary tag; pre-converted layouts) written to "
                     "a directory and opened with the memory store over it and with the writable directory store, opened twice, "
                     "and re-opened after an interrupted conversion (any subset of the blobs it writes, stray temp files); plus "
                     "the exhaustive family of two-artifact layouts with two fallback tags and an optional converted response. "
                     "Every observation (index entries, children, per-subject referrers, tags, blobs, index.json on disk) is "
                     "compared with Upd.ingest, which is also run with the reverse map order; distinct_nontrivial counts "
                     "distinct (request, observation) pairs of the open requests")
    if not _witnesses(o, prof):
        prof.cleanup()
        return
    def named_input():
        """has a violation with a failing input (a monitor hit) been reported already?"""
        return any(not tail for (_, _, tail) in o.violations)
    # a small run first: on a tree where the conversion hangs or fails this reports quickly; when the model and the
    # implementation merely disagree there, the larger streams go on looking for an input on which a monitor fails
    if not _run(o, prof, "gen", {"VERIF_SEED": o.seed + 1000, "VERIF_N": 40}, "ingest-smoke") and named_input():
        prof.cleanup()
        return
    if not _run(o, prof, "enum", {"VERIF_DEPTH": 1 if tier == "quick" else 2}, "ingest-enum") and named_input():
        prof.cleanup()
        return
    if tier == "quick":
        _run(o, prof, "gen", {"VERIF_SEED": o.seed, "VERIF_N": 2000}, "ingest-random")
    else:
        for k in range(3):
            if not _run(o, prof, "gen", {"VERIF_SEED": o.seed + 7919 * k, "VERIF_N": 12000}, "ingest-random%d" % k):
                break
    o.cov["exhaustive"] = False
    prof.cleanup()


def extra_C14(o, tier):
    """C14 on legacy layouts: every generated layout is also opened by a read-only directory store and by a memory store
    over the directory; the directory is snapshotted before and after (monitor C14.ro-open-changed)"""
    prof = ingest_profile(o)
    if prof is None:
        return
    check_profile(o, prof, "gen", {"VERIF_SEED": o.seed + 31, "VERIF_N": 300 if tier == "quick" else 6000, "VERIF_RO_PROBE": 1}, "ingest-ro",
                  {"C14.ro-open-changed"}, nontrivial=lambda a, b: a.split(" ", 1)[0] in REQUESTS)
    o.cov["rule"] = o.cov.get("rule", "") + (" | ingest-ro: generated legacy layouts (fallback tags to convert) opened read-only and under a "
                                             "memory store, directory snapshot compared")
    prof.cleanup()


def extra_C09(o, tier):
    """C09 "every history of ... conversions and every crash point": the conversion of fallback tags interrupted after any
    subset of the blobs it writes (and before index.json is saved), then repeated by a fresh open - the CRASH requests of the
    ingest profile - judged by the conversion monitors (nothing lost, same observations as an uninterrupted conversion)"""
    prof = ingest_profile(o)
    if prof is None:
        return
    for name in ("F30-interrupted-then-repeated",):
        ops = WITNESSES[name]
        im, mo, mn = prof.replay(list(ops), tag="witness")
        hits = [m for m in mon_parse(mn or []) if m[1] in C17_MONITORS]
        o.cov["evaluations"] += len(ops)
        if hits:
            o.violation("interrupted conversion (%s): monitor %s fails on the implementation: %s" % (name, hits[0][1], hits[0][2][:300]),
                        {"kind": "monitor", "profile": "ingest-witness", "monitor": hits[0][1], "detail": hits[0][2], "ops": list(ops),
                         "implementation": im, "model": mo, "monitors": mn, "replay_cmd": "bin/check C17 --replay <this file>"})
    check_profile(o, prof, "gen", {"VERIF_SEED": o.seed + 77, "VERIF_N": 400 if tier == "quick" else 8000}, "ingest-crash",
                  C17_MONITORS, nontrivial=lambda a, b: a.split(" ", 1)[0] in REQUESTS)
    o.cov["rule"] = o.cov.get("rule", "") + (" | ingest-crash: generated legacy layouts whose conversion is interrupted after any subset of the "
                                             "blobs it writes and then repeated (CRASH requests of the C17 harness)")
    prof.cleanup()


CHECKS = {"C17": check_C17}
PROFILES = {"ingest": ingest_profile}
