"""C19: every setting has its documented effect, for every combination.

Steps (DESIGN.md section 5): regenerate lean/Generated/{Flags,Routes,Defaults}.lean from the tree under test with
tools/goextract, rebuild and audit Properties.C19 (the `decide` obligations over the regenerated tables are re-checked
by the kernel whenever a table changed), then run the correspondence profiles:

  defaults   config.SetDefaults on generated configurations           (harness/cmd/cfg, external)
  ratelimit  the limiter of Server.ServeHTTP with a virtual clock     (harness/inpkg/olareg, in-package by overlay)
  switches   olareg.New for every combination of the switches x store (harness/cmd/cfg)
  lifecycle  Run / Shutdown through the public API (F26a, F26b)        (harness/cmd/cfg)
  binary     the built `olareg serve` per flag combination, SIGTERM   (harness/cmd/cfg; sample in quick, all in thorough)
"""
import json
import os
import re
import shutil

from . import core
from .common import Built, T
from .inpkg import Profile, check_profile

MYWORK = os.path.join(core.WORK, "c19")
GEN_FILES = ("Flags.lean", "Routes.lean", "Defaults.lean")


# ------------------------------------------------------------------ regenerated facts

def regenerate(o):
    """run the extractor on the tree under test; returns (ok, list of files whose content changed)"""
    os.makedirs(MYWORK, exist_ok=True)
    gen_dir = os.path.join(core.LEAN, "Generated")
    before = {}
    for f in GEN_FILES:
        p = os.path.join(gen_dir, f)
        before[f] = open(p, encoding="utf-8").read() if os.path.exists(p) else None
    exe = os.path.join(MYWORK, "goextract_%d" % os.getpid())
    with core.Lock("gobuild"):
        p = core.sh(["go", "build", "-o", exe, "."], cwd=os.path.join(core.ROOT, "tools", "goextract"), check=False, timeout=600)
    if p.returncode != 0:
        o.violation("tools/goextract does not build: " + p.stdout[-1500:], {"kind": "build", "output": p.stdout[-4000:]}, no_input=True)
        return False, []
    env = dict(core.GOENV, VERIF_REPO=core.REPO)
    with core.Lock("lake"):   # nobody builds while the tables are being replaced
        p = core.sh([exe, gen_dir], env=env, check=False, timeout=300)
    os.remove(exe)
    if p.returncode != 0:
        o.violation("tools/goextract failed on the tree under test: " + p.stdout[-1500:], {"kind": "build", "output": p.stdout[-4000:]}, no_input=True)
        return False, []
    changed = []
    for f in GEN_FILES:
        now = open(os.path.join(gen_dir, f), encoding="utf-8").read()
        if now != before[f]:
            changed.append(f)
        for m in re.finditer(r'"(unrecognised[^"]*)"', now):
            o.notes.setdefault("unrecognised", []).append("%s: %s" % (f, m.group(1)))
    return True, changed


def generated_fact(name):
    """value of `def <name> : String := "..."` in Generated/Routes.lean"""
    src = open(os.path.join(core.LEAN, "Generated", "Routes.lean"), encoding="utf-8").read()
    m = re.search(r"def %s : String := \"([^\"]*)\"" % re.escape(name), src)
    return m.group(1) if m else None


def failed_theorems(audit_failed):
    """map `error: Properties/C19.lean:<line>` of a failed build to the enclosing theorem names"""
    lines = []
    for f in audit_failed:
        lines += [int(m.group(1)) for m in re.finditer(r"Properties/C19\.lean:(\d+):", f)]
    if not lines:
        return []
    src = open(os.path.join(core.LEAN, "Properties", "C19.lean"), encoding="utf-8").read().splitlines()
    names = []
    for ln in lines:
        for i in range(min(ln, len(src)) - 1, -1, -1):
            m = re.match(r"(theorem|example)\s*([A-Za-z0-9_']*)", src[i])
            if m:
                n = "C19." + m.group(2) if m.group(1) == "theorem" else "example at line %d" % (i + 1)
                if n not in names:
                    names.append(n)
                break
    return names


def distribution(prof, label):
    """measured distribution of what a generated stream exercised (read from the run directory before cleanup)"""
    p = prof.paths(label)
    if not (os.path.exists(p["ops"]) and os.path.exists(p["impl"])):
        return {}
    ops, impl = core.read_lines(p["ops"]), core.read_lines(p["impl"])
    d = {}
    if label == "ratelimit":
        sec = 1000000000
        c = {"served": 0, "blocked": 0, "windows_opened": 0, "in_window_exactly_at_1s": 0, "opened_at_1s_plus_1ns": 0,
             "in_window_at_1s_minus_1ns": 0, "histories_with_2+_addresses": 0, "limiter_off_requests": 0, "via_xff": 0, "via_xff_list": 0,
             "via_remoteaddr": 0, "ipv6_peer": 0}
        addrs, prev_first = set(), {}
        for o, a in zip(ops, impl):
            t, r = o.split(), a.split()
            if t[0] == "NEW":
                if len(addrs) > 1:
                    c["histories_with_2+_addresses"] += 1
                addrs, prev_first = set(), {}
                continue
            if t[0] == "FLOOD":
                c["floods_of_1100_addresses"] = c.get("floods_of_1100_addresses", 0) + 1
                continue
            addrs.add(t[1])
            c["served" if r[0] == "S" else "blocked"] += 1
            c[{"x": "via_xff", "l": "via_xff_list", "r": "via_remoteaddr"}[t[2]]] += 1
            if int(t[1]) >= 100:
                c["ipv6_peer"] += 1
            if len(r) < 3 or r[1] == "-":
                c["limiter_off_requests"] += 1
                continue
            now, first, cnt = int(t[4]), int(r[1]), int(r[2])
            if cnt == 1:
                c["windows_opened"] += 1
                if t[1] in prev_first and now - prev_first[t[1]] == sec + 1:
                    c["opened_at_1s_plus_1ns"] += 1
            else:
                if now - first == sec:
                    c["in_window_exactly_at_1s"] += 1
                if now - first == sec - 1:
                    c["in_window_at_1s_minus_1ns"] += 1
            prev_first[t[1]] = first
        d = c
    elif label == "cfgswitches":
        combos, answers = set(), {}
        for o, a in zip(ops, impl):
            t = o.split()
            if t[0] == "NEW":
                combos.add(" ".join(x for x in t[1:] if x.split("=")[0] in ("push", "del", "bdel", "ref", "ro", "store")))
            elif t[0] == "P":
                answers.setdefault(t[1], set()).add(" ".join(a.split()[:2]))
        d = {"distinct_switch_store_combinations": len(combos),
             "distinct_answers_per_probe": {k: sorted(v) for k, v in sorted(answers.items())}}
    elif label == "cfgbinary":
        d = {"binary_runs": sum(1 for o in ops if o.startswith("BIN")), "early_signal_runs": sum(1 for o in ops if "sig=" in o),
             "exit_status": sorted({x for a in impl for x in a.split() if x.startswith("exit=")})}
    return d


# ------------------------------------------------------------------ profiles

def _cfg_profile(o, name):
    b = Built.cache.get(("cfg",))
    if b is None:
        b = core.go_build("cfg")
        Built.cache[("cfg",)] = b
    exe, out = b
    if exe is None:
        o.violation("harness cmd/cfg does not build against the tree under test: %s" % out[-1500:], {"kind": "build", "output": out[-4000:]}, no_input=True)
        return None
    if not Built.driver(o, "configdriver"):
        return None
    scratch = os.path.join(MYWORK, "scratch_%d" % os.getpid())

    def run(env):
        e = dict(core.GOENV)
        e.update({k: str(v) for k, v in env.items()})
        e["VERIF_PROFILE"] = name
        e["VERIF_SCRATCH"] = scratch
        p = core.sh([exe], env=e, check=False, timeout=3000)
        return p.returncode == 0, p.stdout
    return Profile("cfg" + name, run, "configdriver")


def defaults_profile(o):
    return _cfg_profile(o, "defaults")


def switches_profile(o):
    return _cfg_profile(o, "switches")


def lifecycle_profile(o):
    return _cfg_profile(o, "lifecycle")


def olareg_binary(o):
    """`go build ./cmd/olareg` from the tree under test"""
    key = ("olareg-bin",)
    if key not in Built.cache:
        os.makedirs(os.path.join(MYWORK, "bin"), exist_ok=True)
        out = core._own(os.path.join(MYWORK, "bin", "olareg_%d" % os.getpid()))
        with core.Lock("gobuild"):
            if os.path.exists(out):
                os.remove(out)
            p = core.sh(["go", "build", "-o", out, "./cmd/olareg"], cwd=core.REPO, check=False, timeout=900)
        Built.cache[key] = (out if p.returncode == 0 and os.path.exists(out) else None, p.stdout)
    exe, log = Built.cache[key]
    if exe is None:
        o.violation("cmd/olareg does not build: " + log[-1500:], {"kind": "build", "output": log[-4000:]}, no_input=True)
    return exe


def binary_profile(o):
    exe = olareg_binary(o)
    prof = _cfg_profile(o, "binary")
    if exe is None or prof is None:
        return None
    inner = prof.impl_run
    prof.impl_run = lambda env: inner(dict(env, VERIF_OLAREG_BIN=exe))
    return prof


CLOCK_SRC = """package olareg

// added by the C19 check through `go test -overlay` (never written into the tree): a settable clock for the limiter
import "time"

var (
	verifClock    time.Time
	verifClockSet bool
)

const verifClockWired = %s

func verifNow() time.Time {
	if verifClockSet {
		return verifClock
	}
	return time.Now()
}
"""


def ratelimit_profile(o):
    """in-package harness for package olareg; olareg.go is compiled from a copy whose time.Now() calls go through
    verifNow() so that the limiter sees the harness's virtual clock (hook mode); without that: shift mode"""
    od = os.path.join(MYWORK, "overlay_%d" % os.getpid())
    os.makedirs(od, exist_ok=True)
    src = open(os.path.join(core.REPO, "olareg.go"), encoding="utf-8").read()
    n = src.count("time.Now()")
    wired = n >= 1 and "verifNow" not in src and os.environ.get("VERIF_C19_CLOCK") != "shift"
    extra = {}
    if wired:
        with open(os.path.join(od, "olareg.go"), "w", encoding="utf-8") as f:
            f.write(src.replace("time.Now()", "verifNow()"))
        extra[os.path.join(core.REPO, "olareg.go")] = os.path.join(od, "olareg.go")
    with open(os.path.join(od, "zz_verif_clock.go"), "w", encoding="utf-8") as f:
        f.write(CLOCK_SRC % ("true" if wired else "false"))
    extra[os.path.join(core.REPO, "zz_verif_clock.go")] = os.path.join(od, "zz_verif_clock.go")
    b = Built.test_binary(o, "", [T("inpkg", "olareg", "ratelimit_harness_test.go")], "olareg_ratelimit", extra_overlay=extra)
    if b is None and wired:
        # the rewritten file does not compile (e.g. the time import became unused): fall back to shift mode
        Built.cache.pop(("t", "olareg_ratelimit"), None)
        o.violations.pop()
        wired = False
        extra.pop(os.path.join(core.REPO, "olareg.go"))
        with open(os.path.join(od, "zz_verif_clock.go"), "w", encoding="utf-8") as f:
            f.write(CLOCK_SRC % "false")
        b = Built.test_binary(o, "", [T("inpkg", "olareg", "ratelimit_harness_test.go")], "olareg_ratelimit", extra_overlay=extra)
    shutil.rmtree(od, ignore_errors=True)
    if b is None or not Built.driver(o, "configdriver"):
        return None
    o.notes["ratelimit_clock"] = "hook" if wired else "shift"
    clock = {"VERIF_CLOCK": "hook"} if wired else {"VERIF_CLOCK": "shift", "VERIF_BOUNDARY": "0"}
    return Profile("ratelimit", lambda env: core.go_test_run(b, "^TestVerifRateLimit$", dict(env, **clock)), "configdriver")


# ------------------------------------------------------------------ known findings

# Entries proposed for /verif/known_findings.json ("open"); see notes/design-C19.md.  Until the maintainer has
# entered them there, they are taken from here; an entry of the file with the same id wins.
PROPOSED_KNOWN = [
    {"id": "F24-dir", "property": "C19", "monitor": "referrers-switch-only-referrers:dir", "cause": "restart:referrers-on->off:dir",
     "witness": "NEW push=t del=t bdel=t ref=t ro=f store=dir seedref=t ; REOPEN f ; P mget",
     "what": "a directory written with the referrers API on and reopened with it off (directory store): the first request of a repository that "
             "loads index.json is answered 404 NAME_UNKNOWN (indexIngest refuses the converted index), later ones are served"},
    {"id": "F24-mem", "property": "C19", "monitor": "referrers-switch-only-referrers:mem", "cause": "restart:referrers-on->off:mem",
     "witness": "NEW push=t del=t bdel=t ref=t ro=f store=mem seedref=t ; REOPEN f ; P mget",
     "what": "the same directory opened by the memory store with the referrers API off: every request to the repository is answered 500"},
]


def _known(prop="C19"):
    listed = [k for k in core.known_findings().get("open", []) if k.get("property") == prop]
    ids = {k.get("id") for k in listed}
    return listed + [k for k in PROPOSED_KNOWN if k["id"] not in ids]


def known_matcher(o):
    """known(monitor, shrunk_ops, detail) for check_profile: an open entry of known_findings.json matches when its
    monitor fired and the cause signature computed from the shrunk history equals the entry's"""
    entries = _known()

    def cause_of(monitor, ops):
        toks = [l.split() for l in ops]
        if monitor.startswith("referrers-switch-only-referrers:"):
            news = [t for t in toks if t[0] == "NEW"]
            store = "dir"
            for t in news:
                for kv in t[1:]:
                    if kv.startswith("store="):
                        store = kv[6:]
            written_on = any("seedref=t" in t for t in news)
            off = any(t[0] == "REOPEN" and t[1:] == ["f"] for t in toks) or any("ref=f" in t for t in news)
            if written_on and off:
                return "restart:referrers-on->off:%s" % store
        if monitor.startswith("sigterm-stops-server:"):
            if any(t[:2] == ["LC", "early"] for t in toks):
                return "shutdown-before-run-published"
            if any(t[:2] == ["LC", "load"] and len(t) > 2 and int(t[2]) > 0 for t in toks):
                return "shutdown-holds-mu:limiter-needs-mu"
        return None

    def known(monitor, shrunk, detail):
        c = cause_of(monitor, shrunk)
        for k in entries:
            if k.get("monitor") == monitor and c is not None and k.get("cause") == c:
                return "%s monitor=%s cause=%s witness=%s — %s" % (k.get("id"), monitor, c, " ; ".join(shrunk), k.get("what", ""))
        return None
    return known


# ------------------------------------------------------------------ the check

C19_MONITORS = {
    # defaults
    "defaults-idempotent", "explicit-kept", "defaults-total",
    # rate limit
    "rate-window", "rate-isolation", "rate-off", "retry-after", "one-entry-per-address", "limiter-missing",
    # switches, warnings, store
    "warnings-on-every-response", "rate-limit-unexpected", "read-unaffected-by-switches", "switch-off-refuses", "switch-on-serves",
    "read-only-denies-writes",
    "referrers-switch-only-referrers:dir", "referrers-switch-only-referrers:mem",
    # termination
    "sigterm-stops-server:early", "sigterm-stops-server:load", "sigterm-stops-server:binary", "store-closed-once", "storage-intact",
}


def check_C19(o, tier):
    thorough = tier == "thorough"
    ok, changed = regenerate(o)
    o.notes["generated_changed"] = changed
    if not ok:
        return
    # the regenerated tables may contain shapes the extractor does not understand: each is an explicit entry and
    # makes the `decide` obligations of Properties.C19 fail; it is reported by name as well
    for u in o.notes.get("unrecognised", []):
        o.add_obligation(False, "the extractor met a shape it does not understand: " + u)
    a = core.audit("C19", thorough)
    o.add_audit(a)
    if a["failed"]:
        # the obligations over the regenerated tables name what no longer holds; say which table moved
        o.notes["hint"] = "regenerated tables that differ from the accepted copies: %s" % (changed or "none")
        names = failed_theorems(a["failed"])
        o.notes["failed_theorems"] = names
        if names:
            core.log("C19: obligations that no longer check on the regenerated tables: " + ", ".join(names))
    o.cov["rule"] = ("C19: (1) SetDefaults on generated configurations (each of 18 fields unset/explicit, numbers from a pool with 0, negative, "
                     "default and other values) against Cfg.setDefaults; (2) arrival sequences of 4-25 requests from 1-3 client addresses (X-Forwarded-For "
                     "single/list, RemoteAddr with varying ports, IPv6 peer) with a virtual clock, bursts, steps to first+1s-1ns/+0/+1ns, 11 s gaps, limits "
                     "{-1,0,1,2,3,5,8}: decision, window start and count after every request against Cfg.RL.step; (3) every combination of push/delete/"
                     "blob-delete/referrers/read-only x {mem,dir} (plus unset switches, 0-2 warnings, rate limit on/off, restarts that change the referrers "
                     "switch on one directory): 17 probes (one or more per route class) + what is on disk after Close, against Cfg.route on the "
                     "regenerated route table; (4) Run/Shutdown orders through the public API; (5) the built binary per flag combination: probes, SIGTERM, "
                     "exit status, directory reloads. distinct_nontrivial counts distinct (request, answer) pairs")
    known = known_matcher(o)
    profs = []

    prof = defaults_profile(o)
    if prof is not None:
        profs.append(prof)
        check_profile(o, prof, "gen", {"VERIF_SEED": o.seed, "VERIF_N": 20000 if not thorough else 400000}, "cfgdefaults", C19_MONITORS)

    # source-text pin of the limiter block (Properties/C19Pins.lean): a trigger, not an obligation - when the text is no longer
    # the one the model was written for, the limiter correspondence runs at the depth of the thorough tier and decides
    pin_ok, pin_out = core.lake_build(["Properties.C19Pins"])
    o.notes["limiter_text_pin"] = "unchanged" if pin_ok else "differs from the text Cfg.RL.step was written for: deep limiter run"
    deep_rl = thorough or not pin_ok
    prof = ratelimit_profile(o)
    if prof is not None:
        profs.append(prof)
        check_profile(o, prof, "gen", {"VERIF_SEED": o.seed, "VERIF_N": 3000 if not deep_rl else 60000}, "ratelimit", C19_MONITORS)
        o.notes.setdefault("distribution", {})["ratelimit"] = distribution(prof, "ratelimit")

    prof = switches_profile(o)
    if prof is not None:
        profs.append(prof)
        check_profile(o, prof, "gen", {"VERIF_SEED": o.seed, "VERIF_N": 60 if not thorough else 3000}, "cfgswitches", C19_MONITORS, known=known,
                      keep=lambda l: l.startswith("NEW"))
        o.notes.setdefault("distribution", {})["cfgswitches"] = distribution(prof, "cfgswitches")

    prof = lifecycle_profile(o)
    if prof is not None:
        profs.append(prof)
        check_profile(o, prof, "gen", {"VERIF_SEED": o.seed}, "cfglifecycle", C19_MONITORS, known=known)

    prof = binary_profile(o)
    if prof is not None:
        profs.append(prof)
        params = {"VERIF_SEED": o.seed, "VERIF_N": 6}
        if thorough:
            params["VERIF_ALL"] = "1"
        check_profile(o, prof, "gen", params, "cfgbinary", C19_MONITORS, known=known)
        o.notes.setdefault("distribution", {})["cfgbinary"] = distribution(prof, "cfgbinary")

    # every open known finding must still reproduce (a finding that stopped reproducing is reported, not silently kept)
    printed = " ".join(o.known)
    for k in _known():
        if k.get("id") not in printed:
            o.notes.setdefault("known_not_reproduced", []).append(k.get("id"))
    o.notes["limiter_mutex"] = generated_fact("limiterMutex")
    o.notes["shutdown_mutex"] = generated_fact("shutdownMutex")
    o.cov["exhaustive"] = False
    for p in profs:
        p.cleanup()
    shutil.rmtree(os.path.join(MYWORK, "scratch_%d" % os.getpid()), ignore_errors=True)


CHECKS = {"C19": check_C19}
PROFILES = {"cfgdefaults": defaults_profile, "ratelimit": ratelimit_profile, "cfgswitches": switches_profile,
            "cfglifecycle": lifecycle_profile, "cfgbinary": binary_profile}
