"""HTTP level: the real Server.ServeHTTP against the Upd model (C01 C02 C03 C04 C07 C08 C14 C15 C16)."""
import os
import re

from . import core
from .common import Built
from .inpkg import Profile, check_profile, check_corpus

FIELDS = ("code", "loc", "range", "dcd", "body", "ct", "subj", "filt", "link", "cl", "crange")
_re_field = re.compile(r" (code|loc|range|dcd|body|ct|subj|filt|link|cl|crange)=")


def parse_resp(line):
    """'201 code= loc=… …' -> dict (status + fields); other answers ('new', 'def', …) -> {'status': line}"""
    m = re.match(r"^(\d{3}) code=", line)
    if not m:
        return {"status": line}
    out = {"status": m.group(1)}
    idx = [(mm.start(), mm.group(1)) for mm in _re_field.finditer(line)]
    for i, (pos, name) in enumerate(idx):
        end = idx[i + 1][0] if i + 1 < len(idx) else len(line)
        out[name] = line[pos + len(name) + 2:end]
    return out


def make_view(ops=None, fields=None, skip=("PRUNE",)):
    """projection of one (request, answer) pair: None = not compared for this property"""
    def view(op, ans):
        kind = op.split(" ", 1)[0]
        if kind in skip:
            return None
        if ops is not None and kind not in ops:
            return None
        if fields is None:
            return ans
        r = parse_resp(ans)
        return " ".join("%s=%s" % (f, r.get(f, "")) for f in ("status",) + tuple(fields))
    return view


def reg_profile(o, view=None):
    key = ("b", "reg")
    if key not in Built.cache:
        Built.cache[key] = core.go_build("reg")
    b, out = Built.cache[key]
    if b is None:
        o.violation("harness reg does not build against /repo: %s" % out[-1500:], {"kind": "build", "output": out[-4000:]}, no_input=True)
        return None
    if not Built.driver(o, "regdriver"):
        return None
    work = os.path.join(core.WORK, "regwork")
    os.makedirs(work, exist_ok=True)

    def run(env):
        e = dict(core.GOENV)
        e.update({k: str(v) for k, v in env.items()})
        e["VERIF_WORK"] = work
        p = core.sh([b], env=e, check=False, timeout=3000)
        return p.returncode == 0, p.stdout
    return Profile("reg", run, "regdriver", view=view)


def keep_line(l):
    return l.startswith("NEW") or l.startswith("DEF")


def nontrivial(op, ans):
    k = op.split(" ", 1)[0]
    return k not in ("NEW", "DEF") and not ans.startswith("404 code=MANIFEST_UNKNOWN") and not ans.startswith("404 code=BLOB_UNKNOWN")


STORES = ("mem", "dir", "memdir")


def http_check(o, tier, prop, profiles, view, rule, n_quick=250, n_thorough=8000, stores=STORES, monitors_prefix=None, extra_monitors=()):
    prof = reg_profile(o, view)
    if prof is None:
        return
    o.cov["rule"] = rule
    mons = None
    if monitors_prefix is not None:
        mons = MonitorSet(monitors_prefix, extra_monitors)
    n = n_quick if tier == "quick" else n_thorough
    if prop not in CORPUS_DONE:
        CORPUS_DONE.add(prop)
        check_corpus(o, prof, prop, mons)
    for pr in profiles:
        for st in stores:
            check_profile(o, prof, "gen", {"VERIF_SEED": o.seed, "VERIF_N": n, "VERIF_PROFILE": pr, "VERIF_STORE": st},
                          "reg-%s-%s" % (pr, st), mons, nontrivial=nontrivial, keep=keep_line)
    prof.cleanup()


CORPUS_DONE = set()


class MonitorSet:
    """monitor names relevant to a property: everything with the prefix, plus explicit extras"""
    def __init__(self, prefix, extras=()):
        self.prefix, self.extras = prefix, set(extras)

    def __contains__(self, name):
        return name.startswith(self.prefix) or name in self.extras


RULE = ("HTTP profile '%s': generated request histories (6-35 requests each, every random choice from VERIF_SEED) run on the real "
        "Server.ServeHTTP in-process on the memory, directory and memory-over-directory stores; every answer (status, error code, "
        "Location, Range, Docker-Content-Digest, body, Content-Type, OCI-Subject, OCI-Filters-Applied, Link, Content-Length, Content-Range) "
        "is compared with the Lean model's (projected to the fields this property constrains); statement-level monitors run on the "
        "implementation's answers. distinct_nontrivial = distinct (request line, answer) pairs other than definitions and plain not-found answers")


def check_C01(o, tier):
    o.add_audit(core.audit("C01", tier == "thorough"))
    http_check(o, tier, "C01", ["upload", "mix"], make_view(fields=("code", "loc", "dcd", "body")), RULE % "upload, mix", monitors_prefix="C01.")
    upload_objects(o, tier, ("C01.",))


def check_C02(o, tier):
    o.add_audit(core.audit("C02", tier == "thorough"))
    http_check(o, tier, "C02", ["mix", "limits"], make_view(fields=("code", "dcd", "body", "ct", "cl", "crange")), RULE % "mix, limits", monitors_prefix="C02.")
    # "... until deleted or collected", across collections and restarts
    http_check(o, tier, "C02", ["restart", "gc"], make_view(fields=("code", "dcd", "body", "ct", "cl", "crange")), RULE % "mix, limits, restart, gc",
               monitors_prefix="C02.", n_quick=150, n_thorough=4000)


def check_C03(o, tier):
    o.add_audit(core.audit("C03", tier == "thorough"))
    http_check(o, tier, "C03", ["tags", "mix"], make_view(ops=("TAGS", "MGET", "MHEAD", "MDEL", "MPUT"), fields=("code", "dcd", "body", "link")),
               RULE % "tags, mix", monitors_prefix="C03.")
    # tags on documents that are byte-identical to a referrers response of the repository (twins), tags of artifacts
    http_check(o, tier, "C03", ["refs"], make_view(ops=("TAGS", "MGET", "MHEAD", "MDEL", "MPUT"), fields=("code", "dcd", "body", "link")),
               RULE % "tags, mix, refs", monitors_prefix="C03.", n_quick=150, n_thorough=4000)


def check_C04(o, tier):
    o.add_audit(core.audit("C04", tier == "thorough"))
    http_check(o, tier, "C04", ["mix", "limits"], make_view(ops=("MPUT", "MGET", "MHEAD", "BGET", "BHEAD", "TAGS", "REFS"), fields=("code", "dcd", "body")),
               RULE % "mix, limits", monitors_prefix="C04.", extra_monitors=("C02.limit",))


def check_C07(o, tier):
    o.add_audit(core.audit("C07", tier == "thorough"))
    http_check(o, tier, "C07", ["refs", "mix", "limits"], make_view(ops=("REFS", "MPUT", "MDEL"), fields=("code", "body", "ct", "subj", "filt", "link", "cl")),
               RULE % "refs, mix, limits", monitors_prefix="C07.")
    # across restart (the directory store collects when it is closed) and across explicit collections
    http_check(o, tier, "C07", ["restart", "gc"], make_view(ops=("REFS", "MPUT", "MDEL"), fields=("code", "body", "ct", "subj", "filt", "link", "cl")),
               RULE % "refs, mix, limits, restart, gc", monitors_prefix="C07.", n_quick=150, n_thorough=4000)


def upload_objects(o, tier, prefixes):
    """store level (harness/inpkg/store/upload_harness_test.go): every call sequence up to a length on one session object -
    two requests that address one session hold the same object - followed by a second session; monitors only: what a
    successful Close published reads back intact, an ended session publishes nothing more and leaves no file"""
    from .common import Built, T
    b = Built.test_binary(o, "internal/store", [T("inpkg", "store", "upload_harness_test.go")], "upload_harness")
    if b is None:
        return
    d = os.path.join(core.WORK, "runs", "uploadobj_%d" % os.getpid())
    os.makedirs(d, exist_ok=True)
    depth = 4 if tier == "quick" else 5
    env = {"VERIF_IMPL": os.path.join(d, "impl"), "VERIF_MON": os.path.join(d, "mon"), "VERIF_N": depth}
    ok, out = core.go_test_run(b, "^TestVerifUpload$", env)
    impl = core.read_lines(env["VERIF_IMPL"]) if os.path.exists(env["VERIF_IMPL"]) else []
    mon = core.read_lines(env["VERIF_MON"]) if os.path.exists(env["VERIF_MON"]) else []
    # correspondence with the session object model (lean/Sess, driver sessdriver): outcome of every call, publication at the end
    model = []
    if impl and Built.driver(o, "sessdriver"):
        with open(os.path.join(d, "ops"), "w") as f:
            f.write("\n".join(l.split(" -> ")[0].replace("memdir/", "mem/", 1) for l in impl) + "\n")
        okd, err = core.run_driver("sessdriver", os.path.join(d, "ops"), os.path.join(d, "model"))
        model = core.read_lines(os.path.join(d, "model")) if okd else []
    import shutil
    shutil.rmtree(d, ignore_errors=True)
    diffs = [(a, m) for a, m in zip(impl, model) if a.split(" -> ")[1] != m]
    o.cov.setdefault("disagreements_checked", 0)
    o.cov["disagreements_checked"] += len(model)
    if impl and len(model) != len(impl):
        o.violation("session object model: driver sessdriver gave %d answers for %d scenarios" % (len(model), len(impl)),
                    {"kind": "correspondence", "profile": "store-upload-objects"}, no_input=True)
    elif diffs and not mon:
        a, m = diffs[0]
        o.violation("correspondence 'store-upload-objects' no longer holds: %s | model: %s" % (a, m),
                    {"kind": "correspondence", "profile": "store-upload-objects", "scenario": a, "model": m, "disagreements": len(diffs),
                     "unchecked": "session object model lean/Sess (theorems C08.session_object_*) against internal/store upload objects"}, no_input=True)
    o.cov["evaluations"] += len(impl)
    o.cov["distinct_nontrivial"] += len(set(l.split(" -> ")[-1] for l in impl))
    o.notes.setdefault("profiles", {})["store-upload-objects"] = {
        "scenarios": len(impl), "max_sequence_length": depth, "stores": ["mem", "dir", "memdir"], "monitor_hits": len(mon),
        "alphabet": ["Wa", "Wb", "Vbad", "Vbad512", "Vgood", "V512", "Close", "CloseRaw", "Cancel"], "pins": ["none", "digest of one Wa chunk", "a digest no sequence produces"], "outcomes": len(set(l.split(" -> ")[-1] for l in impl))}
    if not ok and not mon:
        o.violation("upload object harness failed: %s" % out[-1500:], {"kind": "harness", "output": out[-4000:]}, no_input=True)
        return
    seen = set()
    for l in mon:
        t = l.split(" ", 3)
        if len(t) < 4 or not any(t[2].startswith(p) for p in prefixes) or t[2] in seen:
            continue
        seen.add(t[2])
        o.violation("monitor %s fails on the implementation: %s" % (t[2], t[3]),
                    {"kind": "monitor", "profile": "store-upload-objects", "monitor": t[2], "detail": t[3],
                     "replay_cmd": "bin/check %s quick (the scenario is the call sequence named in the detail, on the named store)" % o.prop})


def check_C08(o, tier):
    o.add_audit(core.audit("C08", tier == "thorough"))
    upload_objects(o, tier, ("C08.", "C01."))
    http_check(o, tier, "C08", ["upload"], make_view(ops=("UPOST", "UPATCH", "UPUT", "UGET", "UDEL", "BGET", "BHEAD"), fields=("code", "loc", "range", "body")),
               RULE % "upload", monitors_prefix="C08.")
    # session bound: monitors only (eviction is asynchronous in the implementation; the cache itself is C20)
    prof = reg_profile(o, view=lambda op, a: None)
    if prof is not None:
        n = 150 if tier == "quick" else 3000
        for st in ("mem", "dir"):
            check_profile(o, prof, "gen", {"VERIF_SEED": o.seed, "VERIF_N": n, "VERIF_PROFILE": "evict", "VERIF_STORE": st},
                          "reg-evict-%s" % st, MonitorSet("C08."), nontrivial=nontrivial, keep=keep_line)
        prof.cleanup()


def check_C15(o, tier):
    o.add_audit(core.audit("C15", tier == "thorough"))
    http_check(o, tier, "C15", ["raw", "mix", "upload", "switches", "refs", "isolation", "tags"], make_view(fields=("code",)),
               RULE % "raw, mix, upload, switches, refs, isolation, tags", monitors_prefix="C15.", n_quick=150,
               extra_monitors=("C16.outside-root", "C16.mount-without-source", "C03.list-error"))


def check_C16(o, tier):
    o.add_audit(core.audit("C16", tier == "thorough"))
    http_check(o, tier, "C16", ["isolation", "upload", "refs"], make_view(fields=("code", "loc", "dcd", "body")), RULE % "isolation, upload, refs",
               monitors_prefix="C16.", extra_monitors=("C08.cross-repo", "C07.refs-exact", "C15.routes-grammar"))


def check_C10(o, tier):
    o.add_audit(core.audit("C10", tier == "thorough"))
    # the same histories on the three stores against one model: Mem = Dir = MemOverDir; restarts; layout monitors on the directory
    # "closing the server and opening a new one on the same directory … yields the same observable state": an acknowledged item
    # that is not found after the restart (C02.readback, plain name only: the labelled causes are C02's known findings) decides too
    http_check(o, tier, "C10", ["restart"], make_view(fields=("code", "dcd", "body", "ct")), RULE % "restart, mix, rofs", monitors_prefix="C10.",
               n_quick=200, n_thorough=6000, extra_monitors=("C02.readback",))
    http_check(o, tier, "C10", ["mix"], make_view(fields=("code", "dcd", "body", "ct")), RULE % "restart, mix, rofs", monitors_prefix="C10.",
               n_quick=200, n_thorough=6000)
    http_check(o, tier, "C10", ["rofs", "upload"], make_view(fields=("code", "dcd", "body", "ct")), RULE % "restart, mix, rofs, upload", monitors_prefix="C10.",
               n_quick=150, n_thorough=4000, stores=("dir",))
    # repository names next to, above and inside other repositories' layouts: Mem = Dir on the same requests
    http_check(o, tier, "C10", ["isolation"], make_view(fields=("code", "dcd", "body", "ct")), RULE % "restart, mix, rofs, upload, isolation", monitors_prefix="C10.",
               n_quick=150, n_thorough=4000)


def check_C14(o, tier):
    o.add_audit(core.audit("C14", tier == "thorough"))
    # file-system half: a read-only directory store and a memory store over a directory never change the directory
    http_check(o, tier, "C14", ["rofs"], make_view(fields=("code", "dcd", "body")), RULE % "rofs, switches" +
               "; in profile rofs content is built on a writable directory store which is then reopened read-only or under a memory overlay: "
               "a recursive snapshot (names, sizes, hashes, mtimes, modes) of the root is compared after every request, collection and restart",
               monitors_prefix="C14.", n_quick=300, n_thorough=8000, stores=("dir",))
    http_check(o, tier, "C14", ["mix", "upload"], make_view(fields=("code",)), RULE % "rofs, switches, mix, upload", monitors_prefix="C14.",
               n_quick=150, n_thorough=4000, stores=("memdir",))
    http_check(o, tier, "C14", ["switches"], make_view(fields=("code", "dcd", "body")), RULE % "rofs, switches", monitors_prefix="C14.",
               n_quick=250, n_thorough=8000, extra_monitors=("C04.refused-changed",))
    # legacy layouts (fallback tags that the store converts when it loads the index) opened read-only
    from . import p_ingest
    p_ingest.extra_C14(o, tier)


def extra_gc(prop):
    """HTTP-level collection profile: object graphs through the API, ages by hook, GC at any point, every policy cell;
    the Upd.gcRepo model against the real repoGarbageCollect on the three stores, monitors C05.* / C06.*"""
    def run(o, tier):
        # C06 "leaves no index entry without backing content" also holds for index.json on disk (directory monitors of C10)
        # C05 "… the referrers of a retained subject together with their content": a referrer that a collection makes disappear from
        # the listing of its (present) subject decides too (plain name only: the labelled causes are C07's known findings)
        extra = ("C10.index-entry", "C10.index-tags") if prop == "C06" else ("C07.refs-exact",)
        http_check(o, tier, prop, ["gc"], make_view(fields=("code", "dcd", "body")), o.cov.get("rule", "") + " | " + RULE % "gc (HTTP level)",
                   monitors_prefix=prop + ".", n_quick=150, n_thorough=5000, extra_monitors=extra)
        # collections of a memory store over a directory that already holds content (built by a directory store first)
        # (the referrers shadow is not kept exact across restarts of the overlay: C07's monitor is not consulted here)
        http_check(o, tier, prop, ["rofs"], make_view(fields=("code", "dcd", "body")), o.cov.get("rule", "") + " | " + RULE % "gc, rofs (HTTP level)",
                   monitors_prefix=prop + ".", n_quick=150, n_thorough=4000, stores=("dir",),
                   extra_monitors=extra if prop == "C06" else ())
    return run


try:
    from . import p_gc as _p_gc
    _p_gc.EXTRA_C05.append(extra_gc("C05"))
    _p_gc.EXTRA_C06.append(extra_gc("C06"))
except Exception as _e:  # the collector module is optional for the HTTP-level checks
    core.log("p_gc not hooked: %r" % (_e,))


def check_C19(o, tier):
    """C19 = the configuration check (flags, defaults, limiter, lifecycle: vlib/p_config.py) plus the HTTP-level switches profile
    against the Upd model on the three stores (every field of every answer, so a switch with an effect other than its own shows)"""
    from . import p_config
    p_config.CHECKS["C19"](o, tier)
    rule = o.cov.get("rule", "")
    http_check(o, tier, "C19", ["switches"], None, rule + " | " + RULE % "switches (HTTP level, all answer fields)", monitors_prefix="C19.",
               n_quick=200, n_thorough=6000, extra_monitors=("C14.disabled-accepted",))


CHECKS = {"C19": check_C19, "C10": check_C10, "C14": check_C14, "C01": check_C01, "C02": check_C02, "C03": check_C03, "C04": check_C04, "C07": check_C07, "C08": check_C08,
          "C15": check_C15, "C16": check_C16}
PROFILES = {"reg": reg_profile}
