"""HTTP level: the real Server.ServeHTTP against the Upd model (C01 C02 C03 C04 C07 C08 C14 C15 C16)."""
import os

from . import core
from .common import Built
from .inpkg import Profile, check_profile


def reg_profile(o):
    key = ("b", "reg")
    if key not in Built.cache:
        Built.cache[key] = core.go_build("reg")
    b, out = Built.cache[key]
    if b is None:
        o.violation("harness reg does not build against /repo: %s" % out[-1500:], {"kind": "build", "output": out[-4000:]}, no_input=True)
        return None
    if not Built.driver(o, "regdriver"):
        return None
    work = os.path.join(core.WORK, "regwork")
    os.makedirs(work, exist_ok=True)

    def run(env):
        e = dict(core.GOENV)
        e.update({k: str(v) for k, v in env.items()})
        e["VERIF_WORK"] = work
        p = core.sh([b], env=e, check=False, timeout=3000)
        return p.returncode == 0, p.stdout
    return Profile("reg", run, "regdriver", keep=None) if False else Profile("reg", run, "regdriver")


def keep_line(l):
    return l.startswith("NEW") or l.startswith("DEF")


PROFILES = {"reg": reg_profile}
