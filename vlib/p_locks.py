"""C12 (no schedule can hang the registry) and C13 (free of data races).

Static side: tools/lockfacts regenerates lean/Generated/{LockFacts,FieldAccess}.lean from the tree under test; the Lean
kernel re-checks the `decide` obligations of Properties/C12.lean / C13.lean over them (hand-written rank function and guard
map in lean/Lk); the compiled `locksdriver` prints the failing entries with their witnesses (same definitions).
Dynamic side: the real Server under a concurrent workload (harness/inpkg/olareg/lock_*_test.go), once with the recording
mutex added by overlay (every recorded held->acquire pair must be in the static edge set, no cycle among recorded
instance-level edges, every request / Close completes within a bound, forced Shutdown schedule) and once under -race."""
import hashlib
import json
import os
import re
import shutil
import time

from . import core
from .common import Built, T

W = os.path.join(core.WORK, "locks")
TOOL_SRC = os.path.join(core.ROOT, "tools", "lockfacts")
GEN_DIR = os.path.join(core.LEAN, "Generated")
MUTEX_FILES_DIRS = ["internal/cache", "internal/store", ""]
ALLOWED_LEAKS = {("dir.RepoGet", "dirRepo.wg"), ("mem.RepoGet", "memRepo.wg")}
TOKEN_TAKES = {("dir.RepoGet", "true"), ("dirRepo.gc", "false"), ("mem.RepoGet", "true"), ("memRepo.gc", "false")}
_tag = hashlib.sha256(core.REPO.encode()).hexdigest()[:10]
SITES = os.path.join(W, "sites_%s.json" % _tag)
_cache = {}


# ---------------------------------------------------------------- static facts

def regenerate(o):
    """build the extractor, regenerate the Lean tables and the site table from the tree under test; returns the site table"""
    if "facts" in _cache:
        return _cache["facts"]
    os.makedirs(W, exist_ok=True)
    tool = core._own(os.path.join(core.BIN, "lockfacts_%d" % os.getpid()))
    os.makedirs(core.BIN, exist_ok=True)
    with core.Lock("gobuild"):
        p = core.sh(["go", "build", "-o", tool, "."], cwd=TOOL_SRC, check=False, timeout=600)
    if p.returncode != 0:
        o.violation("tools/lockfacts does not build: " + p.stdout[-1500:], {"kind": "build", "output": p.stdout[-4000:]}, no_input=True)
        _cache["facts"] = None
        return None
    env = dict(core.GOENV, VERIF_REPO=core.REPO)
    with core.Lock("lake"):  # nobody builds while the generated modules are rewritten
        p = core.sh([tool, "-out", GEN_DIR, "-sites", SITES], env=env, check=False, timeout=600)
    if p.returncode != 0:
        o.violation("fact extractor failed on %s: %s" % (core.REPO, p.stdout[-1500:]),
                    {"kind": "extractor", "output": p.stdout[-4000:]}, no_input=True)
        _cache["facts"] = None
        return None
    facts = json.load(open(SITES))
    facts["summary"] = p.stdout.strip()
    _cache["facts"] = facts
    return facts


def driver_report(o):
    """failing entries according to the compiled Lean definitions: {kind: [fields...]}"""
    if "report" in _cache:
        return _cache["report"]
    rep = None
    if Built.driver(o, "locksdriver"):
        p = core.sh([core.driver_path("locksdriver")], check=False, timeout=300)
        if p.returncode == 0:
            rep = {}
            for line in p.stdout.splitlines():
                f = line.split("\t")
                rep.setdefault(f[0], []).append(f[1:])
        else:
            o.violation("locksdriver failed: " + p.stdout[-800:], {"kind": "driver", "output": p.stdout[-3000:]}, no_input=True)
    _cache["report"] = rep
    return rep


def cycle_through(facts, held, acq):
    """a path acq -> ... -> held in the static edge set: together with held -> acq it is a cycle; with witnesses"""
    wit = {(w["from"], w["to"]): w for w in facts.get("witnesses", [])}
    if held == acq:
        return [wit.get((held, acq))]
    prev, queue = {acq: None}, [acq]
    while queue:
        cur = queue.pop(0)
        for (a, b) in wit:
            if a == cur and b not in prev:
                prev[b] = cur
                queue.append(b)
    if held not in prev:
        return [wit.get((held, acq))]
    path, cur = [], held
    while prev[cur] is not None:
        path.append(wit[(prev[cur], cur)])
        cur = prev[cur]
    return [wit.get((held, acq))] + list(reversed(path))


def fmt_edge(w):
    return "[%s held since %s] acquires %s at %s (thread %s%s)" % (
        w["from"], w["heldAt"], w["to"], w["acqAt"], w["root"], ", via " + w["chain"] if w.get("chain") else "")


def static_c12(o, facts, rep):
    """the instance obligations of C12, evaluated by the Lean driver, reported with witnesses"""
    n_ob = 0
    stats = {r[0]: int(r[1]) for r in rep.get("STAT", [])}
    o.notes["static"] = {"tree": core.REPO, "stats": stats, "extractor": facts.get("summary", "")}
    # 1. ranked edges
    n_ob += 1
    bad = rep.get("EDGE", [])
    seen_cycles = set()
    for e in bad:
        held, acq = e[0], e[1]
        cyc = [w for w in cycle_through(facts, held, acq) if w]
        key = frozenset((w["from"], w["to"]) for w in cyc)
        if key in seen_cycles:
            continue
        seen_cycles.add(key)
        is_cycle = len(cyc) > 1 or held == acq
        what = ("lock-order cycle" if is_cycle else "edge against the rank order") + ": " + "  ;  ".join(fmt_edge(w) for w in cyc)
        o.violation("olareg_edges_ranked fails on %s: %s" % (core.REPO, what),
                    {"kind": "static-lock-order", "obligation": "C12.olareg_edges_ranked", "tree": core.REPO,
                     "held": held, "acquired": acq, "cycle": cyc,
                     "detail": what, "how_to_replay": "VERIF_REPO=%s /verif/.work/bin/lockfacts -v | grep '^edge'" % core.REPO})
    o.cov["obligations"] += 1
    o.cov["discharged"] += 0 if bad else 1
    # 2. nothing unrecognised
    for u in rep.get("UNREC", []):
        o.violation("the fact extractor does not understand %s: %s" % (u[0], u[1]),
                    {"kind": "extractor-unrecognised", "position": u[0], "detail": u[1]}, no_input=True)
    o.cov["obligations"] += 5
    o.cov["discharged"] += sum([not rep.get("UNREC"), not rep.get("WGADD"), all((l[0], l[1]) in ALLOWED_LEAKS for l in rep.get("LEAK", [])),
                                not rep.get("LOCKED"), {(t[0], t[1]) for t in rep.get("TOKEN", [])} == TOKEN_TAKES])
    # 3. leaks
    for l in rep.get("LEAK", []):
        if (l[0], l[1]) not in ALLOWED_LEAKS:
            o.violation("thread root %s can end while holding %s" % (l[0], l[1]),
                        {"kind": "static-lock-leak", "thread": l[0], "class": l[1], "detail": "a lock that is never released blocks every later request"})
    # 4. locked=true claims
    for c in rep.get("LOCKED", []):
        o.violation("%s is called with locked=true at %s without the mutex held" % (c[0], c[1]),
                    {"kind": "static-locked-claim", "callee": c[0], "position": c[1], "detail": "locked=true without the object's mutex"})
    seen_waits = set()
    for w in rep.get("WAIT", []):
        if (w[1], w[2], w[4], w[5]) in seen_waits:
            continue
        seen_waits.add((w[1], w[2], w[4], w[5]))
        what = ("%s waits for %s (%s at %s, thread %s) while holding %s: every other request that needs that lock - also to other "
                "repositories, also with an expired context - queues behind the wait" % (w[4], w[1], w[0], w[5], w[3], w[2]))
        o.violation("olareg_waits_hold_no_mutex_partial fails on %s: %s" % (core.REPO, what),
                    {"kind": "static-wait-holding-mutex", "obligation": "C12.olareg_waits_hold_no_mutex_partial", "tree": core.REPO,
                     "wait": w[0], "class": w[1], "held": w[2], "thread": w[3], "function": w[4], "position": w[5], "detail": what,
                     "how_to_replay": "VERIF_REPO=%s /verif/.work/bin/lockfacts -out <dir>; grep -A30 'def repoWaits' <dir>/LockFacts.lean" % core.REPO})
    o.cov["obligations"] += 1
    o.cov["discharged"] += 0 if rep.get("WAIT") else 1
    for c in rep.get("WGADD", []):
        o.violation("%s raises %s at %s on a published object without holding its token: the Add can overlap a collector's wg.Wait "
                    "(WaitGroup misuse; the collector may run while the request uses the repository)" % (c[1], c[0], c[2]),
                    {"kind": "static-add-without-token", "obligation": "C12.olareg_add_under_token", "class": c[0], "function": c[1],
                     "position": c[2], "detail": "wg.Add outside the token protocol"})
    # 5. token takes
    tt = {(t[0], t[1]) for t in rep.get("TOKEN", [])}
    if tt != TOKEN_TAKES:
        o.violation("the repository token is not taken where the protocol model says: %s" % sorted(tt),
                    {"kind": "static-token", "found": sorted(tt), "expected": sorted(TOKEN_TAKES),
                     "detail": "RepoGet must take the token in a select with ctx.Done(), gc unconditionally"}, no_input=True)
    return stats


def static_c13(o, facts, rep):
    stats = {r[0]: int(r[1]) for r in rep.get("STAT", [])}
    o.notes["static"] = {"tree": core.REPO, "stats": stats, "extractor": facts.get("summary", "")}
    by_field = {}
    for a in rep.get("ACCESS", []):
        by_field.setdefault(a[0], []).append(a)
    for field, accs in sorted(by_field.items()):
        rows = [{"kind": a[1], "held": a[2], "own_mutex": a[3], "thread": a[4], "function": a[5], "position": a[6]} for a in accs]
        what = "; ".join("%s at %s in %s holding %s" % (r["kind"], r["position"], r["function"], r["held"]) for r in rows[:6])
        o.violation("olareg_guarded fails on %s: field %s is accessed without %s: %s" % (core.REPO, field, accs[0][3], what),
                    {"kind": "static-unguarded-access", "obligation": "C13.olareg_guarded", "tree": core.REPO, "field": field,
                     "accesses": rows, "detail": what,
                     "how_to_replay": "VERIF_REPO=%s /verif/.work/bin/lockfacts -v | grep -A8 'field %s '" % (core.REPO, field)})
    for u in rep.get("UNREC", []):
        o.violation("the fact extractor does not understand %s: %s" % (u[0], u[1]),
                    {"kind": "extractor-unrecognised", "position": u[0], "detail": u[1]}, no_input=True)
    o.cov["obligations"] += 1
    o.cov["discharged"] += 0 if by_field else 1
    return stats


# ---------------------------------------------------------------- overlay: recording mutex

def recorder_overlay():
    """rewrite the sync.Mutex fields of the olareg packages to the recording wrapper; line numbers are preserved"""
    d = os.path.join(W, "overlay_%s" % _tag)
    shutil.rmtree(d, ignore_errors=True)
    os.makedirs(d)
    repl = {os.path.join(core.REPO, "internal", "verifsync", "verifsync.go"): T("overlay", "verifsync", "verifsync.go")}
    imp = '"github.com/olareg/olareg/internal/verifsync"'
    for sub in MUTEX_FILES_DIRS:
        pdir = os.path.join(core.REPO, sub)
        for fn in sorted(os.listdir(pdir)):
            if not fn.endswith(".go") or fn.endswith("_test.go"):
                continue
            src = open(os.path.join(pdir, fn), encoding="utf-8").read()
            if "sync.Mutex" not in src:
                continue
            out = src.replace("sync.Mutex", "verifsync.Mutex")
            still = re.search(r"\bsync\.", out.replace("verifsync.", "")) is not None
            new_imp = ('"sync"; ' + imp) if still else imp
            out, n = re.subn(r'(?m)^(\s*)"sync"[ \t]*$', lambda m: m.group(1) + new_imp, out, count=1)
            if n != 1:
                raise RuntimeError("cannot rewrite the sync import of " + fn)
            dst = os.path.join(d, (sub.replace("/", "_") + "_" if sub else "") + fn)
            with open(dst, "w", encoding="utf-8") as f:
                f.write(out)
            repl[os.path.join(pdir, fn)] = dst
    return repl


def rec_binary(o):
    return Built.test_binary(o, "", [T("inpkg", "olareg", "lock_conc_test.go"), T("inpkg", "olareg", "lock_rec_test.go"),
                                     T("inpkg", "olareg", "lock_scen_test.go")],
                             "locks_rec", extra_overlay=recorder_overlay(), tags="verifnone")


def race_binary(o):
    return Built.test_binary(o, "", [T("inpkg", "olareg", "lock_conc_test.go"), T("inpkg", "olareg", "lock_scen_test.go")],
                             "locks_race", race=True, tags="verifnone")


class ConcRun:
    def __init__(self, binary, test, label):
        self.binary, self.test, self.label = binary, test, label
        self.dir = os.path.join(core.WORK, "runs", "locks_%s_%d" % (label, os.getpid()))
        os.makedirs(self.dir, exist_ok=True)
        self.p = {k: os.path.join(self.dir, k) for k in ("ops", "impl", "mon", "dump")}

    def run(self, mode, params, timeout=900):
        for k in ("impl", "mon", "dump"):
            if os.path.exists(self.p[k]):
                os.remove(self.p[k])
        env = {"VERIF_MODE": mode, "VERIF_OPS": self.p["ops"], "VERIF_IMPL": self.p["impl"], "VERIF_MON": self.p["mon"],
               "VERIF_DUMP": self.p["dump"], "VERIF_SITES": SITES, "GORACE": "halt_on_error=0"}
        env.update(params)
        ok, out = core.go_test_run(self.binary, "^%s$" % self.test, env, timeout=timeout)
        rd = lambda k: core.read_lines(self.p[k]) if os.path.exists(self.p[k]) else []
        mon = []
        for l in rd("mon"):
            m = re.match(r"MON (\d+) (\S+) ?(.*)", l)
            if m:
                mon.append((int(m.group(1)), m.group(2), m.group(3)))
        dump = open(self.p["dump"], errors="replace").read() if os.path.exists(self.p["dump"]) else ""
        return {"ok": ok, "out": out, "ops": rd("ops"), "impl": rd("impl"), "mon": mon, "dump": dump}

    def cleanup(self):
        shutil.rmtree(self.dir, ignore_errors=True)


def history_of(ops, line_no):
    """the NEW-delimited history that contains 1-based line `line_no`"""
    i = max(0, min(line_no, len(ops)) - 1)
    lo = i
    while lo > 0 and not ops[lo].startswith("NEW"):
        lo -= 1
    hi = i
    while hi + 1 < len(ops) and not ops[hi + 1].startswith("NEW"):
        hi += 1
    return ops[lo:hi + 1]


def blocked_goroutines(dump, limit=14):
    """the goroutines of a dump that sit in a lock, channel or wait-group operation of olareg code"""
    out = []
    for g in dump.split("\n\n"):
        if "olareg" not in g or "zz_verif" in g.split("\n")[1 if "\n" in g else 0]:
            pass
        if re.search(r"sync\.\(\*Mutex\)\.Lock|sync\.\(\*WaitGroup\)\.Wait|chan receive|chan send|semacquire|select", g) and "olareg/" in g:
            lines = g.strip().split("\n")
            frames = [l.strip() for l in lines[1:] if l.startswith("\t")]
            ours = [f.split(" +")[0] for f in frames if "/internal/" in f or re.search(r"/(olareg|blob|manifest|referrer|tag)\.go", f)]
            out.append({"goroutine": lines[0], "olareg_frames": ours[:8]})
    return out[:limit]


def report_mon(o, prop, res, label, seed, monitors):
    """monitor hits -> violations with replay; returns number of relevant hits"""
    n = 0
    seen = set()
    for (ln, name, detail) in res["mon"]:
        if name not in monitors or name in seen:
            continue
        seen.add(name)
        n += 1
        hist = history_of(res["ops"], ln) if res["ops"] else []
        obj = {"kind": "monitor", "profile": label, "monitor": name, "detail": detail, "ops": hist, "seed": seed,
               "replay_cmd": "bin/check %s --replay <this file>   (a schedule-dependent hang may need several attempts; the dump below is the witness)" % prop}
        if name in ("completes", "close-returns"):
            obj["blocked_goroutines"] = blocked_goroutines(res["dump"])
            obj["goroutine_dump"] = res["dump"][:60000]
        o.violation("monitor %s fails on the implementation (%s): %s" % (name, label, detail[:600]), obj)
    return n


def summary_of(out):
    m = re.search(r"VERIF-SUMMARY lines=(\d+) requests=(\d+) locks=(\d+) instance_edges=(\d+) class_edges=(\d+)", out)
    obs = sorted(set(re.findall(r"VERIF-OBSERVED (\S+)", out)))
    if not m:
        return {"lines": 0, "requests": 0, "locks": 0, "instance_edges": 0, "class_edges": 0, "observed": obs}
    return {"lines": int(m.group(1)), "requests": int(m.group(2)), "locks": int(m.group(3)),
            "instance_edges": int(m.group(4)), "class_edges": int(m.group(5)), "observed": obs}


C12_MONITORS = {"completes", "close-returns", "edge-static", "lock-cycle", "shutdown-returns"}


def dynamic_c12(o, tier, facts):
    b = rec_binary(o)
    if b is None:
        return
    plans = [("dir", 12000 if tier == "quick" else 45000), ("mem", 7000 if tier == "quick" else 25000)]
    seeds = [o.seed] if tier == "quick" else [o.seed, o.seed + 1, o.seed + 2]
    observed, totals = set(), {"requests": 0, "locks": 0, "instance_edges": 0, "lines": 0, "histories": 0}
    stalled = False
    for store, budget in plans:
        for seed in seeds:
            if stalled:
                break
            r = ConcRun(b, "TestVerifConc", "rec_%s_%d" % (store, seed))
            res = r.run("gen", {"VERIF_SEED": seed, "VERIF_STORE": store, "VERIF_N": 400, "VERIF_BUDGET_MS": budget,
                                "VERIF_BOUND_MS": 12000}, timeout=budget // 1000 + 120)
            s = summary_of(res["out"])
            observed |= set(s["observed"])
            for k in ("requests", "locks", "instance_edges", "lines"):
                totals[k] += s[k]
            totals["histories"] += sum(1 for l in res["ops"][:s["lines"] or len(res["ops"])] if l.startswith("NEW"))
            hits = report_mon(o, "C12", res, "conc-%s" % store, seed, C12_MONITORS)
            if "VERIF-STALL" in res["out"]:
                stalled = True
            elif not res["ok"] and not hits:
                o.violation("concurrency harness failed (%s): %s" % (store, res["out"][-1500:]),
                            {"kind": "harness", "output": res["out"][-6000:], "seed": seed}, no_input=True)
            if len(o.cov["samples"]) < 6 and res["ops"]:
                o.cov["samples"].append({"profile": "conc-%s" % store, "requests": res["ops"][:8], "implementation": res["impl"][:8]})
            r.cleanup()
    # forced schedules / scenarios
    for test, label, bound, extra in (("TestVerifShutdown", "shutdown-parked", 3000, {}), ("TestVerifLegacy", "legacy-layout", 4000, {}),
                                      ("TestVerifCollectorWait", "collectorwait-mem", 6000, {"VERIF_STORE": "mem"}),
                                      ("TestVerifCollectorWait", "collectorwait-dir", 6000, {"VERIF_STORE": "dir"})):
        r = ConcRun(b, test, label)
        res = r.run("gen", dict({"VERIF_SEED": o.seed, "VERIF_BOUND_MS": bound}, **extra), timeout=120)
        if test == "TestVerifCollectorWait":
            o.notes.setdefault("collector_wait", {})[label] = "established and judged" if "established and judged" in res["out"] else \
                ("stalled" if "VERIF-STALL" in res["out"] else "not established")
        res["ops"] = [label]
        hits = report_mon(o, "C12", res, label, o.seed, C12_MONITORS)
        if not res["ok"] and not hits and "VERIF-STALL" not in res["out"]:
            o.violation("scenario %s failed: %s" % (label, res["out"][-1500:]), {"kind": "harness", "output": res["out"][-6000:]}, no_input=True)
        s = summary_of(res["out"])
        observed |= set(s["observed"])
        totals["requests"] += max(1, s["requests"])
        r.cleanup()
    prune_timer_probe(o, b)
    static_edges = {tuple(e) for e in facts["edges"]}
    mx = set(facts.get("mutexes", []))
    mutex_static = {e for e in static_edges if e[0] in mx and e[1] in mx}
    obs_pairs = {tuple(x.split("->")) for x in observed}
    o.cov["evaluations"] += totals["requests"]
    o.cov["distinct_nontrivial"] += len(obs_pairs)
    o.notes["dynamic"] = dict(totals, observed_class_edges=sorted(observed), observed_in_static=len(obs_pairs & static_edges),
                              static_mutex_edges=len(mutex_static), static_edges=len(static_edges),
                              static_mutex_edges_not_observed=sorted("%s->%s" % e for e in mutex_static - obs_pairs))


PRUNE_CAUSE = "wait-holding:dir.repos/Cache.mu@timer:Cache.pruneAge@dir.repos"


def prune_timer_probe(o, b):
    """the exception of C12.olareg_waits_hold_no_mutex_partial (Lk.waitExceptions) on the real code: directory store with a
    grace period and no ticker; the entry of `busy` in the cache of repositories ages out while a slow push is in flight, its
    cleanup collects under the cache mutex, and a request with a 200 ms context / a request to another repository must still
    return.  Only run while the static table has the exception; a stall is an open finding, printed as KNOWN-FINDING when
    known_findings.json lists it and recorded in the evidence notes otherwise."""
    rep = _cache.get("report") or {}
    if not rep.get("WAITEXC"):
        return
    r = ConcRun(b, "TestVerifCollectorWait", "prunetimer-dir")
    res = r.run("gen", {"VERIF_SEED": o.seed, "VERIF_BOUND_MS": 3000, "VERIF_STORE": "dir", "VERIF_PRUNE": "1"}, timeout=120)
    stall = [m for m in res["mon"] if m[1] == "completes"]
    note = {"static": [dict(zip(("wait", "class", "held", "thread", "function", "position"), w)) for w in rep["WAITEXC"]],
            "dynamic": stall[0][2][:400] if stall else ("no stall: " + ("established and judged" if "established and judged" in res["out"] else "not established")),
            "blocked_goroutines": blocked_goroutines(res["dump"], 8) if stall else []}
    o.notes["prune_timer_probe"] = note
    if stall:
        entry = [k for k in core.known_findings().get("open", []) if k.get("property") == "C12" and k.get("cause") == PRUNE_CAUSE]
        if entry:
            o.known_finding("%s monitor=completes cause=%s witness=scenario prunetimer-dir: %s" % (entry[0].get("id", "?"), PRUNE_CAUSE, stall[0][2][:200]))
        else:
            note["unlisted"] = "open finding without an entry in known_findings.json (cause %s); excepted by name in Lk.waitExceptions" % PRUNE_CAUSE
            core.log("C12: open finding without known_findings entry: " + PRUNE_CAUSE + " - " + stall[0][2][:200])
    r.cleanup()


def parse_races(out, limit=4):
    blocks = re.findall(r"WARNING: DATA RACE\n(.*?)\n==================", out, re.S)
    res, seen = [], set()
    for b in blocks:
        frames = re.findall(r"^\s+(\S+\(\))\n\s+(\S+:\d+)", b, re.M)
        ours = [(f, p) for f, p in frames if "olareg" in f and "zz_verif" not in p]
        key = tuple(ours[:2])
        if key in seen:
            continue
        seen.add(key)
        res.append({"report": b[:6000], "olareg_frames": ["%s %s" % fp for fp in ours[:8]]})
        if len(res) >= limit:
            break
    return res, len(blocks)


def dynamic_c13(o, tier):
    b = race_binary(o)
    if b is None:
        return
    plans = [("dir", 12000 if tier == "quick" else 45000), ("mem", 7000 if tier == "quick" else 25000)]
    seeds = [o.seed] if tier == "quick" else [o.seed, o.seed + 1, o.seed + 2]
    totals = {"requests": 0, "lines": 0, "race_reports": 0}
    for store, budget in plans:
        for seed in seeds:
            r = ConcRun(b, "TestVerifConc", "race_%s_%d" % (store, seed))
            res = r.run("gen", {"VERIF_SEED": seed, "VERIF_STORE": store, "VERIF_N": 400, "VERIF_BUDGET_MS": budget,
                                "VERIF_BOUND_MS": 30000, "VERIF_CLIENTS": 6, "VERIF_PER_CLIENT": 10}, timeout=budget // 1000 + 180)
            s = summary_of(res["out"])
            totals["requests"] += s["requests"]
            totals["lines"] += s["lines"]
            races, n = parse_races(res["out"])
            totals["race_reports"] += n
            for rc in races:
                o.violation("data race reported by the race detector (%s store): %s" % (store, " <-> ".join(rc["olareg_frames"][:4])),
                            {"kind": "race", "profile": "race-%s" % store, "seed": seed, "detail": rc["olareg_frames"],
                             "race_report": rc["report"], "ops": res["ops"][:400],
                             "replay_cmd": "bin/check C13 --replay <this file>   (schedule dependent; the report above is the witness)"})
            stall = [m for m in res["mon"] if m[1] in ("completes", "close-returns")]
            if stall:
                o.notes.setdefault("stalls_under_race", []).append({"store": store, "seed": seed, "detail": stall[0][2][:300]})
            elif not res["ok"] and not races:
                o.violation("race harness failed (%s): %s" % (store, res["out"][-1500:]),
                            {"kind": "harness", "output": res["out"][-6000:], "seed": seed}, no_input=True)
            if len(o.cov["samples"]) < 6 and res["ops"]:
                o.cov["samples"].append({"profile": "race-%s" % store, "requests": res["ops"][:8], "implementation": res["impl"][:8]})
            r.cleanup()
    o.cov["evaluations"] += totals["requests"]
    o.notes["dynamic"] = totals


# ---------------------------------------------------------------- checks

def check_C12(o, tier):
    facts = regenerate(o)
    rep = driver_report(o) if facts else None
    if facts and rep is not None:
        stats = static_c12(o, facts, rep)
        o.cov["distinct_nontrivial"] += stats.get("edges", 0)
    o.add_audit(core.audit("C12", tier == "thorough"))
    o.cov["rule"] = ("static: lock events of every function of internal/cache, internal/store and package olareg regenerated from the tree under test, "
                     "held->acquired edges by interprocedural closure, `decide` obligations over them (rank order, no unrecognised construct, no leaked lock, "
                     "locked=true claims, token takes); dynamic: the real Server under seeded concurrent workloads (uploads POST/PATCH/PUT racing with count eviction, "
                     "expiry, collection ticks, cancellation, Close; directory and memory store) with a recording mutex — every recorded held->acquire pair must be in "
                     "the static edge set, no cycle among recorded instance edges, every request and Close within the bound; forced Shutdown schedule; legacy-layout scenario. "
                     "evaluations = requests issued; distinct_nontrivial = static edges + distinct lock-class pairs observed on real runs")
    if facts:
        dynamic_c12(o, tier, facts)
    o.assumptions += ["scheduler fairness, blocking inside net/http and the kernel are outside the model",
                      "soundness of the static lock-event extraction is trusted and cross-checked by the recorded runs"]
    o.cov["exhaustive"] = False


def check_C13(o, tier):
    facts = regenerate(o)
    rep = driver_report(o) if facts else None
    if facts and rep is not None:
        stats = static_c13(o, facts, rep)
        o.cov["distinct_nontrivial"] += stats.get("accessKeys", 0)
    o.add_audit(core.audit("C13", tier == "thorough"))
    o.cov["rule"] = ("static: every read/write of a field of a mutex-owning struct (dir, dirRepo, dirRepoUpload, mem, memRepo, memRepoUpload, Cache, Server) "
                     "regenerated from the tree under test with the statically held lock set, `decide` obligation against the hand-written guard map; "
                     "dynamic: the same concurrent workload as C12 under `go test -race` on both stores, every race report is a violation. "
                     "evaluations = requests issued under the race detector; distinct_nontrivial = distinct (field, kind, held set) rows of the access table")
    dynamic_c13(o, tier)
    o.assumptions += ["the Go race detector only sees the schedules that occur; the static table is the unbounded part",
                      "Close/Shutdown racing with requests is outside the property's quantifier (exempted as lifecycle roots)"]
    o.cov["exhaustive"] = False


class _ReplayProfile:
    """adapter for bin/check --replay: re-runs a stored history on the recorder build"""
    silent = ()

    def __init__(self, o, race=False):
        self.o = o
        self.binary = race_binary(o) if race else rec_binary(o)

    def answered(self, ops):
        return ops

    def replay(self, ops, tag="replay"):
        if self.binary is None:
            return None, None, ["HARNESS-FAILED build"]
        r = ConcRun(self.binary, "TestVerifConc", tag)
        if len(ops) == 1 and ops[0] in ("shutdown-parked", "legacy-layout"):
            r.test = {"shutdown-parked": "TestVerifShutdown", "legacy-layout": "TestVerifLegacy"}[ops[0]]
        self.extra = {}
        if len(ops) == 1 and ops[0].startswith(("collectorwait-", "prunetimer-")):
            r.test = "TestVerifCollectorWait"
            self.extra = {"VERIF_STORE": ops[0].split("-")[1]}
            if ops[0].startswith("prunetimer"):
                self.extra["VERIF_PRUNE"] = "1"
        with open(r.p["ops"], "w") as f:
            f.write("\n".join(ops) + "\n")
        res = r.run("replay", dict({"VERIF_BOUND_MS": 8000}, **getattr(self, "extra", {})), timeout=300)
        mon = ["MON %d %s %s" % m for m in res["mon"]]
        races, _ = parse_races(res["out"])
        mon += ["RACE " + " <-> ".join(x["olareg_frames"][:4]) for x in races]
        if res["dump"]:
            print(json.dumps(blocked_goroutines(res["dump"]), indent=1))
        impl = res["impl"] + [""] * max(0, len(ops) - len(res["impl"]))
        r.cleanup()
        return impl, impl, mon

    def cleanup(self):
        pass


def conc_profile(o):
    regenerate(o)
    return _ReplayProfile(o)


def conc_race_profile(o):
    return _ReplayProfile(o, race=True)


CHECKS = {"C12": check_C12, "C13": check_C13}
PROFILES = {"conc": conc_profile, "shutdown": conc_profile, "legacy": conc_profile, "race": conc_race_profile,
            "collectorwait": conc_profile, "prunetimer": conc_profile}
