"""Registry of the per-property checks.  Every module vlib/p_*.py contributes
   CHECKS   = {"Cxx": check_fn(o, tier)}      fills the Outcome: proof obligations (audit), correspondence, monitors
   PROFILES = {"name": profile_fn(o)}         builds the named correspondence profile (used by --replay)
See DESIGN.md section 6."""
import importlib
import json
import os
import pkgutil
import traceback

from . import core

CHECKS, PROFILE_OF = {}, {}
for _m in pkgutil.iter_modules([os.path.dirname(__file__)]):
    if _m.name.startswith("p_"):
        _mod = importlib.import_module("vlib." + _m.name)
        CHECKS.update(getattr(_mod, "CHECKS", {}))
        PROFILE_OF.update(getattr(_mod, "PROFILES", {}))


def run(prop, tier, seed):
    import glob
    for old in glob.glob(os.path.join(core.REPLAYS, "%s-%s-%d-*.json" % (prop, tier, seed))):
        os.remove(old)    # replays of an earlier run of this very check
    o = core.Outcome(prop, tier, seed)
    fn = CHECKS.get(prop)
    if fn is None:
        print("no check registered for", prop)
        return 2
    try:
        fn(o, tier)
    except Exception as e:  # a crash of the machinery is reported, never silently passed
        traceback.print_exc()
        o.violation("check machinery failed: %r" % (e,), {"kind": "machinery", "error": traceback.format_exc()}, no_input=True)
    return o.finish()


def replay(prop, path):
    obj = json.load(open(path))
    print(json.dumps({k: obj.get(k) for k in ("property", "what", "kind", "profile", "monitor", "detail")}, indent=1))
    ops = obj.get("ops")
    if not ops:
        print("this replay names an obligation, not an input:", obj.get("detail") or obj.get("unchecked"))
        return 0
    o = core.Outcome(prop, "quick", obj.get("seed", 0))
    prof = PROFILE_OF.get(obj.get("profile", "").split("-")[0], lambda o: None)(o)
    if prof is None:
        print("cannot build the profile for this replay")
        return 2
    im, mo, mn = prof.replay(ops, tag="userreplay")
    for l, a, b in zip(prof.answered(ops), im or [], mo or []):
        print("%-60s | impl: %s\n%-60s | model: %s%s" % (l, a, "", b, "" if a == b else "   <-- differs"))
    for m in mn or []:
        print(m)
    prof.cleanup()
    return 1 if (mn or im != mo) else 0


