"""Per-property checks.  Each `check_Cxx(o, tier)` fills the Outcome: proof obligations (audit),
correspondence profiles, monitors.  See DESIGN.md section 6."""
import json
import os
import traceback

from . import core
from .inpkg import Profile, check_profile

T = lambda *p: os.path.join(core.HARNESS, *p)


class Built:
    """lazily built artefacts shared by the checks of one run"""
    cache = {}

    @classmethod
    def test_binary(cls, o, pkg_dir, files, name, **kw):
        key = ("t", name)
        if key not in cls.cache:
            b, out = core.go_test_build(pkg_dir, files, name, **kw)
            cls.cache[key] = (b, out)
        b, out = cls.cache[key]
        if b is None:
            o.violation("harness %s does not build against /repo: %s" % (name, out[-1500:]),
                        {"kind": "build", "output": out[-4000:]}, no_input=True)
        return b

    @classmethod
    def driver(cls, o, exe):
        key = ("d", exe)
        if key not in cls.cache:
            cls.cache[key] = core.lake_build([exe])
        ok, out = cls.cache[key]
        if not ok:
            o.violation("lean driver %s does not build: %s" % (exe, out[-1500:]), {"kind": "build", "output": out[-4000:]}, no_input=True)
        return ok


# ------------------------------------------------------------------ index (C18, C03)

def index_profile(o):
    b = Built.test_binary(o, "types", [T("inpkg", "types", "index_harness_test.go")], "types_index")
    if b is None or not Built.driver(o, "indexdriver"):
        return None
    return Profile("index", lambda env: core.go_test_run(b, "^TestVerifIndex$", env), "indexdriver")


C18_MONITORS = {"tag-unique", "tag-last", "subject-unique", "untagged-once", "get-digest-iff",
                "rm-tag-keeps-digest", "rm-digest-all", "copy-independent", "copy-equal"}


def check_C18(o, tier):
    o.add_audit(core.audit("C18", tier == "thorough"))
    prof = index_profile(o)
    if prof is None:
        return
    o.cov["rule"] = ("index profile: random AddDesc/RmDesc/AddChildren/JSON round trip/GetDesc/GetByAnnotation/Copy sequences over 2-4 digests, "
                     "1-3 tags, 1-2 subjects, plus the exhaustive tree of all sequences up to the stated depth over a 12- or 18-letter alphabet; "
                     "every answer of the real types.Index is compared with the Lean model's; distinct_nontrivial counts distinct (request, answer) pairs")
    n = 4000 if tier == "quick" else 150000
    check_profile(o, prof, "gen", {"VERIF_SEED": o.seed, "VERIF_N": n}, "index-random", C18_MONITORS)
    depth = 4 if tier == "quick" else 6
    check_profile(o, prof, "tree", {"VERIF_DEPTH": depth}, "index-tree", C18_MONITORS)
    check_profile(o, prof, "tree", {"VERIF_DEPTH": 3 if tier == "quick" else 5, "VERIF_ALPHABET": "wide"}, "index-tree-wide", C18_MONITORS)
    o.cov["exhaustive"] = False
    prof.cleanup()


CHECKS = {"C18": check_C18}


def run(prop, tier, seed):
    o = core.Outcome(prop, tier, seed)
    fn = CHECKS.get(prop)
    if fn is None:
        print("no check registered for", prop)
        return 2
    try:
        fn(o, tier)
    except Exception as e:  # a crash of the machinery is reported, never silently passed
        traceback.print_exc()
        o.violation("check machinery failed: %r" % (e,), {"kind": "machinery", "error": traceback.format_exc()}, no_input=True)
    return o.finish()


def replay(prop, path):
    obj = json.load(open(path))
    print(json.dumps({k: obj.get(k) for k in ("property", "what", "kind", "profile", "monitor", "detail")}, indent=1))
    ops = obj.get("ops")
    if not ops:
        print("this replay names an obligation, not an input:", obj.get("detail") or obj.get("unchecked"))
        return 0
    o = core.Outcome(prop, "quick", obj.get("seed", 0))
    prof = PROFILE_OF.get(obj.get("profile", "").split("-")[0], lambda o: None)(o)
    if prof is None:
        print("cannot build the profile for this replay")
        return 2
    im, mo, mn = prof.replay(ops, tag="userreplay")
    for l, a, b in zip(prof.answered(ops), im or [], mo or []):
        print("%-60s | impl: %s\n%-60s | model: %s%s" % (l, a, "", b, "" if a == b else "   <-- differs"))
    for m in mn or []:
        print(m)
    prof.cleanup()
    return 1 if (mn or im != mo) else 0


PROFILE_OF = {"index": index_profile}
