// goextract regenerates the fact tables lean/Generated/{Flags,Routes,Defaults}.lean from the tree under test.
//
//	VERIF_REPO   tree under test (default /repo)
//	argument 1   output directory (default /verif/lean/Generated)
//
// Only go/parser, go/ast, go/printer, go/token.  The program is pattern based and small: every shape it does not
// understand becomes an explicit entry of kind "unrecognised" carrying the source position, so that the `decide`
// obligation over the table fails instead of the fact being dropped silently.  Output is deterministic and a file
// is rewritten only when its content changes.
package main

import (
	"bytes"
	"fmt"
	"go/ast"
	"go/parser"
	"go/printer"
	"go/token"
	"os"
	"path/filepath"
	"strconv"
	"strings"
)

var (
	fset = token.NewFileSet()
	repo = "/repo"
)

// ---------------------------------------------------------------- helpers

func parse(rel string) *ast.File {
	f, err := parser.ParseFile(fset, filepath.Join(repo, rel), nil, parser.SkipObjectResolution)
	if err != nil {
		fmt.Fprintln(os.Stderr, "goextract:", err)
		os.Exit(2)
	}
	return f
}

// src prints a node on one line (runs of white space collapsed)
func src(n ast.Node) string {
	if n == nil {
		return ""
	}
	var b bytes.Buffer
	_ = printer.Fprint(&b, fset, n)
	return strings.Join(strings.Fields(b.String()), " ")
}

func pos(n ast.Node) string {
	p := fset.Position(n.Pos())
	rel, err := filepath.Rel(repo, p.Filename)
	if err != nil {
		rel = p.Filename
	}
	return fmt.Sprintf("%s:%d:%d", rel, p.Line, p.Column)
}

func leanStr(s string) string {
	var b strings.Builder
	b.WriteByte('"')
	for _, r := range s {
		switch r {
		case '"':
			b.WriteString("\\\"")
		case '\\':
			b.WriteString("\\\\")
		case '\n':
			b.WriteString("\\n")
		case '\t':
			b.WriteString("\\t")
		case '\r':
			b.WriteString("\\r")
		default:
			b.WriteRune(r)
		}
	}
	b.WriteByte('"')
	return b.String()
}

func leanList(xs []string) string {
	q := make([]string, len(xs))
	for i, x := range xs {
		q[i] = leanStr(x)
	}
	return "[" + strings.Join(q, ", ") + "]"
}

func leanBool(b bool) string {
	if b {
		return "true"
	}
	return "false"
}

func leanInt(v int64) string {
	if v < 0 {
		return fmt.Sprintf("(%d)", v)
	}
	return fmt.Sprint(v)
}

func strLit(e ast.Expr) (string, bool) {
	if bl, ok := e.(*ast.BasicLit); ok && bl.Kind == token.STRING {
		s, err := strconv.Unquote(bl.Value)
		return s, err == nil
	}
	return "", false
}

func funcDecl(f *ast.File, name, recv string) *ast.FuncDecl {
	for _, d := range f.Decls {
		fd, ok := d.(*ast.FuncDecl)
		if !ok || fd.Name.Name != name {
			continue
		}
		r := ""
		if fd.Recv != nil && len(fd.Recv.List) == 1 {
			r = strings.TrimPrefix(src(fd.Recv.List[0].Type), "*")
		}
		if r == recv {
			return fd
		}
	}
	return nil
}

// ---------------------------------------------------------------- constant evaluation (defaults)

var timeUnits = map[string]int64{"Nanosecond": 1, "Microsecond": 1e3, "Millisecond": 1e6, "Second": 1e9, "Minute": 6e10, "Hour": 36e11}

type constEnv map[string]ast.Expr

func constsOf(f *ast.File) (constEnv, map[string]int64) {
	env, iotas := constEnv{}, map[string]int64{}
	for _, d := range f.Decls {
		gd, ok := d.(*ast.GenDecl)
		if !ok || gd.Tok != token.CONST {
			continue
		}
		isIota := false
		for i, sp := range gd.Specs {
			vs := sp.(*ast.ValueSpec)
			if i == 0 && len(vs.Values) == 1 && src(vs.Values[0]) == "iota" {
				isIota = true
			}
			if isIota {
				if i > 0 && len(vs.Values) != 0 {
					isIota = false // a shape that is not understood: stop numbering
					continue
				}
				for _, n := range vs.Names {
					iotas[n.Name] = int64(i)
				}
				continue
			}
			for k, n := range vs.Names {
				if k < len(vs.Values) {
					env[n.Name] = vs.Values[k]
				}
			}
		}
	}
	return env, iotas
}

func evalInt(e ast.Expr, env constEnv, depth int) (int64, bool) {
	if depth > 20 {
		return 0, false
	}
	switch x := e.(type) {
	case *ast.BasicLit:
		if x.Kind == token.INT {
			v, err := strconv.ParseInt(x.Value, 0, 64)
			return v, err == nil
		}
	case *ast.ParenExpr:
		return evalInt(x.X, env, depth+1)
	case *ast.UnaryExpr:
		if v, ok := evalInt(x.X, env, depth+1); ok && x.Op == token.SUB {
			return -v, true
		}
	case *ast.Ident:
		if d, ok := env[x.Name]; ok {
			return evalInt(d, env, depth+1)
		}
	case *ast.SelectorExpr:
		if src(x.X) == "time" {
			v, ok := timeUnits[x.Sel.Name]
			return v, ok
		}
	case *ast.BinaryExpr:
		a, ok1 := evalInt(x.X, env, depth+1)
		b, ok2 := evalInt(x.Y, env, depth+1)
		if !ok1 || !ok2 {
			return 0, false
		}
		switch x.Op {
		case token.MUL:
			return a * b, true
		case token.ADD:
			return a + b, true
		case token.SUB:
			return a - b, true
		case token.SHL:
			return a << uint(b), true
		case token.QUO:
			if b != 0 {
				return a / b, true
			}
		}
	}
	return 0, false
}

// ---------------------------------------------------------------- statement skeletons

func isLogCall(s string) bool {
	return strings.HasPrefix(s, "s.log.") || strings.HasPrefix(s, "opts.root.log.") || strings.HasPrefix(s, "godbg.")
}

// flatten renders a statement list as one normalised line per simple statement, keeping the block structure
// (two spaces of indentation per level); log calls are dropped.  The Lean side compares the lines with the text
// the model was written for.
func flatten(list []ast.Stmt, ind string, out *[]string) {
	add := func(s string) { *out = append(*out, ind+s) }
	for _, st := range list {
		switch s := st.(type) {
		case *ast.IfStmt:
			flattenIf(s, ind, "", out)
		case *ast.ForStmt:
			add("for " + strings.TrimSpace(src(s.Init)+"; "+src(s.Cond)+"; "+src(s.Post)) + " {")
			flatten(s.Body.List, ind+"  ", out)
			add("}")
		case *ast.RangeStmt:
			add("for " + src(s.Key) + ", " + src(s.Value) + " := range " + src(s.X) + " {")
			flatten(s.Body.List, ind+"  ", out)
			add("}")
		case *ast.SwitchStmt:
			add("switch " + src(s.Tag) + " {")
			for _, c := range s.Body.List {
				cc := c.(*ast.CaseClause)
				if cc.List == nil {
					add("default:")
				} else {
					el := []string{}
					for _, e := range cc.List {
						el = append(el, src(e))
					}
					add("case " + strings.Join(el, ", ") + ":")
				}
				flatten(cc.Body, ind+"  ", out)
			}
			add("}")
		case *ast.SelectStmt:
			add("select {")
			for _, c := range s.Body.List {
				cc := c.(*ast.CommClause)
				if cc.Comm == nil {
					add("default:")
				} else {
					add("case " + src(cc.Comm) + ":")
				}
				flatten(cc.Body, ind+"  ", out)
			}
			add("}")
		case *ast.GoStmt:
			if fl, ok := s.Call.Fun.(*ast.FuncLit); ok {
				add("go func() {")
				flatten(fl.Body.List, ind+"  ", out)
				add("}()")
			} else {
				add(src(s))
			}
		case *ast.BlockStmt:
			add("{")
			flatten(s.List, ind+"  ", out)
			add("}")
		case *ast.ExprStmt:
			if t := src(s); !isLogCall(t) {
				add(t)
			}
		default:
			add(src(st))
		}
	}
}

func flattenIf(s *ast.IfStmt, ind, prefix string, out *[]string) {
	h := prefix + "if "
	if s.Init != nil {
		h += src(s.Init) + "; "
	}
	*out = append(*out, ind+h+src(s.Cond)+" {")
	flatten(s.Body.List, ind+"  ", out)
	switch e := s.Else.(type) {
	case nil:
		*out = append(*out, ind+"}")
	case *ast.IfStmt:
		flattenIf(e, ind, "} else ", out)
	case *ast.BlockStmt:
		*out = append(*out, ind+"} else {")
		flatten(e.List, ind+"  ", out)
		*out = append(*out, ind+"}")
	}
}

// mutexOf returns the receiver of the Lock/Unlock calls among the lines if there is exactly one, else ""
func mutexOf(lines []string) string {
	mu := ""
	for _, l := range lines {
		t := strings.TrimPrefix(strings.TrimSpace(l), "defer ")
		for _, suf := range []string{".Lock()", ".Unlock()"} {
			if strings.HasSuffix(t, suf) && !strings.ContainsAny(strings.TrimSuffix(t, suf), " (=") {
				r := strings.TrimSuffix(t, suf)
				if mu != "" && mu != r {
					return ""
				}
				mu = r
			}
		}
	}
	return mu
}

func bodyLines(fd *ast.FuncDecl) []string {
	out := []string{}
	if fd != nil && fd.Body != nil {
		flatten(fd.Body.List, "", &out)
	} else {
		out = append(out, "unrecognised: function not found")
	}
	return out
}

func emitLines(b *strings.Builder, name, doc string, lines []string) {
	fmt.Fprintf(b, "/-- %s -/\ndef %s : List String := [\n", doc, name)
	for i, l := range lines {
		sep := ","
		if i == len(lines)-1 {
			sep = ""
		}
		fmt.Fprintf(b, "  %s%s\n", leanStr(l), sep)
	}
	b.WriteString("]\n\n")
}

// ---------------------------------------------------------------- Flags.lean

func normDefault(kind string, e ast.Expr) string {
	switch kind {
	case "String":
		if s, ok := strLit(e); ok {
			return s
		}
	case "Bool":
		if s := src(e); s == "true" || s == "false" {
			return s
		}
	case "Int", "Int64", "Duration":
		if v, ok := evalInt(e, constEnv{}, 0); ok {
			return fmt.Sprint(v)
		}
	case "StringArray", "StringSlice":
		if cl, ok := e.(*ast.CompositeLit); ok {
			parts := []string{}
			for _, el := range cl.Elts {
				s, ok := strLit(el)
				if !ok {
					return "?" + src(e)
				}
				parts = append(parts, s)
			}
			return "[" + strings.Join(parts, ",") + "]"
		}
	}
	return "?" + src(e)
}

func genFlags() string {
	f := parse("cmd/olareg/serve.go")
	var b strings.Builder
	b.WriteString("/-! GENERATED by tools/goextract from cmd/olareg/serve.go — do not edit; regenerated and re-checked on every run. -/\nnamespace Generated\n\n")
	b.WriteString("/-- a flag registration `newCmd.Flags().<Kind>Var(&opts.<target>, \"<name>\", <default>, help)`;\n    the default is normalised (durations in nanoseconds, string arrays as `[a,b]`) -/\n")
	b.WriteString("structure Flag where\n  name : String\n  kind : String\n  dflt : String\n  target : String\n  deriving DecidableEq, Repr\n\n")
	b.WriteString("/-- one leaf of the `config.Config` literal built by `serveOpts.run` (config path ← Go expression) -/\n")
	b.WriteString("structure Wire where\n  path : String\n  expr : String\n  deriving DecidableEq, Repr\n\n")
	type flag struct{ name, kind, dflt, target string }
	flags := []flag{}
	if fd := funcDecl(f, "newServeCmd", ""); fd != nil {
		ast.Inspect(fd, func(n ast.Node) bool {
			ce, ok := n.(*ast.CallExpr)
			if !ok {
				return true
			}
			sel, ok := ce.Fun.(*ast.SelectorExpr)
			if !ok || !strings.HasSuffix(src(sel.X), "Flags()") {
				return true
			}
			kind, args := "", ce.Args
			switch {
			case strings.HasSuffix(sel.Sel.Name, "VarP") && len(args) == 5:
				kind = strings.TrimSuffix(sel.Sel.Name, "VarP")
				args = []ast.Expr{args[0], args[1], args[3], args[4]}
			case strings.HasSuffix(sel.Sel.Name, "Var") && len(args) == 4:
				kind = strings.TrimSuffix(sel.Sel.Name, "Var")
			default:
				// a registration of a shape that is not understood (value-returning form, custom Value, ...)
				flags = append(flags, flag{"unrecognised " + pos(ce), sel.Sel.Name, "?", "?" + src(ce)})
				return true
			}
			name, ok := strLit(args[1])
			if !ok {
				name = "unrecognised " + pos(ce)
			}
			target := src(args[0])
			if strings.HasPrefix(target, "&opts.") {
				target = strings.TrimPrefix(target, "&opts.")
			} else {
				target = "?" + target
			}
			flags = append(flags, flag{name, kind, normDefault(kind, args[2]), target})
			return true
		})
	} else {
		flags = append(flags, flag{"unrecognised newServeCmd", "?", "?", "?"})
	}
	b.WriteString("def flags : List Flag := [\n")
	for i, fl := range flags {
		sep := ","
		if i == len(flags)-1 {
			sep = ""
		}
		fmt.Fprintf(&b, "  { name := %s, kind := %s, dflt := %s, target := %s }%s\n", leanStr(fl.name), leanStr(fl.kind), leanStr(fl.dflt), leanStr(fl.target), sep)
	}
	b.WriteString("]\n\n")

	// wiring
	type wire struct{ path, expr string }
	wires := []wire{}
	run := funcDecl(f, "run", "serveOpts")
	var walk func(prefix string, cl *ast.CompositeLit)
	walk = func(prefix string, cl *ast.CompositeLit) {
		for _, el := range cl.Elts {
			kv, ok := el.(*ast.KeyValueExpr)
			if !ok {
				wires = append(wires, wire{"unrecognised " + pos(el), src(el)})
				continue
			}
			p := strings.TrimPrefix(prefix+"."+src(kv.Key), ".")
			if inner, ok := kv.Value.(*ast.CompositeLit); ok && strings.HasPrefix(src(inner.Type), "config.") {
				walk(p, inner)
			} else {
				wires = append(wires, wire{p, src(kv.Value)})
			}
		}
	}
	found := false
	if run != nil {
		ast.Inspect(run, func(n ast.Node) bool {
			switch x := n.(type) {
			case *ast.AssignStmt:
				if len(x.Lhs) == 1 && len(x.Rhs) == 1 {
					if cl, ok := x.Rhs[0].(*ast.CompositeLit); ok && src(cl.Type) == "config.Config" {
						found = true
						walk("", cl)
						return false
					}
				}
			case *ast.CallExpr:
				// local variables derived from options, e.g. storeType.UnmarshalText([]byte(opts.storeType))
				if sel, ok := x.Fun.(*ast.SelectorExpr); ok && sel.Sel.Name == "UnmarshalText" && len(x.Args) == 1 {
					wires = append(wires, wire{"$" + src(sel.X), "UnmarshalText(" + src(x.Args[0]) + ")"})
				}
			}
			return true
		})
	}
	if !found {
		wires = append(wires, wire{"unrecognised config.Config literal", "?"})
	}
	b.WriteString("def wiring : List Wire := [\n")
	for i, w := range wires {
		sep := ","
		if i == len(wires)-1 {
			sep = ""
		}
		fmt.Fprintf(&b, "  { path := %s, expr := %s }%s\n", leanStr(w.path), leanStr(w.expr), sep)
	}
	b.WriteString("]\n\n")

	// the part of serveOpts.run after the configuration literal: New, signal goroutine, Run, wait
	lines := []string{}
	if run != nil {
		started := false
		rest := []ast.Stmt{}
		for _, st := range run.Body.List {
			if !started && strings.Contains(src(st), "olareg.New(") {
				started = true
			}
			if started {
				rest = append(rest, st)
			}
		}
		if !started {
			lines = append(lines, "unrecognised: no olareg.New call in serveOpts.run")
		}
		flatten(rest, "", &lines)
	} else {
		lines = append(lines, "unrecognised: serveOpts.run not found")
	}
	emitLines(&b, "serveRun", "`serveOpts.run` from the `olareg.New` call on (log calls dropped)", lines)
	b.WriteString("end Generated\n")
	return b.String()
}

// ---------------------------------------------------------------- Routes.lean

func conj(e ast.Expr) []ast.Expr {
	if p, ok := e.(*ast.ParenExpr); ok {
		return conj(p.X)
	}
	if be, ok := e.(*ast.BinaryExpr); ok && be.Op == token.LAND {
		return append(conj(be.X), conj(be.Y)...)
	}
	return []ast.Expr{e}
}

func disj(e ast.Expr) []ast.Expr {
	if p, ok := e.(*ast.ParenExpr); ok {
		return disj(p.X)
	}
	if be, ok := e.(*ast.BinaryExpr); ok && be.Op == token.LOR {
		return append(disj(be.X), disj(be.Y)...)
	}
	return []ast.Expr{e}
}

type guard struct {
	methods, switches, extra, unknown []string
	ok                                bool // the `ok` of matchV2 was tested
}

// localDefs: `name := <tests of req.Method only>` statements at the top of ServeHTTP: the name stands for its definition
var localDefs = map[string]ast.Expr{}

// methodOnly: a disjunction/conjunction of `req.Method == http.MethodX` tests and nothing else
func methodOnly(e ast.Expr) bool {
	switch x := e.(type) {
	case *ast.ParenExpr:
		return methodOnly(x.X)
	case *ast.BinaryExpr:
		if x.Op == token.LOR || x.Op == token.LAND {
			return methodOnly(x.X) && methodOnly(x.Y)
		}
		return x.Op == token.EQL && src(x.X) == "req.Method" && strings.HasPrefix(src(x.Y), "http.Method")
	}
	return false
}

func classify(e ast.Expr, g *guard) {
	for _, c := range conj(e) {
		if id, ok := c.(*ast.Ident); ok {
			if def, ok := localDefs[id.Name]; ok {
				c = def
			}
		}
		s := src(c)
		switch {
		case s == "ok":
			g.ok = true
		case strings.HasPrefix(s, "*s.conf."):
			g.switches = append(g.switches, strings.TrimPrefix(s, "*s.conf."))
		case strings.HasPrefix(strings.TrimPrefix(s, "("), "req.Method == http.Method"):
			if len(g.methods) > 0 {
				g.unknown = append(g.unknown, s)
				continue
			}
			for _, d := range disj(c) {
				ds := src(d)
				if !strings.HasPrefix(ds, "req.Method == http.Method") {
					g.unknown = append(g.unknown, s)
					continue
				}
				g.methods = append(g.methods, strings.TrimPrefix(ds, "req.Method == http.Method"))
			}
		case strings.HasPrefix(s, "matches["):
			be, ok := c.(*ast.BinaryExpr)
			lit, ok2 := "", false
			if ok {
				lit, ok2 = strLit(be.Y)
			} else {
				g.unknown = append(g.unknown, s)
				continue
			}
			ix, ok3 := be.X.(*ast.IndexExpr)
			if ok && ok2 && ok3 && be.Op == token.EQL && src(ix.X) == "matches" {
				if _, err := strconv.Atoi(src(ix.Index)); err == nil {
					g.extra = append(g.extra, "{ idx := "+src(ix.Index)+", lit := "+leanStr(lit)+" }")
					continue
				}
				g.unknown = append(g.unknown, s)
			} else {
				g.unknown = append(g.unknown, s)
			}
		default:
			g.unknown = append(g.unknown, s)
		}
	}
}

// target of an arm body: (kind, target)
func targetOf(b *ast.BlockStmt) (string, string) {
	eff := []ast.Stmt{}
	for _, st := range b.List {
		if es, ok := st.(*ast.ExprStmt); ok && isLogCall(src(es)) {
			continue
		}
		eff = append(eff, st)
	}
	if len(eff) != 1 {
		return "unrecognised", pos(b)
	}
	es, ok := eff[0].(*ast.ExprStmt)
	if !ok {
		return "unrecognised", pos(eff[0])
	}
	ce, ok := es.X.(*ast.CallExpr)
	if !ok {
		return "unrecognised", pos(es)
	}
	sel, ok := ce.Fun.(*ast.SelectorExpr)
	if !ok {
		return "unrecognised", pos(es)
	}
	// resp.WriteHeader(http.StatusX)
	if src(sel.X) == "resp" && sel.Sel.Name == "WriteHeader" && len(ce.Args) == 1 && strings.HasPrefix(src(ce.Args[0]), "http.Status") {
		return "status", strings.TrimPrefix(src(ce.Args[0]), "http.Status")
	}
	// s.h(args).ServeHTTP(resp, req)
	if sel.Sel.Name == "ServeHTTP" && src(ce.Args[0]) == "resp" && len(ce.Args) == 2 && src(ce.Args[1]) == "req" {
		if inner, ok := sel.X.(*ast.CallExpr); ok && strings.HasPrefix(src(inner.Fun), "s.") {
			return "handler", strings.TrimPrefix(src(inner), "s.")
		}
	}
	// s.h(resp, req)
	if src(sel.X) == "s" && len(ce.Args) == 2 && src(ce.Args[0]) == "resp" && src(ce.Args[1]) == "req" {
		return "handler", sel.Sel.Name
	}
	return "unrecognised", pos(es)
}

type arm struct {
	g            guard
	kind, target string
}
type branch struct {
	pattern []string
	g       guard
	arms    []arm
}

// switchArms: a `switch { case cond: … }` or `switch req.Method { case http.MethodX, http.MethodY: … }` is the same decision
// list as an if / else-if chain (cases are tried in order, `default` last, no fallthrough): it is turned into the same arms
func switchArms(sw *ast.SwitchStmt) []arm {
	if sw.Init != nil || (sw.Tag != nil && src(sw.Tag) != "req.Method") {
		return []arm{{kind: "unrecognised", target: pos(sw)}}
	}
	arms := []arm{}
	var dflt *ast.CaseClause
	for _, st := range sw.Body.List {
		cc, ok := st.(*ast.CaseClause)
		if !ok {
			return []arm{{kind: "unrecognised", target: pos(st)}}
		}
		for _, b := range cc.Body {
			if br, ok := b.(*ast.BranchStmt); ok && br.Tok == token.FALLTHROUGH {
				return []arm{{kind: "unrecognised", target: pos(br)}}
			}
		}
		if cc.List == nil {
			dflt = cc
			continue
		}
		// the alternatives of one clause are a disjunction
		var cond ast.Expr
		for _, e := range cc.List {
			c := e
			if sw.Tag != nil {
				c = &ast.BinaryExpr{X: sw.Tag, Op: token.EQL, Y: e}
			}
			if cond == nil {
				cond = c
			} else {
				cond = &ast.BinaryExpr{X: cond, Op: token.LOR, Y: c}
			}
		}
		a := arm{}
		classify(cond, &a.g)
		a.kind, a.target = targetOf(&ast.BlockStmt{Lbrace: cc.Pos(), List: cc.Body})
		if len(a.g.unknown) > 0 || a.g.ok {
			a.kind, a.target = "unrecognised", pos(cc)+" "+src(cond)
		}
		arms = append(arms, a)
	}
	if dflt != nil {
		a := arm{}
		a.kind, a.target = targetOf(&ast.BlockStmt{Lbrace: dflt.Pos(), List: dflt.Body})
		arms = append(arms, a)
	}
	return arms
}

func armChain(st ast.Stmt) []arm {
	arms := []arm{}
	for cur := st; cur != nil; {
		switch s := cur.(type) {
		case *ast.SwitchStmt:
			return append(arms, switchArms(s)...)
		case *ast.IfStmt:
			a := arm{}
			classify(s.Cond, &a.g)
			a.kind, a.target = targetOf(s.Body)
			if s.Init != nil || len(a.g.unknown) > 0 || a.g.ok {
				a.kind, a.target = "unrecognised", pos(s)+" "+src(s.Cond)
			}
			arms = append(arms, a)
			cur = s.Else
			if s.Else == nil {
				return arms
			}
		case *ast.BlockStmt:
			a := arm{}
			a.kind, a.target = targetOf(s)
			arms = append(arms, a)
			return arms
		default:
			arms = append(arms, arm{kind: "unrecognised", target: pos(cur)})
			return arms
		}
	}
	return arms
}

func genRoutes() string {
	f := parse("olareg.go")
	var b strings.Builder
	b.WriteString("/-! GENERATED by tools/goextract from olareg.go — do not edit; regenerated and re-checked on every run. -/\nnamespace Generated\n\n")
	b.WriteString("/-- a conjunct `matches[idx] == \"lit\"` -/\nstructure Cond where\n  idx : Nat\n  lit : String\n  deriving DecidableEq, Repr\n\n")
	b.WriteString("/-- one arm of the method chain inside a route branch (or the single body of a branch) -/\n")
	b.WriteString("structure Arm where\n  methods : List String   -- [] = any method\n  switches : List String  -- `*s.conf.<path>` conjuncts\n  extra : List Cond       -- `matches[i] == literal` conjuncts\n  kind : String           -- handler | status | unrecognised\n  target : String         -- handler call, status name, or source position\n  deriving DecidableEq, Repr\n\n")
	b.WriteString("/-- one branch of the `if … else if …` chain of `ServeHTTP`: `matchV2(pathEl, pattern…)` and further conjuncts -/\n")
	b.WriteString("structure Branch where\n  pattern : List String   -- parameters of matchV2; [\"<else>\"] for the final else\n  methods : List String\n  switches : List String\n  arms : List Arm\n  deriving DecidableEq, Repr\n\n")
	serve := funcDecl(f, "ServeHTTP", "Server")
	branches := []branch{}
	preamble := []string{}
	limiter := []string{}
	unrec := func(where string) { branches = append(branches, branch{pattern: []string{"unrecognised " + where}}) }
	if serve == nil {
		unrec("ServeHTTP not found")
	} else {
		var chain *ast.IfStmt
		localDefs = map[string]ast.Expr{}
		for _, st := range serve.Body.List {
			// a local name for a test of the request method decides nothing by itself: it is read where it is used
			if as, ok := st.(*ast.AssignStmt); ok && as.Tok == token.DEFINE && len(as.Lhs) == 1 && len(as.Rhs) == 1 && chain == nil {
				if id, ok := as.Lhs[0].(*ast.Ident); ok && methodOnly(as.Rhs[0]) {
					localDefs[id.Name] = as.Rhs[0]
					continue
				}
			}
			if is, ok := st.(*ast.IfStmt); ok && is.Init != nil && strings.Contains(src(is.Init), "matchV2(") {
				if chain != nil {
					unrec(pos(is) + " second routing chain")
				}
				chain = is
				continue
			}
			head := src(st)
			if is, ok := st.(*ast.IfStmt); ok {
				head = "if " + src(is.Cond)
				if strings.Contains(src(is.Cond), "RateLimit") {
					flatten([]ast.Stmt{is}, "", &limiter)
				}
			} else if rs, ok := st.(*ast.RangeStmt); ok {
				head = "range " + src(rs.X)
			}
			if chain != nil {
				head = "after-routing: " + head
			}
			if es, ok := st.(*ast.ExprStmt); ok && isLogCall(src(es)) {
				continue
			}
			preamble = append(preamble, head)
		}
		if chain == nil {
			unrec("routing chain not found")
		}
		for cur := ast.Stmt(chain); cur != nil && chain != nil; {
			switch s := cur.(type) {
			case *ast.IfStmt:
				br := branch{}
				bad := ""
				if as, ok := s.Init.(*ast.AssignStmt); ok && len(as.Rhs) == 1 {
					if call, ok := as.Rhs[0].(*ast.CallExpr); ok && src(call.Fun) == "matchV2" && len(call.Args) >= 1 && src(call.Args[0]) == "pathEl" {
						for _, a := range call.Args[1:] {
							l, ok := strLit(a)
							if !ok {
								bad = "pattern " + src(a)
							}
							br.pattern = append(br.pattern, l)
						}
					} else {
						bad = "init " + src(s.Init)
					}
				} else {
					bad = "init " + src(s.Init)
				}
				classify(s.Cond, &br.g)
				if !br.g.ok || len(br.g.unknown) > 0 || len(br.g.extra) > 0 {
					bad = "condition " + src(s.Cond)
				}
				// body: a single method chain, or a direct handler
				eff := []ast.Stmt{}
				for _, st := range s.Body.List {
					if es, ok := st.(*ast.ExprStmt); ok && isLogCall(src(es)) {
						continue
					}
					eff = append(eff, st)
				}
				if len(eff) == 1 {
					if inner, ok := eff[0].(*ast.IfStmt); ok {
						br.arms = armChain(inner)
					} else if inner, ok := eff[0].(*ast.SwitchStmt); ok {
						br.arms = armChain(inner)
					} else {
						k, t := targetOf(s.Body)
						br.arms = []arm{{kind: k, target: t}}
					}
				} else {
					bad = "body"
				}
				if bad != "" {
					br.arms = append([]arm{{kind: "unrecognised", target: pos(s) + " " + bad}}, br.arms...)
				}
				branches = append(branches, br)
				cur = s.Else
				if s.Else == nil {
					cur = nil
				}
			case *ast.BlockStmt:
				k, t := targetOf(s)
				branches = append(branches, branch{pattern: []string{"<else>"}, arms: []arm{{kind: k, target: t}}})
				cur = nil
			default:
				unrec(pos(cur))
				cur = nil
			}
		}
	}
	b.WriteString("def routes : List Branch := [\n")
	for i, br := range branches {
		fmt.Fprintf(&b, "  { pattern := %s, methods := %s, switches := %s, arms := [\n", leanList(br.pattern), leanList(br.g.methods), leanList(br.g.switches))
		for j, a := range br.arms {
			sep := ","
			if j == len(br.arms)-1 {
				sep = ""
			}
			fmt.Fprintf(&b, "      { methods := %s, switches := %s, extra := %s, kind := %s, target := %s }%s\n",
				leanList(a.g.methods), leanList(a.g.switches), "["+strings.Join(a.g.extra, ", ")+"]", leanStr(a.kind), leanStr(a.target), sep)
		}
		sep := ","
		if i == len(branches)-1 {
			sep = ""
		}
		fmt.Fprintf(&b, "    ] }%s\n", sep)
	}
	b.WriteString("]\n\n")
	emitLines(&b, "servePreamble", "top-level statements of `ServeHTTP` other than the routing chain (heads only)", preamble)
	if len(limiter) == 0 {
		limiter = []string{"unrecognised: no rate limit block in ServeHTTP"}
	}
	// the mutex of the limiter is reported separately and replaced by <mu> in the text
	limMu := mutexOf(limiter)
	for i, l := range limiter {
		t := strings.TrimSpace(l)
		if limMu != "" && (t == limMu+".Lock()" || t == limMu+".Unlock()") {
			limiter[i] = strings.Replace(l, limMu, "<mu>", 1)
		}
	}
	if limMu == "" {
		limMu = "unrecognised"
	}
	emitLines(&b, "limiter", "the rate limit block of `ServeHTTP`, one normalised line per statement; its mutex is written `<mu>`", limiter)
	fmt.Fprintf(&b, "/-- the mutex the rate limit block locks -/\ndef limiterMutex : String := %s\n\n", leanStr(limMu))
	sdMu := mutexOf(bodyLines(funcDecl(f, "Shutdown", "Server")))
	if sdMu == "" {
		sdMu = "unrecognised"
	}
	fmt.Fprintf(&b, "/-- the mutex `Server.Shutdown` holds while it waits for `http.Server.Shutdown` -/\ndef shutdownMutex : String := %s\n\n", leanStr(sdMu))
	emitLines(&b, "newBody", "`New` (log calls dropped)", bodyLines(funcDecl(f, "New", "")))
	emitLines(&b, "runBody", "`Server.Run`", bodyLines(funcDecl(f, "Run", "Server")))
	emitLines(&b, "shutdownBody", "`Server.Shutdown`", bodyLines(funcDecl(f, "Shutdown", "Server")))
	emitLines(&b, "closeBody", "`Server.Close`", bodyLines(funcDecl(f, "Close", "Server")))
	b.WriteString("end Generated\n")
	return b.String()
}

// ---------------------------------------------------------------- Defaults.lean

type dflt struct {
	field, guard, cond, kind string
	boolVal                  bool
	intVal                   int64
	strVal                   string
}

func genDefaults() string {
	f := parse("config/config.go")
	env, iotas := constsOf(f)
	var b strings.Builder
	b.WriteString("/-! GENERATED by tools/goextract from config/config.go — do not edit; regenerated and re-checked on every run. -/\nnamespace Generated\n\n")
	b.WriteString("/-- one defaulting step of `Config.SetDefaults`: `field` is replaced by the value when `guard` holds\n    (`nil` for the pointer switches) and, if `cond` is not empty, under that enclosing case -/\n")
	b.WriteString("structure Default where\n  field : String\n  guard : String    -- nil | == 0 | <= 0 | == \"\"\n  cond : String\n  kind : String     -- bool | int | string | unrecognised\n  boolVal : Bool\n  intVal : Int\n  strVal : String\n  deriving DecidableEq, Repr\n\n")
	ds := []dflt{}
	fd := funcDecl(f, "SetDefaults", "Config")
	var walk func(list []ast.Stmt, cond string)
	field := func(e ast.Expr) (string, bool) {
		s := src(e)
		return strings.TrimPrefix(s, "c."), strings.HasPrefix(s, "c.")
	}
	walk = func(list []ast.Stmt, cond string) {
		for _, st := range list {
			switch s := st.(type) {
			case *ast.AssignStmt:
				fl, ok := field(s.Lhs[0])
				if ok && len(s.Lhs) == 1 && len(s.Rhs) == 1 {
					if ce, ok := s.Rhs[0].(*ast.CallExpr); ok && src(ce.Fun) == "boolDefault" && len(ce.Args) == 2 && src(ce.Args[0]) == src(s.Lhs[0]) {
						if v := src(ce.Args[1]); v == "true" || v == "false" {
							ds = append(ds, dflt{field: fl, guard: "nil", cond: cond, kind: "bool", boolVal: v == "true"})
							continue
						}
					}
				}
				ds = append(ds, dflt{field: "unrecognised " + pos(s), kind: "unrecognised", strVal: src(s)})
			case *ast.IfStmt:
				be, ok := s.Cond.(*ast.BinaryExpr)
				good := ok && s.Init == nil && s.Else == nil && len(s.Body.List) == 1
				if good {
					fl, okf := field(be.X)
					as, oka := s.Body.List[0].(*ast.AssignStmt)
					if okf && oka && len(as.Lhs) == 1 && len(as.Rhs) == 1 && src(as.Lhs[0]) == src(be.X) && as.Tok == token.ASSIGN {
						d := dflt{field: fl, guard: be.Op.String() + " " + src(be.Y), cond: cond}
						if sv, ok := strLit(as.Rhs[0]); ok {
							d.kind, d.strVal = "string", sv
							ds = append(ds, d)
							continue
						}
						if iv, ok := evalInt(as.Rhs[0], env, 0); ok {
							d.kind, d.intVal = "int", iv
							ds = append(ds, d)
							continue
						}
					}
				}
				ds = append(ds, dflt{field: "unrecognised " + pos(s), kind: "unrecognised", strVal: "if " + src(s.Cond)})
			case *ast.SwitchStmt:
				tag, ok := field(s.Tag)
				if !ok || s.Init != nil {
					ds = append(ds, dflt{field: "unrecognised " + pos(s), kind: "unrecognised", strVal: "switch " + src(s.Tag)})
					continue
				}
				for _, c := range s.Body.List {
					cc := c.(*ast.CaseClause)
					if len(cc.List) != 1 || cond != "" {
						ds = append(ds, dflt{field: "unrecognised " + pos(cc), kind: "unrecognised", strVal: "case"})
						continue
					}
					walk(cc.Body, tag+" == "+src(cc.List[0]))
				}
			default:
				ds = append(ds, dflt{field: "unrecognised " + pos(st), kind: "unrecognised", strVal: src(st)})
			}
		}
	}
	if fd == nil {
		ds = append(ds, dflt{field: "unrecognised SetDefaults not found", kind: "unrecognised"})
	} else {
		walk(fd.Body.List, "")
	}
	b.WriteString("def defaults : List Default := [\n")
	for i, d := range ds {
		sep := ","
		if i == len(ds)-1 {
			sep = ""
		}
		fmt.Fprintf(&b, "  { field := %s, guard := %s, cond := %s, kind := %s, boolVal := %s, intVal := %s, strVal := %s }%s\n",
			leanStr(d.field), leanStr(d.guard), leanStr(d.cond), leanStr(d.kind), leanBool(d.boolVal), leanInt(d.intVal), leanStr(d.strVal), sep)
	}
	b.WriteString("]\n\n")
	// boolDefault itself
	emitLines(&b, "boolDefaultBody", "`boolDefault`", bodyLines(funcDecl(f, "boolDefault", "")))
	// store constants and their text names
	b.WriteString("/-- the `Store` constants (iota order) -/\ndef storeConsts : List (String × Nat) := [")
	names := []string{}
	for n := range iotas {
		names = append(names, n)
	}
	// order by value
	for i := 0; i < len(names); i++ {
		for j := i + 1; j < len(names); j++ {
			if iotas[names[j]] < iotas[names[i]] || (iotas[names[j]] == iotas[names[i]] && names[j] < names[i]) {
				names[i], names[j] = names[j], names[i]
			}
		}
	}
	for i, n := range names {
		if i > 0 {
			b.WriteString(", ")
		}
		fmt.Fprintf(&b, "(%s, %d)", leanStr(n), iotas[n])
	}
	b.WriteString("]\n\n")
	// UnmarshalText: text -> constant
	b.WriteString("/-- `Store.UnmarshalText` (after `strings.ToLower`): text ↦ constant -/\ndef storeNames : List (String × String) := [")
	first := true
	if um := funcDecl(f, "UnmarshalText", "Store"); um != nil {
		ast.Inspect(um, func(n ast.Node) bool {
			cc, ok := n.(*ast.CaseClause)
			if !ok || len(cc.List) == 0 {
				return true
			}
			val := "?"
			if len(cc.Body) == 1 {
				if as, ok := cc.Body[0].(*ast.AssignStmt); ok && src(as.Lhs[0]) == "*s" {
					val = src(as.Rhs[0])
				}
			}
			for _, e := range cc.List {
				if l, ok := strLit(e); ok {
					if !first {
						b.WriteString(", ")
					}
					first = false
					fmt.Fprintf(&b, "(%s, %s)", leanStr(l), leanStr(val))
				}
			}
			return true
		})
	}
	b.WriteString("]\n\nend Generated\n")
	return b.String()
}

// ---------------------------------------------------------------- main

func writeIfChanged(path, content string) {
	old, err := os.ReadFile(path)
	if err == nil && string(old) == content {
		return
	}
	tmp := path + ".tmp"
	if err := os.WriteFile(tmp, []byte(content), 0o644); err != nil {
		fmt.Fprintln(os.Stderr, "goextract:", err)
		os.Exit(2)
	}
	if err := os.Rename(tmp, path); err != nil {
		fmt.Fprintln(os.Stderr, "goextract:", err)
		os.Exit(2)
	}
	fmt.Println("updated", path)
}

func main() {
	if r := os.Getenv("VERIF_REPO"); r != "" {
		repo = r
	}
	out := "/verif/lean/Generated"
	if len(os.Args) > 1 {
		out = os.Args[1]
	}
	if err := os.MkdirAll(out, 0o755); err != nil {
		fmt.Fprintln(os.Stderr, "goextract:", err)
		os.Exit(2)
	}
	writeIfChanged(filepath.Join(out, "Flags.lean"), genFlags())
	writeIfChanged(filepath.Join(out, "Routes.lean"), genRoutes())
	writeIfChanged(filepath.Join(out, "Defaults.lean"), genDefaults())
}
