module goextract

go 1.21
