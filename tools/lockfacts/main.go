// lockfacts regenerates lean/Generated/LockFacts.lean and lean/Generated/FieldAccess.lean from the tree under test
// (env VERIF_REPO, default /repo): lock events per function, the held->acquired edge set (interprocedural closure),
// and every access of a field of a mutex-owning struct with the statically held lock set.  Stdlib only
// (go/parser, go/ast, go/types with the "source" importer).  Whatever it does not understand becomes an explicit
// `unrecognised` entry that makes the Lean obligations fail; nothing is dropped silently.
package main

import (
	"flag"
	"fmt"
	"go/ast"
	"go/build"
	"go/importer"
	"go/parser"
	"go/token"
	"go/types"
	"os"
	"path/filepath"
	"sort"
	"strings"
)

const modPath = "github.com/olareg/olareg"

// analysed packages, in dependency order (directory relative to the repository root)
var pkgDirs = []string{"internal/cache", "internal/store", "."}

type pkgInfo struct {
	dir   string
	pkg   *types.Package
	files []*ast.File
}

var (
	repo  string
	fset  = token.NewFileSet()
	info  = &types.Info{Uses: map[*ast.Ident]types.Object{}, Defs: map[*ast.Ident]types.Object{}, Selections: map[*ast.SelectorExpr]*types.Selection{}, Types: map[ast.Expr]types.TypeAndValue{}}
	pkgs  = map[string]*pkgInfo{} // import path -> package
	decls = map[string]*fn{}      // "recv.name" or "name" -> declaration (names are unique over the analysed packages, checked)
	fnOf  = map[*ast.FuncLit]*fn{}
	// named func types declared in the analysed packages -> closures returned by functions with that result type
	funcTypeImpl = map[string][]*fn{}
	owners       = map[string]*types.Struct{} // struct name -> struct, for structs that own a sync.Mutex
	ownerOrder   []string
	cacheFields  []string // "dirRepo.uploads" ...: fields of owner structs that hold a *cache.Cache
)

// fn is an analysable body: a declared function/method or a function literal
type fn struct {
	name   string // dirRepo.IndexGet, dir.RepoGet$PruneFn, dirRepoUpload.delete$go1 ...
	recv   string // receiver type name ("" for plain functions and literals)
	typ    *ast.FuncType
	body   *ast.BlockStmt
	recvID *ast.Ident
	parent *fn
	decl   *ast.FuncDecl
	nlit   int
	pkg    string
}

type chainImporter struct{ next types.Importer }

func (c chainImporter) Import(path string) (*types.Package, error) {
	if p, ok := pkgs[path]; ok {
		return p.pkg, nil
	}
	return c.next.Import(path)
}

func pos(p token.Pos) string {
	pp := fset.Position(p)
	rel, err := filepath.Rel(repo, pp.Filename)
	if err != nil {
		rel = pp.Filename
	}
	return fmt.Sprintf("%s:%d", rel, pp.Line)
}

func namedOf(t types.Type) *types.Named {
	for {
		switch x := t.(type) {
		case *types.Pointer:
			t = x.Elem()
		case *types.Named:
			return x
		case *types.Alias:
			t = types.Unalias(x)
		default:
			return nil
		}
	}
}

// typeName: the name of a (pointer to a) named type of the analysed packages, "" for anything else
func typeName(t types.Type) string {
	if t == nil {
		return ""
	}
	if n := namedOf(t); n != nil && n.Obj().Pkg() != nil && strings.HasPrefix(n.Obj().Pkg().Path(), modPath) {
		return n.Obj().Name()
	}
	return ""
}

func isSync(t types.Type, name string) bool {
	n := namedOf(t)
	if _, ptr := t.(*types.Pointer); ptr {
		return false
	}
	if n == nil || n.Obj().Pkg() == nil || n.Obj().Pkg().Path() != "sync" {
		return false
	}
	// a readers-writer lock is analysed as a mutex: a read lock is ordered and guards like the write lock (conservative
	// for lock order; for the guard table a read lock suffices for reads only, which the table does not distinguish)
	return n.Obj().Name() == name || (name == "Mutex" && n.Obj().Name() == "RWMutex")
}

func analysed(p *types.Package) bool {
	if p == nil {
		return false
	}
	_, ok := pkgs[p.Path()]
	return ok
}

func load() {
	ctx := build.Default
	imp := chainImporter{importer.ForCompiler(fset, "source", nil)}
	for _, d := range pkgDirs {
		dir := filepath.Join(repo, d)
		ents, err := os.ReadDir(dir)
		if err != nil {
			fatal("read %s: %v", dir, err)
		}
		pi := &pkgInfo{dir: d}
		for _, e := range ents {
			n := e.Name()
			if !strings.HasSuffix(n, ".go") || strings.HasSuffix(n, "_test.go") {
				continue
			}
			if ok, _ := ctx.MatchFile(dir, n); !ok { // build constraints: files under the tag `verif` are not part of the default build
				continue
			}
			f, err := parser.ParseFile(fset, filepath.Join(dir, n), nil, parser.SkipObjectResolution)
			if err != nil {
				fatal("parse: %v", err)
			}
			pi.files = append(pi.files, f)
		}
		path := modPath
		if d != "." {
			path += "/" + d
		}
		conf := types.Config{Importer: imp}
		pkg, err := conf.Check(path, fset, pi.files, info)
		if err != nil {
			fatal("type check %s: %v", path, err)
		}
		pi.pkg = pkg
		pkgs[path] = pi
	}
}

func fatal(f string, a ...any) {
	fmt.Fprintf(os.Stderr, "lockfacts: "+f+"\n", a...)
	os.Exit(2)
}

func collect() {
	for _, d := range pkgDirs {
		path := modPath
		if d != "." {
			path += "/" + d
		}
		pi := pkgs[path]
		sc := pi.pkg.Scope()
		names := sc.Names()
		for _, n := range names {
			tn, ok := sc.Lookup(n).(*types.TypeName)
			if !ok {
				continue
			}
			st, ok := tn.Type().Underlying().(*types.Struct)
			if !ok {
				continue
			}
			for i := 0; i < st.NumFields(); i++ {
				if isSync(st.Field(i).Type(), "Mutex") || isSync(st.Field(i).Type(), "RWMutex") {
					if _, dup := owners[n]; dup {
						continue
					}
					owners[n] = st
					ownerOrder = append(ownerOrder, n)
				}
			}
		}
		for _, f := range pi.files {
			for _, dcl := range f.Decls {
				fd, ok := dcl.(*ast.FuncDecl)
				if !ok || fd.Body == nil {
					continue
				}
				x := &fn{name: fd.Name.Name, typ: fd.Type, body: fd.Body, decl: fd, pkg: pi.pkg.Name()}
				if fd.Recv != nil && len(fd.Recv.List) == 1 {
					x.recv = typeName(info.TypeOf(fd.Recv.List[0].Type))
					x.name = x.recv + "." + x.name
					if len(fd.Recv.List[0].Names) == 1 {
						x.recvID = fd.Recv.List[0].Names[0]
						recvObjs[info.Defs[x.recvID]] = true
					}
				} else if pi.pkg.Name() != "olareg" {
					x.name = pi.pkg.Name() + "." + x.name // cache.New, store.NewDir: keep plain functions of different packages apart
				}
				if _, dup := decls[x.name]; dup {
					fatal("duplicate function name %s", x.name)
				}
				decls[x.name] = x
				nameLits(x)
			}
		}
	}
	trackBools()
	deriveSlots()
	sort.Strings(ownerOrder)
	for _, o := range ownerOrder {
		st := owners[o]
		for i := 0; i < st.NumFields(); i++ {
			if typeName(st.Field(i).Type()) == "Cache" {
				cacheFields = append(cacheFields, o+"."+st.Field(i).Name())
			}
		}
	}
}

var slotProblems []string

// deriveSlots fills slotTable from every call of cache.New: the Opts literal (given directly or through a local variable
// assigned once from a literal, with later `v.Key = value` assignments) names the callbacks, the assignment target names the class
func deriveSlots() {
	isNew := func(e ast.Expr) *ast.CallExpr {
		ce, ok := e.(*ast.CallExpr)
		if !ok {
			return nil
		}
		if sel, ok := unwrapFun(ce.Fun).(*ast.SelectorExpr); ok && sel.Sel.Name == "New" {
			if o, ok := info.Uses[sel.Sel].(*types.Func); ok && o.Pkg() != nil && o.Pkg().Name() == "cache" && analysed(o.Pkg()) {
				return ce
			}
		}
		return nil
	}
	names := []string{}
	for n := range decls {
		names = append(names, n)
	}
	sort.Strings(names)
	for _, n := range names {
		f := decls[n]
		optsOf := map[types.Object]map[string]string{} // local Opts variable -> key -> closure name / "?"
		keysOf := func(cl *ast.CompositeLit) map[string]string {
			m := map[string]string{}
			for _, el := range cl.Elts {
				kv, ok := el.(*ast.KeyValueExpr)
				if !ok {
					continue
				}
				k, _ := kv.Key.(*ast.Ident)
				if k == nil || slotOfKey[k.Name] == "" {
					continue
				}
				if fl, ok := kv.Value.(*ast.FuncLit); ok {
					m[slotOfKey[k.Name]] = fnOf[fl].name
				} else if !isNilIdent(kv.Value) {
					m[slotOfKey[k.Name]] = "?"
				}
			}
			return m
		}
		bindNew := func(target string, ce *ast.CallExpr, p token.Pos) {
			m := map[string]string{"pruneFn": "", "prunePreFn": "", "prunePostFn": ""}
			var src map[string]string
			if len(ce.Args) == 1 {
				switch a := ce.Args[0].(type) {
				case *ast.CompositeLit:
					src = keysOf(a)
				case *ast.Ident:
					src = optsOf[objOf(a)]
				}
			}
			if src == nil {
				slotProblems = append(slotProblems, pos(p)+": cache.New with options that are not a literal")
				src = map[string]string{"pruneFn": "?", "prunePreFn": "?", "prunePostFn": "?"}
			}
			for k, v := range src {
				m[k] = v
			}
			if _, dup := slotTable[target]; dup {
				slotProblems = append(slotProblems, pos(p)+": second cache.New for "+target)
			}
			slotTable[target] = m
		}
		ast.Inspect(f.body, func(nd ast.Node) bool {
			switch x := nd.(type) {
			case *ast.FuncLit:
				return false
			case *ast.AssignStmt:
				for i, r := range x.Rhs {
					if i >= len(x.Lhs) {
						break
					}
					if cl, ok := r.(*ast.CompositeLit); ok && typeName(info.TypeOf(cl)) == "Opts" {
						if o := objOf(x.Lhs[i]); o != nil {
							optsOf[o] = keysOf(cl)
						}
					}
					// v.PruneFn = func ...
					if sel, ok := x.Lhs[i].(*ast.SelectorExpr); ok && slotOfKey[sel.Sel.Name] != "" {
						if m := optsOf[objOf(sel.X)]; m != nil {
							if fl, ok := r.(*ast.FuncLit); ok {
								m[slotOfKey[sel.Sel.Name]] = fnOf[fl].name
							} else {
								m[slotOfKey[sel.Sel.Name]] = "?"
							}
						}
					}
					if ce := isNew(r); ce != nil {
						if sel, ok := x.Lhs[i].(*ast.SelectorExpr); ok && owners[typeName(info.TypeOf(sel.X))] != nil {
							bindNew(typeName(info.TypeOf(sel.X))+"."+sel.Sel.Name, ce, ce.Pos())
						} else {
							slotProblems = append(slotProblems, pos(ce.Pos())+": cache.New assigned to something that is not a field of a mutex-owning struct")
						}
					}
				}
			case *ast.CompositeLit:
				if owner := typeName(info.TypeOf(x)); owners[owner] != nil {
					for _, el := range x.Elts {
						if kv, ok := el.(*ast.KeyValueExpr); ok {
							if ce := isNew(kv.Value); ce != nil {
								bindNew(owner+"."+kv.Key.(*ast.Ident).Name, ce, ce.Pos())
							}
						}
					}
				}
			}
			return true
		})
	}
}

// trackBools: bool parameters and bool locals that guard a Lock/Unlock directly (the `locked` idiom)
func trackBools() {
	isBool := func(o types.Object) bool {
		if o == nil {
			return false
		}
		b, ok := o.Type().Underlying().(*types.Basic)
		return ok && b.Kind() == types.Bool
	}
	for _, pi := range pkgs {
		for _, f := range pi.files {
			ast.Inspect(f, func(n ast.Node) bool {
				switch x := n.(type) {
				case *ast.FuncType:
					if x.Params != nil {
						for _, fl := range x.Params.List {
							for _, id := range fl.Names {
								if o := info.Defs[id]; isBool(o) {
									trackedBools[o] = true
								}
							}
						}
					}
				case *ast.IfStmt:
					guards := false
					for _, s := range x.Body.List {
						if es, ok := s.(*ast.ExprStmt); ok {
							if ce, ok := es.X.(*ast.CallExpr); ok {
								if sel, ok := ce.Fun.(*ast.SelectorExpr); ok && (sel.Sel.Name == "Lock" || sel.Sel.Name == "Unlock" || sel.Sel.Name == "RLock" || sel.Sel.Name == "RUnlock") {
									guards = true
								}
							}
						}
					}
					if guards {
						ast.Inspect(x.Cond, func(c ast.Node) bool {
							if id, ok := c.(*ast.Ident); ok {
								if o := info.Uses[id]; isBool(o) {
									if _, isVar := o.(*types.Var); isVar {
										trackedBools[o] = true
									}
								}
							}
							return true
						})
					}
				}
				return true
			})
		}
	}
}

// nameLits gives every function literal below f a stable name: parent$Key for values of composite-literal keys
// (cache callbacks), parent$ret for a returned literal, parent$go<n>, parent$defer<n>, parent$call<n>, parent$lit<n>.
func nameLits(f *fn) {
	var walk func(n ast.Node, owner *fn)
	walk = func(n ast.Node, owner *fn) {
		var stack []ast.Node
		ast.Inspect(n, func(c ast.Node) bool {
			if c == nil {
				stack = stack[:len(stack)-1]
				return true
			}
			if fl, ok := c.(*ast.FuncLit); ok && c != n {
				owner.nlit++
				kind := fmt.Sprintf("lit%d", owner.nlit)
				if len(stack) > 0 {
					switch p := stack[len(stack)-1].(type) {
					case *ast.KeyValueExpr:
						if id, ok := p.Key.(*ast.Ident); ok && p.Value == fl {
							kind = id.Name
						}
					case *ast.ReturnStmt:
						kind = "ret"
					case *ast.CallExpr:
						if p.Fun == fl && len(stack) > 1 {
							switch stack[len(stack)-2].(type) {
							case *ast.GoStmt:
								kind = fmt.Sprintf("go%d", owner.nlit)
							case *ast.DeferStmt:
								kind = fmt.Sprintf("defer%d", owner.nlit)
							default:
								kind = fmt.Sprintf("call%d", owner.nlit)
							}
						}
					}
				}
				x := &fn{name: owner.name + "$" + kind, typ: fl.Type, body: fl.Body, parent: owner, pkg: owner.pkg}
				for decls[x.name] != nil {
					x.name += "'"
				}
				decls[x.name] = x
				fnOf[fl] = x
				// closures typed by a named func type of the analysed packages (BlobOpt, Opts): dynamic dispatch targets
				if kind == "ret" && owner.typ.Results != nil && len(owner.typ.Results.List) == 1 {
					if nt := namedOf(info.TypeOf(owner.typ.Results.List[0].Type)); nt != nil && analysed(nt.Obj().Pkg()) {
						if _, isSig := nt.Underlying().(*types.Signature); isSig {
							funcTypeImpl[nt.Obj().Name()] = append(funcTypeImpl[nt.Obj().Name()], x)
						}
					}
				}
				walk(fl.Body, x)
				return false
			}
			stack = append(stack, c)
			return true
		})
	}
	walk(f.body, f)
}

func main() {
	repo = os.Getenv("VERIF_REPO")
	if repo == "" {
		repo = "/repo"
	}
	outDir := flag.String("out", "", "directory for LockFacts.lean and FieldAccess.lean (default: print a summary only)")
	sites := flag.String("sites", "", "write the lock-site table (JSON) used by the dynamic recorder to this file")
	verbose := flag.Bool("v", false, "print edges and unrecognised entries")
	flag.Parse()
	repo, _ = filepath.Abs(repo)
	if *outDir != "" {
		*outDir, _ = filepath.Abs(*outDir)
	}
	if *sites != "" {
		*sites, _ = filepath.Abs(*sites)
	}
	if err := os.Chdir(repo); err != nil { // the source importer resolves module imports relative to the working directory
		fatal("%v", err)
	}
	load()
	collect()
	a := newAnalysis()
	a.run()
	if *outDir != "" {
		emitLean(a, *outDir)
	}
	if *sites != "" {
		emitSites(a, *sites)
	}
	a.summary(*verbose)
}
