package main

import (
	"fmt"
	"go/ast"
	"go/token"
	"go/types"
	"sort"
	"strings"
)

// ---------------------------------------------------------------- hand-written tables (see notes/design-C12-C13.md)

// callback slots of the generic cache per cache class: (cache qualifier, slot) -> closure name ("" = the slot is nil).
// Derived in deriveSlots from the cache.New call sites: which field receives the cache and which Opts keys are set
// (so the binding follows a repair that adds or drops a hook); echoed into Generated.lockSlots.
var slotTable = map[string]map[string]string{}

var slotOfKey = map[string]string{"PruneFn": "pruneFn", "PrunePreFn": "prunePreFn", "PrunePostFn": "prunePostFn"}

// calls that leave the analysed packages and matter for the lock program
var externals = map[string]string{
	"time.AfterFunc":                                "spawn:1",              // runs argument 1 on a timer goroutine
	"io.Copy":                                       "call:0:Write",         // calls Write on argument 0
	"(*net/http.Server).Shutdown":                   "wait:Server.handlers", // returns when every in-flight handler has returned (or ctx ends)
	"(*net/http.Server).ListenAndServe":             "wait:Server.listener", // returns when Shutdown is called
	"(*net/http.Server).ListenAndServeTLS":          "wait:Server.listener",
	"github.com/olareg/olareg/internal/httplog.New": "ignore", // registers the Server as the http handler: ServeHTTP is a thread root
	"sort.Sort":                                     "ignore", // calls Len/Less/Swap of sortKeys synchronously; the lessFn closure is analysed where it is created
}

// thread roots that start with a pseudo resource held: a handler is "in flight" for http.Server.Shutdown
var rootHeld = map[string][]string{"Server.ServeHTTP": {"Server.handlers"}}

// channels whose operations never block for long on their own: closed by Close, fed by the runtime, context cancellation
func signalChan(e ast.Expr) bool {
	switch x := e.(type) {
	case *ast.SelectorExpr:
		return x.Sel.Name == "stop" || x.Sel.Name == "C"
	case *ast.CallExpr:
		if s, ok := x.Fun.(*ast.SelectorExpr); ok {
			return s.Sel.Name == "Done"
		}
	}
	return false
}

var recvObjs = map[types.Object]bool{}

// condCache is the cache class of the context whose condition is being evaluated (c.pruneFn != nil is decided by the slot table)
var condCache string

// trackedBools: bool parameters, and bool locals that guard a lock operation (`locked` in RepoGet); other bools are not tracked
var trackedBools = map[types.Object]bool{}

func newState() *state {
	return &state{env: map[types.Object]int8{}, fresh: map[types.Object]bool{}, bind: map[types.Object]string{}}
}

func slotNil(e ast.Expr) (isSlot bool, isNil bool) {
	sel, ok := e.(*ast.SelectorExpr)
	if !ok || typeName(info.TypeOf(sel.X)) != "Cache" || condCache == "" {
		return false, false
	}
	t, ok := slotTable[condCache][sel.Sel.Name]
	return ok, t == ""
}

// ---------------------------------------------------------------- abstract state

type heldLock struct {
	class, at string
	unpub     types.Object // set while the lock belongs to an object under construction held in this local: nobody else can wait for it yet
}

type state struct {
	held   []heldLock
	env    map[types.Object]int8 // +1: true / nil error, -1: false / non-nil error; absent: unknown
	defers []*ast.CallExpr
	fresh  map[types.Object]bool   // locals that hold an object under construction (not yet published)
	ret    int8                    // after a call / at an exit: is the last (error) result nil
	retT   string                  // after a call / at an exit: concrete struct behind the first (interface) result, if known
	bind   map[types.Object]string // interface-typed variable -> the concrete struct it holds on this path
}

func (s *state) clone() *state {
	c := &state{held: append([]heldLock(nil), s.held...), defers: append([]*ast.CallExpr(nil), s.defers...), ret: s.ret, retT: s.retT,
		env: make(map[types.Object]int8, len(s.env)), fresh: make(map[types.Object]bool, len(s.fresh)), bind: make(map[types.Object]string, len(s.bind))}
	for k, v := range s.env {
		c.env[k] = v
	}
	for k, v := range s.bind {
		c.bind[k] = v
	}
	for k, v := range s.fresh {
		c.fresh[k] = v
	}
	return c
}

func (s *state) classes() []string {
	out := make([]string, len(s.held))
	for i, h := range s.held {
		out[i] = h.class
	}
	return out
}

func (s *state) holds(c string) bool {
	for _, h := range s.held {
		if h.class == c {
			return true
		}
	}
	return false
}

func (s *state) release(c string) bool {
	for i := len(s.held) - 1; i >= 0; i-- {
		if s.held[i].class == c {
			s.held = append(s.held[:i:i], s.held[i+1:]...)
			return true
		}
	}
	return false
}

func (s *state) sig() string {
	var b strings.Builder
	b.WriteString(strings.Join(s.classes(), ","))
	b.WriteString("|")
	ks := []string{}
	for k, v := range s.env {
		ks = append(ks, fmt.Sprintf("%s@%d=%d", k.Name(), k.Pos(), v))
	}
	sort.Strings(ks)
	b.WriteString(strings.Join(ks, ","))
	b.WriteString("|")
	for _, d := range s.defers {
		fmt.Fprintf(&b, "%d,", d.Pos())
	}
	ks = ks[:0]
	for k := range s.fresh {
		ks = append(ks, fmt.Sprintf("%s@%d", k.Name(), k.Pos()))
	}
	sort.Strings(ks)
	b.WriteString("|" + strings.Join(ks, ","))
	ks = ks[:0]
	for k, v := range s.bind {
		ks = append(ks, fmt.Sprintf("%s@%d=%s", k.Name(), k.Pos(), v))
	}
	sort.Strings(ks)
	fmt.Fprintf(&b, "|%s|%d|%s", strings.Join(ks, ","), s.ret, s.retT)
	return b.String()
}

func dedupe(sts []*state) []*state {
	seen := map[string]bool{}
	out := sts[:0:0]
	for _, s := range sts {
		k := s.sig()
		if !seen[k] {
			seen[k] = true
			out = append(out, s)
		}
	}
	return out
}

// ---------------------------------------------------------------- conditions over tracked booleans and error values

func objOf(e ast.Expr) types.Object {
	if id, ok := e.(*ast.Ident); ok {
		if o := info.Uses[id]; o != nil {
			return o
		}
		return info.Defs[id]
	}
	return nil
}

func isNilIdent(e ast.Expr) bool {
	id, ok := e.(*ast.Ident)
	if !ok {
		return false
	}
	_, isNil := info.Uses[id].(*types.Nil)
	return isNil
}

func isErrorType(t types.Type) bool {
	return t != nil && t.String() == "error"
}

// cond evaluates e to +1 (true), -1 (false) or 0 (unknown)
func cond(st *state, e ast.Expr) int8 {
	switch x := e.(type) {
	case *ast.ParenExpr:
		return cond(st, x.X)
	case *ast.Ident:
		if x.Name == "true" {
			return 1
		}
		if x.Name == "false" {
			return -1
		}
		if o := objOf(x); o != nil {
			if trackedBools[o] {
				return st.env[o]
			}
		}
	case *ast.UnaryExpr:
		if x.Op == token.NOT {
			return -cond(st, x.X)
		}
	case *ast.BinaryExpr:
		switch x.Op {
		case token.LAND:
			l, r := cond(st, x.X), cond(st, x.Y)
			if l == -1 || r == -1 {
				return -1
			}
			if l == 1 && r == 1 {
				return 1
			}
		case token.LOR:
			l, r := cond(st, x.X), cond(st, x.Y)
			if l == 1 || r == 1 {
				return 1
			}
			if l == -1 && r == -1 {
				return -1
			}
		case token.EQL, token.NEQ:
			var v ast.Expr
			if isNilIdent(x.Y) {
				v = x.X
			} else if isNilIdent(x.X) {
				v = x.Y
			}
			if v != nil {
				if isSlot, isNil := slotNil(v); isSlot {
					if isNil == (x.Op == token.EQL) {
						return 1
					}
					return -1
				}
			}
			if o := objOf(v); v != nil && o != nil && recvObjs[o] { // the receiver of a method is not nil
				if x.Op == token.NEQ {
					return 1
				}
				return -1
			}
			if o := objOf(v); v != nil && o != nil && isErrorType(o.Type()) {
				r := st.env[o]
				if x.Op == token.NEQ {
					r = -r
				}
				return r
			}
		}
	}
	return 0
}

// assume refines the environment with the knowledge that e evaluated to val
func assume(st *state, e ast.Expr, val bool) {
	v := int8(-1)
	if val {
		v = 1
	}
	switch x := e.(type) {
	case *ast.ParenExpr:
		assume(st, x.X, val)
	case *ast.Ident:
		if o := objOf(x); o != nil && trackedBools[o] {
			st.env[o] = v
		}
	case *ast.UnaryExpr:
		if x.Op == token.NOT {
			assume(st, x.X, !val)
		}
	case *ast.BinaryExpr:
		switch {
		case x.Op == token.LAND && val, x.Op == token.LOR && !val:
			assume(st, x.X, val)
			assume(st, x.Y, val)
		case x.Op == token.EQL || x.Op == token.NEQ:
			var t ast.Expr
			if isNilIdent(x.Y) {
				t = x.X
			} else if isNilIdent(x.X) {
				t = x.Y
			}
			if o := objOf(t); t != nil && o != nil && isErrorType(o.Type()) {
				if x.Op == token.NEQ {
					v = -v
				}
				st.env[o] = v
			}
		}
	}
}

// errNil classifies a returned error expression: +1 nil, -1 certainly non-nil, 0 unknown
func errNil(st *state, e ast.Expr) int8 {
	if isNilIdent(e) {
		return 1
	}
	switch x := e.(type) {
	case *ast.Ident:
		if o := objOf(x); o != nil && isErrorType(o.Type()) {
			if _, isVar := o.(*types.Var); isVar && o.Parent() != nil && o.Parent() != o.Pkg().Scope() {
				return st.env[o]
			}
		}
	case *ast.SelectorExpr: // types.ErrNotFound and friends: package-level error values
		if o, ok := info.Uses[x.Sel].(*types.Var); ok && o.Pkg() != nil && o.Parent() == o.Pkg().Scope() {
			return -1
		}
	case *ast.CallExpr:
		if s, ok := x.Fun.(*ast.SelectorExpr); ok {
			if id, ok := s.X.(*ast.Ident); ok && (id.Name == "fmt" && s.Sel.Name == "Errorf" || id.Name == "errors" && s.Sel.Name == "New") {
				return -1
			}
			if s.Sel.Name == "Err" { // ctx.Err() after ctx.Done()
				return -1
			}
		}
	}
	return 0
}
