package main

import (
	"fmt"
	"go/ast"
	"go/token"
	"go/types"
	"sort"
	"strings"
)

type edge struct{ from, to string }

type edgeWit struct{ heldAt, acqAt, root, chain string }

type access struct {
	owner, field string
	write, ctor  bool
	held         []string
	own          string // the mutex class of the accessed object
	root, fn, at string
}

type unrec struct{ at, what string }

type wgAdd struct {
	class, fn             string
	token, ctor, hasToken bool
	at                    string
}

// repoWait: a blocking wait of the repository protocol — taking the token (`<-wgBlock`, alone or as a select arm without
// default) or the collector's / Close's wg.Wait on a wait group that has a token — with the mutexes held at that point
type repoWait struct {
	kind, class, held, root, fn, at string
}

type lockedCall struct {
	callee              string
	claimed, held, ctor bool
	at                  string
}

type ctx struct {
	f     *fn
	cache string          // cache qualifier while inside (closures of) a Cache method
	fresh map[string]bool // struct types whose instance is still under construction in this call tree
	root  string
	stack []string
}

type frame struct {
	c         *ctx
	exits     []*state
	breaks    []*state
	continues []*state
}

type rootSpec struct {
	name  string
	f     *fn
	cache string
	bind  map[types.Object]string
	held  []string
	fresh map[string]bool
}

type analysis struct {
	edges       map[edge]edgeWit
	accesses    map[string]access
	unrecs      map[unrec]bool
	leaks       map[string]bool // "root|class": a thread root that can end while still holding the class
	memo        map[string][]*state
	active      map[string]bool
	reached     map[string]bool
	roots       []rootSpec
	rootSeen    map[string]bool
	sites       map[string]string // file:line of a Lock call or of a call into a cache -> class / cache qualifier
	classes     map[string]bool
	lockedCalls map[lockedCall]bool
	wgAdds      map[wgAdd]bool
	repoWaits   map[repoWait]bool
	tokenTakes  map[[2]string]bool // (function, "true"/"false": the receive is one arm of a select with a ctx.Done() arm)
	inCtxSelect bool
}

func newAnalysis() *analysis {
	return &analysis{edges: map[edge]edgeWit{}, accesses: map[string]access{}, unrecs: map[unrec]bool{}, leaks: map[string]bool{},
		memo: map[string][]*state{}, active: map[string]bool{}, reached: map[string]bool{}, rootSeen: map[string]bool{}, sites: map[string]string{}, classes: map[string]bool{}, lockedCalls: map[lockedCall]bool{}, tokenTakes: map[[2]string]bool{}, wgAdds: map[wgAdd]bool{}, repoWaits: map[repoWait]bool{}}
}

func (a *analysis) unrecognised(p token.Pos, what string) { a.unrecs[unrec{pos(p), what}] = true }

func (a *analysis) addRoot(r rootSpec) {
	if a.rootSeen[r.name] {
		return
	}
	a.rootSeen[r.name] = true
	a.roots = append(a.roots, r)
}

func exported(name string) bool { return name != "" && name[0] >= 'A' && name[0] <= 'Z' }

func (a *analysis) run() {
	// thread roots: every exported function and exported method of a non-generic type, with nothing held
	names := []string{}
	for n := range decls {
		names = append(names, n)
	}
	sort.Strings(names)
	for _, n := range names {
		f := decls[n]
		if f.decl == nil || f.recv == "Cache" {
			continue // cache methods are only analysed through a call site that fixes the cache class
		}
		base := n[strings.LastIndex(n, ".")+1:]
		if exported(base) {
			a.addRoot(rootSpec{name: n, f: f, held: rootHeld[n]})
		}
	}
	for i := 0; i < len(a.roots); i++ { // the list grows while goroutines and timers are discovered
		r := a.roots[i]
		c := &ctx{f: r.f, cache: r.cache, fresh: r.fresh, root: r.name}
		st := newState()
		for k, v := range r.bind {
			st.bind[k] = v
		}
		for _, h := range r.held {
			st.held = append(st.held, heldLock{class: h, at: "thread start"})
			a.classes[h] = true
		}
		for _, ex := range a.invoke(c, r.f, []*state{st}) {
			for _, h := range ex.held {
				if h.at != "thread start" {
					a.leaks[r.name+"|"+h.class] = true
				}
			}
		}
	}
	a.checkSlots()
}

// checkSlots: every cache field has a derived binding, every callback closure is bound, nothing was left undecided
func (a *analysis) checkSlots() {
	for _, p := range slotProblems {
		a.unrecs[unrec{"slot table", p}] = true
	}
	used := map[string]bool{}
	for c, m := range slotTable {
		for s, t := range m {
			used[t] = true
			if t == "?" {
				a.unrecs[unrec{"slot table", "slot " + s + " of " + c + " is not a function literal"}] = true
			}
		}
	}
	for _, cf := range cacheFields {
		if slotTable[cf] == nil {
			a.unrecs[unrec{"slot table", "no cache.New found for " + cf}] = true
		}
	}
	for n, f := range decls {
		if f.parent != nil && isSlotClosure(n) && !used[n] {
			a.unrecs[unrec{pos(f.body.Pos()), "cache callback " + n + " is not bound to a cache class"}] = true
		}
	}
}

// ---------------------------------------------------------------- recording

// classes of sync.Mutex fields (the other classes are wait groups, tokens and waited-for pseudo resources)
var mutexClasses = map[string]bool{}

func mutexOnly(held []heldLock) []string {
	out := []string{}
	seen := map[string]bool{}
	for _, h := range held {
		if mutexClasses[h.class] && !seen[h.class] {
			seen[h.class] = true
			out = append(out, h.class)
		}
	}
	sort.Strings(out)
	return out
}

func (a *analysis) acquire(fr *frame, st *state, class string, p token.Pos, keep bool) {
	a.classes[class] = true
	for _, h := range st.held {
		if h.unpub != nil {
			continue
		}
		e := edge{h.class, class}
		if _, ok := a.edges[e]; !ok {
			a.edges[e] = edgeWit{h.at, pos(p), fr.c.root, strings.Join(fr.c.stack, " > ")}
		}
	}
	if keep {
		st.held = append(st.held, heldLock{class: class, at: pos(p)})
	}
}

func (a *analysis) recordAccess(fr *frame, st *state, sel *ast.SelectorExpr, owner string, write bool) {
	root := sel.X
	for {
		switch x := root.(type) {
		case *ast.SelectorExpr:
			root = x.X
			continue
		case *ast.ParenExpr:
			root = x.X
			continue
		case *ast.StarExpr:
			root = x.X
			continue
		case *ast.UnaryExpr:
			root = x.X
			continue
		}
		break
	}
	ctor := fr.c.fresh[owner]
	if o := objOf(root); o != nil && st.fresh[o] && typeName(o.Type()) == owner {
		ctor = true
	}
	own := owner + ".mu"
	if owner == "Cache" {
		if fr.c.cache == "" {
			a.unrecognised(sel.Pos(), "cache field accessed outside a qualified cache call")
		}
		own = fr.c.cache + "/Cache.mu"
	}
	ac := access{owner: owner, field: sel.Sel.Name, write: write, ctor: ctor, held: mutexOnly(st.held), own: own, root: fr.c.root, fn: fr.c.f.name, at: pos(sel.Pos())}
	k := fmt.Sprintf("%s.%s|%v|%v|%s|%s|%s|%s", ac.owner, ac.field, ac.write, ac.ctor, strings.Join(ac.held, ","), ac.own, ac.at, lifeKey(ac.root))
	if _, ok := a.accesses[k]; !ok {
		a.accesses[k] = ac
	}
}

// accesses are kept once per (position, held set, own lock, ctor flag, thread root kind); the root itself only matters
// for the lifecycle exemption of C13, so roots are collapsed to "is the root named Close/Shutdown/Run/New*" here
func lifeKey(root string) string {
	base := root[strings.LastIndex(root, ".")+1:]
	if base == "Close" || base == "Shutdown" || base == "Run" || strings.HasPrefix(base, "New") {
		return root
	}
	return ""
}

func (a *analysis) recordWait(fr *frame, st *state, kind, class string, p token.Pos) {
	held := []heldLock{}
	for _, h := range st.held {
		if h.unpub == nil {
			held = append(held, h)
		}
	}
	a.repoWaits[repoWait{kind, class, strings.Join(mutexOnly(held), ","), fr.c.root, fr.c.f.name, pos(p)}] = true
}

// ---------------------------------------------------------------- functions

func (a *analysis) memoKey(c *ctx, f *fn, st *state, params []types.Object) string {
	var b strings.Builder
	fmt.Fprintf(&b, "%s|%s|", f.name, c.cache)
	bs := []string{}
	for o, t := range st.bind {
		bs = append(bs, o.Name()+"="+t)
	}
	sort.Strings(bs)
	fs := []string{}
	for t := range c.fresh {
		fs = append(fs, t)
	}
	sort.Strings(fs)
	fmt.Fprintf(&b, "%s|%s|%s|", strings.Join(bs, ","), strings.Join(fs, ","), strings.Join(st.classes(), ","))
	for _, p := range params {
		fmt.Fprintf(&b, "%s=%d,", p.Name(), st.env[p])
	}
	fmt.Fprintf(&b, "|%s", lifeKey(c.root))
	return b.String()
}

func paramObjs(f *fn) []types.Object {
	var out []types.Object
	if f.typ.Params != nil {
		for _, fl := range f.typ.Params.List {
			for _, n := range fl.Names {
				out = append(out, info.Defs[n])
			}
		}
	}
	return out
}

// invoke runs f's body from each entry state (env already holds the parameter values) and returns the exit states
// (deferred calls run); a bool parameter whose value is unknown is analysed under both values
func (a *analysis) invoke(c *ctx, f *fn, entry []*state) []*state {
	a.reached[f.name] = true
	params := paramObjs(f)
	var forked []*state
	for _, st := range entry {
		sts := []*state{st}
		for _, p := range params {
			if p == nil {
				continue
			}
			if b, ok := p.Type().Underlying().(*types.Basic); ok && b.Kind() == types.Bool {
				var nx []*state
				for _, s := range sts {
					if s.env[p] == 0 {
						t := s.clone()
						s.env[p], t.env[p] = 1, -1
						nx = append(nx, s, t)
					} else {
						nx = append(nx, s)
					}
				}
				sts = nx
			}
		}
		forked = append(forked, sts...)
	}
	var out []*state
	for _, st := range forked {
		key := a.memoKey(c, f, st, params)
		if res, ok := a.memo[key]; ok {
			for _, r := range res {
				n := st.clone()
				n.held, n.ret, n.retT = append([]heldLock(nil), r.held...), r.ret, r.retT
				out = append(out, n)
			}
			continue
		}
		if a.active[key] {
			a.unrecognised(f.body.Pos(), "recursion through "+f.name)
			out = append(out, st)
			continue
		}
		a.active[key] = true
		fr := &frame{c: c}
		saved := st.defers
		st.defers = nil
		end := a.block(fr, []*state{st}, f.body.List)
		for _, s := range end {
			s.ret, s.retT = 0, ""
		}
		exits := a.runDefers(fr, append(fr.exits, end...))
		exits = forgetUseless(exits)
		for _, s := range exits {
			s.defers = append([]*ast.CallExpr(nil), saved...)
		}
		exits = dedupe(exits)
		delete(a.active, key)
		a.memo[key] = exits
		out = append(out, exits...)
	}
	return dedupe(out)
}

func (a *analysis) runDefers(fr *frame, exits []*state) []*state {
	var out []*state
	for _, st := range exits {
		sts := []*state{st}
		ds := st.defers
		st.defers = nil
		ret, retT := st.ret, st.retT
		for i := len(ds) - 1; i >= 0; i-- {
			var nx []*state
			for _, s := range sts {
				nx = append(nx, a.call(fr, s, ds[i], true)...)
			}
			sts = nx
		}
		for _, s := range sts {
			s.ret, s.retT = ret, retT
		}
		out = append(out, sts...)
	}
	return out
}

// inline runs a function literal in the current frame's context (shared variables) with its own return frame
func (a *analysis) inline(fr *frame, st *state, lit *ast.FuncLit) []*state {
	f := fnOf[lit]
	a.reached[f.name] = true
	c2 := *fr.c
	c2.f = f
	fr2 := &frame{c: &c2}
	saved := st.defers
	st.defers = nil
	end := a.block(fr2, []*state{st}, lit.Body.List)
	for _, s := range end {
		s.ret, s.retT = 0, ""
	}
	exits := a.runDefers(fr2, append(fr2.exits, end...))
	for _, s := range exits {
		s.defers = append([]*ast.CallExpr(nil), saved...)
	}
	return dedupe(exits)
}

// ---------------------------------------------------------------- statements

func (a *analysis) block(fr *frame, sts []*state, list []ast.Stmt) []*state {
	for _, s := range list {
		if len(sts) == 0 {
			break
		}
		var out []*state
		for _, st := range sts {
			out = append(out, a.stmt(fr, st, s)...)
		}
		sts = dedupe(out)
		if len(sts) > 64 {
			a.unrecognised(s.Pos(), "more than 64 abstract states")
			sts = sts[:64]
		}
	}
	return sts
}

func (a *analysis) exprs(fr *frame, sts []*state, es []ast.Expr) []*state {
	for _, e := range es {
		var out []*state
		for _, st := range sts {
			out = append(out, a.expr(fr, st, e, false)...)
		}
		sts = out
	}
	return sts
}

// stmt runs one statement; knowledge about variables declared inside a compound statement is dropped when it is left
func (a *analysis) stmt(fr *frame, st *state, s ast.Stmt) []*state {
	out := a.stmt0(fr, st, s)
	switch s.(type) {
	case *ast.BlockStmt, *ast.IfStmt, *ast.ForStmt, *ast.RangeStmt, *ast.SwitchStmt, *ast.TypeSwitchStmt, *ast.SelectStmt:
		for _, o := range out {
			forgetScope(o, s)
		}
		for _, l := range [][]*state{fr.exits, fr.breaks, fr.continues} {
			for _, o := range l {
				forgetScope(o, s)
			}
		}
	}
	return out
}

func forgetScope(st *state, s ast.Stmt) {
	in := func(o types.Object) bool { return o.Pos() >= s.Pos() && o.Pos() <= s.End() }
	for o := range st.env {
		if in(o) {
			delete(st.env, o)
		}
	}
	for o := range st.bind {
		if in(o) {
			delete(st.bind, o)
		}
	}
	for o := range st.fresh {
		if in(o) {
			delete(st.fresh, o)
		}
	}
}

// forgetUseless: whether the error result is nil only matters to the caller when it tells exit states with different
// held locks apart (RepoGet); otherwise it is dropped to keep the number of abstract states small
func forgetUseless(exits []*state) []*state {
	if len(exits) == 0 {
		return exits
	}
	sameHeld, sameRet := true, true
	h0 := strings.Join(exits[0].classes(), ",")
	for _, e := range exits {
		if strings.Join(e.classes(), ",") != h0 || e.retT != exits[0].retT {
			sameHeld = false
		}
		if e.ret != exits[0].ret {
			sameRet = false
		}
	}
	if sameHeld && !sameRet {
		for _, e := range exits {
			e.ret = 0
		}
	}
	return exits
}

func lastResultIsError(f *fn) bool {
	if f.typ.Results == nil || len(f.typ.Results.List) == 0 {
		return false
	}
	l := f.typ.Results.List
	return isErrorType(info.TypeOf(l[len(l)-1].Type))
}

// concreteOf: the struct behind an expression of interface type, when the expression's static type or the path says so
func concreteOf(st *state, e ast.Expr) string {
	if o := objOf(e); o != nil && st.bind[o] != "" {
		return st.bind[o]
	}
	t := info.TypeOf(e)
	if t == nil || types.IsInterface(t) {
		return ""
	}
	if n := typeName(t); owners[n] != nil {
		return n
	}
	return ""
}

func (a *analysis) stmt0(fr *frame, st *state, s ast.Stmt) []*state {
	switch x := s.(type) {
	case nil, *ast.EmptyStmt:
		return []*state{st}
	case *ast.BlockStmt:
		return a.block(fr, []*state{st}, x.List)
	case *ast.LabeledStmt:
		return a.stmt(fr, st, x.Stmt)
	case *ast.ExprStmt:
		out := a.expr(fr, st, x.X, false)
		a.publish(out, s)
		return out
	case *ast.IncDecStmt:
		return a.expr(fr, st, x.X, true)
	case *ast.SendStmt:
		out := a.expr(fr, st, x.Value, false)
		for _, o := range out {
			a.chanOp(fr, o, x.Chan, true, true, x.Pos())
		}
		return out
	case *ast.DeclStmt:
		gd, ok := x.Decl.(*ast.GenDecl)
		if !ok {
			a.unrecognised(x.Pos(), "declaration")
			return []*state{st}
		}
		sts := []*state{st}
		for _, sp := range gd.Specs {
			if vs, ok := sp.(*ast.ValueSpec); ok {
				sts = a.exprs(fr, sts, vs.Values)
				for _, o := range sts {
					for i, n := range vs.Names {
						if i < len(vs.Values) {
							a.bindLocal(fr, o, n, vs.Values[i])
						}
					}
				}
			}
		}
		return sts
	case *ast.AssignStmt:
		return a.assign(fr, st, x)
	case *ast.GoStmt:
		out := a.spawn(fr, st, x.Call, "go")
		a.publish(out, s)
		return out
	case *ast.DeferStmt:
		// arguments and receiver are evaluated now, the call runs at exit
		sts := []*state{st}
		if _, isLit := x.Call.Fun.(*ast.FuncLit); !isLit {
			sts = a.exprs(fr, sts, x.Call.Args)
		}
		for _, o := range sts {
			o.defers = append(o.defers, x.Call)
		}
		return sts
	case *ast.ReturnStmt:
		sts := a.exprs(fr, []*state{st}, x.Results)
		_, passThrough := ast.Expr(nil), false
		if len(x.Results) == 1 {
			_, passThrough = x.Results[0].(*ast.CallExpr) // return f(...): the callee's results are the results
		}
		for _, o := range sts {
			if passThrough {
				if !lastResultIsError(fr.c.f) {
					o.ret = 0
				}
				continue
			}
			o.ret, o.retT = 0, ""
			if n := len(x.Results); n > 0 && lastResultIsError(fr.c.f) {
				o.ret = errNil(o, x.Results[n-1])
			}
			if len(x.Results) > 0 {
				o.retT = concreteOf(o, x.Results[0])
			}
		}
		fr.exits = append(fr.exits, sts...)
		return nil
	case *ast.BranchStmt:
		switch x.Tok {
		case token.BREAK:
			fr.breaks = append(fr.breaks, st)
		case token.CONTINUE:
			fr.continues = append(fr.continues, st)
		default:
			a.unrecognised(x.Pos(), "branch statement "+x.Tok.String())
		}
		return nil
	case *ast.IfStmt:
		var out []*state
		for _, o := range a.stmt(fr, st, x.Init) {
			for _, o2 := range a.expr(fr, o, x.Cond, false) {
				condCache = fr.c.cache
				v := cond(o2, x.Cond)
				if v >= 0 {
					t := o2
					if v == 0 {
						t = o2.clone()
						assume(t, x.Cond, true)
					}
					out = append(out, a.block(fr, []*state{t}, x.Body.List)...)
				}
				if v <= 0 {
					if v == 0 {
						assume(o2, x.Cond, false)
					}
					if x.Else != nil {
						out = append(out, a.stmt(fr, o2, x.Else)...)
					} else {
						out = append(out, o2)
					}
				}
			}
		}
		return out
	case *ast.ForStmt:
		sts := a.stmt(fr, st, x.Init)
		return a.loop(fr, sts, x.Cond, x.Body, x.Post, x.Cond == nil)
	case *ast.RangeStmt:
		sts := a.expr(fr, st, x.X, false)
		return a.loop(fr, sts, nil, x.Body, nil, false)
	case *ast.SwitchStmt:
		var out []*state
		for _, o := range a.stmt(fr, st, x.Init) {
			sts := []*state{o}
			if x.Tag != nil {
				sts = a.expr(fr, o, x.Tag, false)
			}
			for _, o2 := range sts {
				out = append(out, a.clauses(fr, o2, x.Body.List)...)
			}
		}
		return out
	case *ast.TypeSwitchStmt:
		var out []*state
		for _, o := range a.stmt(fr, st, x.Init) {
			for _, o2 := range a.stmt(fr, o, x.Assign) {
				out = append(out, a.clauses(fr, o2, x.Body.List)...)
			}
		}
		return out
	case *ast.SelectStmt:
		return a.selectStmt(fr, st, x)
	}
	a.unrecognised(s.Pos(), fmt.Sprintf("statement %T", s))
	return []*state{st}
}

// clauses of a switch: every clause is entered from the same state; without a default the switch may be skipped
func (a *analysis) clauses(fr *frame, st *state, list []ast.Stmt) []*state {
	var out []*state
	hasDefault := false
	savedBreaks := fr.breaks
	fr.breaks = nil
	for _, cl := range list {
		cc := cl.(*ast.CaseClause)
		if cc.List == nil {
			hasDefault = true
		}
		sts := a.exprs(fr, []*state{st.clone()}, cc.List)
		out = append(out, a.block(fr, sts, cc.Body)...)
	}
	if !hasDefault {
		out = append(out, st)
	}
	out = append(out, fr.breaks...)
	fr.breaks = savedBreaks
	return out
}

func (a *analysis) loop(fr *frame, entry []*state, cnd ast.Expr, body *ast.BlockStmt, post ast.Stmt, forever bool) []*state {
	savedB, savedC := fr.breaks, fr.continues
	fr.breaks, fr.continues = nil, nil
	seen := map[string]bool{}
	var exit []*state
	work := entry
	for round := 0; len(work) > 0; round++ {
		if round > 6 {
			a.unrecognised(body.Pos(), "loop does not reach a fixed point of held locks")
			break
		}
		var next []*state
		for _, st := range work {
			if seen[st.sig()] {
				continue
			}
			seen[st.sig()] = true
			sts := []*state{st}
			if cnd != nil {
				sts = a.expr(fr, st, cnd, false)
			}
			for _, s := range sts {
				if !forever {
					exit = append(exit, s.clone())
				}
				out := a.block(fr, []*state{s}, body.List)
				out = append(out, fr.continues...)
				fr.continues = nil
				for _, o := range out {
					next = append(next, a.stmt(fr, o, post)...)
				}
			}
		}
		work = dedupe(next)
	}
	exit = append(exit, fr.breaks...)
	fr.breaks, fr.continues = savedB, savedC
	return dedupe(exit)
}

func (a *analysis) selectStmt(fr *frame, st *state, x *ast.SelectStmt) []*state {
	hasDefault := false
	for _, cl := range x.Body.List {
		if cl.(*ast.CommClause).Comm == nil {
			hasDefault = true
		}
	}
	var out []*state
	savedBreaks := fr.breaks
	fr.breaks = nil
	savedSel := a.inCtxSelect
	a.inCtxSelect = false
	for _, cl := range x.Body.List {
		if es, ok := cl.(*ast.CommClause).Comm.(*ast.ExprStmt); ok {
			if u, ok := es.X.(*ast.UnaryExpr); ok && u.Op == token.ARROW {
				if ce, ok := u.X.(*ast.CallExpr); ok {
					if sel, ok := ce.Fun.(*ast.SelectorExpr); ok && sel.Sel.Name == "Done" && info.TypeOf(sel.X) != nil && info.TypeOf(sel.X).String() == "context.Context" {
						a.inCtxSelect = true
					}
				}
			}
		}
	}
	defer func() { a.inCtxSelect = savedSel }()
	for _, cl := range x.Body.List {
		cc := cl.(*ast.CommClause)
		s := st.clone()
		sts := []*state{s}
		switch c := cc.Comm.(type) {
		case nil:
		case *ast.SendStmt:
			a.chanOp(fr, s, c.Chan, true, !hasDefault, c.Pos())
		case *ast.ExprStmt:
			a.commRecv(fr, s, c.X, !hasDefault)
		case *ast.AssignStmt:
			if len(c.Rhs) == 1 {
				a.commRecv(fr, s, c.Rhs[0], !hasDefault)
			}
		}
		out = append(out, a.block(fr, sts, cc.Body)...)
	}
	out = append(out, fr.breaks...)
	fr.breaks = savedBreaks
	return out
}

func (a *analysis) commRecv(fr *frame, st *state, e ast.Expr, blocking bool) {
	if u, ok := e.(*ast.UnaryExpr); ok && u.Op == token.ARROW {
		a.chanOp(fr, st, u.X, false, blocking, u.Pos())
		return
	}
	a.unrecognised(e.Pos(), "select case")
}

// chanOp: the capacity-one channel wgBlock is a token (receive = take, send = put back); stop/ticker/ctx channels are signals
func (a *analysis) chanOp(fr *frame, st *state, ch ast.Expr, send, blocking bool, p token.Pos) {
	if sel, ok := ch.(*ast.SelectorExpr); ok && sel.Sel.Name == "wgBlock" {
		if owner := typeName(info.TypeOf(sel.X)); owners[owner] != nil {
			a.recordAccess(fr, st, sel, owner, false)
			class := owner + ".wgBlock"
			if send {
				st.release(class) // the initial fill in RepoGet puts a token nobody holds
			} else {
				a.acquire(fr, st, class, p, true)
				a.tokenTakes[[2]string{fr.c.f.name, fmt.Sprint(a.inCtxSelect && blocking)}] = true
				if blocking {
					a.recordWait(fr, st, "token", class, p)
				}
			}
			return
		}
	}
	if sel, ok := ch.(*ast.SelectorExpr); ok {
		if owner := typeName(info.TypeOf(sel.X)); owners[owner] != nil {
			a.recordAccess(fr, st, sel, owner, false)
		}
	}
	if signalChan(ch) && !send {
		return
	}
	a.unrecognised(p, "channel operation on "+types.ExprString(ch))
}

func (a *analysis) assign(fr *frame, st *state, x *ast.AssignStmt) []*state {
	sts := a.exprs(fr, []*state{st}, x.Rhs)
	for _, o := range sts {
		ret := o.ret
		for _, l := range x.Lhs {
			if id, ok := l.(*ast.Ident); ok {
				if obj := objOf(id); obj != nil {
					delete(o.env, obj)
				}
				continue
			}
			for _, o2 := range a.expr(fr, o, l, true) {
				_ = o2 // left-hand sides contain no calls that fork in this code base
			}
		}
		if len(x.Lhs) == len(x.Rhs) {
			for i, l := range x.Lhs {
				if id, ok := l.(*ast.Ident); ok {
					a.bindLocal(fr, o, id, x.Rhs[i])
				}
			}
		}
		// the error result of a call: remember whether it is nil; the first result: remember the struct behind an interface
		if len(x.Rhs) == 1 {
			if _, isCall := x.Rhs[0].(*ast.CallExpr); isCall {
				if id, ok := x.Lhs[0].(*ast.Ident); ok {
					if obj := objOf(id); obj != nil && types.IsInterface(obj.Type()) && !isErrorType(obj.Type()) {
						if o.retT != "" {
							o.bind[obj] = o.retT
						} else {
							delete(o.bind, obj)
						}
					}
				}
				if id, ok := x.Lhs[len(x.Lhs)-1].(*ast.Ident); ok {
					if obj := objOf(id); obj != nil && isErrorType(obj.Type()) && ret != 0 {
						o.env[obj] = ret
					}
				}
			}
		}
	}
	a.publish(sts, x)
	return sts
}

// bindLocal tracks what a local variable holds: a bool constant, a fresh object (composite literal of a mutex-owning
// struct), or a concrete store type behind an interface
func (a *analysis) bindLocal(fr *frame, st *state, id *ast.Ident, rhs ast.Expr) {
	obj := objOf(id)
	if obj == nil {
		return
	}
	if b, ok := obj.Type().Underlying().(*types.Basic); ok && b.Kind() == types.Bool {
		if !trackedBools[obj] {
			return
		}
		if v := cond(st, rhs); v != 0 {
			st.env[obj] = v
		} else {
			delete(st.env, obj)
		}
		return
	}
	e := rhs
	if u, ok := e.(*ast.UnaryExpr); ok && u.Op == token.AND {
		e = u.X
	}
	if cl, ok := e.(*ast.CompositeLit); ok {
		if owners[typeName(info.TypeOf(cl))] != nil {
			st.fresh[obj] = true
		}
	}
	if types.IsInterface(obj.Type()) && !isErrorType(obj.Type()) {
		if _, isCall := rhs.(*ast.CallExpr); !isCall {
			if t := concreteOf(st, rhs); t != "" {
				st.bind[obj] = t
			}
		}
	}
}

// publish: after a statement, a fresh object that was handed to a cache, to code outside the analysed packages, to a
// goroutine, stored into a field or map, or returned, is no longer under construction
func (a *analysis) publish(sts []*state, s ast.Stmt) {
	if len(sts) == 0 || len(sts[0].fresh) == 0 {
		return
	}
	mentions := func(n ast.Node, o types.Object) bool {
		found := false
		ast.Inspect(n, func(c ast.Node) bool {
			if id, ok := c.(*ast.Ident); ok && objOf(id) == o {
				found = true
			}
			return !found
		})
		return found
	}
	bare := func(e ast.Expr, o types.Object) bool {
		if u, ok := e.(*ast.UnaryExpr); ok && u.Op == token.AND {
			e = u.X
		}
		return objOf(e) == o
	}
	for _, st := range sts {
		for o := range st.fresh {
			pub := false
			switch x := s.(type) {
			case *ast.GoStmt:
				pub = mentions(x, o)
			case *ast.AssignStmt:
				for i, l := range x.Lhs {
					if _, local := l.(*ast.Ident); !local && i < len(x.Rhs) && bare(x.Rhs[i], o) {
						pub = true
					}
				}
			}
			ast.Inspect(s, func(c ast.Node) bool {
				ce, ok := c.(*ast.CallExpr)
				if !ok {
					return true
				}
				for _, arg := range ce.Args {
					if !bare(arg, o) {
						continue
					}
					tg := calleeName(ce)
					if f := decls[tg]; f == nil || f.recv == "Cache" {
						pub = true
					}
				}
				return true
			})
			if pub {
				delete(st.fresh, o)
				for i := range st.held {
					if st.held[i].unpub == o {
						st.held[i].unpub = nil
					}
				}
			}
		}
	}
}
