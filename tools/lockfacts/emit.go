package main

import (
	"encoding/json"
	"fmt"
	"go/ast"
	"go/token"
	"go/types"
	"os"
	"path/filepath"
	"sort"
	"strconv"
	"strings"
)

func leanID(s string) string {
	s = strings.ReplaceAll(s, "@", "_at_")
	var b strings.Builder
	for _, r := range s {
		if r >= 'a' && r <= 'z' || r >= 'A' && r <= 'Z' || r >= '0' && r <= '9' {
			b.WriteRune(r)
		} else {
			b.WriteByte('_')
		}
	}
	return b.String()
}

// ---------------------------------------------------------------- flat event listing per function (source order)

type event struct{ kind, arg, at string }

func relClass(e ast.Expr) string {
	sel, ok := e.(*ast.SelectorExpr)
	if !ok {
		return ""
	}
	owner := typeName(info.TypeOf(sel.X))
	if owners[owner] == nil {
		return ""
	}
	return owner + "." + sel.Sel.Name
}

func events(f *fn) []event {
	var evs []event
	deferred := map[*ast.CallExpr]bool{}
	spawned := map[*ast.CallExpr]bool{}
	add := func(k, arg string, p token.Pos) { evs = append(evs, event{k, arg, pos(p)}) }
	ast.Inspect(f.body, func(n ast.Node) bool {
		switch x := n.(type) {
		case *ast.DeferStmt:
			deferred[x.Call] = true
		case *ast.GoStmt:
			spawned[x.Call] = true
			switch t := unwrapFun(x.Call.Fun).(type) {
			case *ast.FuncLit:
				add("go", fnOf[t].name, x.Pos())
			default:
				if nm := calleeName(x.Call); nm != "" {
					add("go", nm, x.Pos())
				} else {
					add("unrecognised", "go "+types.ExprString(x.Call.Fun), x.Pos())
				}
			}
		case *ast.FuncLit:
			g := fnOf[x]
			if !strings.Contains(g.name[strings.LastIndex(g.name, "$"):], "$go") {
				k := "closure"
				if strings.Contains(g.name[strings.LastIndex(g.name, "$"):], "$defer") {
					k = "deferCall"
				} else if strings.Contains(g.name[strings.LastIndex(g.name, "$"):], "$call") {
					k = "call"
				}
				add(k, g.name, x.Pos())
			}
			return false
		case *ast.SendStmt:
			add("send", chanName(x.Chan), x.Pos())
		case *ast.UnaryExpr:
			if x.Op == token.ARROW {
				add("recv", chanName(x.X), x.Pos())
			}
		case *ast.CallExpr:
			if spawned[x] {
				return true
			}
			fun := unwrapFun(x.Fun)
			sel, isSel := fun.(*ast.SelectorExpr)
			if isSel {
				if s, ok := info.Selections[sel]; ok && s.Kind() == types.MethodVal {
					rt := derefField(info.TypeOf(sel.X))
					if isSync(rt, "Mutex") || isSync(rt, "WaitGroup") {
						c := relClass(sel.X)
						if c == "" {
							add("unrecognised", "lock expression "+types.ExprString(sel.X), x.Pos())
							return true
						}
						k := map[string]string{"Lock": "lock", "Unlock": "unlock", "RLock": "lock", "RUnlock": "unlock", "Add": "wgAdd", "Done": "wgDone", "Wait": "wgWait"}[sel.Sel.Name]
						if k == "" {
							add("unrecognised", "sync operation "+sel.Sel.Name, x.Pos())
							return true
						}
						if deferred[x] {
							k = "defer" + strings.ToUpper(k[:1]) + k[1:]
						}
						add(k, c, x.Pos())
						return true
					}
					if types.IsInterface(info.TypeOf(sel.X)) {
						if nt := namedOf(info.TypeOf(sel.X)); nt != nil && analysed(nt.Obj().Pkg()) {
							k := "call"
							if deferred[x] {
								k = "deferCall"
							}
							add(k, "iface:"+nt.Obj().Name()+"."+sel.Sel.Name, x.Pos())
							return true
						}
					}
					if m := s.Obj().(*types.Func); !analysed(m.Pkg()) {
						if sel.Sel.Name == "ServeHTTP" {
							if inner, ok := sel.X.(*ast.CallExpr); ok && decls[calleeName(inner)+"$ret"] != nil {
								add("call", calleeName(inner)+"$ret", x.Pos())
								return true
							}
						}
						if r := externals[extKey(m)]; strings.HasPrefix(r, "wait:") {
							add("extWait", strings.TrimPrefix(r, "wait:"), x.Pos())
						}
						return true
					}
				}
				if s, ok := info.Selections[sel]; ok && s.Kind() == types.FieldVal {
					if typeName(info.TypeOf(sel.X)) == "Cache" {
						add("callback", sel.Sel.Name, x.Pos())
					} else {
						add("dynCall", types.ExprString(sel), x.Pos())
					}
					return true
				}
			}
			if nm := calleeName(x); nm != "" {
				k := "call"
				if deferred[x] {
					k = "deferCall"
				}
				add(k, nm, x.Pos())
				return true
			}
			if id, ok := fun.(*ast.Ident); ok {
				if v, ok := info.Uses[id].(*types.Var); ok {
					if _, isSig := v.Type().Underlying().(*types.Signature); isSig {
						add("dynCall", id.Name, x.Pos())
					}
				}
			}
			if isSel {
				if o, ok := info.Uses[sel.Sel].(*types.Func); ok {
					switch r := externals[extKey(o)]; {
					case strings.HasPrefix(r, "spawn:"):
						add("timer", types.ExprString(x.Args[1]), x.Pos())
					case strings.HasPrefix(r, "call:"):
						add("call", "ext:"+extKey(o), x.Pos())
					}
				}
			}
		}
		return true
	})
	return evs
}

func chanName(e ast.Expr) string {
	if c := relClass(e); c != "" {
		return c
	}
	return types.ExprString(e)
}

// ---------------------------------------------------------------- Lean

func q(s string) string { return strconv.Quote(s) }

func (a *analysis) sortedClasses() []string {
	cs := map[string]bool{}
	for c := range a.classes {
		cs[c] = true
	}
	// every mutex / wait group / token field of an owner struct is a class even if no analysed path touches it
	for _, o := range ownerOrder {
		st := owners[o]
		for i := 0; i < st.NumFields(); i++ {
			f := st.Field(i)
			if o != "Cache" && (isSync(f.Type(), "Mutex") || isSync(f.Type(), "WaitGroup") || f.Name() == "wgBlock") {
				cs[o+"."+f.Name()] = true
			}
		}
	}
	for _, cf := range cacheFields {
		cs[cf+"/Cache.mu"] = true
	}
	out := []string{}
	for c := range cs {
		out = append(out, c)
	}
	sort.Strings(out)
	return out
}

func (a *analysis) sortedEdges() []edge {
	es := []edge{}
	for e := range a.edges {
		es = append(es, e)
	}
	sort.Slice(es, func(i, j int) bool { return es[i].from+"|"+es[i].to < es[j].from+"|"+es[j].to })
	return es
}

func (a *analysis) sortedUnrec() []unrec {
	us := []unrec{}
	for u := range a.unrecs {
		us = append(us, u)
	}
	sort.Slice(us, func(i, j int) bool { return us[i].at+us[i].what < us[j].at+us[j].what })
	return us
}

func (a *analysis) unreached() []string {
	out := []string{}
	for n := range decls {
		if !a.reached[n] {
			out = append(out, n)
		}
	}
	sort.Strings(out)
	return out
}

func (a *analysis) sortedAccesses() []access {
	as := []access{}
	for _, ac := range a.accesses {
		as = append(as, ac)
	}
	sort.Slice(as, func(i, j int) bool {
		x, y := as[i], as[j]
		kx := fmt.Sprintf("%s.%s|%s|%v|%s|%s|%v", x.owner, x.field, x.at, x.write, strings.Join(x.held, ","), x.root, x.ctor)
		ky := fmt.Sprintf("%s.%s|%s|%v|%s|%s|%v", y.owner, y.field, y.at, y.write, strings.Join(y.held, ","), y.root, y.ctor)
		return kx < ky
	})
	return as
}

func emitLean(a *analysis, dir string) {
	var b strings.Builder
	classes := a.sortedClasses()
	b.WriteString("/-! GENERATED by /verif/tools/lockfacts from the tree under test — do not edit.\n    Lock events per function, thread roots, the held→acquired edge set with witnesses.\n    Lock classes are named owner struct + field path; a cache mutex is qualified by the field that holds the cache;\n    `.wg` (request count), `.wgBlock` (token), `Server.handlers` / `Server.listener` are waited-for resources. -/\nnamespace Generated\n\n")
	b.WriteString("def lockClasses : List String := [" + joinMap(classes, q) + "]\n\n")
	roots := []string{}
	for _, r := range a.roots {
		roots = append(roots, r.name)
	}
	sort.Strings(roots)
	b.WriteString("/-- thread roots: exported entry points, goroutines (`go:`) and timer callbacks (`timer:`) -/\ndef threadRoots : List String := [\n")
	for i, r := range roots {
		fmt.Fprintf(&b, "  %s%s\n", q(r), comma(i, len(roots)))
	}
	b.WriteString("]\n\n")
	b.WriteString("inductive LockEv\n  | lock (l : String) | unlock (l : String) | deferUnlock (l : String)\n  | call (f : String) | deferCall (f : String) | callback (slot : String) | dynCall (f : String) | closure (f : String)\n  | go (f : String) | timer (f : String) | recv (ch : String) | send (ch : String)\n  | wgAdd (w : String) | wgDone (w : String) | deferWgDone (w : String) | wgWait (w : String) | extWait (r : String)\n  | unrecognised (what : String)\n  deriving Repr\n\n")
	b.WriteString("structure FnFacts where\n  name : String\n  events : List (LockEv × String)   -- event, source position\n  deriving Repr\n\ndef lockFacts : List FnFacts := [\n")
	names := []string{}
	for n := range decls {
		names = append(names, n)
	}
	sort.Strings(names)
	nev := 0
	for i, n := range names {
		evs := events(decls[n])
		nev += len(evs)
		fmt.Fprintf(&b, "  { name := %s, events := [", q(n))
		for j, e := range evs {
			k := e.kind
			switch k {
			case "deferLock", "deferWgAdd", "deferWgWait":
				k = "unrecognised"
				e.arg = "deferred " + e.kind + " " + e.arg
			}
			fmt.Fprintf(&b, "(.%s %s, %s)%s", k, q(e.arg), q(e.at), comma(j, len(evs)))
		}
		fmt.Fprintf(&b, "] }%s\n", comma(i, len(names)))
	}
	b.WriteString("]\n\n")
	b.WriteString("/-- binding of the cache callback slots per cache class, derived from the cache.New call sites: (class, slot, closure) -/\ndef lockSlots : List (String × String × String) := [\n")
	var rows []string
	for c, m := range slotTable {
		for s, t := range m {
			rows = append(rows, fmt.Sprintf("  (%s, %s, %s)", q(c), q(s), q(t)))
		}
	}
	sort.Strings(rows)
	b.WriteString(strings.Join(rows, ",\n") + "\n]\n\n")
	es := a.sortedEdges()
	us := a.sortedUnrec()
	b.WriteString("structure LockEdge where\n  held : String\n  acq : String\n  heldAt : String\n  acqAt : String\n  root : String\n  chain : String\n  deriving Repr\n\n/-- every (held class, acquired class) pair on some analysed path, with the first witness found -/\ndef lockEdgeWitnesses : List LockEdge := [\n")
	for i, e := range es {
		w := a.edges[e]
		fmt.Fprintf(&b, "  { held := %s, acq := %s, heldAt := %s, acqAt := %s, root := %s, chain := %s }%s\n", q(e.from), q(e.to), q(w.heldAt), q(w.acqAt), q(w.root), q(w.chain), comma(i, len(es)))
	}
	b.WriteString("]\n\ndef lockEdges : List (String × String) := [\n")
	all := []string{}
	for _, e := range es {
		all = append(all, fmt.Sprintf("  (%s, %s)", q(e.from), q(e.to)))
	}
	if len(us) > 0 { // something was not understood: an edge nobody can rank
		all = append(all, "  (\"unrecognised\", \"unrecognised\")")
	}
	b.WriteString(strings.Join(all, ",\n") + "\n]\n\n/-- constructs the extractor did not understand (position, what); must be empty -/\ndef lockUnrecognised : List (String × String) := [\n")
	for i, u := range us {
		fmt.Fprintf(&b, "  (%s, %s)%s\n", q(u.at), q(u.what), comma(i, len(us)))
	}
	b.WriteString("]\n\n/-- thread roots that can end while still holding a class (thread, class) -/\ndef lockLeaks : List (String × String) := [\n")
	ls := []string{}
	for l := range a.leaks {
		ls = append(ls, l)
	}
	sort.Strings(ls)
	for i, l := range ls {
		p := strings.SplitN(l, "|", 2)
		fmt.Fprintf(&b, "  (%s, %s)%s\n", q(p[0]), q(p[1]), comma(i, len(ls)))
	}
	b.WriteString("]\n\n/-- functions and closures no analysed path reaches -/\ndef lockUnreached : List String := [" + joinMap(a.unreached(), q) + "]\n\n")
	b.WriteString("/-- calls of functions with a `locked bool` parameter: (callee, claims locked, the object's mutex is held at the call, object under construction, position) -/\ndef lockedCalls : List (String × Bool × Bool × Bool × String) := [\n")
	lcs := []lockedCall{}
	for lc := range a.lockedCalls {
		lcs = append(lcs, lc)
	}
	sort.Slice(lcs, func(i, j int) bool {
		return fmt.Sprint(lcs[i].at, lcs[i].callee, lcs[i].claimed, lcs[i].held, lcs[i].ctor) < fmt.Sprint(lcs[j].at, lcs[j].callee, lcs[j].claimed, lcs[j].held, lcs[j].ctor)
	})
	for i, lc := range lcs {
		fmt.Fprintf(&b, "  (%s, %v, %v, %v, %s)%s\n", q(lc.callee), lc.claimed, lc.held, lc.ctor, q(lc.at), comma(i, len(lcs)))
	}
	b.WriteString("]\n\n")
	b.WriteString("/-- every wg.Add: (class, function, the object's token is held, the object is still under construction, the object has a token, position) -/\ndef wgAdds : List (String × String × Bool × Bool × Bool × String) := [\n")
	was := []wgAdd{}
	for w := range a.wgAdds {
		was = append(was, w)
	}
	sort.Slice(was, func(i, j int) bool { return fmt.Sprint(was[i]) < fmt.Sprint(was[j]) })
	for i, w := range was {
		fmt.Fprintf(&b, "  (%s, %s, %v, %v, %v, %s)%s\n", q(w.class), q(w.fn), w.token, w.ctor, w.hasToken, q(w.at), comma(i, len(was)))
	}
	b.WriteString("]\n\n")
	b.WriteString("/-- blocking waits of the repository protocol (taking the token, wg.Wait of a wait group with a token):\n    (kind, class waited for, mutex classes held, thread root, function, position) -/\ndef repoWaits : List (String × String × List String × String × String × String) := [\n")
	rws := []repoWait{}
	for w := range a.repoWaits {
		rws = append(rws, w)
	}
	sort.Slice(rws, func(i, j int) bool { return fmt.Sprint(rws[i]) < fmt.Sprint(rws[j]) })
	for i, w := range rws {
		hs := []string{}
		if w.held != "" {
			hs = strings.Split(w.held, ",")
		}
		fmt.Fprintf(&b, "  (%s, %s, [%s], %s, %s, %s)%s\n", q(w.kind), q(w.class), joinMap(hs, q), q(w.root), q(w.fn), q(w.at), comma(i, len(rws)))
	}
	b.WriteString("]\n\n")
	b.WriteString("/-- where the repository token (wgBlock) is taken: (function, the take is an arm of a select that also waits for ctx.Done()) -/\ndef tokenTakes : List (String × Bool) := [")
	tts := []string{}
	for t := range a.tokenTakes {
		tts = append(tts, "("+q(t[0])+", "+t[1]+")")
	}
	sort.Strings(tts)
	b.WriteString(strings.Join(tts, ", ") + "]\n\n")
	fmt.Fprintf(&b, "def lockStats : List (String × Nat) := [(\"functions\", %d), (\"events\", %d), (\"edges\", %d), (\"threads\", %d), (\"classes\", %d)]\n\nend Generated\n", len(names), nev, len(es), len(roots), len(classes))
	write(filepath.Join(dir, "LockFacts.lean"), b.String())

	// ------------------------------------------------------------ field accesses
	b.Reset()
	b.WriteString("/-! GENERATED by /verif/tools/lockfacts from the tree under test — do not edit.\n    Every read/write of a field of a struct that owns a mutex, with the statically held mutex classes.\n    `fieldAccessKeys` are the distinct (field, kind, held set, …) combinations; `fieldAccess` lists every access with its\n    function and position and the index of its key. -/\nnamespace Generated\n\n")
	fields := []string{}
	for _, o := range ownerOrder {
		st := owners[o]
		for i := 0; i < st.NumFields(); i++ {
			f := st.Field(i)
			if !isSync(f.Type(), "Mutex") && !isSync(f.Type(), "WaitGroup") {
				fields = append(fields, o+"."+f.Name())
			}
		}
	}
	b.WriteString("def fieldIds : List String := [" + joinMap(fields, q) + "]\n\n")
	b.WriteString("structure FieldKey where\n  field : String\n  write : Bool\n  ctor : Bool            -- the object is still under construction (not yet published) at this access\n  held : List String     -- mutex classes held on this path\n  own : String           -- the mutex of the accessed object itself\n  root : String          -- the thread root when it is a lifecycle entry point (Close, Shutdown, Run, New*), else \"\"\n  deriving Repr\n\nstructure FieldAcc where\n  key : Nat              -- index into fieldAccessKeys\n  fn : String\n  pos : String\n  root : String          -- a thread root that reaches the access\n  deriving Repr\n\n")
	as := a.sortedAccesses()
	keyIdx := map[string]int{}
	var keys []access
	idxOf := make([]int, len(as))
	for i, ac := range as {
		k := fmt.Sprintf("%s.%s|%v|%v|%s|%s|%s", ac.owner, ac.field, ac.write, ac.ctor, strings.Join(ac.held, ","), ac.own, lifeKey(ac.root))
		j, ok := keyIdx[k]
		if !ok {
			j = len(keys)
			keyIdx[k] = j
			keys = append(keys, ac)
		}
		idxOf[i] = j
	}
	b.WriteString("def fieldAccessKeys : List FieldKey := [\n")
	for i, ac := range keys {
		fmt.Fprintf(&b, "  { field := %s, write := %v, ctor := %v, held := [%s], own := %s, root := %s }%s\n",
			q(ac.owner+"."+ac.field), ac.write, ac.ctor, joinMap(ac.held, q), q(ac.own), q(lifeKey(ac.root)), comma(i, len(keys)))
	}
	b.WriteString("]\n\ndef fieldAccess : List FieldAcc := [\n")
	for i, ac := range as {
		fmt.Fprintf(&b, "  { key := %d, fn := %s, pos := %s, root := %s }%s\n", idxOf[i], q(ac.fn), q(ac.at), q(ac.root), comma(i, len(as)))
	}
	fmt.Fprintf(&b, "]\n\ndef accessStats : List (String × Nat) := [(\"accesses\", %d), (\"accessKeys\", %d), (\"fields\", %d)]\n\nend Generated\n", len(as), len(keys), len(fields))
	write(filepath.Join(dir, "FieldAccess.lean"), b.String())
}

func comma(i, n int) string {
	if i+1 < n {
		return ","
	}
	return ""
}

func joinMap(xs []string, f func(string) string) string {
	out := make([]string, len(xs))
	for i, x := range xs {
		out[i] = f(x)
	}
	return strings.Join(out, ", ")
}

func write(path, content string) {
	if old, err := os.ReadFile(path); err == nil && string(old) == content {
		return // unchanged: keep the timestamp so lake does not rebuild
	}
	if err := os.WriteFile(path, []byte(content), 0o644); err != nil {
		fatal("%v", err)
	}
}

func emitSites(a *analysis, path string) {
	type wedge struct {
		From   string `json:"from"`
		To     string `json:"to"`
		HeldAt string `json:"heldAt"`
		AcqAt  string `json:"acqAt"`
		Root   string `json:"root"`
		Chain  string `json:"chain"`
	}
	type out struct {
		Repo      string            `json:"repo"`
		Sites     map[string]string `json:"sites"`
		Edges     [][2]string       `json:"edges"`
		Witnesses []wedge           `json:"witnesses"`
		Classes   []string          `json:"classes"`
		Mutexes   []string          `json:"mutexes"`
		Stats     map[string]int    `json:"stats"`
	}
	o := out{Repo: repo, Sites: a.sites, Classes: a.sortedClasses(), Stats: map[string]int{
		"functions": len(decls), "threads": len(a.roots), "edges": len(a.edges), "accesses": len(a.accesses), "unrecognised": len(a.unrecs)}}
	for c := range mutexClasses {
		o.Mutexes = append(o.Mutexes, c)
	}
	sort.Strings(o.Mutexes)
	for _, e := range a.sortedEdges() {
		o.Edges = append(o.Edges, [2]string{e.from, e.to})
		w := a.edges[e]
		o.Witnesses = append(o.Witnesses, wedge{e.from, e.to, w.heldAt, w.acqAt, w.root, w.chain})
	}
	bs, _ := json.MarshalIndent(o, "", " ")
	write(path, string(bs))
}

func (a *analysis) summary(verbose bool) {
	as := a.sortedAccesses()
	fmt.Printf("functions=%d threads=%d classes=%d edges=%d accesses=%d unrecognised=%d leaks=%d unreached=%d\n",
		len(decls), len(a.roots), len(a.sortedClasses()), len(a.edges), len(as), len(a.unrecs), len(a.leaks), len(a.unreached()))
	if !verbose {
		return
	}
	for _, e := range a.sortedEdges() {
		w := a.edges[e]
		fmt.Printf("edge %-32s -> %-32s held@%s acq@%s root=%s chain=%s\n", e.from, e.to, w.heldAt, w.acqAt, w.root, w.chain)
	}
	for _, u := range a.sortedUnrec() {
		fmt.Printf("unrecognised %s: %s\n", u.at, u.what)
	}
	ls := []string{}
	for l := range a.leaks {
		ls = append(ls, l)
	}
	sort.Strings(ls)
	for _, l := range ls {
		fmt.Println("leak", l)
	}
	fmt.Println("unreached", a.unreached())
	// per field: where it is written, and the accesses that do not hold the object's own mutex (outside construction)
	type fsum struct{ writes, unguarded []string }
	sum := map[string]*fsum{}
	for _, ac := range as {
		k := ac.owner + "." + ac.field
		if sum[k] == nil {
			sum[k] = &fsum{}
		}
		has := false
		for _, h := range ac.held {
			has = has || h == ac.own
		}
		rw := "R"
		if ac.write {
			rw = "W"
		}
		d := fmt.Sprintf("%s@%s[%s]{%s}%s", rw, ac.at, strings.Join(ac.held, ","), ac.fn, lifeKey(ac.root))
		if ac.write && !ac.ctor {
			sum[k].writes = append(sum[k].writes, d)
		}
		if !has && !ac.ctor {
			sum[k].unguarded = append(sum[k].unguarded, d)
		}
	}
	ks := []string{}
	for k := range sum {
		ks = append(ks, k)
	}
	sort.Strings(ks)
	for _, k := range ks {
		fmt.Printf("field %-28s writes(after construction)=%d unguarded=%d\n", k, len(sum[k].writes), len(sum[k].unguarded))
		if len(sum[k].writes) > 0 {
			for _, u := range sum[k].unguarded {
				fmt.Println("    unguarded", u)
			}
		}
	}
}
