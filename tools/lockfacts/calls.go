package main

import (
	"fmt"
	"go/ast"
	"go/token"
	"go/types"
	"sort"
	"strings"
)

func unwrapFun(e ast.Expr) ast.Expr {
	for {
		switch x := e.(type) {
		case *ast.ParenExpr:
			e = x.X
		case *ast.IndexExpr: // generic instantiation cache.New[K, V]
			if tv, ok := info.Types[x.X]; ok && tv.IsValue() {
				if _, isSig := tv.Type.Underlying().(*types.Signature); isSig {
					e = x.X
					continue
				}
			}
			return e
		case *ast.IndexListExpr:
			e = x.X
		default:
			return e
		}
	}
}

// calleeName: the analysed function a call statically resolves to ("" if none)
func calleeName(ce *ast.CallExpr) string {
	switch f := unwrapFun(ce.Fun).(type) {
	case *ast.Ident:
		if o, ok := info.Uses[f].(*types.Func); ok && analysed(o.Pkg()) {
			return funcKey(o)
		}
	case *ast.SelectorExpr:
		if o, ok := info.Uses[f.Sel].(*types.Func); ok && analysed(o.Pkg()) {
			return funcKey(o)
		}
	}
	return ""
}

func funcKey(o *types.Func) string {
	sig := o.Type().(*types.Signature)
	if r := sig.Recv(); r != nil {
		return typeName(r.Type()) + "." + o.Name()
	}
	if o.Pkg().Name() != "olareg" {
		return o.Pkg().Name() + "." + o.Name()
	}
	return o.Name()
}

func extKey(o *types.Func) string {
	sig := o.Type().(*types.Signature)
	if r := sig.Recv(); r != nil {
		n := namedOf(r.Type())
		if n != nil && n.Obj().Pkg() != nil {
			star := ""
			if _, p := r.Type().(*types.Pointer); p {
				star = "*"
			}
			return "(" + star + n.Obj().Pkg().Path() + "." + n.Obj().Name() + ")." + o.Name()
		}
		return "(" + r.Type().String() + ")." + o.Name()
	}
	if o.Pkg() == nil {
		return o.Name()
	}
	return o.Pkg().Path() + "." + o.Name()
}

// cacheQualifier: the cache class of a receiver expression — the field path "owner.field" it is read from,
// or the current context's class for the receiver of a cache method itself
func (a *analysis) cacheQualifier(fr *frame, recv ast.Expr) string {
	switch x := recv.(type) {
	case *ast.Ident:
		if fr.c.cache != "" && typeName(info.TypeOf(x)) == "Cache" {
			return fr.c.cache
		}
	case *ast.SelectorExpr:
		if owner := typeName(info.TypeOf(x.X)); owners[owner] != nil {
			return owner + "." + x.Sel.Name
		}
	}
	return ""
}

// lockClass of the mutex / wait group expression x.mu, x.wg
func (a *analysis) lockClass(fr *frame, e ast.Expr) string {
	sel, ok := e.(*ast.SelectorExpr)
	if !ok {
		return ""
	}
	owner := typeName(info.TypeOf(sel.X))
	if owners[owner] == nil {
		return ""
	}
	if owner == "Cache" {
		if fr.c.cache == "" {
			return ""
		}
		return fr.c.cache + "/Cache." + sel.Sel.Name
	}
	return owner + "." + sel.Sel.Name
}

// implementers of an interface declared in the analysed packages
func implementers(it *types.Interface, method string) []*fn {
	var out []*fn
	names := []string{}
	for n := range decls {
		names = append(names, n)
	}
	sort.Strings(names)
	for _, n := range names {
		f := decls[n]
		if f.decl == nil || f.recv == "" || !strings.HasSuffix(n, "."+method) {
			continue
		}
		rt := info.TypeOf(f.decl.Recv.List[0].Type)
		if types.Implements(rt, it) || types.Implements(types.NewPointer(rt), it) {
			out = append(out, f)
		}
	}
	return out
}

// ---------------------------------------------------------------- expressions

// expr walks e in evaluation order: records field accesses, performs calls, receives; write marks an assignment target
func (a *analysis) expr(fr *frame, st *state, e ast.Expr, write bool) []*state {
	one := []*state{st}
	switch x := e.(type) {
	case nil, *ast.Ident, *ast.BasicLit:
		return one
	case *ast.ParenExpr:
		return a.expr(fr, st, x.X, write)
	case *ast.FuncLit:
		f := fnOf[x]
		switch {
		case strings.HasSuffix(f.name, "$ret"), isSlotClosure(f.name):
			return one // run where it is invoked: handler closures as thread code, cache callbacks at the slot
		}
		// any other closure (lessFn, BaseContext): analysed as if called where it is created; its effect on the state is dropped
		a.inline(fr, st.clone(), x)
		return one
	case *ast.CompositeLit:
		sts := one
		for _, el := range x.Elts {
			if kv, ok := el.(*ast.KeyValueExpr); ok {
				el = kv.Value
			}
			sts = a.exprs(fr, sts, []ast.Expr{el})
		}
		return sts
	case *ast.SelectorExpr:
		if s, ok := info.Selections[x]; ok && s.Kind() == types.FieldVal {
			// writing x.a.b writes the field a of x when a is a struct value (not when it is a pointer)
			_, viaPtr := info.TypeOf(x.X).Underlying().(*types.Pointer)
			sts := a.expr(fr, st, x.X, write && !viaPtr)
			if owner := typeName(info.TypeOf(x.X)); owners[owner] != nil {
				ft := s.Obj().Type()
				if !isSync(ft, "Mutex") && !isSync(ft, "WaitGroup") {
					for _, o := range sts {
						a.recordAccess(fr, o, x, owner, write)
					}
				}
			}
			return sts
		}
		if _, ok := info.Selections[x]; ok { // method value
			return a.expr(fr, st, x.X, false)
		}
		return one // qualified identifier
	case *ast.IndexExpr:
		sts := a.expr(fr, st, x.X, write)
		return a.exprs(fr, sts, []ast.Expr{x.Index})
	case *ast.IndexListExpr:
		return a.expr(fr, st, x.X, write)
	case *ast.SliceExpr:
		sts := a.expr(fr, st, x.X, write)
		return a.exprs(fr, sts, []ast.Expr{x.Low, x.High, x.Max})
	case *ast.StarExpr:
		return a.expr(fr, st, x.X, write)
	case *ast.TypeAssertExpr:
		return a.expr(fr, st, x.X, false)
	case *ast.KeyValueExpr:
		return a.exprs(fr, one, []ast.Expr{x.Key, x.Value})
	case *ast.UnaryExpr:
		if x.Op == token.ARROW {
			sts := a.expr(fr, st, x.X, false)
			for _, o := range sts {
				a.chanOp(fr, o, x.X, false, true, x.Pos())
			}
			return sts
		}
		// &x.f hands out a pointer through which the field can be modified (indexIngest(dr, &dr.index, ...))
		return a.expr(fr, st, x.X, write || x.Op == token.AND)
	case *ast.BinaryExpr:
		sts := a.expr(fr, st, x.X, false)
		if x.Op == token.LAND || x.Op == token.LOR {
			// the right operand is evaluated on one branch only; accesses are recorded, state forks are merged
			var out []*state
			for _, o := range sts {
				v := cond(o, x.X)
				if (x.Op == token.LAND && v == -1) || (x.Op == token.LOR && v == 1) {
					out = append(out, o)
					continue
				}
				out = append(out, a.expr(fr, o, x.Y, false)...)
			}
			return out
		}
		return a.exprs(fr, sts, []ast.Expr{x.Y})
	case *ast.CallExpr:
		return a.call(fr, st, x, false)
	case *ast.ArrayType, *ast.MapType, *ast.ChanType, *ast.FuncType, *ast.StructType, *ast.InterfaceType, *ast.Ellipsis:
		return one
	}
	a.unrecognised(e.Pos(), fmt.Sprintf("expression %T", e))
	return one
}

func isSlotClosure(name string) bool {
	return strings.HasSuffix(name, "$PruneFn") || strings.HasSuffix(name, "$PrunePreFn") || strings.HasSuffix(name, "$PrunePostFn")
}

// ---------------------------------------------------------------- calls

// call performs ce in state st; deferred: the arguments were already evaluated at the defer statement
func (a *analysis) call(fr *frame, st *state, ce *ast.CallExpr, deferred bool) []*state {
	fun := unwrapFun(ce.Fun)
	if tv, ok := info.Types[fun]; ok && tv.IsType() { // conversion
		return a.exprs(fr, []*state{st}, ce.Args)
	}
	st.ret = 0
	evalArgs := func(sts []*state) []*state {
		if deferred {
			return sts
		}
		return a.exprs(fr, sts, ce.Args)
	}
	switch f := fun.(type) {
	case *ast.FuncLit:
		var out []*state
		for _, o := range evalArgs([]*state{st}) {
			out = append(out, a.inline(fr, o, f)...)
		}
		return out
	case *ast.Ident:
		switch o := info.Uses[f].(type) {
		case *types.Builtin:
			sts := []*state{st}
			for i, arg := range ce.Args {
				w := (o.Name() == "delete" || o.Name() == "clear") && i == 0
				var nx []*state
				for _, s := range sts {
					nx = append(nx, a.expr(fr, s, arg, w)...)
				}
				sts = nx
			}
			return sts
		case *types.Func:
			if analysed(o.Pkg()) {
				return a.static(fr, evalArgs([]*state{st}), ce, decls[funcKey(o)], nil, funcKey(o))
			}
			return a.external(fr, evalArgs([]*state{st}), ce, o)
		case *types.Var:
			return a.dynamic(fr, evalArgs([]*state{st}), ce, o.Type())
		}
	case *ast.SelectorExpr:
		sel, isSel := info.Selections[f]
		if !isSel { // pkg.Func
			if o, ok := info.Uses[f.Sel].(*types.Func); ok {
				if analysed(o.Pkg()) {
					return a.static(fr, evalArgs([]*state{st}), ce, decls[funcKey(o)], nil, funcKey(o))
				}
				return a.external(fr, evalArgs([]*state{st}), ce, o)
			}
			break
		}
		if sel.Kind() == types.FieldVal { // call through a func-typed field
			sts := evalArgs(a.expr(fr, st, f, false))
			if typeName(info.TypeOf(f.X)) == "Cache" {
				return a.slot(fr, sts, ce, f.Sel.Name)
			}
			return a.dynamic(fr, sts, ce, sel.Obj().Type())
		}
		m := sel.Obj().(*types.Func)
		recvT := info.TypeOf(f.X)
		// sync primitives
		if isSync(derefField(recvT), "Mutex") || isSync(derefField(recvT), "WaitGroup") {
			return a.syncOp(fr, a.expr(fr, st, f.X, false), ce, f, m.Name(), deferred)
		}
		// the receiver: a method with a pointer receiver called on a struct-valued field modifies the field
		ptrRecv := false
		if sig, ok := m.Type().(*types.Signature); ok && sig.Recv() != nil {
			_, ptrRecv = sig.Recv().Type().(*types.Pointer)
		}
		_, recvIsPtr := recvT.Underlying().(*types.Pointer)
		sts := a.expr(fr, st, f.X, ptrRecv && !recvIsPtr && !types.IsInterface(recvT))
		sts = evalArgs(sts)
		if types.IsInterface(recvT) {
			if n := namedOf(recvT); n != nil && analysed(n.Obj().Pkg()) {
				return a.iface(fr, sts, ce, f, recvT.Underlying().(*types.Interface), m.Name())
			}
			return a.external(fr, sts, ce, m)
		}
		if analysed(m.Pkg()) {
			return a.static(fr, sts, ce, decls[funcKey(m)], f.X, funcKey(m))
		}
		// f(...).ServeHTTP(w, r): run the handler closure that f returns
		if m.Name() == "ServeHTTP" {
			if inner, ok := f.X.(*ast.CallExpr); ok {
				if h := decls[calleeName(inner)+"$ret"]; h != nil {
					return a.closureCall(fr, sts, h)
				}
			}
		}
		return a.external(fr, sts, ce, m)
	}
	a.unrecognised(ce.Pos(), "call of "+types.ExprString(ce.Fun))
	return evalArgs([]*state{st})
}

func derefField(t types.Type) types.Type {
	if p, ok := t.(*types.Pointer); ok {
		return p.Elem()
	}
	return t
}

func (a *analysis) syncOp(fr *frame, sts []*state, ce *ast.CallExpr, f *ast.SelectorExpr, op string, deferred bool) []*state {
	op = map[string]string{"RLock": "Lock", "RUnlock": "Unlock"}[op] + map[bool]string{true: op}[op != "RLock" && op != "RUnlock"]
	for _, st := range sts {
		class := a.lockClass(fr, f.X)
		if class == "" {
			a.unrecognised(ce.Pos(), "lock expression "+types.ExprString(f.X))
			class = "unrecognised"
		}
		if isSync(derefField(info.TypeOf(f.X)), "Mutex") {
			mutexClasses[class] = true
			if strings.Contains(class, "/Cache.") {
				a.sites[pos(ce.Pos())] = "@cache"
			} else {
				a.sites[pos(ce.Pos())] = class
			}
		}
		switch op {
		case "Lock":
			a.acquire(fr, st, class, ce.Pos(), true)
		case "Unlock":
			if !st.release(class) && !isSlotClosure(fr.c.f.name) {
				a.unrecognised(ce.Pos(), "unlock of "+class+" which is not held on this path")
			}
		case "Add":
			// protocol fact: is the count raised while holding the object's token, or before the object is published
			if sel, ok := f.X.(*ast.SelectorExpr); ok {
				owner := typeName(info.TypeOf(sel.X))
				ctor := fr.c.fresh[owner]
				if o := objOf(sel.X); o != nil && st.fresh[o] {
					ctor = true
				}
				_, hasToken := owners[owner]
				if hasToken {
					hasToken = false
					for i := 0; i < owners[owner].NumFields(); i++ {
						hasToken = hasToken || owners[owner].Field(i).Name() == "wgBlock"
					}
				}
				a.wgAdds[wgAdd{class: class, fn: fr.c.f.name, token: st.holds(owner + ".wgBlock"), ctor: ctor, hasToken: hasToken, at: pos(ce.Pos())}] = true
				a.acquire(fr, st, class, ce.Pos(), true)
				if o := objOf(sel.X); o != nil && st.fresh[o] {
					st.held[len(st.held)-1].unpub = o
				}
				continue
			}
			a.acquire(fr, st, class, ce.Pos(), true)
		case "Done":
			st.release(class) // a Done on a path where the matching RepoGet failed is unreachable in the code; not judged here
		case "Wait":
			if sel, ok := f.X.(*ast.SelectorExpr); ok {
				if ow := owners[typeName(info.TypeOf(sel.X))]; ow != nil {
					for i := 0; i < ow.NumFields(); i++ {
						if ow.Field(i).Name() == "wgBlock" {
							a.recordWait(fr, st, "wgWait", class, ce.Pos())
						}
					}
				}
			}
			a.acquire(fr, st, class, ce.Pos(), false)
		default:
			a.unrecognised(ce.Pos(), "sync operation "+op)
		}
	}
	return sts
}

// static: call of an analysed function; recv is the receiver expression of a method call
func (a *analysis) static(fr *frame, sts []*state, ce *ast.CallExpr, f *fn, recv ast.Expr, name string) []*state {
	if f == nil {
		a.unrecognised(ce.Pos(), "no body for "+name)
		return sts
	}
	var out []*state
	for _, st := range sts {
		c2 := &ctx{f: f, fresh: fr.c.fresh, root: fr.c.root, stack: append(append([]string(nil), fr.c.stack...), f.name+"@"+pos(ce.Pos()))}
		if f.recv == "Cache" {
			c2.cache = a.cacheQualifier(fr, recv)
			if c2.cache == "" {
				a.unrecognised(ce.Pos(), "cache method on a receiver that is not a field of a known struct: "+types.ExprString(recv))
				out = append(out, st)
				continue
			}
			if fr.c.f.recv != "Cache" {
				a.sites[pos(ce.Pos())] = "cache:" + c2.cache
			}
		}
		callee := newState()
		callee.held = append([]heldLock(nil), st.held...)
		// an object under construction stays so inside the functions it is handed to
		addFresh := func(e ast.Expr) {
			if u, ok := e.(*ast.UnaryExpr); ok && u.Op == token.AND {
				e = u.X
			}
			if o := objOf(e); o != nil && st.fresh[o] {
				nf := map[string]bool{typeName(o.Type()): true}
				for k := range c2.fresh {
					nf[k] = true
				}
				c2.fresh = nf
			}
		}
		if recv != nil {
			addFresh(recv)

		}
		params := paramObjs(f)
		for i, arg := range ce.Args {
			if i >= len(params) || params[i] == nil {
				break
			}
			p := params[i]
			addFresh(arg)
			if b, ok := p.Type().Underlying().(*types.Basic); ok && b.Kind() == types.Bool {
				condCache = fr.c.cache
				callee.env[p] = cond(st, arg)
			}
			if types.IsInterface(p.Type()) {
				if t := concreteOf(st, arg); t != "" {
					callee.bind[p] = t
				}
			}
		}
		// a call that passes locked=true claims that the mutex of the object is held
		for i, p := range params {
			if p == nil || p.Name() != "locked" || i >= len(ce.Args) {
				continue
			}
			owner := f.recv
			if owners[owner] == nil {
				owner = ""
				for _, q := range params {
					if q != nil && callee.bind[q] != "" {
						owner = callee.bind[q]
						break
					}
				}
			}
			if owner == "" {
				a.unrecognised(ce.Pos(), "locked argument of "+f.name+": cannot tell whose mutex is meant")
				continue
			}
			lc := lockedCall{callee: f.name, claimed: callee.env[p] == 1, held: st.holds(owner + ".mu"), ctor: c2.fresh[owner], at: pos(ce.Pos())}
			if callee.env[p] == 0 {
				lc.claimed = true // unknown argument: analysed under both values, the claim must hold for `true`
			}
			a.lockedCalls[lc] = true
		}
		for _, ex := range a.invoke(c2, f, []*state{callee}) {
			n := st.clone()
			n.held, n.ret, n.retT = append([]heldLock(nil), ex.held...), ex.ret, ex.retT
			out = append(out, n)
		}
	}
	return out
}

// closureCall: a handler closure or cache callback, run with the caller's held locks and an empty environment
func (a *analysis) closureCall(fr *frame, sts []*state, f *fn) []*state {
	var out []*state
	for _, st := range sts {
		c2 := &ctx{f: f, fresh: fr.c.fresh, root: fr.c.root, stack: append(append([]string(nil), fr.c.stack...), f.name)}
		callee := newState()
		callee.held = append([]heldLock(nil), st.held...)
		for _, ex := range a.invoke(c2, f, []*state{callee}) {
			n := st.clone()
			n.held, n.ret = append([]heldLock(nil), ex.held...), ex.ret
			out = append(out, n)
		}
	}
	return out
}

func (a *analysis) iface(fr *frame, sts []*state, ce *ast.CallExpr, f *ast.SelectorExpr, it *types.Interface, method string) []*state {
	cands := implementers(it, method)
	if len(cands) == 0 {
		a.unrecognised(ce.Pos(), "no implementation of "+types.ExprString(ce.Fun))
		return sts
	}
	var out []*state
	for _, st := range sts {
		bound := concreteOf(st, f.X)
		for _, c := range cands {
			if bound == "" || c.recv == bound {
				out = append(out, a.static(fr, []*state{st.clone()}, ce, c, nil, c.name)...)
			}
		}
	}
	return out
}

// slot: c.pruneFn(k, v) and friends inside the generic cache, bound per cache class by the hand-written table
func (a *analysis) slot(fr *frame, sts []*state, ce *ast.CallExpr, slot string) []*state {
	m, ok := slotTable[fr.c.cache]
	if !ok {
		a.unrecognised(ce.Pos(), "no slot table for cache class "+fr.c.cache)
		return sts
	}
	target, ok := m[slot]
	if !ok {
		a.unrecognised(ce.Pos(), "slot "+slot+" of "+fr.c.cache+" is not in the slot table")
		return sts
	}
	if target == "" {
		return nil // the slot is nil for this cache: the guarded call is unreachable
	}
	f := decls[target]
	if f == nil {
		return sts // reported by checkSlots
	}
	return a.closureCall(fr, sts, f)
}

// dynamic: call through a func value; values of a named func type of the analysed packages dispatch to the closures
// returned by functions with that result type (BlobOpt, Opts); anything else must not happen while a lock is held
func (a *analysis) dynamic(fr *frame, sts []*state, ce *ast.CallExpr, t types.Type) []*state {
	if n := namedOf(t); n != nil && analysed(n.Obj().Pkg()) {
		if impls := funcTypeImpl[n.Obj().Name()]; len(impls) > 0 {
			var out []*state
			for _, f := range impls {
				cl := make([]*state, len(sts))
				for i, s := range sts {
					cl[i] = s.clone()
				}
				out = append(out, a.closureCall(fr, cl, f)...)
			}
			return out
		}
	}
	for _, st := range sts {
		if len(st.held) > 0 {
			a.unrecognised(ce.Pos(), "call through a function value while holding "+strings.Join(st.classes(), ","))
			break
		}
	}
	return sts
}

func ours(t types.Type) bool {
	if t == nil {
		return false
	}
	n := namedOf(t)
	if n == nil || !analysed(n.Obj().Pkg()) {
		return false
	}
	if owners[n.Obj().Name()] != nil {
		return true
	}
	if it, ok := n.Underlying().(*types.Interface); ok {
		return it.NumMethods() > 0
	}
	return false
}

func (a *analysis) external(fr *frame, sts []*state, ce *ast.CallExpr, o *types.Func) []*state {
	key := extKey(o)
	rule := externals[key]
	switch {
	case rule == "ignore":
		return sts
	case strings.HasPrefix(rule, "spawn:"):
		var out []*state
		for _, st := range sts {
			out = append(out, a.spawnTarget(fr, st, ce.Args[1], ce.Pos(), "timer")...)
		}
		return out
	case strings.HasPrefix(rule, "wait:"):
		for _, st := range sts {
			a.acquire(fr, st, strings.TrimPrefix(rule, "wait:"), ce.Pos(), false)
		}
		return sts
	case strings.HasPrefix(rule, "call:"):
		parts := strings.Split(rule, ":")
		arg := ce.Args[int(parts[1][0]-'0')]
		t := info.TypeOf(arg)
		if !ours(t) {
			return sts
		}
		if types.IsInterface(t) {
			var out []*state
			for _, st := range sts {
				bound := concreteOf(st, arg)
				for _, c := range implementers(t.Underlying().(*types.Interface), parts[2]) {
					if bound == "" || c.recv == bound {
						out = append(out, a.static(fr, []*state{st.clone()}, ce, c, nil, c.name)...)
					}
				}
			}
			return out
		}
		return a.static(fr, sts, ce, decls[typeName(t)+"."+parts[2]], nil, typeName(t)+"."+parts[2])
	}
	// unknown external code: it must not receive one of our lock-owning objects (it could call back into them)
	for _, arg := range ce.Args {
		if ours(info.TypeOf(arg)) {
			a.unrecognised(ce.Pos(), "value of type "+info.TypeOf(arg).String()+" passed to "+key)
		}
	}
	return sts
}

// ---------------------------------------------------------------- goroutines and timers

func (a *analysis) spawn(fr *frame, st *state, ce *ast.CallExpr, kind string) []*state {
	sts := a.exprs(fr, []*state{st}, ce.Args)
	var out []*state
	for _, s := range sts {
		out = append(out, a.spawnTarget(fr, s, unwrapFun(ce.Fun), ce.Pos(), kind)...)
	}
	return out
}

func (a *analysis) spawnTarget(fr *frame, st *state, target ast.Expr, p token.Pos, kind string) []*state {
	var f *fn
	r := rootSpec{bind: st.bind}
	switch x := target.(type) {
	case *ast.FuncLit:
		f = fnOf[x]
		r.cache = fr.c.cache
	case *ast.SelectorExpr:
		if m, ok := info.Uses[x.Sel].(*types.Func); ok && analysed(m.Pkg()) {
			f = decls[funcKey(m)]
			if f != nil && f.recv == "Cache" {
				r.cache = a.cacheQualifier(fr, x.X)
			}
		}
	case *ast.Ident:
		if m, ok := info.Uses[x].(*types.Func); ok && analysed(m.Pkg()) {
			f = decls[funcKey(m)]
		}
	}
	if f == nil {
		a.unrecognised(p, "goroutine target "+types.ExprString(target))
		return []*state{st}
	}
	r.f = f
	r.name = kind + ":" + f.name
	if r.cache != "" {
		r.name += "@" + r.cache
	}
	// wg.Add(1) before `go f()` with `defer wg.Done()` in f: the count is handed to the new goroutine
	for _, h := range st.held {
		if strings.HasSuffix(h.class, ".wg") && deferredDone(f, h.class) {
			r.held = append(r.held, h.class)
		}
	}
	for _, h := range r.held {
		st.release(h)
	}
	a.addRoot(r)
	return []*state{st}
}

func deferredDone(f *fn, class string) bool {
	found := false
	for _, s := range f.body.List {
		if d, ok := s.(*ast.DeferStmt); ok {
			if sel, ok := d.Call.Fun.(*ast.SelectorExpr); ok && sel.Sel.Name == "Done" {
				if in, ok := sel.X.(*ast.SelectorExpr); ok && typeName(info.TypeOf(in.X))+"."+in.Sel.Name == class {
					found = true
				}
			}
		}
	}
	return found
}
