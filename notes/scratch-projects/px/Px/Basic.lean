def hello := "world"
