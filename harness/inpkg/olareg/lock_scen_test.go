package olareg

// Scenario for F21 (works in every build): a directory layout written by an older tool whose fallback-tag referrers index is
// stale, so that opening the repository has to regenerate the referrers response while the repository mutex is held.

import (
	"context"
	"fmt"
	"net/http"
	"os"
	"path/filepath"
	"testing"
	"time"

	"github.com/opencontainers/go-digest"

	"github.com/olareg/olareg/config"
	"github.com/olareg/olareg/types"
)

func TestVerifLegacy(t *testing.T) {
	if os.Getenv("VERIF_IMPL") == "" {
		t.Skip("verification harness: run through /verif/bin/check")
	}
	h, finish := vcNewHarness(t)
	defer finish()
	root, err := os.MkdirTemp("", "veriflegacy")
	if err != nil {
		t.Fatal(err)
	}
	defer os.RemoveAll(root)
	repo := filepath.Join(root, "legacy")
	blobs := filepath.Join(repo, "blobs", "sha256")
	if err := os.MkdirAll(blobs, 0o755); err != nil {
		t.Fatal(err)
	}
	put := func(b []byte) digest.Digest {
		d := digest.Canonical.FromBytes(b)
		if err := os.WriteFile(filepath.Join(blobs, d.Encoded()), b, 0o644); err != nil {
			t.Fatal(err)
		}
		return d
	}
	for i := 0; i < 3; i++ {
		b, _ := vcBlob(i)
		put(b)
	}
	subj, subjD := vcManifest(0)
	put(subj)
	art, artD := vcArtifact(0, 1)
	put(art)
	// the fallback index lists the artifact with a stale size: the response has to be regenerated
	fallback := []byte(fmt.Sprintf(`{"schemaVersion":2,"mediaType":"%s","manifests":[{"mediaType":"%s","digest":"%s","size":%d,"artifactType":"application/vnd.verif.a1"}]}`,
		types.MediaTypeOCI1ManifestList, types.MediaTypeOCI1Manifest, artD, len(art)+1))
	fbD := put(fallback)
	index := fmt.Sprintf(`{"schemaVersion":2,"mediaType":"%s","manifests":[{"mediaType":"%s","digest":"%s","size":%d,"annotations":{"%s":"v1"}},{"mediaType":"%s","digest":"%s","size":%d},{"mediaType":"%s","digest":"%s","size":%d,"annotations":{"%s":"%s-%s"}}]}`,
		types.MediaTypeOCI1ManifestList,
		types.MediaTypeOCI1Manifest, subjD, len(subj), types.AnnotRefName,
		types.MediaTypeOCI1Manifest, artD, len(art),
		types.MediaTypeOCI1ManifestList, fbD, len(fallback), types.AnnotRefName, subjD.Algorithm(), subjD.Encoded())
	if err := os.WriteFile(filepath.Join(repo, "index.json"), []byte(index), 0o644); err != nil {
		t.Fatal(err)
	}
	if err := os.WriteFile(filepath.Join(repo, "oci-layout"), []byte(`{"imageLayoutVersion":"1.0.0"}`), 0o644); err != nil {
		t.Fatal(err)
	}
	h.store = "dir"
	h.srv = New(config.Config{Storage: config.ConfigStorage{StoreType: config.StoreDir, RootDir: root, GC: config.ConfigGC{Frequency: -1, GracePeriod: -1}}})
	if vcRecorderReset != nil {
		vcRecorderReset()
	}
	h.lineNo = 1
	done := make(chan int, 1)
	go func() {
		rr := h.do(context.Background(), "GET", "/v2/legacy/tags/list", nil, nil)
		done <- rr.Code
	}()
	select {
	case c := <-done:
		fmt.Fprintln(h.impl, "tags", c)
		if c != http.StatusOK {
			fmt.Println("VERIF-NOTE legacy layout answered", c)
		}
	case <-time.After(h.bound):
		h.stall(1, "GET /v2/legacy/tags/list on a directory layout with a stale fallback referrers index", "completes")
	}
	h.lineNo = 2
	h.closeServer()
	h.summary(2)
}
