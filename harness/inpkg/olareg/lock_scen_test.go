package olareg

// Scenario for F21 (works in every build): a directory layout written by an older tool whose fallback-tag referrers index is
// stale, so that opening the repository has to regenerate the referrers response while the repository mutex is held.

import (
	"context"
	"fmt"
	"io"
	"net/http"
	"net/http/httptest"
	"os"
	"path/filepath"
	"strconv"
	"testing"
	"time"

	"github.com/opencontainers/go-digest"

	"github.com/olareg/olareg/config"
	"github.com/olareg/olareg/types"
)

func TestVerifLegacy(t *testing.T) {
	if os.Getenv("VERIF_IMPL") == "" {
		t.Skip("verification harness: run through /verif/bin/check")
	}
	h, finish := vcNewHarness(t)
	defer finish()
	root, err := os.MkdirTemp("", "veriflegacy")
	if err != nil {
		t.Fatal(err)
	}
	defer os.RemoveAll(root)
	repo := filepath.Join(root, "legacy")
	blobs := filepath.Join(repo, "blobs", "sha256")
	if err := os.MkdirAll(blobs, 0o755); err != nil {
		t.Fatal(err)
	}
	put := func(b []byte) digest.Digest {
		d := digest.Canonical.FromBytes(b)
		if err := os.WriteFile(filepath.Join(blobs, d.Encoded()), b, 0o644); err != nil {
			t.Fatal(err)
		}
		return d
	}
	for i := 0; i < 3; i++ {
		b, _ := vcBlob(i)
		put(b)
	}
	subj, subjD := vcManifest(0)
	put(subj)
	art, artD := vcArtifact(0, 1)
	put(art)
	// the fallback index lists the artifact with a stale size: the response has to be regenerated
	fallback := []byte(fmt.Sprintf(`{"schemaVersion":2,"mediaType":"%s","manifests":[{"mediaType":"%s","digest":"%s","size":%d,"artifactType":"application/vnd.verif.a1"}]}`,
		types.MediaTypeOCI1ManifestList, types.MediaTypeOCI1Manifest, artD, len(art)+1))
	fbD := put(fallback)
	index := fmt.Sprintf(`{"schemaVersion":2,"mediaType":"%s","manifests":[{"mediaType":"%s","digest":"%s","size":%d,"annotations":{"%s":"v1"}},{"mediaType":"%s","digest":"%s","size":%d},{"mediaType":"%s","digest":"%s","size":%d,"annotations":{"%s":"%s-%s"}}]}`,
		types.MediaTypeOCI1ManifestList,
		types.MediaTypeOCI1Manifest, subjD, len(subj), types.AnnotRefName,
		types.MediaTypeOCI1Manifest, artD, len(art),
		types.MediaTypeOCI1ManifestList, fbD, len(fallback), types.AnnotRefName, subjD.Algorithm(), subjD.Encoded())
	if err := os.WriteFile(filepath.Join(repo, "index.json"), []byte(index), 0o644); err != nil {
		t.Fatal(err)
	}
	if err := os.WriteFile(filepath.Join(repo, "oci-layout"), []byte(`{"imageLayoutVersion":"1.0.0"}`), 0o644); err != nil {
		t.Fatal(err)
	}
	h.store = "dir"
	h.srv = New(config.Config{Storage: config.ConfigStorage{StoreType: config.StoreDir, RootDir: root, GC: config.ConfigGC{Frequency: -1, GracePeriod: -1}}})
	if vcRecorderReset != nil {
		vcRecorderReset()
	}
	h.lineNo = 1
	done := make(chan int, 1)
	go func() {
		rr := h.do(context.Background(), "GET", "/v2/legacy/tags/list", nil, nil)
		done <- rr.Code
	}()
	select {
	case c := <-done:
		fmt.Fprintln(h.impl, "tags", c)
		if c != http.StatusOK {
			fmt.Println("VERIF-NOTE legacy layout answered", c)
		}
	case <-time.After(h.bound):
		h.stall(1, "GET /v2/legacy/tags/list on a directory layout with a stale fallback referrers index", "completes")
	}
	h.lineNo = 2
	h.closeServer()
	h.summary(2)
}

// TestVerifCollectorWait: a request that waits for a collection holds nothing another request needs.
// R1 (manifest PUT to `busy` whose body arrives slowly over a pipe) holds the repository; a collection of `busy` (ticker, or with
// VERIF_PRUNE=1 the prune timer of the repository cache) then waits for R1; R2 to `busy` without deadline waits behind the
// collection (expected); R3 to `busy` with a 200 ms context must return once it expires; R4 to the unrelated repository
// `other` must complete; then R1 finishes and everything drains.  No timing assumption in the passing direction: R3 and R4
// are awaited with the generous bound while R1 is still blocked on its pipe; exceeding the bound is the violation (goroutine
// dump in the replay).  If the collection cannot be brought to wait the scenario says so and judges nothing.
func TestVerifCollectorWait(t *testing.T) {
	if os.Getenv("VERIF_IMPL") == "" {
		t.Skip("verification harness: run through /verif/bin/check")
	}
	h, finish := vcNewHarness(t)
	defer finish()
	store := os.Getenv("VERIF_STORE")
	if store != "dir" {
		store = "mem"
	}
	prune := os.Getenv("VERIF_PRUNE") == "1"
	grace, _ := strconv.Atoi(os.Getenv("VERIF_GRACE_MS"))
	params := []string{"store=" + store, "max=0", "rate=0", "freq=40", "grace=0"}
	if prune { // no ticker (it would keep the cache entries fresh); entries of the repository cache age out after the grace period
		if grace <= 0 {
			grace = 150
		}
		params = []string{"store=" + store, "max=0", "rate=0", "freq=0", "grace=" + strconv.Itoa(grace)}
	}
	h.lineNo = 1
	h.newServer(params)
	bg := context.Background()
	step := 1
	// await runs one request in its own goroutine and waits for it with the bound; a stall ends the test with the dump
	type pending struct {
		what string
		done chan string
	}
	start := func(what string, f func() string) *pending {
		p := &pending{what, make(chan string, 1)}
		go func() { p.done <- f() }()
		return p
	}
	await := func(p *pending) string {
		step++
		select {
		case a := <-p.done:
			fmt.Fprintln(h.impl, p.what, a)
			return a
		case <-time.After(h.bound):
			h.stall(step, p.what, "completes")
			return ""
		}
	}
	code := func(rr *httptest.ResponseRecorder) string { return strconv.Itoa(rr.Code) }
	for i := 0; i < 3; i++ {
		b, d := vcBlob(i)
		await(start("setup blob "+strconv.Itoa(i), func() string {
			return code(h.do(bg, "POST", "/v2/busy/blobs/uploads/?digest="+d.String(), b, nil))
		}))
	}
	ob, od := vcBlob(0)
	await(start("setup other", func() string { return code(h.do(bg, "POST", "/v2/other/blobs/uploads/?digest="+od.String(), ob, nil)) }))
	// R1: the first half of the manifest is consumed by the handler (a pipe write returns when it was read), the rest is held back
	man, _ := vcManifest(0)
	pr, pw := io.Pipe()
	r1 := start("R1 slow manifest PUT to busy", func() string {
		req := httptest.NewRequest("PUT", "/v2/busy/manifests/slow", pr)
		req.RemoteAddr = "192.0.2.1:1234"
		req.Header.Set("Content-Type", types.MediaTypeOCI1Manifest)
		rr := httptest.NewRecorder()
		h.srv.ServeHTTP(rr, req)
		return strconv.Itoa(rr.Code)
	})
	wrote := make(chan struct{})
	go func() { _, _ = pw.Write(man[:len(man)/2]); close(wrote) }()
	select {
	case <-wrote:
	case <-time.After(h.bound):
		h.stall(step, "R1 never read its body", "completes")
	}
	r1Blocked := func() bool {
		select {
		case a := <-r1.done:
			r1.done <- a
			return false
		default:
			return true
		}
	}
	// bring a collection of `busy` to wait for R1
	established := false
	var r2 *pending
	bump := 0
	for attempt := 0; attempt < 25 && !established && r1Blocked(); attempt++ {
		if prune {
			time.Sleep(time.Duration(3*grace) * time.Millisecond) // idle: the cache entry of `busy` ages out, its cleanup collects
		} else {
			// a repository is only collected after a change: push a new blob (leaves no session behind); the request gets a
			// deadline because a collection may already be waiting
			bump++
			b := []byte("bump-" + strconv.Itoa(bump))
			await(start("bump busy", func() string {
				ctx, cancel := context.WithTimeout(bg, 300*time.Millisecond)
				defer cancel()
				return code(h.do(ctx, "POST", "/v2/busy/blobs/uploads/?digest="+digest.Canonical.FromBytes(b).String(), b, nil))
			}))
			time.Sleep(150 * time.Millisecond)
		}
		// R2: no deadline; if it is still waiting after a while, a collection holds the token
		p := start("R2 tags of busy without deadline", func() string { return code(h.do(bg, "GET", "/v2/busy/tags/list", nil, nil)) })
		select {
		case a := <-p.done:
			fmt.Fprintln(h.impl, "probe", a)
		case <-time.After(400 * time.Millisecond):
			established, r2 = true, p
		}
	}
	if !established || !r1Blocked() {
		fmt.Println("VERIF-NOTE collector wait not established; nothing judged")
		fmt.Fprintln(h.impl, "not-established")
	} else {
		// R3 and R4 are issued while R1 is blocked on its pipe and the collection waits for it
		r3 := start("R3 tags of busy with a 200 ms context (must return when it expires)", func() string {
			ctx, cancel := context.WithTimeout(bg, 200*time.Millisecond)
			defer cancel()
			return code(h.do(ctx, "GET", "/v2/busy/tags/list", nil, nil))
		})
		r4 := start("R4 tags of the unrelated repository other (must not wait for busy)", func() string {
			return code(h.do(bg, "GET", "/v2/other/tags/list", nil, nil))
		})
		await(r3)
		await(r4)
		if !r1Blocked() {
			fmt.Println("VERIF-NOTE R1 finished early")
		}
		fmt.Println("VERIF-NOTE collector wait established and judged")
	}
	// R1 finishes, everything drains
	go func() { _, _ = pw.Write(man[len(man)/2:]); pw.Close() }()
	await(r1)
	if r2 != nil {
		await(r2)
	}
	h.lineNo = step + 1
	h.closeServer()
	h.summary(step)
}
