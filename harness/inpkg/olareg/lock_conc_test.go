package olareg

// Concurrent workload harness for C12 (no schedule can hang the registry) and C13 (free of data races).
// In-package (it is compiled into package olareg by `go test -c -overlay`, nothing is written to the tree under test)
// so that it can be built together with the recording mutex (lock_rec_test.go + internal/verifsync, recorder build) or
// plain with -race (race build).  Line protocol (FRAMEWORK.md): a history starts with NEW; `C<i> <op>` lines are queued
// for client i; RUN executes the queues of all clients concurrently against one real Server (ServeHTTP), with the
// collection ticker, cache timers and eviction goroutines of that server running; CLOSE shuts the store down.
// Generation and execution are separated (gen writes lines, apply executes them); every random choice comes from one
// PRNG seeded with VERIF_SEED.  Monitors (VERIF_MON): completes, close-returns, edge-static, lock-cycle, shutdown-returns.

import (
	"bufio"
	"bytes"
	"context"
	"encoding/json"
	"fmt"
	"io"
	"log/slog"
	"math/rand"
	"net/http"
	"net/http/httptest"
	"os"
	"path/filepath"
	"runtime"
	"strconv"
	"strings"
	"sync"
	"sync/atomic"
	"testing"
	"time"

	"github.com/opencontainers/go-digest"

	"github.com/olareg/olareg/config"
	"github.com/olareg/olareg/types"
)

// set by lock_rec_test.go in the recorder build
var (
	vcRecorderReset  func()
	vcRecorderReport func(static map[[2]string]bool) (lines []string, edges int, locks int)
)

type vcHarness struct {
	t        *testing.T
	impl     *bufio.Writer
	mon      *bufio.Writer
	lineNo   int
	bound    time.Duration
	dumpPath string
	static   map[[2]string]bool

	srv      *Server
	root     string
	store    string
	queues   map[int][]vcOp
	answers  map[int]string // line number -> answer
	mu       sync.Mutex
	sessions []string // Location of every session created in this history
	written  map[string]*bytes.Buffer
	inflight sync.Map // client -> *vcInflight
	observed map[string]bool
	locksN   int
	edgesN   int
	requests int64
}

type vcOp struct {
	line int
	text string
}

type vcInflight struct {
	line  int
	text  string
	start time.Time
}

func vcBlob(i int) ([]byte, digest.Digest) {
	b := []byte(fmt.Sprintf("blob-content-%d", i))
	return b, digest.Canonical.FromBytes(b)
}

func vcManifest(i int) ([]byte, digest.Digest) {
	cb, cd := vcBlob(i % 3)
	lb, ld := vcBlob((i + 1) % 3)
	m := fmt.Sprintf(`{"schemaVersion":2,"mediaType":"%s","config":{"mediaType":"application/vnd.oci.image.config.v1+json","digest":"%s","size":%d},"layers":[{"mediaType":"application/vnd.oci.image.layer.v1.tar","digest":"%s","size":%d}]}`,
		types.MediaTypeOCI1Manifest, cd, len(cb), ld, len(lb))
	return []byte(m), digest.Canonical.FromBytes([]byte(m))
}

func vcArtifact(i, j int) ([]byte, digest.Digest) {
	sb, sd := vcManifest(i)
	cb, cd := vcBlob(j % 3)
	m := fmt.Sprintf(`{"schemaVersion":2,"mediaType":"%s","artifactType":"application/vnd.verif.a%d","config":{"mediaType":"application/vnd.oci.empty.v1+json","digest":"%s","size":%d},"layers":[],"subject":{"mediaType":"%s","digest":"%s","size":%d}}`,
		types.MediaTypeOCI1Manifest, j, cd, len(cb), types.MediaTypeOCI1Manifest, sd, len(sb))
	return []byte(m), digest.Canonical.FromBytes([]byte(m))
}

// ---------------------------------------------------------------- generation

func vcGen(rng *rand.Rand, histories, clients, perClient int, stores []string) []string {
	var out []string
	for h := 0; h < histories; h++ {
		st := stores[h%len(stores)]
		max := 2 + rng.Intn(2)
		grace := []int{0, 15, 40, 200}[rng.Intn(4)]
		freq := []int{0, 2, 7, 25}[rng.Intn(4)]
		rate := []int{0, 0, 100000}[rng.Intn(3)]
		out = append(out, fmt.Sprintf("NEW store=%s max=%d grace=%d freq=%d rate=%d", st, max, grace, freq, rate))
		nrounds := 1 + rng.Intn(3)
		for r := 0; r < nrounds; r++ {
			for c := 0; c < clients; c++ {
				for k := 0; k < perClient; k++ {
					out = append(out, fmt.Sprintf("C%d %s", c, vcGenOp(rng)))
				}
			}
			out = append(out, "RUN")
		}
		out = append(out, "CLOSE")
	}
	return out
}

func vcGenOp(rng *rand.Rand) string {
	repo := fmt.Sprintf("r%d", rng.Intn(2))
	switch x := rng.Intn(100); {
	case x < 22:
		return "POST " + repo
	case x < 44:
		return fmt.Sprintf("PATCH %d %d", rng.Intn(8), 1+rng.Intn(4000))
	case x < 52:
		return fmt.Sprintf("PUT %d", rng.Intn(8))
	case x < 56:
		return fmt.Sprintf("DEL %d", rng.Intn(8))
	case x < 60:
		return fmt.Sprintf("STAT %d", rng.Intn(8))
	case x < 68:
		return fmt.Sprintf("BLOBPUT %s %d", repo, rng.Intn(3))
	case x < 74:
		return fmt.Sprintf("BLOBGET %s %d", repo, rng.Intn(3))
	case x < 76:
		return fmt.Sprintf("BLOBDEL %s %d", repo, rng.Intn(3))
	case x < 82:
		return fmt.Sprintf("MPUT %s t%d %d", repo, rng.Intn(2), rng.Intn(3))
	case x < 86:
		return fmt.Sprintf("APUT %s %d %d", repo, rng.Intn(3), rng.Intn(3))
	case x < 89:
		return fmt.Sprintf("MGET %s t%d", repo, rng.Intn(2))
	case x < 91:
		return fmt.Sprintf("MDEL %s t%d", repo, rng.Intn(2))
	case x < 93:
		return fmt.Sprintf("REF %s %d", repo, rng.Intn(3))
	case x < 95:
		return "TAGS " + repo
	case x < 97:
		return fmt.Sprintf("CANCEL %s %d", repo, rng.Intn(3))
	default:
		return fmt.Sprintf("SLEEP %d", 1+rng.Intn(30))
	}
}

// ---------------------------------------------------------------- execution

func (h *vcHarness) monf(line int, name, format string, a ...any) {
	fmt.Fprintf(h.mon, "MON %d %s %s\n", line, name, strings.ReplaceAll(fmt.Sprintf(format, a...), "\n", " | "))
	h.mon.Flush()
}

func (h *vcHarness) apply(line string) {
	h.lineNo++
	f := strings.Fields(line)
	if len(f) == 0 {
		fmt.Fprintln(h.impl, "empty")
		return
	}
	switch {
	case f[0] == "NEW":
		h.newServer(f[1:])
		fmt.Fprintln(h.impl, "new "+h.store)
	case f[0] == "RUN":
		h.run()
	case f[0] == "CLOSE":
		h.closeServer()
	case strings.HasPrefix(f[0], "C"):
		c, _ := strconv.Atoi(f[0][1:])
		h.queues[c] = append(h.queues[c], vcOp{h.lineNo, strings.Join(f[1:], " ")})
	default:
		fmt.Fprintln(h.impl, "unknown")
	}
}

func (h *vcHarness) newServer(params []string) {
	if h.srv != nil {
		h.closeServer()
	}
	p := map[string]int{}
	h.store = "mem"
	for _, kv := range params {
		k, v, _ := strings.Cut(kv, "=")
		if k == "store" {
			h.store = v
		} else {
			p[k], _ = strconv.Atoi(v)
		}
	}
	var err error
	h.root, err = os.MkdirTemp("", "verifconc")
	if err != nil {
		h.t.Fatal(err)
	}
	tru := true
	conf := config.Config{
		Storage: config.ConfigStorage{StoreType: config.StoreMem, GC: config.ConfigGC{
			Frequency: -1, GracePeriod: -1, RepoUploadMax: p["max"], Untagged: &tru, EmptyRepo: &tru}},
		API: config.ConfigAPI{DeleteEnabled: &tru, Blob: config.ConfigAPIBlob{DeleteEnabled: &tru}, RateLimit: p["rate"]},
	}
	// a logger at debug level (what --verbosity debug sets up), written to nowhere: the attributes are formatted, so a
	// shared map or slice handed to a log call is read
	conf.Log = slog.New(slog.NewTextHandler(io.Discard, &slog.HandlerOptions{Level: slog.LevelDebug}))
	if h.store == "dir" {
		conf.Storage.StoreType = config.StoreDir
		conf.Storage.RootDir = h.root
	}
	if p["grace"] > 0 {
		conf.Storage.GC.GracePeriod = time.Duration(p["grace"]) * time.Millisecond
	}
	if p["freq"] > 0 {
		conf.Storage.GC.Frequency = time.Duration(p["freq"]) * time.Millisecond
	}
	if vcRecorderReset != nil {
		vcRecorderReset()
	}
	h.srv = New(conf)
	h.queues = map[int][]vcOp{}
	h.answers = map[int]string{}
	h.sessions = nil
	h.written = map[string]*bytes.Buffer{}
}

func (h *vcHarness) do(ctx context.Context, method, url string, body []byte, hdr map[string]string) *httptest.ResponseRecorder {
	var rdr io.Reader
	if body != nil {
		rdr = bytes.NewReader(body)
	}
	req := httptest.NewRequest(method, url, rdr).WithContext(ctx)
	req.RemoteAddr = "192.0.2.1:1234"
	for k, v := range hdr {
		req.Header.Set(k, v)
	}
	rr := httptest.NewRecorder()
	atomic.AddInt64(&h.requests, 1)
	h.srv.ServeHTTP(rr, req)
	return rr
}

func (h *vcHarness) session(k int) (string, bool) {
	h.mu.Lock()
	defer h.mu.Unlock()
	if len(h.sessions) == 0 {
		return "", false
	}
	// prefer the most recent sessions: index from the end
	return h.sessions[len(h.sessions)-1-k%len(h.sessions)], true
}

// one client operation; returns the answer for the record
func (h *vcHarness) exec(op string) string {
	f := strings.Fields(op)
	ctx := context.Background()
	arg := func(i int) int { n, _ := strconv.Atoi(f[i]); return n }
	code := func(rr *httptest.ResponseRecorder) string { return strconv.Itoa(rr.Code) }
	switch f[0] {
	case "SLEEP":
		time.Sleep(time.Duration(arg(1)) * time.Millisecond)
		return "slept"
	case "POST":
		rr := h.do(ctx, "POST", "/v2/"+f[1]+"/blobs/uploads/", nil, nil)
		if loc := rr.Header().Get("Location"); rr.Code == http.StatusAccepted && loc != "" {
			h.mu.Lock()
			h.sessions = append(h.sessions, loc)
			h.written[loc] = &bytes.Buffer{}
			h.mu.Unlock()
		}
		return code(rr)
	case "PATCH":
		loc, ok := h.session(arg(1))
		if !ok {
			return "skip"
		}
		data := bytes.Repeat([]byte{byte('a' + arg(2)%26)}, arg(2))
		// the state parameter of the Location is stale after the first chunk; ask for the current one
		st := h.do(ctx, "GET", loc, nil, nil)
		if l2 := st.Header().Get("Location"); st.Code == http.StatusNoContent && l2 != "" {
			loc2 := l2
			rr := h.do(ctx, "PATCH", loc2, data, map[string]string{"Content-Type": "application/octet-stream"})
			if rr.Code == http.StatusAccepted {
				h.mu.Lock()
				if b := h.written[loc]; b != nil {
					b.Write(data)
				}
				h.mu.Unlock()
			}
			return code(rr)
		}
		return "stat-" + code(st)
	case "PUT":
		loc, ok := h.session(arg(1))
		if !ok {
			return "skip"
		}
		h.mu.Lock()
		var content []byte
		if b := h.written[loc]; b != nil {
			content = append(content, b.Bytes()...)
		}
		h.mu.Unlock()
		st := h.do(ctx, "GET", loc, nil, nil)
		l2 := st.Header().Get("Location")
		if st.Code != http.StatusNoContent || l2 == "" {
			return "stat-" + code(st)
		}
		return code(h.do(ctx, "PUT", l2+"&digest="+digest.Canonical.FromBytes(content).String(), nil, nil))
	case "DEL":
		loc, ok := h.session(arg(1))
		if !ok {
			return "skip"
		}
		return code(h.do(ctx, "DELETE", loc, nil, nil))
	case "STAT":
		loc, ok := h.session(arg(1))
		if !ok {
			return "skip"
		}
		return code(h.do(ctx, "GET", loc, nil, nil))
	case "BLOBPUT":
		b, d := vcBlob(arg(2))
		return code(h.do(ctx, "POST", "/v2/"+f[1]+"/blobs/uploads/?digest="+d.String(), b, nil))
	case "BLOBGET":
		_, d := vcBlob(arg(2))
		return code(h.do(ctx, "GET", "/v2/"+f[1]+"/blobs/"+d.String(), nil, nil))
	case "BLOBDEL":
		_, d := vcBlob(arg(2))
		return code(h.do(ctx, "DELETE", "/v2/"+f[1]+"/blobs/"+d.String(), nil, nil))
	case "MPUT":
		m, _ := vcManifest(arg(3))
		return code(h.do(ctx, "PUT", "/v2/"+f[1]+"/manifests/"+f[2], m, map[string]string{"Content-Type": types.MediaTypeOCI1Manifest}))
	case "APUT":
		m, d := vcArtifact(arg(2), arg(3))
		return code(h.do(ctx, "PUT", "/v2/"+f[1]+"/manifests/"+d.String(), m, map[string]string{"Content-Type": types.MediaTypeOCI1Manifest}))
	case "MGET":
		return code(h.do(ctx, "GET", "/v2/"+f[1]+"/manifests/"+f[2], nil, map[string]string{"Accept": types.MediaTypeOCI1Manifest}))
	case "MDEL":
		return code(h.do(ctx, "DELETE", "/v2/"+f[1]+"/manifests/"+f[2], nil, nil))
	case "REF":
		_, d := vcManifest(arg(2))
		return code(h.do(ctx, "GET", "/v2/"+f[1]+"/referrers/"+d.String(), nil, nil))
	case "TAGS":
		return code(h.do(ctx, "GET", "/v2/"+f[1]+"/tags/list", nil, nil))
	case "CANCEL":
		// a request whose context is cancelled while it may be waiting for a collection: it must return
		cctx, cancel := context.WithCancel(ctx)
		go func() { time.Sleep(time.Duration(arg(2)) * time.Millisecond); cancel() }()
		rr := h.do(cctx, "GET", "/v2/"+f[1]+"/tags/list", nil, nil)
		cancel()
		return code(rr)
	}
	return "unknown"
}

func (h *vcHarness) stall(line int, text, what string) {
	buf := make([]byte, 1<<22)
	buf = buf[:runtime.Stack(buf, true)]
	if h.dumpPath != "" {
		_ = os.WriteFile(h.dumpPath, buf, 0o644)
	}
	h.monf(line, what, "no completion within %v: %q (store %s); goroutine dump in %s", h.bound, text, h.store, h.dumpPath)
	h.report()
	h.impl.Flush()
	h.mon.Flush()
	fmt.Println("VERIF-STALL", what, "line", line, text)
	os.Exit(0) // the hung goroutines cannot be cleaned up; the monitor line carries the verdict
}

func (h *vcHarness) run() {
	var wg sync.WaitGroup
	done := make(chan struct{})
	for c, q := range h.queues {
		wg.Add(1)
		go func(c int, q []vcOp) {
			defer wg.Done()
			for _, op := range q {
				h.inflight.Store(c, &vcInflight{op.line, op.text, time.Now()})
				a := h.exec(op.text)
				h.inflight.Delete(c)
				h.mu.Lock()
				h.answers[op.line] = a
				h.mu.Unlock()
			}
		}(c, q)
	}
	go func() { wg.Wait(); close(done) }()
	tick := time.NewTicker(50 * time.Millisecond)
	defer tick.Stop()
wait:
	for {
		select {
		case <-done:
			break wait
		case <-tick.C:
			h.inflight.Range(func(_, v any) bool {
				if in := v.(*vcInflight); time.Since(in.start) > h.bound {
					h.stall(in.line, in.text, "completes")
				}
				return true
			})
		}
	}
	// answers in line order, then the answer of RUN itself
	lines := []int{}
	for _, q := range h.queues {
		for _, op := range q {
			lines = append(lines, op.line)
		}
	}
	sortInts(lines)
	for _, l := range lines {
		fmt.Fprintln(h.impl, h.answers[l])
	}
	fmt.Fprintf(h.impl, "ran %d\n", len(lines))
	h.queues = map[int][]vcOp{}
}

func sortInts(a []int) {
	for i := 1; i < len(a); i++ {
		for j := i; j > 0 && a[j-1] > a[j]; j-- {
			a[j-1], a[j] = a[j], a[j-1]
		}
	}
}

func (h *vcHarness) closeServer() {
	if h.srv == nil {
		fmt.Fprintln(h.impl, "closed")
		return
	}
	done := make(chan error, 1)
	go func() { done <- h.srv.Close() }()
	select {
	case <-done:
	case <-time.After(h.bound):
		h.stall(h.lineNo, "CLOSE", "close-returns")
	}
	h.report()
	h.srv = nil
	_ = os.RemoveAll(h.root)
	fmt.Fprintln(h.impl, "closed")
}

// report: recorder monitors for the history that just ended
func (h *vcHarness) report() {
	if vcRecorderReport == nil {
		return
	}
	lines, edges, locks := vcRecorderReport(h.static)
	h.edgesN += edges
	h.locksN += locks
	for _, l := range lines {
		name, detail, _ := strings.Cut(l, " ")
		if strings.HasPrefix(name, "observed:") {
			h.observed[strings.TrimPrefix(name, "observed:")] = true
			continue
		}
		h.monf(h.lineNo, name, "%s", detail)
	}
}

type vcSites struct {
	Sites map[string]string `json:"sites"`
	Edges [][2]string       `json:"edges"`
}

func vcLoadSites() (*vcSites, string) {
	p := os.Getenv("VERIF_SITES")
	if p == "" {
		return nil, ""
	}
	b, err := os.ReadFile(p)
	if err != nil {
		return nil, ""
	}
	s := &vcSites{}
	if json.Unmarshal(b, s) != nil {
		return nil, ""
	}
	_, file, _, _ := runtime.Caller(0)
	return s, filepath.Dir(file)
}

func vcNewHarness(t *testing.T) (*vcHarness, func()) {
	implF, err := os.Create(os.Getenv("VERIF_IMPL"))
	if err != nil {
		t.Fatal(err)
	}
	monF, err := os.Create(os.Getenv("VERIF_MON"))
	if err != nil {
		t.Fatal(err)
	}
	h := &vcHarness{t: t, impl: bufio.NewWriter(implF), mon: bufio.NewWriter(monF), bound: 15 * time.Second,
		dumpPath: os.Getenv("VERIF_DUMP"), static: map[[2]string]bool{}, observed: map[string]bool{}}
	if ms, _ := strconv.Atoi(os.Getenv("VERIF_BOUND_MS")); ms > 0 {
		h.bound = time.Duration(ms) * time.Millisecond
	}
	if s, _ := vcLoadSites(); s != nil {
		for _, e := range s.Edges {
			h.static[e] = true
		}
	}
	return h, func() {
		h.impl.Flush()
		h.mon.Flush()
		implF.Close()
		monF.Close()
	}
}

func TestVerifConc(t *testing.T) {
	if os.Getenv("VERIF_IMPL") == "" {
		t.Skip("verification harness: run through /verif/bin/check")
	}
	h, finish := vcNewHarness(t)
	defer finish()
	var lines []string
	if os.Getenv("VERIF_MODE") == "replay" {
		b, err := os.ReadFile(os.Getenv("VERIF_OPS"))
		if err != nil {
			t.Fatal(err)
		}
		for _, l := range strings.Split(strings.TrimRight(string(b), "\n"), "\n") {
			lines = append(lines, l)
		}
	} else {
		seed, _ := strconv.ParseInt(os.Getenv("VERIF_SEED"), 10, 64)
		geti := func(k string, d int) int {
			if n, err := strconv.Atoi(os.Getenv(k)); err == nil && n > 0 {
				return n
			}
			return d
		}
		stores := []string{"dir", "mem"}
		if s := os.Getenv("VERIF_STORE"); s == "dir" || s == "mem" {
			stores = []string{s}
		}
		lines = vcGen(rand.New(rand.NewSource(seed)), geti("VERIF_N", 10), geti("VERIF_CLIENTS", 6), geti("VERIF_PER_CLIENT", 12), stores)
		if err := os.WriteFile(os.Getenv("VERIF_OPS"), []byte(strings.Join(lines, "\n")+"\n"), 0o644); err != nil {
			t.Fatal(err)
		}
	}
	budget := time.Duration(0)
	if ms, _ := strconv.Atoi(os.Getenv("VERIF_BUDGET_MS")); ms > 0 {
		budget = time.Duration(ms) * time.Millisecond
	}
	start := time.Now()
	executed := 0
	for i, l := range lines {
		// a time budget ends the run at a history boundary
		if budget > 0 && strings.HasPrefix(l, "NEW") && time.Since(start) > budget {
			break
		}
		h.apply(l)
		executed = i + 1
	}
	if h.srv != nil {
		h.lineNo++
		h.closeServer()
	}
	h.summary(executed)
}

func (h *vcHarness) summary(executed int) {
	obs := []string{}
	for e := range h.observed {
		obs = append(obs, e)
	}
	fmt.Printf("VERIF-SUMMARY lines=%d requests=%d locks=%d instance_edges=%d class_edges=%d\n", executed, h.requests, h.locksN, h.edgesN, len(obs))
	for _, e := range obs {
		fmt.Println("VERIF-OBSERVED", e)
	}
}
