package olareg

// Recorder build only (needs internal/verifsync, added by overlay together with the sync.Mutex rewrite).

import (
	"context"
	"fmt"
	"net"
	"net/http"
	"os"
	"strings"
	"sync"
	"testing"
	"time"

	"github.com/olareg/olareg/config"
	"github.com/olareg/olareg/internal/verifsync"
)

func init() {
	if s, root := vcLoadSites(); s != nil {
		verifsync.Configure(root, s.Sites)
	}
	vcRecorderReset = verifsync.Reset
	vcRecorderReport = func(static map[[2]string]bool) ([]string, int, int) {
		var out []string
		es := verifsync.Edges()
		seen := map[[2]string]bool{}
		for _, e := range es {
			k := [2]string{e.FromClass, e.ToClass}
			if seen[k] {
				continue
			}
			seen[k] = true
			out = append(out, "observed:"+e.FromClass+"->"+e.ToClass)
			if len(static) > 0 && !static[k] {
				out = append(out, fmt.Sprintf("edge-static recorded on a real run but not in the static edge set: %s -> %s (held since %s, locked at %s)", e.FromClass, e.ToClass, e.FromSite, e.ToSite))
			}
		}
		for _, c := range verifsync.Cycles() {
			out = append(out, "lock-cycle "+c)
		}
		return out, len(es), verifsync.LockCount()
	}
}

// TestVerifShutdown forces the schedule behind F26 with the parking hook: a request is held right before the mutex of the
// rate limiter until Shutdown has taken Server.mu.  Shutdown must return (nil) and the request must complete.
func TestVerifShutdown(t *testing.T) {
	if os.Getenv("VERIF_IMPL") == "" {
		t.Skip("verification harness: run through /verif/bin/check")
	}
	h, finish := vcNewHarness(t)
	defer finish()
	l, err := net.Listen("tcp", "127.0.0.1:0")
	if err != nil {
		t.Fatal(err)
	}
	addr := l.Addr().String()
	l.Close()
	s := New(config.Config{HTTP: config.ConfigHTTP{Addr: addr}, Storage: config.ConfigStorage{StoreType: config.StoreMem}, API: config.ConfigAPI{RateLimit: 1000}})
	runErr := make(chan error, 1)
	go func() { runErr <- s.Run(context.Background()) }()
	up := false
	for i := 0; i < 200 && !up; i++ {
		if resp, err := http.Get("http://" + addr + "/v2/"); err == nil {
			resp.Body.Close()
			up = true
		} else {
			time.Sleep(10 * time.Millisecond)
		}
	}
	if !up {
		t.Fatal("server did not come up")
	}
	parked := make(chan struct{})
	shutdownHolds := make(chan struct{})
	var onceP, onceS sync.Once
	verifsync.Hook = func(ev, fn string, m *verifsync.Mutex) {
		switch {
		case ev == "before-lock" && strings.HasSuffix(fn, "(*Server).ServeHTTP"):
			onceP.Do(func() { close(parked) })
			<-shutdownHolds
		case ev == "after-lock" && strings.HasSuffix(fn, "(*Server).Shutdown"):
			onceS.Do(func() { close(shutdownHolds) })
		}
	}
	defer func() { verifsync.Hook = nil }()
	reqDone := make(chan string, 1)
	go func() {
		c := &http.Client{Timeout: h.bound + 5*time.Second}
		resp, err := c.Get("http://" + addr + "/v2/")
		if err != nil {
			reqDone <- "error " + err.Error()
			return
		}
		resp.Body.Close()
		reqDone <- fmt.Sprint(resp.StatusCode)
	}()
	select {
	case <-parked:
	case <-time.After(h.bound):
		t.Fatal("request never reached the rate limiter")
	}
	ctx, cancel := context.WithTimeout(context.Background(), h.bound)
	defer cancel()
	t0 := time.Now()
	err = s.Shutdown(ctx)
	h.lineNo = 1
	fmt.Fprintf(h.impl, "shutdown err=%v after %v\n", err, time.Since(t0).Round(time.Millisecond))
	if err != nil {
		onceS.Do(func() { close(shutdownHolds) })
		h.monf(1, "shutdown-returns", "Shutdown did not complete while a request waits at the rate limiter: %v after %v (with context.Background it never returns); Shutdown holds Server.mu while http.Server.Shutdown waits for the handler, the handler waits for Server.mu in ServeHTTP", err, time.Since(t0).Round(time.Millisecond))
	}
	select {
	case r := <-reqDone:
		fmt.Fprintln(h.impl, "request", r)
	case <-time.After(h.bound):
		h.monf(1, "completes", "the request parked at the rate limiter did not complete after Shutdown")
	}
	h.report()
	h.summary(1)
}
