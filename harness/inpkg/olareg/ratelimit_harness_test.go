package olareg

// Correspondence harness for the rate limiter at the top of Server.ServeHTTP (C19): injected into package olareg
// with `go test -overlay`.  It drives the real ServeHTTP in-process and interprets the line protocol of
// lean/Drivers/ConfigMain.lean (NEW RL <limit> / REQ <addr> <mode> <port> <time ns>).
//
// Time.  The limiter reads time.Now().  The check compiles this harness against a copy of olareg.go in which the
// `time.Now()` calls are replaced by `verifNow()` (zz_verif_clock.go, both added by overlay — nothing is written to
// the tree): VERIF_CLOCK=hook, time stamps are exact.  If that rewrite is not possible the harness falls back to
// VERIF_CLOCK=shift: before a request it moves the `first` field of the address's entry back so that the real
// clock sees the virtual elapsed time; this cannot place a request exactly on the one-second boundary, so the
// generator then keeps 2ms away from it (VERIF_BOUNDARY=0).
//
//	VERIF_MODE   gen | replay
//	VERIF_OPS VERIF_IMPL VERIF_MON VERIF_SEED VERIF_N
import (
	"bufio"
	"fmt"
	"math/rand"
	"net/http"
	"net/http/httptest"
	"os"
	"sort"
	"strconv"
	"strings"
	"testing"
	"time"

	"github.com/olareg/olareg/config"
)

var vrlEpoch = time.Date(2030, 1, 1, 0, 0, 0, 0, time.UTC)

type vrlReq struct {
	addr   int
	mode   string
	port   int
	t      int64
	served bool
}

type vrlH struct {
	s       *Server
	limit   int
	lineNo  int
	mon     *bufio.Writer
	hook    bool
	vfirst  map[string]int64 // shift mode: virtual time of the window start per key
	hist    []vrlReq         // requests of the current history (for the statement-level monitors)
	fired   map[string]int
	flooded int // addresses of FLOOD lines in the current history
}

func (h *vrlH) flag(name, detail string) {
	h.fired[name]++
	if h.mon != nil {
		fmt.Fprintf(h.mon, "MON %d %s %s\n", h.lineNo, name, detail)
	}
}

// the client address as documented: "source IP" — the address without the port
func vrlIP(addr int) string {
	if addr >= 100 {
		return fmt.Sprintf("[2001:db8::%x]", addr-100)
	}
	return fmt.Sprintf("10.0.0.%d", addr)
}

func (h *vrlH) newServer(limit int) {
	h.endHistory(h.lineNo - 1)
	h.limit = limit
	h.s = New(config.Config{Storage: config.ConfigStorage{StoreType: config.StoreMem, GC: config.ConfigGC{Frequency: -1}},
		API: config.ConfigAPI{RateLimit: limit}})
	h.vfirst = map[string]int64{}
	h.hist = nil
	h.flooded = 0
}

func (h *vrlH) send(s *Server, r vrlReq) (int, http.Header) {
	req := httptest.NewRequest("GET", "/v2/", nil)
	ip := vrlIP(r.addr)
	switch r.mode {
	case "x":
		req.Header.Set("X-Forwarded-For", ip)
		req.RemoteAddr = fmt.Sprintf("203.0.113.9:%d", r.port)
	case "l":
		req.Header.Set("X-Forwarded-For", ip+", 198.51.100.7")
		req.RemoteAddr = fmt.Sprintf("203.0.113.9:%d", r.port)
	default: // "r": no proxy header, the peer address with its port
		req.RemoteAddr = fmt.Sprintf("%s:%d", ip, r.port)
	}
	rr := httptest.NewRecorder()
	s.ServeHTTP(rr, req)
	res := rr.Result()
	return res.StatusCode, res.Header
}

func (h *vrlH) setClock(s *Server, key string, t int64) {
	if h.hook {
		verifClock = vrlEpoch.Add(time.Duration(t))
		verifClockSet = true
		return
	}
	if s.rateLimit == nil {
		return
	}
	if e, err := s.rateLimit.Get(key); err == nil && e != nil {
		e.first = time.Now().Add(-time.Duration(t - h.vfirst[key]))
	}
}

func (h *vrlH) request(r vrlReq) string {
	if h.s == nil {
		return "bad"
	}
	key := vrlIP(r.addr)
	h.setClock(h.s, key, r.t)
	st, hdr := h.send(h.s, r)
	verifClockSet = false
	r.served = st == http.StatusOK
	out := "S"
	switch st {
	case http.StatusOK:
	case http.StatusTooManyRequests:
		out = "B"
		if hdr.Get("Retry-After") != "1" {
			h.flag("retry-after", "429 without Retry-After: 1")
		}
	default:
		out = fmt.Sprintf("status-%d", st)
	}
	h.hist = append(h.hist, r)
	if h.s.rateLimit == nil {
		if h.limit > 0 {
			h.flag("limiter-missing", "positive limit but no limiter state")
		}
		return out + " - -"
	}
	e, err := h.s.rateLimit.Get(key)
	if err != nil || e == nil {
		return out + " none"
	}
	first := int64(e.first.Sub(vrlEpoch))
	if !h.hook {
		if e.count == 1 {
			h.vfirst[key] = r.t
		}
		first = h.vfirst[key]
	}
	// one entry per client address, whatever the ports
	if keys, err := h.s.rateLimit.List(); err == nil {
		addrs := map[int]bool{}
		for _, q := range h.hist {
			addrs[q.addr] = true
		}
		if len(keys) > len(addrs)+h.flooded {
			sort.Strings(keys)
			h.flag("one-entry-per-address", fmt.Sprintf("%d entries for %d addresses: %v", len(keys), len(addrs), keys))
		}
	}
	return fmt.Sprintf("%s %d %d", out, first, e.count)
}

// statement-level monitors, evaluated when a history ends:
//   - rate-window: per address, within one accounting second (opened by the first request, or by the first request
//     more than one second after the opening of the previous one) at most `limit` requests are served;
//   - rate-isolation: the decisions for an address are the same when only that address's requests are sent.
func (h *vrlH) endHistory(at int) {
	if h.s == nil || len(h.hist) == 0 {
		return
	}
	// the verdicts belong to the last line of the history that ends
	cur := h.lineNo
	h.lineNo = at
	defer func() { h.lineNo = cur }()
	if h.limit > 0 {
		type win struct {
			first  int64
			served int
		}
		w := map[int]*win{}
		for _, r := range h.hist {
			cur, ok := w[r.addr]
			if !ok || r.t-cur.first > int64(time.Second) {
				cur = &win{first: r.t}
				w[r.addr] = cur
			}
			if r.served {
				cur.served++
				if cur.served > h.limit {
					h.flag("rate-window", fmt.Sprintf("address %d: %d served in the accounting second opened at %d, limit %d", r.addr, cur.served, cur.first, h.limit))
				}
			}
		}
		byAddr := map[int][]vrlReq{}
		for _, r := range h.hist {
			byAddr[r.addr] = append(byAddr[r.addr], r)
		}
		saveFirst := h.vfirst
		for a, rs := range byAddr {
			if len(rs) == len(h.hist) {
				continue
			}
			s2 := New(config.Config{Storage: config.ConfigStorage{StoreType: config.StoreMem, GC: config.ConfigGC{Frequency: -1}},
				API: config.ConfigAPI{RateLimit: h.limit}})
			h.vfirst = map[string]int64{}
			for _, r := range rs {
				key := vrlIP(r.addr)
				h.setClock(s2, key, r.t)
				st, _ := h.send(s2, r)
				verifClockSet = false
				if !h.hook {
					if e, err := s2.rateLimit.Get(key); err == nil && e != nil && e.count == 1 {
						h.vfirst[key] = r.t
					}
				}
				if (st == http.StatusOK) != r.served {
					h.flag("rate-isolation", fmt.Sprintf("address %d at %d: served=%v among the others, %v alone", a, r.t, r.served, st == http.StatusOK))
					break
				}
			}
			_ = s2.Close()
		}
		h.vfirst = saveFirst
	} else {
		for _, r := range h.hist {
			if !r.served {
				h.flag("rate-off", "a request was blocked although the limit is not positive")
			}
		}
	}
	_ = h.s.Close()
	h.s, h.hist = nil, nil
}

func (h *vrlH) apply(line string) string {
	h.lineNo++
	t := strings.Fields(line)
	switch {
	case len(t) == 3 && t[0] == "NEW" && t[1] == "RL":
		l, _ := strconv.Atoi(t[2])
		h.newServer(l)
		return "ok"
	case len(t) == 3 && t[0] == "FLOOD":
		// FLOOD <n> <time ns>: one request each from n addresses no other line uses, all at the same instant; then a pause in
		// which whatever the limiter does in the background to its table can happen.  The accounting of the other addresses is
		// not the flood's business (C19: per address): the requests are not part of the history the isolation monitor replays
		if h.s == nil {
			return "bad"
		}
		n, _ := strconv.Atoi(t[1])
		ts, _ := strconv.ParseInt(t[2], 10, 64)
		served := 0
		for i := 0; i < n; i++ {
			r := vrlReq{addr: 20000 + i, mode: "r", port: 4000, t: ts}
			h.setClock(h.s, vrlIP(r.addr), r.t)
			st, _ := h.send(h.s, r)
			verifClockSet = false
			if st == http.StatusOK {
				served++
			}
		}
		h.flooded += n
		time.Sleep(150 * time.Millisecond)
		return fmt.Sprintf("F %d", served)
	case len(t) == 5 && t[0] == "REQ":
		a, _ := strconv.Atoi(t[1])
		p, _ := strconv.Atoi(t[3])
		ts, _ := strconv.ParseInt(t[4], 10, 64)
		return h.request(vrlReq{addr: a, mode: t[2], port: p, t: ts})
	}
	return "bad"
}

func TestVerifRateLimit(t *testing.T) {
	mode := os.Getenv("VERIF_MODE")
	if mode == "" {
		t.Skip("VERIF_MODE not set")
	}
	seed, _ := strconv.ParseInt(os.Getenv("VERIF_SEED"), 10, 64)
	n, _ := strconv.Atoi(os.Getenv("VERIF_N"))
	h := &vrlH{hook: os.Getenv("VERIF_CLOCK") != "shift", fired: map[string]int{}}
	if h.hook && !verifClockWired {
		t.Fatal("VERIF_CLOCK=hook but olareg.go was not rewritten to call verifNow()")
	}
	boundary := os.Getenv("VERIF_BOUNDARY") != "0"
	implF, err := os.Create(os.Getenv("VERIF_IMPL"))
	if err != nil {
		t.Fatal(err)
	}
	impl := bufio.NewWriterSize(implF, 1<<20)
	defer func() { impl.Flush(); implF.Close() }()
	if p := os.Getenv("VERIF_MON"); p != "" {
		mf, err := os.Create(p)
		if err != nil {
			t.Fatal(err)
		}
		h.mon = bufio.NewWriter(mf)
		defer func() { h.mon.Flush(); mf.Close() }()
	}
	if mode == "replay" {
		f, err := os.Open(os.Getenv("VERIF_OPS"))
		if err != nil {
			t.Fatal(err)
		}
		sc := bufio.NewScanner(f)
		for sc.Scan() {
			fmt.Fprintln(impl, h.apply(sc.Text()))
		}
		h.endHistory(h.lineNo)
		return
	}
	opsF, err := os.Create(os.Getenv("VERIF_OPS"))
	if err != nil {
		t.Fatal(err)
	}
	ops := bufio.NewWriterSize(opsF, 1<<20)
	defer func() { ops.Flush(); opsF.Close() }()
	emit := func(line string) {
		fmt.Fprintln(ops, line)
		fmt.Fprintln(impl, h.apply(line))
	}
	r := rand.New(rand.NewSource(seed))
	sec := int64(time.Second)
	for i := 0; i < n; i++ {
		limit := []int{1, 1, 2, 2, 3, 5, 0, -1, 8}[r.Intn(9)]
		emit(fmt.Sprintf("NEW RL %d", limit))
		naddr := 1 + r.Intn(3)
		now := int64(r.Intn(5)) * sec / 4
		last := map[int]int64{} // time of the request that (by the documented rule) opened the current window
		k := 4 + r.Intn(22)
		for j := 0; j < k; j++ {
			a := 1 + r.Intn(naddr)
			if r.Intn(9) == 0 {
				a += 100 // an IPv6 peer
			}
			// non-decreasing times: bursts, steps around the one-second boundary of the address's window, long gaps
			switch r.Intn(8) {
			case 0, 1, 2:
			case 3:
				now += int64(r.Intn(300)) * int64(time.Millisecond)
			case 4:
				now += int64(r.Intn(1500)) * int64(time.Millisecond)
			case 5:
				now += 11 * sec // beyond the cache age
			default:
				if f, ok := last[a]; ok && boundary {
					// exactly on, just before or just after first+1s
					c := f + sec + []int64{-1, 0, 1, 0, 1}[r.Intn(5)]
					if c >= now {
						now = c
					}
				} else {
					now += int64(2+r.Intn(900)) * int64(time.Millisecond)
				}
			}
			if !boundary {
				// keep 2ms away from the boundary of this address's window
				if f, ok := last[a]; ok {
					if d := now - f - sec; d > -2*int64(time.Millisecond) && d < 2*int64(time.Millisecond) {
						now = f + sec + 2*int64(time.Millisecond)
					}
				}
			}
			if f, ok := last[a]; !ok || now-f > sec {
				last[a] = now
			}
			mode := "x"
			if a >= 100 {
				mode = "r"
			} else {
				mode = []string{"x", "l", "r", "r"}[r.Intn(4)]
			}
			emit(fmt.Sprintf("REQ %d %s %d %d", a, mode, 1024+r.Intn(60000), now))
			// now and then: the address uses up its allowance, more than a thousand other addresses are seen at the same
			// instant, and the address asks again within its accounting second - its count is its own whatever the table holds
			if limit > 0 && h.hook && r.Intn(700) == 0 {
				for j := 0; j <= limit; j++ {
					emit(fmt.Sprintf("REQ %d %s %d %d", a, mode, 2000+j, now))
				}
				emit(fmt.Sprintf("FLOOD 1100 %d", now))
				emit(fmt.Sprintf("REQ %d %s %d %d", a, mode, 3000, now+1))
			}
		}
	}
	h.endHistory(h.lineNo)
	names := []string{}
	for k := range h.fired {
		names = append(names, k)
	}
	sort.Strings(names)
	for _, k := range names {
		t.Logf("monitor %s fired %d times", k, h.fired[k])
	}
}
