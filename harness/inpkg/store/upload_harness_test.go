package store

// In-package harness for the upload session objects of both stores (C08, C01).
//
// Two requests that address one session each hold the same BlobCreator (the handlers fetch it with BlobSession and work on
// it without a lock of their own), so every call sequence on one object is reachable: a Cancel after a successful Close
// (a closing PUT with a wrong digest arriving behind the one that completed), writes after the end, two Closes.  The
// statement checked on every enumerated sequence: whatever is called on a session object, every blob that a successful
// Close has published reads back byte-identical and hashing to its digest, a session that has ended publishes nothing
// more, and no session directory entry is left once every session has ended.
//
// Scenarios: all sequences up to length VERIF_N (default 5) over the alphabet below on one object, followed by a second
// session that writes other bytes and completes, on the memory store, the directory store and the memory store over a
// directory.  Output: one line per scenario to VERIF_IMPL (`<store> <ops> -> <outcomes>`), monitor lines to VERIF_MON.
import (
	"bufio"
	"context"
	"fmt"
	"io"
	"os"
	"path/filepath"
	"strconv"
	"strings"
	"testing"

	_ "crypto/sha256"
	_ "crypto/sha512"

	"github.com/opencontainers/go-digest"

	"github.com/olareg/olareg/config"
)

type vupOp struct {
	name string
	run  func(u BlobCreator, st *vupState) string
}

type vupState struct {
	written []byte          // bytes the object accepted so far
	ended   bool            // a Close or Cancel has returned without error
	stored  map[string]bool // digests published by a successful Close
	content map[string][]byte
}

func vupErr(err error) string {
	if err == nil {
		return "ok"
	}
	return "err"
}

func vupOps() []vupOp {
	wr := func(b string) func(u BlobCreator, st *vupState) string {
		return func(u BlobCreator, st *vupState) string {
			n, err := u.Write([]byte(b))
			if err == nil && n == len(b) && !st.ended {
				st.written = append(st.written, b...)
			}
			return vupErr(err)
		}
	}
	closeOp := func(u BlobCreator, st *vupState) string {
		want := digest.FromBytes(st.written)
		if err := u.Verify(want); err != nil {
			return "err"
		}
		err := u.Close()
		if err == nil && !st.ended {
			st.ended = true
			st.stored[want.String()] = true
			st.content[want.String()] = append([]byte{}, st.written...)
		}
		return vupErr(err)
	}
	return []vupOp{
		{"Wa", wr("aaaaaaaaaaaaaaaa")},
		{"Wb", wr("bbbbbbbb")},
		{"Vbad", func(u BlobCreator, st *vupState) string { return vupErr(u.Verify(digest.FromString("something else"))) }},
		{"Vbad512", func(u BlobCreator, st *vupState) string {
			return vupErr(u.Verify(digest.SHA512.FromString("something else")))
		}},
		{"Vgood", func(u BlobCreator, st *vupState) string { return vupErr(u.Verify(digest.FromBytes(st.written))) }},
		{"V512", func(u BlobCreator, st *vupState) string { return vupErr(u.Verify(digest.SHA512.FromBytes(st.written))) }},
		{"Close", closeOp},
		{"CloseRaw", func(u BlobCreator, st *vupState) string {
			err := u.Close()
			if err == nil && !st.ended {
				st.ended = true
				want := digest.FromBytes(st.written)
				st.stored[want.String()] = true
				st.content[want.String()] = append([]byte{}, st.written...)
			}
			return vupErr(err)
		}},
		{"Cancel", func(u BlobCreator, st *vupState) string {
			err := u.Cancel()
			if err == nil {
				st.ended = true
			}
			return vupErr(err)
		}},
	}
}

func vupReadAll(repo Repo, d digest.Digest) ([]byte, error) {
	rdr, err := repo.BlobGet(d)
	if err != nil {
		return nil, err
	}
	defer rdr.Close()
	return io.ReadAll(rdr)
}

func TestVerifUpload(t *testing.T) {
	implPath, monPath := os.Getenv("VERIF_IMPL"), os.Getenv("VERIF_MON")
	if implPath == "" || monPath == "" {
		t.Skip("harness: VERIF_IMPL / VERIF_MON not set")
	}
	maxLen, _ := strconv.Atoi(os.Getenv("VERIF_N"))
	if maxLen <= 0 {
		maxLen = 5
	}
	implF, err := os.Create(implPath)
	if err != nil {
		t.Fatal(err)
	}
	defer implF.Close()
	monF, err := os.Create(monPath)
	if err != nil {
		t.Fatal(err)
	}
	defer monF.Close()
	impl, mon := bufio.NewWriter(implF), bufio.NewWriter(monF)
	defer impl.Flush()
	defer mon.Flush()
	ops := vupOps()
	lineNo := 0
	flag := func(name, detail string) { fmt.Fprintf(mon, "MON %d %s %s\n", lineNo, name, detail) }
	var seqs [][]int
	var rec func(cur []int)
	rec = func(cur []int) {
		if len(cur) > 0 {
			seqs = append(seqs, append([]int{}, cur...))
		}
		if len(cur) == maxLen {
			return
		}
		for i := range ops {
			rec(append(cur, i))
		}
	}
	rec(nil)
	pins := []string{"none", "a", "x"} // unpinned; pinned to the digest of one `Wa` chunk; pinned to a digest no sequence produces
	for _, kind := range []string{"mem", "dir", "memdir"} {
		for _, pin := range pins {
			for _, seq := range seqs {
				if pin != "none" && len(seq) > maxLen-1 {
					continue // pinned sessions one call shorter (the scenario count triples otherwise)
				}
				lineNo++
				root := t.TempDir()
				boolT := true
				conf := config.Config{}
				conf.Storage.RootDir = root
				conf.Storage.GC.Frequency = -1
				conf.Storage.GC.GracePeriod = -1
				conf.Storage.GC.EmptyRepo = &boolT
				conf.SetDefaults()
				var st Store
				switch kind {
				case "dir":
					conf.Storage.StoreType = config.StoreDir
					st = NewDir(conf)
				case "memdir":
					conf.Storage.StoreType = config.StoreMem
					st = NewMem(conf)
				default:
					conf.Storage.StoreType = config.StoreMem
					conf.Storage.RootDir = ""
					st = NewMem(conf)
				}
				repo, err := st.RepoGet(context.Background(), "r")
				if err != nil {
					t.Fatalf("RepoGet: %v", err)
				}
				state := &vupState{stored: map[string]bool{}, content: map[string][]byte{}}
				var opts []BlobOpt
				switch pin {
				case "a":
					opts = append(opts, BlobWithDigest(digest.FromString("aaaaaaaaaaaaaaaa")))
				case "x":
					opts = append(opts, BlobWithDigest(digest.FromString("pinned to something else")))
				}
				u, _, err := repo.BlobCreate(opts...)
				if err != nil {
					t.Fatalf("BlobCreate: %v", err)
				}
				names, outs := []string{}, []string{}
				for _, i := range seq {
					names = append(names, ops[i].name)
					outs = append(outs, ops[i].run(u, state))
				}
				// a second session: other bytes, completed
				other := []byte("cccccccccccccccccccccccccccccccc-second-session")
				u2, _, err := repo.BlobCreate()
				if err != nil {
					flag("C08.session-create-failed", fmt.Sprintf("%s/"+pin+" %s: a new session cannot be opened: %v", kind, strings.Join(names, ","), err))
				} else {
					_, _ = u2.Write(other)
					d2 := digest.FromBytes(other)
					if err := u2.Verify(d2); err != nil {
						flag("C01.store-verify", fmt.Sprintf("%s/"+pin+" %s: the second session does not verify its own content: %v", kind, strings.Join(names, ","), err))
					} else if err := u2.Close(); err != nil {
						flag("C08.session-close-failed", fmt.Sprintf("%s/"+pin+" %s: the second session cannot be completed: %v", kind, strings.Join(names, ","), err))
					} else {
						state.stored[d2.String()] = true
						state.content[d2.String()] = other
					}
				}
				// whatever was called on the first object after its end, once more now that other content has gone through the store
				if state.ended {
					_, _ = u.Write([]byte("zzzz"))
					_ = u.Cancel()
				}
				for ds, want := range state.content {
					got, err := vupReadAll(repo, digest.Digest(ds))
					if err != nil {
						// the object may have ended on the other algorithm (a Verify under sha512 before a Close without verification)
						if g2, e2 := vupReadAll(repo, digest.SHA512.FromBytes(want)); e2 == nil {
							if string(g2) != string(want) {
								flag("C08.completed-blob-differs", fmt.Sprintf("%s/"+pin+" %s: blob differs from the accepted chunks", kind, strings.Join(names, ",")))
							}
							continue
						}
					}
					if err != nil {
						flag("C08.completed-blob-lost", fmt.Sprintf("%s/"+pin+" %s: blob %s published by a successful Close cannot be read: %v", kind, strings.Join(names, ","), ds[:19], err))
						continue
					}
					if digest.FromBytes(got).String() != ds {
						flag("C01.served-hash", fmt.Sprintf("%s/"+pin+" %s: blob %s reads back %d bytes that hash to %s", kind, strings.Join(names, ","), ds[:19], len(got), digest.FromBytes(got).String()[:19]))
					} else if string(got) != string(want) {
						flag("C08.completed-blob-differs", fmt.Sprintf("%s/"+pin+" %s: blob %s differs from the accepted chunks", kind, strings.Join(names, ","), ds[:19]))
					}
				}
				// for the comparison with the model (lean/Sess): are the bytes the object accepted published now?
				pub := 0
				for _, alg := range []digest.Algorithm{digest.SHA256, digest.SHA512} {
					if got, err := vupReadAll(repo, alg.FromBytes(state.written)); err == nil && string(got) == string(state.written) {
						pub = 1
					}
				}
				// every blob the repository lists hashes to the digest it is stored under, whatever algorithm the object ended on
				type lister interface {
					blobList(locked bool) ([]digest.Digest, error)
				}
				if bl, ok := repo.(lister); ok {
					if ds, err := bl.blobList(false); err == nil {
						for _, d := range ds {
							got, err := vupReadAll(repo, d)
							if err != nil || d.Validate() != nil {
								continue
							}
							if d.Algorithm().FromBytes(got) != d {
								flag("C01.served-hash", fmt.Sprintf("%s/"+pin+" %s: blob %s holds %d bytes that do not hash to it", kind, strings.Join(names, ","), d.String()[:19], len(got)))
							}
						}
					}
				}
				if !state.ended {
					_ = u.Cancel()
				}
				if kind == "dir" {
					if ents, err := os.ReadDir(filepath.Join(root, "r", "_uploads")); err == nil && len(ents) > 0 {
						flag("C08.residue", fmt.Sprintf("%s/"+pin+" %s: %d files left in _uploads after every session has ended", kind, strings.Join(names, ","), len(ents)))
					}
				}
				repo.Done()
				_ = st.Close()
				fmt.Fprintf(impl, "%s/%s %s -> %s pub=%d\n", kind, pin, strings.Join(names, ","), strings.Join(outs, ","), pub)
			}
		}
	}
}
