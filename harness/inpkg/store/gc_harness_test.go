package store

// Correspondence harness for garbage collection (C05, C06): injected into package store with `go test -overlay`.
// It interprets the line protocol of lean/Drivers/GCMain.lean (repository level) and lean/Drivers/GCPassMain.lean
// (store-wide pass) on the real code: repoGarbageCollect through memRepo.gc / dirRepo.gc, and mem.gc / dir.gc.
//
//	VERIF_MODE   gen | replay
//	VERIF_STORE  mem | dir
//	VERIF_OPS    request lines   (written by gen, read by replay)
//	VERIF_IMPL   implementation answers, one per request line
//	VERIF_MON    monitor lines "MON <line-no> <monitor> <detail>"
//	VERIF_COV    coverage counters "name count" (branch tags hit, policy cells, …)
//	VERIF_TMP    scratch directory for the directory store (under /verif/.work)
//	VERIF_SEED VERIF_N VERIF_MATRIX
//
// Repository level (TestVerifGC).  State-building lines set up an arbitrary repository state directly (a superset of
// the states the API can reach); `GC` runs the real collection on it.
//
//	NEW u d w g e            policy: Untagged ReferrersDangling ReferrersWithSubj grace(1 = 1h, 0 = disabled) EmptyRepo
//	B id recent raw          blob that is not JSON            (digest ids: id%10 == 7 -> sha512, 8 -> sha384, else sha256)
//	B id recent oth          JSON object that is neither an image nor an index
//	B id recent img cfg l..  image manifest naming config cfg and layers l..
//	B id recent idx mt:id..  index naming children under media type ids (1 image, 2 index, 3 octet-stream,
//	                         4 docker manifest list, 5 docker manifest, 0 empty)
//	B id recent poly cfg n l1..ln mt:id..   JSON with config/layers and manifests at once
//	M id mt nl tag subj      top-level index entry (nl = 1: nil annotation map; tag/subj = 0: key absent)
//	K id mt                  child entry (Index.AddChildren)
//	AGE                      every blob becomes older than the grace period
//	UP / UPC                 open an upload session / cancel all sessions
//	X root|blobs|updir|upfile  (dir) foreign file in the repository directory, in blobs/sha256, an empty _uploads
//	                         directory, a file left in _uploads
//	GC                       run the collection; answer = canonical state afterwards
//
// Store-wide pass (TestVerifGCPass): see vgcPassApply.
import (
	"bufio"
	"context"
	"encoding/json"
	"fmt"
	"io"
	"log/slog"
	"math/rand"
	"os"
	"path/filepath"
	"runtime"
	"sort"
	"strconv"
	"strings"
	"sync"
	"testing"
	"time"

	"github.com/opencontainers/go-digest"

	"github.com/olareg/olareg/config"
	"github.com/olareg/olareg/types"
)

// ---------------------------------------------------------------- symbolic digests and media types

var vgcDigs = map[int]digest.Digest{}
var vgcDigID = map[digest.Digest]int{}

func vgcAlgo(i int) digest.Algorithm {
	switch i % 10 {
	case 7:
		return digest.SHA512
	case 8:
		return digest.SHA384
	}
	return digest.SHA256
}

func vgcDg(i int) digest.Digest {
	if i == 0 {
		return ""
	}
	if d, ok := vgcDigs[i]; ok {
		return d
	}
	d := vgcAlgo(i).FromString("k" + strconv.Itoa(i))
	vgcDigs[i] = d
	vgcDigID[d] = i
	return d
}

var vgcMts = map[int]string{0: "", 1: types.MediaTypeOCI1Manifest, 2: types.MediaTypeOCI1ManifestList, 3: "application/octet-stream",
	4: types.MediaTypeDocker2ManifestList, 5: types.MediaTypeDocker2Manifest}
var vgcMtID = map[string]int{}

func init() {
	for k, v := range vgcMts {
		vgcMtID[v] = k
	}
}

// class under which the collector opens a descriptor: 2 index, 1 image, 0 plain blob
func vgcClass(mt int) int {
	switch mt {
	case 2, 4:
		return 2
	case 1, 5:
		return 1
	}
	return 0
}

// ---------------------------------------------------------------- the harness's own view of a state

type vgcBlob struct {
	json   bool
	cfg    int
	layers []int
	kids   [][2]int // (mt, dig)
	recent bool
}

type vgcEnt struct{ dig, mt, nl, tag, subj int }

func (e vgcEnt) String() string {
	return fmt.Sprintf("%d:%d:%d:%d:%d", e.dig, e.mt, e.nl, e.tag, e.subj)
}

type vgcDisk struct {
	repo, index, layout, blobs, uploads bool
	upfiles                             int      // files in _uploads
	algos                               []string // algorithm directories under blobs/
	foreign                             []string // anything else
}

type vgcState struct {
	blobs map[int]vgcBlob
	ents  []vgcEnt
	found [][2]int // (dig, mt) for every digest Index.GetDesc resolves (top level or child)
	disk  vgcDisk
	pers  []int // blobs a fresh read-only instance of the store can serve (dir)
}

// minimal decoders of the harness (independent of types.Manifest / types.Index)
type vgcJDesc struct {
	MediaType string `json:"mediaType"`
	Digest    string `json:"digest"`
}
type vgcJMan struct {
	Config    *vgcJDesc  `json:"config"`
	Layers    []vgcJDesc `json:"layers"`
	Manifests []vgcJDesc `json:"manifests"`
}

func vgcDecode(raw []byte) vgcBlob {
	m := vgcJMan{}
	if err := json.Unmarshal(raw, &m); err != nil {
		return vgcBlob{}
	}
	b := vgcBlob{json: true}
	if m.Config != nil {
		b.cfg = vgcDigID[digest.Digest(m.Config.Digest)]
	}
	for _, l := range m.Layers {
		b.layers = append(b.layers, vgcDigID[digest.Digest(l.Digest)])
	}
	for _, c := range m.Manifests {
		b.kids = append(b.kids, [2]int{vgcMtID[c.MediaType], vgcDigID[digest.Digest(c.Digest)]})
	}
	return b
}

func vgcEntOf(d types.Descriptor) vgcEnt {
	e := vgcEnt{dig: vgcDigID[d.Digest], mt: vgcMtID[d.MediaType], nl: 1}
	if d.Annotations != nil {
		e.nl = 0
		if v, ok := d.Annotations[types.AnnotRefName]; ok && len(v) > 1 {
			e.tag, _ = strconv.Atoi(v[1:])
		}
		if v, ok := d.Annotations[types.AnnotReferrerSubject]; ok {
			if v == "not-a-digest" {
				e.subj = 99
			} else {
				e.subj = vgcDigID[digest.Digest(v)]
			}
		}
	}
	return e
}

// ---------------------------------------------------------------- order-free specification used by the monitors

type vgcPolicy struct{ untagged, dangling, withSubj, grace, emptyRepo bool }

// PolicyClear: the documented meanings of the switches do not collide (DESIGN C05 reading (ii), C06)
func (p vgcPolicy) clear() bool { return !(p.dangling && !p.untagged) }

type vgcKey struct{ dig, cls int }

type vgcSpec struct {
	shapeOK  bool            // at most one response per subject, no entry carries a tag and a subject
	walked   map[vgcKey]bool // descriptors (digest, class) the policy retains, with an existing blob
	retained map[int]bool    // digests of retained blobs (walked, config/layers of walked images) - without the recent rule
	looseRec map[int]bool    // recent blobs that no index entry names
	rootEnt  map[int]bool    // positions of entries that are roots
	boundEnt map[int]int     // positions of entries bound to a subject -> subject
	tags     map[string]int  // branch tags hit while computing (coverage)
}

func (s *vgcState) exists(g int) bool { _, ok := s.blobs[g]; return ok && g != 0 }
func (s *vgcState) recent(p vgcPolicy, g int) bool {
	b, ok := s.blobs[g]
	return ok && p.grace && b.recent
}

// vgcRetained computes, from the state before a collection, what the policy retains - following the readings fixed in
// DESIGN.md section C05: roots by the keep table (entries carrying a subject are governed by the referrer switches),
// closure under children of a retained index (opened under the media type recorded for it), config and layers of a
// retained image, the response registered for a retained subject.  No visiting order is involved.
func vgcRetained(p vgcPolicy, s *vgcState) *vgcSpec {
	sp := &vgcSpec{shapeOK: true, walked: map[vgcKey]bool{}, retained: map[int]bool{}, looseRec: map[int]bool{},
		rootEnt: map[int]bool{}, boundEnt: map[int]int{}, tags: map[string]int{}}
	subjSeen := map[int]bool{}
	for i, e := range s.ents {
		tagged := e.nl == 0 && e.tag != 0
		hasSubj := e.nl == 0 && e.subj != 0
		general := !p.untagged || tagged || s.recent(p, e.dig)
		if hasSubj {
			if tagged || subjSeen[e.subj] {
				sp.shapeOK = false
			}
			subjSeen[e.subj] = true
			ex := s.exists(e.subj)
			switch {
			case p.withSubj && ex:
				sp.boundEnt[i] = e.subj
				sp.tags["subj-withsubj-bound"]++
			case !p.dangling:
				sp.rootEnt[i] = true
				sp.tags["subj-keep-dangling"]++
			case ex:
				if s.recent(p, e.dig) {
					sp.rootEnt[i] = true
					sp.tags["subj-dangling-recent"]++
				} else {
					sp.boundEnt[i] = e.subj
					sp.tags["subj-dangling-bound"]++
				}
			default:
				sp.tags["subj-dangling-gone"]++
				if general {
					sp.rootEnt[i] = true
				}
			}
		} else if general {
			sp.rootEnt[i] = true
			switch {
			case tagged:
				sp.tags["root-tagged"]++
			case !p.untagged:
				sp.tags["root-untagged-off"]++
			default:
				sp.tags["root-kept-by-grace"]++
			}
		} else {
			sp.tags["entry-not-kept"]++
		}
	}
	work := []vgcKey{}
	push := func(g, mt int) {
		k := vgcKey{g, vgcClass(mt)}
		if s.exists(g) && !sp.walked[k] {
			sp.walked[k] = true
			work = append(work, k)
		}
	}
	for i := range sp.rootEnt {
		push(s.ents[i].dig, s.ents[i].mt)
	}
	for len(work) > 0 {
		k := work[0]
		work = work[1:]
		b := s.blobs[k.dig]
		sp.retained[k.dig] = true
		opened := true
		switch k.cls {
		case 2:
			if b.json {
				for _, c := range b.kids {
					push(c[1], c[0])
				}
			} else {
				opened = false
			}
		case 1:
			if b.json {
				if s.exists(b.cfg) {
					sp.retained[b.cfg] = true
				}
				for _, l := range b.layers {
					if s.exists(l) {
						sp.retained[l] = true
					}
				}
			} else {
				opened = false
			}
		}
		if opened {
			for i, subj := range sp.boundEnt {
				if subj == k.dig {
					push(s.ents[i].dig, s.ents[i].mt)
				}
			}
		}
	}
	// roles: a digest that is walked as a manifest and named as config/layer by a walked image; a digest walked under two classes
	for k := range sp.walked {
		for k2 := range sp.walked {
			if k2.dig == k.dig && k2.cls != k.cls {
				sp.tags["role-two-classes"]++
			}
			if k2.cls == 1 {
				b := s.blobs[k2.dig]
				if b.json && (b.cfg == k.dig || vgcHas(b.layers, k.dig)) {
					sp.tags["role-manifest-and-layer"]++
				}
			}
		}
	}
	named := map[int]bool{}
	for _, e := range s.ents {
		named[e.dig] = true
	}
	for g := range s.blobs {
		if s.recent(p, g) && !named[g] {
			sp.looseRec[g] = true
		}
	}
	return sp
}

func vgcHas(l []int, x int) bool {
	for _, y := range l {
		if x == y {
			return true
		}
	}
	return false
}

// complete: the descriptor (digest, class) can be pulled completely: blob there, decodable under its class, children
// resolvable through the index and complete themselves, config and layers there (least fixpoint; cycles are incomplete)
func (s *vgcState) complete(g, cls int, visiting map[vgcKey]bool) bool {
	if !s.exists(g) {
		return false
	}
	k := vgcKey{g, cls}
	if visiting[k] {
		return false
	}
	visiting[k] = true
	defer delete(visiting, k)
	b := s.blobs[g]
	switch cls {
	case 2:
		if !b.json {
			return false
		}
		for _, c := range b.kids {
			if vgcClass(c[0]) != 0 && !s.resolvable(c[1]) {
				return false
			}
			if !s.complete(c[1], vgcClass(c[0]), visiting) {
				return false
			}
		}
	case 1:
		if !b.json || !s.exists(b.cfg) {
			return false
		}
		for _, l := range b.layers {
			if !s.exists(l) {
				return false
			}
		}
	}
	return true
}

// resolvable: a manifest GET by digest finds the descriptor (top level or recorded child)
func (s *vgcState) resolvable(g int) bool {
	for _, e := range s.ents {
		if e.dig == g {
			return true
		}
	}
	for _, c := range s.found {
		if c[0] == g {
			return true
		}
	}
	return false
}

// ---------------------------------------------------------------- interpreter

type vgcH struct {
	kind     string // mem | dir
	tmp      string
	n        int
	pol      vgcPolicy
	conf     config.Config
	st       Store
	mr       *memRepo
	dr       *dirRepo
	root     string
	sessions []BlobCreator
	lineNo   int
	mon      *bufio.Writer
	cov      map[string]int
	prevGC   *vgcState // state after the previous line if that line was a GC
	anyGC    bool      // a GC ran since NEW
	fuzzy    bool      // the answers of this history are not compared any more (order dependent, see vgcOrderDependent)
}

func (h *vgcH) flag(name, detail string) {
	h.cov["mon:"+name]++
	if h.mon != nil {
		fmt.Fprintf(h.mon, "MON %d %s %s\n", h.lineNo, name, detail)
	}
}

func vgcB(b bool) int {
	if b {
		return 1
	}
	return 0
}

func (h *vgcH) closeStore() {
	for _, bc := range h.sessions {
		_ = bc.Cancel()
	}
	h.sessions = nil
	if h.st != nil {
		_ = h.st.Close()
		h.st = nil
	}
	if h.root != "" {
		_ = os.RemoveAll(h.root)
		h.root = ""
	}
}

func vgcConf(p vgcPolicy, kind, root string) config.Config {
	u, d, w, e := p.untagged, p.dangling, p.withSubj, p.emptyRepo
	conf := config.Config{Storage: config.ConfigStorage{StoreType: config.StoreMem, GC: config.ConfigGC{
		Frequency: -1, GracePeriod: -1, Untagged: &u, ReferrersDangling: &d, ReferrersWithSubj: &w, EmptyRepo: &e}}}
	if p.grace {
		conf.Storage.GC.GracePeriod = time.Hour
	}
	if kind == "dir" {
		conf.Storage.StoreType = config.StoreDir
		conf.Storage.RootDir = root
	}
	conf.SetDefaults()
	return conf
}

func (h *vgcH) newStore(p vgcPolicy) error {
	h.closeStore()
	h.pol = p
	h.n++
	if h.kind == "dir" {
		h.root = filepath.Join(h.tmp, "s"+strconv.Itoa(h.n))
		if err := os.MkdirAll(h.root, 0755); err != nil {
			return err
		}
	}
	h.conf = vgcConf(p, h.kind, h.root)
	ctx := context.Background()
	if h.kind == "dir" {
		h.st = NewDir(h.conf)
	} else {
		h.st = NewMem(h.conf)
	}
	repo, err := h.st.RepoGet(ctx, "r")
	if err != nil {
		return err
	}
	repo.Done()
	h.mr, h.dr = nil, nil
	if h.kind == "dir" {
		h.dr = repo.(*dirRepo)
		if err := h.dr.repoInit(false); err != nil {
			return err
		}
	} else {
		h.mr = repo.(*memRepo)
	}
	return nil
}

func (h *vgcH) blobPath(g int) string {
	d := vgcDg(g)
	return filepath.Join(h.dr.path, blobsDir, d.Algorithm().String(), d.Encoded())
}

func vgcModTime(recent bool) time.Time {
	if recent {
		return time.Now()
	}
	return time.Now().Add(-2 * time.Hour)
}

func vgcContent(id int, t []string) ([]byte, bool) {
	desc := func(mt string, g int) types.Descriptor {
		return types.Descriptor{MediaType: mt, Digest: vgcDg(g), Size: 1}
	}
	atoi := func(s string) int { n, _ := strconv.Atoi(s); return n }
	kid := func(s string) types.Descriptor {
		p := strings.SplitN(s, ":", 2)
		if len(p) != 2 {
			return types.Descriptor{}
		}
		return desc(vgcMts[atoi(p[0])], atoi(p[1]))
	}
	if len(t) == 0 {
		return nil, false
	}
	switch t[0] {
	case "raw":
		return []byte("not json " + strconv.Itoa(id)), true
	case "oth":
		return []byte(fmt.Sprintf(`{"architecture":"x%d"}`, id)), true
	case "img":
		if len(t) < 2 {
			return nil, false
		}
		m := types.Manifest{SchemaVersion: 2, MediaType: types.MediaTypeOCI1Manifest, Layers: []types.Descriptor{}}
		m.Config = desc(types.MediaTypeOCI1ImageConfig, atoi(t[1]))
		for _, l := range t[2:] {
			m.Layers = append(m.Layers, desc(types.MediaTypeOCI1Layer, atoi(l)))
		}
		m.Annotations = map[string]string{"id": strconv.Itoa(id)}
		b, _ := json.Marshal(m)
		return b, true
	case "idx":
		m := types.Index{SchemaVersion: 2, MediaType: types.MediaTypeOCI1ManifestList, Manifests: []types.Descriptor{}}
		for _, c := range t[1:] {
			m.Manifests = append(m.Manifests, kid(c))
		}
		m.Annotations = map[string]string{"id": strconv.Itoa(id)}
		b, _ := json.Marshal(m)
		return b, true
	case "poly":
		if len(t) < 3 {
			return nil, false
		}
		nl := atoi(t[2])
		if len(t) < 3+nl {
			return nil, false
		}
		type poly struct {
			SchemaVersion int                `json:"schemaVersion"`
			Config        types.Descriptor   `json:"config"`
			Layers        []types.Descriptor `json:"layers"`
			Manifests     []types.Descriptor `json:"manifests"`
		}
		m := poly{SchemaVersion: 2, Config: desc(types.MediaTypeOCI1ImageConfig, atoi(t[1])), Layers: []types.Descriptor{}, Manifests: []types.Descriptor{}}
		for _, l := range t[3 : 3+nl] {
			m.Layers = append(m.Layers, desc(types.MediaTypeOCI1Layer, atoi(l)))
		}
		for _, c := range t[3+nl:] {
			m.Manifests = append(m.Manifests, kid(c))
		}
		b, _ := json.Marshal(m)
		return b, true
	}
	return nil, false
}

func (h *vgcH) index() *types.Index {
	if h.kind == "dir" {
		return &h.dr.index
	}
	return &h.mr.index
}

// timeMod / setTimeMod: the directory store re-reads index.json (and rebuilds the child list from the blobs) whenever
// timeMod differs from the file's mtime; the harness keeps the index it installed, so it keeps timeMod in step
func (h *vgcH) timeMod() time.Time {
	if h.kind == "dir" {
		h.dr.mu.Lock()
		defer h.dr.mu.Unlock()
		return h.dr.timeMod
	}
	return h.mr.timeMod
}
func (h *vgcH) setTimeMod(tm time.Time) {
	if h.kind == "dir" {
		h.dr.mu.Lock()
		h.dr.timeMod = tm
		h.dr.mu.Unlock()
	} else {
		h.mr.timeMod = tm
	}
}

// ensureInit mirrors what the first BlobCreate of a push does on the directory store
func (h *vgcH) ensureInit() {
	if h.kind == "dir" && !h.dr.exists {
		_ = h.dr.repoInit(false)
	}
}

// snapshot reads the real state back
func (h *vgcH) snapshot() *vgcState {
	s := &vgcState{blobs: map[int]vgcBlob{}}
	cutoff := time.Now().Add(-time.Hour)
	if h.kind == "mem" {
		for d, b := range h.mr.blobs {
			if b == nil {
				continue
			}
			vb := vgcDecode(b.b)
			vb.recent = b.m.mod.After(cutoff)
			s.blobs[vgcDigID[d]] = vb
		}
	} else {
		dl, _ := h.dr.blobList(true)
		for _, d := range dl {
			p := filepath.Join(h.dr.path, blobsDir, d.Algorithm().String(), d.Encoded())
			raw, err := os.ReadFile(p)
			if err != nil {
				continue
			}
			id, ok := vgcDigID[d]
			if !ok {
				continue
			}
			vb := vgcDecode(raw)
			if fi, err := os.Stat(p); err == nil {
				vb.recent = fi.ModTime().After(cutoff)
			}
			s.blobs[id] = vb
		}
		s.disk = h.diskState()
		s.pers = h.persisted()
	}
	ix := h.index()
	for _, m := range ix.Manifests {
		s.ents = append(s.ents, vgcEntOf(m))
	}
	for id := 1; id <= 9; id++ {
		if d, err := ix.GetDesc(vgcDg(id).String()); err == nil {
			s.found = append(s.found, [2]int{id, vgcMtID[d.MediaType]})
		}
	}
	return s
}

func (h *vgcH) diskState() vgcDisk {
	d := vgcDisk{}
	ents, err := os.ReadDir(h.dr.path)
	if err != nil {
		return d
	}
	d.repo = true
	for _, e := range ents {
		switch e.Name() {
		case indexFile:
			d.index = true
		case layoutFile:
			d.layout = true
		case uploadDir:
			d.uploads = true
			if sub, err := os.ReadDir(filepath.Join(h.dr.path, uploadDir)); err == nil {
				d.upfiles = len(sub)
			}
		case blobsDir:
			d.blobs = true
			sub, _ := os.ReadDir(filepath.Join(h.dr.path, blobsDir))
			for _, a := range sub {
				d.algos = append(d.algos, a.Name())
				files, _ := os.ReadDir(filepath.Join(h.dr.path, blobsDir, a.Name()))
				for _, f := range files {
					if _, err := digest.Parse(a.Name() + ":" + f.Name()); err != nil {
						d.foreign = append(d.foreign, blobsDir+"/"+a.Name()+"/"+f.Name())
					}
				}
			}
			sort.Strings(d.algos)
		default:
			d.foreign = append(d.foreign, e.Name())
		}
	}
	sort.Strings(d.foreign)
	return d
}

// persisted: the blobs a fresh, read-only instance of the directory store serves from the same root
func (h *vgcH) persisted() []int {
	ro := true
	conf := h.conf
	conf.Storage.ReadOnly = &ro
	conf.Storage.GC.Frequency = -1
	st := NewDir(conf)
	defer st.Close()
	repo, err := st.RepoGet(context.Background(), "r")
	if err != nil {
		return nil
	}
	defer repo.Done()
	out := []int{}
	for id := 1; id <= 9; id++ {
		if rdr, err := repo.BlobGet(vgcDg(id)); err == nil {
			_ = rdr.Close()
			out = append(out, id)
		}
	}
	return out
}

func vgcInts(l []int) string {
	s := make([]string, len(l))
	for i, x := range l {
		s[i] = strconv.Itoa(x)
	}
	return strings.Join(s, " ")
}

func (s *vgcState) canon(kind string, errGC bool) string {
	ents := []string{}
	for _, e := range s.ents {
		ents = append(ents, e.String())
	}
	sort.Strings(ents)
	kids := []string{}
	for _, c := range s.found {
		// only the digest: which of several entries of one digest answers depends on the order swap-removes left behind
		kids = append(kids, strconv.Itoa(c[0]))
	}
	blobs := []int{}
	for g := range s.blobs {
		blobs = append(blobs, g)
	}
	sort.Ints(blobs)
	out := fmt.Sprintf("I[%s] F[%s] B[%s]", strings.Join(ents, " "), strings.Join(kids, " "), vgcInts(blobs))
	if kind == "dir" {
		fl := []string{}
		d := s.disk
		for _, p := range []struct {
			b bool
			n string
		}{{d.repo, "repo"}, {d.index, "index"}, {d.layout, "layout"}, {d.uploads, "uploads"}, {d.blobs, "blobs"}} {
			if p.b {
				fl = append(fl, p.n)
			}
		}
		fl = append(fl, d.algos...)
		if d.upfiles > 0 {
			fl = append(fl, fmt.Sprintf("upfiles=%d", d.upfiles))
		}
		for range d.foreign {
			fl = append(fl, "foreign")
		}
		out += fmt.Sprintf(" D[%s] P[%s] err=%d", strings.Join(fl, " "), vgcInts(s.pers), vgcB(errGC))
	}
	return out
}

// equalContent: same blobs, same top-level entries, same resolvable digests (since F41 a pass leaves no child record
// without a blob, so the child records take part in full; C06.gc_idempotent is stated the same way)
func (s *vgcState) equalContent(o *vgcState) bool {
	return s.canon("mem", false) == o.canon("mem", false)
}

// vgcOrderDependent: the outcome of a collection on this state may depend on the order of the index entries: two
// responses registered for one subject (the later one wins).  After a first collection the order of the surviving
// entries depends on Go's map iteration order, so answers of later collections are not compared in such a history.
func vgcOrderDependent(s *vgcState) bool {
	seen := map[int]bool{}
	for _, e := range s.ents {
		if e.nl == 0 && e.subj != 0 {
			if seen[e.subj] {
				return true
			}
			seen[e.subj] = true
		}
	}
	return false
}

func (h *vgcH) runGC() error {
	if h.kind == "dir" {
		return h.dr.gc()
	}
	return h.mr.gc()
}

func (h *vgcH) gcOp() string {
	pre := h.snapshot()
	p := h.pol
	if h.anyGC && vgcOrderDependent(pre) {
		h.fuzzy = true
	}
	sp := vgcRetained(p, pre)
	for k, v := range sp.tags {
		if v > 0 {
			h.cov["tag:"+k]++
		}
	}
	h.cov[fmt.Sprintf("policy:%d%d%d%d%d", vgcB(p.untagged), vgcB(p.dangling), vgcB(p.withSubj), vgcB(p.grace), vgcB(p.emptyRepo))]++
	anyRecent := false
	for g := range pre.blobs {
		if pre.recent(p, g) {
			anyRecent = true
		}
	}
	graceOver := !anyRecent
	uploadsOpen := len(h.sessions) > 0
	errGC := h.runGC()
	post := h.snapshot()
	h.anyGC = true
	h.cov["gc-runs"]++

	// ---- C05
	if sp.shapeOK {
		h.cov["judged-c05"]++
		for g := range sp.retained {
			if !post.exists(g) {
				h.flag("gc-removed-retained", fmt.Sprintf("blob %d is retained by the policy and was removed", g))
				break
			}
		}
		postEnts := map[string]int{}
		for _, e := range post.ents {
			postEnts[e.String()]++
		}
		for i, e := range pre.ents {
			kept := sp.rootEnt[i]
			if s, ok := sp.boundEnt[i]; ok {
				for k := range sp.walked {
					if k.dig == s {
						b := pre.blobs[k.dig]
						if k.cls == 0 || b.json {
							kept = true
						}
					}
				}
			}
			if kept && pre.exists(e.dig) && postEnts[e.String()] == 0 {
				h.flag("gc-removed-retained", fmt.Sprintf("index entry %s is retained by the policy and was removed", e))
				break
			}
		}
		for i, e := range pre.ents {
			if e.nl == 0 && e.tag != 0 && sp.rootEnt[i] {
				if pre.complete(e.dig, vgcClass(e.mt), map[vgcKey]bool{}) {
					h.cov["tagged-complete-before"]++
					ok := post.complete(e.dig, vgcClass(e.mt), map[vgcKey]bool{})
					found := false
					for _, e2 := range post.ents {
						if e2 == e {
							found = true
						}
					}
					if !ok || !found {
						h.flag("tagged-image-incomplete-after-gc", fmt.Sprintf("tag t%d -> %d was completely pullable before the collection", e.tag, e.dig))
						break
					}
				}
			}
		}
	} else {
		h.cov["skipped-shape"]++
	}
	respDig := map[int]bool{}
	for _, e := range pre.ents {
		if e.nl == 0 && e.subj != 0 {
			respDig[e.dig] = true
		}
	}
	for g := range pre.blobs {
		if pre.recent(p, g) && !respDig[g] {
			h.cov["recent-blob-judged"]++
			if !post.exists(g) {
				h.flag("gc-removed-recent", fmt.Sprintf("blob %d is younger than the grace period and was removed", g))
				break
			}
		}
	}
	if h.kind == "dir" && errGC == nil {
		persOK := map[int]bool{}
		for _, g := range post.pers {
			persOK[g] = true
		}
		for g := range post.blobs {
			if !persOK[g] && ((sp.shapeOK && sp.retained[g]) || (pre.recent(p, g) && !respDig[g])) {
				h.flag("gc-retained-unreachable", fmt.Sprintf("blob %d survives on disk but a fresh instance of the store cannot serve it (layout files removed)", g))
				break
			}
		}
	}
	// ---- C06
	if graceOver && errGC == nil {
		h.cov["judged-grace-over"]++
		for _, e := range post.ents {
			if e.dig != 0 && !post.exists(e.dig) {
				h.flag("index-entry-without-blob", fmt.Sprintf("entry %s has no blob after the collection", e))
				break
			}
		}
		// a digest the index resolves (top-level entry or child record) has a blob
		for _, c := range post.found {
			if !post.exists(c[0]) {
				top := false
				for _, e := range post.ents {
					top = top || e.dig == c[0]
				}
				if !top {
					h.flag("child-record-without-blob", fmt.Sprintf("child record %d has no blob after the collection", c[0]))
					break
				}
			}
		}
		if sp.shapeOK && p.clear() && errGC == nil {
			h.cov["judged-c06-exact"]++
			for g := range post.blobs {
				if !sp.retained[g] {
					h.flag("gc-kept-garbage", fmt.Sprintf("blob %d is not retained by the policy and survived", g))
					break
				}
			}
			for _, e := range post.ents {
				if !sp.retained[e.dig] {
					h.flag("gc-kept-garbage", fmt.Sprintf("index entry %s is not retained by the policy and survived", e))
					break
				}
			}
		}
		if h.prevGC != nil && !vgcOrderDependent(pre) {
			h.cov["judged-second-pass"]++
			if !h.prevGC.equalContent(post) {
				h.flag("second-pass-changes", fmt.Sprintf("before: %s after: %s", h.prevGC.canon("mem", false), post.canon("mem", false)))
			}
		}
	}
	if h.kind == "dir" {
		d := post.disk
		if d.repo && (!d.index || !d.layout) && (len(post.blobs) > 0 || len(post.ents) > 0) {
			h.flag("repo-half-removed", fmt.Sprintf("repository directory keeps %d blobs and %d entries but index.json=%v oci-layout=%v", len(post.blobs), len(post.ents), d.index, d.layout))
		}
		if p.emptyRepo && errGC == nil && len(post.blobs) == 0 && len(post.ents) == 0 && !uploadsOpen && len(pre.disk.foreign) == 0 && pre.disk.upfiles == 0 {
			h.cov["judged-empty-repo"]++
			if d.repo {
				left := append([]string{}, d.algos...)
				h.flag("empty-repo-not-removed", fmt.Sprintf("repository is empty but its directory remains (index.json=%v oci-layout=%v blobs=%v %s)", d.index, d.layout, d.blobs, strings.Join(left, ",")))
			}
		}
	}
	h.prevGC = post
	out := post.canon(h.kind, errGC != nil)
	if h.fuzzy {
		return "~ " + out
	}
	return out
}

func (h *vgcH) apply(line string) string {
	h.lineNo++
	t := strings.Fields(line)
	if len(t) == 0 {
		return "bad-op"
	}
	atoi := func(s string) int { n, _ := strconv.Atoi(s); return n }
	if t[0] != "NEW" && h.st == nil {
		return "bad-op"
	}
	wasGC := h.prevGC
	h.prevGC = nil
	switch t[0] {
	case "NEW":
		if len(t) != 6 {
			return "bad-op"
		}
		p := vgcPolicy{t[1] == "1", t[2] == "1", t[3] == "1", t[4] == "1", t[5] == "1"}
		if err := h.newStore(p); err != nil {
			return "error " + err.Error()
		}
		h.anyGC, h.fuzzy = false, false
		return "ok"
	case "B":
		if len(t) < 4 {
			return "bad-op"
		}
		id := atoi(t[1])
		if id < 1 || id > 9 {
			return "bad-op"
		}
		content, ok := vgcContent(id, t[3:])
		if !ok {
			return "bad-op"
		}
		mod := vgcModTime(t[2] == "1")
		h.ensureInit()
		if h.kind == "dir" {
			p := h.blobPath(id)
			if err := os.MkdirAll(filepath.Dir(p), 0755); err != nil {
				return "error " + err.Error()
			}
			if err := os.WriteFile(p, content, 0644); err != nil {
				return "error " + err.Error()
			}
			_ = os.Chtimes(p, mod, mod)
		} else {
			h.mr.blobs[vgcDg(id)] = &memRepoBlob{b: content, m: blobMeta{mod: mod}}
		}
		return "ok"
	case "M":
		if len(t) != 6 {
			return "bad-op"
		}
		e := vgcEnt{atoi(t[1]), atoi(t[2]), atoi(t[3]), atoi(t[4]), atoi(t[5])}
		if e.dig < 1 || e.dig > 9 {
			return "bad-op"
		}
		if _, ok := vgcMts[e.mt]; !ok {
			return "bad-op"
		}
		d := types.Descriptor{MediaType: vgcMts[e.mt], Digest: vgcDg(e.dig), Size: 1}
		if e.nl == 0 {
			d.Annotations = map[string]string{}
			if e.tag != 0 {
				d.Annotations[types.AnnotRefName] = "t" + strconv.Itoa(e.tag)
			}
			if e.subj == 99 {
				d.Annotations[types.AnnotReferrerSubject] = "not-a-digest"
			} else if e.subj != 0 {
				d.Annotations[types.AnnotReferrerSubject] = vgcDg(e.subj).String()
			}
		}
		h.ensureInit()
		ix := h.index()
		ix.Manifests = append(ix.Manifests, d)
		if h.kind == "dir" {
			if err := h.dr.indexSave(true); err != nil {
				return "error " + err.Error()
			}
		}
		return "ok"
	case "K":
		if len(t) != 3 || atoi(t[1]) < 1 || atoi(t[1]) > 9 || atoi(t[2]) < 0 || atoi(t[2]) > 5 {
			return "bad-op"
		}
		h.index().AddChildren([]types.Descriptor{{MediaType: vgcMts[atoi(t[2])], Digest: vgcDg(atoi(t[1])), Size: 1}})
		return "ok"
	case "AGE":
		old := vgcModTime(false)
		if h.kind == "dir" {
			dl, _ := h.dr.blobList(true)
			for _, d := range dl {
				_ = os.Chtimes(filepath.Join(h.dr.path, blobsDir, d.Algorithm().String(), d.Encoded()), old, old)
			}
		} else {
			for _, b := range h.mr.blobs {
				if b != nil {
					b.m.mod = old
				}
			}
		}
		return "ok"
	case "UP":
		var repo Repo = h.mr
		if h.kind == "dir" {
			repo = h.dr
		}
		h.ensureInit()
		tm := h.timeMod()
		bc, _, err := repo.BlobCreate()
		if err != nil {
			return "error " + err.Error()
		}
		h.sessions = append(h.sessions, bc)
		h.setTimeMod(tm)
		return "ok"
	case "UPC":
		tm := h.timeMod()
		for _, bc := range h.sessions {
			_ = bc.Cancel()
		}
		if h.kind == "dir" && len(h.sessions) > 0 {
			time.Sleep(20 * time.Millisecond) // the session's cleanup touches timeMod from a goroutine
		}
		h.sessions = nil
		h.setTimeMod(tm)
		return "ok"
	case "X":
		if len(t) != 2 || (t[1] != "root" && t[1] != "blobs" && t[1] != "updir" && t[1] != "upfile") {
			return "bad-op"
		}
		if h.kind != "dir" {
			return "ok"
		}
		h.ensureInit()
		switch t[1] {
		case "root":
			_ = os.WriteFile(filepath.Join(h.dr.path, "index.json.123456"), []byte("x"), 0644)
		case "blobs":
			_ = os.MkdirAll(filepath.Join(h.dr.path, blobsDir, "sha256"), 0755)
			_ = os.WriteFile(filepath.Join(h.dr.path, blobsDir, "sha256", "stray"), []byte("x"), 0644)
		case "updir":
			_ = os.MkdirAll(filepath.Join(h.dr.path, uploadDir), 0755)
		case "upfile":
			_ = os.MkdirAll(filepath.Join(h.dr.path, uploadDir), 0755)
			_ = os.WriteFile(filepath.Join(h.dr.path, uploadDir, "upload.123"), []byte("x"), 0644)
		default:
			return "bad-op"
		}
		return "ok"
	case "GC":
		h.prevGC = wasGC
		return h.gcOp()
	}
	return "bad-op"
}

// ---------------------------------------------------------------- generator (lines only; apply() executes them)

func vgcGenCase(r *rand.Rand, c int, matrix bool, emit func(string)) {
	pbits := r.Intn(32)
	if matrix {
		pbits = c % 32
	}
	bit := func(k int) int { return (pbits >> k) & 1 }
	emit(fmt.Sprintf("NEW %d %d %d %d %d", bit(0), bit(1), bit(2), bit(3), bit(4)))
	n := 3 + r.Intn(6)
	rid := func() int { return 1 + r.Intn(n) }
	recentP := []int{0, 3, 3, 2}[r.Intn(4)] // 0: everything old
	rec := func() int {
		if recentP > 0 && r.Intn(recentP) == 0 {
			return 1
		}
		return 0
	}
	switch r.Intn(5) {
	case 0, 1: // wild: any blob may name any digest, entries and children at random
		for i := 1; i <= n; i++ {
			if r.Intn(6) == 0 {
				continue
			}
			line := fmt.Sprintf("B %d %d", i, rec())
			switch r.Intn(8) {
			case 0, 1:
				line += " raw"
			case 2:
				line += " oth"
			case 3, 4:
				line += fmt.Sprintf(" img %d", rid())
				for k := r.Intn(3); k > 0; k-- {
					line += fmt.Sprintf(" %d", rid())
				}
			case 5, 6:
				line += " idx"
				for k := r.Intn(3); k > 0; k-- {
					line += fmt.Sprintf(" %d:%d", []int{1, 1, 2, 2, 3, 4, 5, 0}[r.Intn(8)], rid())
				}
			case 7:
				nl := r.Intn(2)
				line += fmt.Sprintf(" poly %d %d", rid(), nl)
				for k := 0; k < nl; k++ {
					line += fmt.Sprintf(" %d", rid())
				}
				for k := r.Intn(2); k > 0; k-- {
					line += fmt.Sprintf(" %d:%d", 1+r.Intn(3), rid())
				}
			}
			emit(line)
		}
		for k := 1 + r.Intn(6); k > 0; k-- {
			mt, nl, tag, subj := []int{1, 1, 2, 2, 3, 5, 4}[r.Intn(7)], 1, 0, 0
			switch r.Intn(6) {
			case 0, 1:
				nl, tag = 0, 1+r.Intn(3)
			case 2:
				nl, subj, mt = 0, rid(), 2
				if r.Intn(12) == 0 {
					subj = 99
				}
			case 3:
				nl = 0
			case 4:
				if r.Intn(10) == 0 {
					nl, tag, subj = 0, 1+r.Intn(3), rid()
				}
			}
			emit(fmt.Sprintf("M %d %d %d %d %d", rid(), mt, nl, tag, subj))
		}
		for k := r.Intn(3); k > 0; k-- {
			emit(fmt.Sprintf("K %d %d", rid(), 1+r.Intn(2)))
		}
	default: // structured: images with their own config and layers, an index, referrers with responses - then perturbed
		id := 0
		next := func() int { id++; return id }
		type im struct{ man, cfg, layer int }
		ims := []im{}
		mans := map[int]int{} // manifest id -> media type
		lines := []string{}
		kids := []string{}
		nImg := 1 + r.Intn(3)
		sharedCfg := 0
		for k := 0; k < nImg && id+3 <= 9; k++ {
			x := im{}
			if sharedCfg != 0 && r.Intn(2) == 0 {
				x.cfg = sharedCfg
			} else {
				x.cfg = next()
				sharedCfg = x.cfg
				lines = append(lines, fmt.Sprintf("B %d %d oth", x.cfg, rec()))
			}
			x.layer = next()
			lines = append(lines, fmt.Sprintf("B %d %d raw", x.layer, rec()))
			x.man = next()
			ims = append(ims, x)
			mans[x.man] = 1
		}
		// aliasing: a layer of one image is the manifest of another (F4), or a config is
		alias := r.Intn(3) == 0 && len(ims) >= 2
		for i, x := range ims {
			l := x.layer
			cfg := x.cfg
			if alias && i == 0 {
				if r.Intn(2) == 0 {
					l = ims[1].man
				} else {
					cfg = ims[1].man
				}
			}
			lines = append(lines, fmt.Sprintf("B %d %d img %d %d", x.man, rec(), cfg, l))
		}
		ents := []string{}
		tagN := 0
		// an index over some images, sometimes under a lying media type
		if id < 9 && r.Intn(2) == 0 {
			ix := next()
			line := fmt.Sprintf("B %d %d idx", ix, rec())
			for _, x := range ims {
				if r.Intn(3) != 0 {
					mt := 1
					if r.Intn(5) == 0 {
						mt = []int{3, 2, 5, 0}[r.Intn(4)]
					}
					line += fmt.Sprintf(" %d:%d", mt, x.man)
					kids = append(kids, fmt.Sprintf("K %d %d", x.man, mt))
				}
			}
			lines = append(lines, line)
			mans[ix] = 2
			tagN++
			ents = append(ents, fmt.Sprintf("M %d 2 0 %d 0", ix, tagN))
		}
		for _, x := range ims {
			switch r.Intn(4) {
			case 0, 1:
				tagN++
				ents = append(ents, fmt.Sprintf("M %d 1 0 %d 0", x.man, tagN))
			case 2:
				ents = append(ents, fmt.Sprintf("M %d 1 %d 0 0", x.man, r.Intn(2)))
			}
		}
		// referrers: artifact image with subject, response index registered for the subject
		for k := r.Intn(3); k > 0 && id+2 <= 9; k-- {
			subj := rid()
			if len(ims) > 0 && r.Intn(3) != 0 {
				subj = ims[r.Intn(len(ims))].man
			}
			art := next()
			cfg := sharedCfg
			if cfg == 0 {
				cfg = rid()
			}
			lines = append(lines, fmt.Sprintf("B %d %d img %d", art, rec(), cfg))
			resp := next()
			lines = append(lines, fmt.Sprintf("B %d %d idx 1:%d", resp, rec(), art))
			kids = append(kids, fmt.Sprintf("K %d 1", art))
			ents = append(ents, fmt.Sprintf("M %d 2 0 0 %d", resp, subj))
		}
		// garbage and missing blobs
		if id < 9 && r.Intn(2) == 0 {
			lines = append(lines, fmt.Sprintf("B %d %d raw", next(), rec()))
		}
		if r.Intn(6) == 0 && len(lines) > 1 {
			k := r.Intn(len(lines))
			lines = append(lines[:k], lines[k+1:]...)
		}
		r.Shuffle(len(ents), func(i, j int) { ents[i], ents[j] = ents[j], ents[i] })
		for _, l := range lines {
			emit(l)
		}
		for _, l := range ents {
			emit(l)
		}
		if r.Intn(5) != 0 {
			for _, l := range kids {
				emit(l)
			}
		}
		n = id
		if n < 1 {
			n = 1
		}
	}
	// directory level variation
	if r.Intn(8) == 0 {
		emit("X " + []string{"root", "blobs", "updir", "upfile"}[r.Intn(4)])
	}
	if r.Intn(10) == 0 {
		emit("UP")
		if r.Intn(2) == 0 {
			emit("UPC")
		}
	}
	emit("GC")
	emit("GC")
	if r.Intn(3) == 0 {
		// later: time passes, something is pushed, collection again
		if r.Intn(2) == 0 {
			emit("AGE")
		}
		if r.Intn(2) == 0 {
			emit(fmt.Sprintf("B %d %d raw", rid(), rec()))
		}
		if r.Intn(2) == 0 {
			emit(fmt.Sprintf("M %d 1 0 %d 0", rid(), 1+r.Intn(3)))
		}
		emit("GC")
		emit("GC")
	}
}

func vgcOpen(t *testing.T) (impl, mon *bufio.Writer, done func()) {
	implF, err := os.Create(os.Getenv("VERIF_IMPL"))
	if err != nil {
		t.Fatal(err)
	}
	monF, err := os.Create(os.Getenv("VERIF_MON"))
	if err != nil {
		t.Fatal(err)
	}
	impl = bufio.NewWriterSize(implF, 1<<20)
	mon = bufio.NewWriterSize(monF, 1<<16)
	return impl, mon, func() {
		impl.Flush()
		mon.Flush()
		implF.Close()
		monF.Close()
	}
}

func vgcWriteCov(cov map[string]int) {
	p := os.Getenv("VERIF_COV")
	if p == "" {
		return
	}
	keys := []string{}
	for k := range cov {
		keys = append(keys, k)
	}
	sort.Strings(keys)
	sb := strings.Builder{}
	for _, k := range keys {
		fmt.Fprintf(&sb, "%s %d\n", k, cov[k])
	}
	_ = os.WriteFile(p, []byte(sb.String()), 0644)
}

func vgcDrive(t *testing.T, apply func(string) string, gen func(r *rand.Rand, n int, emit func(string)), impl *bufio.Writer) {
	mode := os.Getenv("VERIF_MODE")
	if mode == "replay" {
		f, err := os.Open(os.Getenv("VERIF_OPS"))
		if err != nil {
			t.Fatal(err)
		}
		defer f.Close()
		sc := bufio.NewScanner(f)
		sc.Buffer(make([]byte, 1<<20), 1<<24)
		for sc.Scan() {
			fmt.Fprintln(impl, apply(sc.Text()))
		}
		return
	}
	opsF, err := os.Create(os.Getenv("VERIF_OPS"))
	if err != nil {
		t.Fatal(err)
	}
	ops := bufio.NewWriterSize(opsF, 1<<20)
	defer func() { ops.Flush(); opsF.Close() }()
	seed, _ := strconv.Atoi(os.Getenv("VERIF_SEED"))
	n, _ := strconv.Atoi(os.Getenv("VERIF_N"))
	r := rand.New(rand.NewSource(int64(seed)))
	gen(r, n, func(line string) {
		fmt.Fprintln(ops, line)
		fmt.Fprintln(impl, apply(line))
	})
}

func TestVerifGC(t *testing.T) {
	if os.Getenv("VERIF_MODE") == "" {
		t.Skip("harness not requested")
	}
	impl, mon, done := vgcOpen(t)
	defer done()
	kind := os.Getenv("VERIF_STORE")
	if kind != "dir" {
		kind = "mem"
	}
	tmp := os.Getenv("VERIF_TMP")
	if kind == "dir" {
		if tmp == "" {
			t.Fatal("VERIF_TMP is required for the directory store")
		}
		tmp = filepath.Join(tmp, fmt.Sprintf("gc-%d", os.Getpid()))
		if err := os.MkdirAll(tmp, 0755); err != nil {
			t.Fatal(err)
		}
		defer os.RemoveAll(tmp)
	}
	h := &vgcH{kind: kind, tmp: tmp, mon: mon, cov: map[string]int{}}
	defer h.closeStore()
	matrix := os.Getenv("VERIF_MATRIX") == "1"
	vgcDrive(t, h.apply, func(r *rand.Rand, n int, emit func(string)) {
		for c := 0; c < n; c++ {
			vgcGenCase(r, c, matrix, emit)
		}
	}, impl)
	vgcWriteCov(h.cov)
	for k, v := range h.cov {
		if strings.HasPrefix(k, "mon:") {
			t.Logf("monitor %s fired %d times", k[4:], v)
		}
	}
}

// ---------------------------------------------------------------- store-wide pass
//
//	NEW store-policy: NEW u d w g e   (as above; the store is created without a ticker)
//	R name kind due      add repository `name`; kind: healthy (a tagged image and an old unreferenced blob),
//	                     empty (initialised, no content), removed (known to the store, directory gone),
//	                     corrupt (index.json is not JSON; dir only - a healthy repository for mem);
//	                     due = 1: modified since the previous tick, 0: long ago (the pass skips it)
//	G name               add an old unreferenced blob to the repository
//	T name               (healthy) delete the tag `latest` through repo.IndexRemove: the image stays as an untagged entry
//	U name               (healthy) tag the image `latest` again through repo.IndexInsert
//	                     after T and U the harness does NOT set the modification time of the repository any more: it is
//	                     whatever the store made it ("just modified", so the next pass has to visit the repository)
//	PASS                 run one store-wide pass (repeated from a snapshot of the whole store, so that several of Go's
//	                     map iteration orders are seen); answer = error flag and the state of every repository:
//	                     clean | dirty (unreferenced blob present) | gone (directory removed) | corrupt,
//	                     followed by +i while the image manifest of a healthy repository is still there

type vgcPassRepo struct {
	name, kind string
	due        bool
	hasAge     bool          // R name kind a<ms>: the last modification lies `age` before the tick of the pass
	age        time.Duration // (set immediately before every pass, so the arithmetic of the window is exact)
	storeTime  bool          // after T / U: the modification time is left to the store
	untagged   bool          // the image lost its tag (T) and did not get it back (U)
	md         digest.Digest // digest of the image manifest (healthy)
	mdSize     int64
}

// the tick interval every pass of the harness uses, and the window of the documented pass: a repository is visited
// when it was modified since the previous tick, allowing for the grace period (and 250 ms of slack in the directory store)
const vgcGap = time.Second

func (h *vgcPH) dueSpec(age time.Duration) bool {
	w := vgcGap
	if h.kind == "dir" {
		w += 250 * time.Millisecond
	}
	if h.conf.Storage.GC.GracePeriod > 0 {
		w += h.conf.Storage.GC.GracePeriod
	}
	return age <= w
}

type vgcPH struct {
	kind       string
	tmp        string
	n          int
	pol        vgcPolicy
	conf       config.Config
	st         Store
	root       string
	repos      []*vgcPassRepo
	lineNo     int
	mon        *bufio.Writer
	cov        map[string]int
	logMu      sync.Mutex
	order      []string
	lastMd     digest.Digest
	lastMdSize int64
	t0         time.Time // start of the scenario (NEW): the window arithmetic of a pass assumes that a scenario takes well under a second
}

// vgcSlow: more real time than the scenario's clock normalisations allow for (the store revalidates index.json once a second,
// the window of a pass is one second wide with 250 ms of slack): on a loaded machine the outcome is printed but not judged
const vgcSlow = 500 * time.Millisecond

// slog handler that records the order in which repositories start their collection
type vgcLogH struct{ h *vgcPH }

func (l vgcLogH) Enabled(context.Context, slog.Level) bool { return true }
func (l vgcLogH) Handle(_ context.Context, r slog.Record) error {
	if r.Message != "starting GC" {
		return nil
	}
	r.Attrs(func(a slog.Attr) bool {
		if a.Key == "repo" {
			l.h.logMu.Lock()
			l.h.order = append(l.h.order, filepath.Base(a.Value.String()))
			l.h.logMu.Unlock()
		}
		return true
	})
	return nil
}
func (l vgcLogH) WithAttrs([]slog.Attr) slog.Handler { return l }
func (l vgcLogH) WithGroup(string) slog.Handler      { return l }

func (h *vgcPH) flag(name, detail string) {
	h.cov["mon:"+name]++
	if h.mon != nil {
		fmt.Fprintf(h.mon, "MON %d %s %s\n", h.lineNo, name, detail)
	}
}

func (h *vgcPH) close() {
	if h.st != nil {
		_ = h.st.Close()
		h.st = nil
	}
	if h.root != "" {
		_ = os.RemoveAll(h.root)
		h.root = ""
	}
	h.repos = nil
}

var vgcGarbage = []byte("unreferenced blob")

func (h *vgcPH) repoOf(name string) (Repo, error) {
	repo, err := h.st.RepoGet(context.Background(), name)
	if err != nil {
		return nil, err
	}
	repo.Done()
	return repo, nil
}

func vgcPut(repo Repo, content []byte) (digest.Digest, error) {
	d := digest.Canonical.FromBytes(content)
	bc, _, err := repo.BlobCreate(BlobWithDigest(d))
	if err != nil {
		if err == types.ErrBlobExists {
			return d, nil
		}
		return d, err
	}
	if _, err := bc.Write(content); err != nil {
		return d, err
	}
	return d, bc.Close()
}

func (h *vgcPH) setBlobOld(repo Repo, d digest.Digest) {
	old := time.Now().Add(-2 * time.Hour)
	switch r := repo.(type) {
	case *memRepo:
		if b := r.blobs[d]; b != nil {
			b.m.mod = old
		}
	case *dirRepo:
		_ = os.Chtimes(filepath.Join(r.path, blobsDir, d.Algorithm().String(), d.Encoded()), old, old)
	}
}

func (h *vgcPH) setDue(repo Repo, due bool) {
	tm := time.Now()
	if !due {
		tm = tm.Add(-1000 * time.Hour)
	}
	h.setTime(repo, tm)
}

func (h *vgcPH) setTime(repo Repo, tm time.Time) {
	switch r := repo.(type) {
	case *memRepo:
		r.timeMod = tm
	case *dirRepo:
		// the directory store compares timeMod with the mtime of index.json to decide whether to re-read it;
		// keep both in step so that the index held in memory stays valid
		p := filepath.Join(r.path, indexFile)
		if _, err := os.Stat(p); err == nil {
			_ = os.Chtimes(p, tm, tm)
			if fi, err := os.Stat(p); err == nil {
				tm = fi.ModTime()
			}
		}
		r.timeMod = tm
	}
}

func (h *vgcPH) addRepo(name, kind string, due bool) error {
	repo, err := h.repoOf(name)
	if err != nil {
		return err
	}
	switch kind {
	case "healthy", "corrupt":
		cfg, err := vgcPut(repo, []byte(`{"architecture":"`+name+`"}`))
		if err != nil {
			return err
		}
		layer, err := vgcPut(repo, []byte("layer of "+name))
		if err != nil {
			return err
		}
		m := types.Manifest{SchemaVersion: 2, MediaType: types.MediaTypeOCI1Manifest,
			Config: types.Descriptor{MediaType: types.MediaTypeOCI1ImageConfig, Digest: cfg, Size: 1},
			Layers: []types.Descriptor{{MediaType: types.MediaTypeOCI1Layer, Digest: layer, Size: 1}}}
		raw, _ := json.Marshal(m)
		md, err := vgcPut(repo, raw)
		if err != nil {
			return err
		}
		if err := repo.IndexInsert(types.Descriptor{MediaType: types.MediaTypeOCI1Manifest, Digest: md, Size: int64(len(raw)),
			Annotations: map[string]string{types.AnnotRefName: "latest"}}); err != nil {
			return err
		}
		h.lastMd, h.lastMdSize = md, int64(len(raw))
		g, err := vgcPut(repo, append([]byte(name+" "), vgcGarbage...))
		if err != nil {
			return err
		}
		for _, d := range []digest.Digest{cfg, layer, md, g} {
			h.setBlobOld(repo, d)
		}
		if dr, ok := repo.(*dirRepo); ok && kind == "corrupt" {
			if err := os.WriteFile(filepath.Join(dr.path, indexFile), []byte("{not json"), 0644); err != nil {
				return err
			}
		}
	case "empty":
		if dr, ok := repo.(*dirRepo); ok {
			if err := dr.repoInit(false); err != nil {
				return err
			}
		}
	case "removed":
		if dr, ok := repo.(*dirRepo); ok {
			if err := dr.repoInit(false); err != nil {
				return err
			}
			_ = os.RemoveAll(dr.path)
			dr.exists = false
		}
	default:
		return fmt.Errorf("unknown kind %s", kind)
	}
	vgcSettle()
	if !(kind == "corrupt" && h.kind == "dir") {
		h.setDue(repo, due)
	} else if dr, ok := repo.(*dirRepo); ok {
		tm := time.Now()
		if !due {
			tm = tm.Add(-1000 * time.Hour)
		}
		dr.timeMod = tm
	}
	h.repos = append(h.repos, &vgcPassRepo{name: name, kind: kind, due: due, md: h.lastMd, mdSize: h.lastMdSize})
	h.lastMd, h.lastMdSize = "", 0
	return nil
}

// vgcSettle lets the goroutines finish that a closed upload session starts to touch the repository's timeMod
func vgcSettle() {
	for i := 0; i < 20; i++ {
		runtime.Gosched()
	}
	time.Sleep(2 * time.Millisecond)
}

func (h *vgcPH) garbageDigest(name string) digest.Digest {
	return digest.Canonical.FromBytes(append([]byte(name+" "), vgcGarbage...))
}

func (h *vgcPH) hasImage(pr *vgcPassRepo) bool {
	if pr.md == "" {
		return false
	}
	repo, err := h.repoOf(pr.name)
	if err != nil {
		return false
	}
	switch r := repo.(type) {
	case *memRepo:
		return r.blobs[pr.md] != nil
	case *dirRepo:
		_, err := os.Stat(filepath.Join(r.path, blobsDir, pr.md.Algorithm().String(), pr.md.Encoded()))
		return err == nil
	}
	return false
}

func (h *vgcPH) repoState(pr *vgcPassRepo) string {
	st := h.repoBase(pr)
	if (st == "clean" || st == "dirty") && h.hasImage(pr) {
		st += "+i"
	}
	return st
}

func (h *vgcPH) repoBase(pr *vgcPassRepo) string {
	repo, err := h.repoOf(pr.name)
	if err != nil {
		return "error"
	}
	switch r := repo.(type) {
	case *memRepo:
		if b := r.blobs[h.garbageDigest(pr.name)]; b != nil {
			return "dirty"
		}
		return "clean"
	case *dirRepo:
		if _, err := os.Stat(r.path); err != nil {
			return "gone"
		}
		raw, err := os.ReadFile(filepath.Join(r.path, indexFile))
		if err == nil {
			var x map[string]interface{}
			if json.Unmarshal(raw, &x) != nil {
				return "corrupt"
			}
		}
		d := h.garbageDigest(pr.name)
		if _, err := os.Stat(filepath.Join(r.path, blobsDir, d.Algorithm().String(), d.Encoded())); err == nil {
			return "dirty"
		}
		return "clean"
	}
	return "error"
}

type vgcRepoSnap struct {
	exists             bool
	timeMod, timeCheck time.Time
	index              types.Index
	blobs              map[digest.Digest]*memRepoBlob
}

func vgcCopyTree(src, dst string) error {
	return filepath.Walk(src, func(p string, fi os.FileInfo, err error) error {
		if err != nil {
			return err
		}
		rel, _ := filepath.Rel(src, p)
		tgt := filepath.Join(dst, rel)
		if fi.IsDir() {
			return os.MkdirAll(tgt, 0755)
		}
		in, err := os.Open(p)
		if err != nil {
			return err
		}
		defer in.Close()
		out, err := os.Create(tgt)
		if err != nil {
			return err
		}
		if _, err := io.Copy(out, in); err != nil {
			out.Close()
			return err
		}
		out.Close()
		return os.Chtimes(tgt, fi.ModTime(), fi.ModTime())
	})
}

func (h *vgcPH) snap() (map[string]*vgcRepoSnap, string) {
	out := map[string]*vgcRepoSnap{}
	for _, pr := range h.repos {
		repo, err := h.repoOf(pr.name)
		if err != nil {
			continue
		}
		switch r := repo.(type) {
		case *memRepo:
			s := &vgcRepoSnap{timeMod: r.timeMod, index: r.index.Copy(), blobs: map[digest.Digest]*memRepoBlob{}}
			for d, b := range r.blobs {
				if b != nil {
					cp := *b
					s.blobs[d] = &cp
				}
			}
			out[pr.name] = s
		case *dirRepo:
			out[pr.name] = &vgcRepoSnap{exists: r.exists, timeMod: r.timeMod, timeCheck: r.timeCheck, index: r.index.Copy()}
		}
	}
	bak := ""
	if h.kind == "dir" {
		bak = h.root + ".bak"
		_ = os.RemoveAll(bak)
		_ = vgcCopyTree(h.root, bak)
	}
	return out, bak
}

func (h *vgcPH) restore(sn map[string]*vgcRepoSnap, bak string) {
	if h.kind == "dir" {
		_ = os.RemoveAll(h.root)
		_ = vgcCopyTree(bak, h.root)
	}
	for _, pr := range h.repos {
		repo, err := h.repoOf(pr.name)
		if err != nil {
			continue
		}
		s := sn[pr.name]
		if s == nil {
			continue
		}
		switch r := repo.(type) {
		case *memRepo:
			r.timeMod, r.index = s.timeMod, s.index.Copy()
			r.blobs = map[digest.Digest]*memRepoBlob{}
			for d, b := range s.blobs {
				cp := *b
				r.blobs[d] = &cp
			}
		case *dirRepo:
			r.exists, r.timeMod, r.timeCheck, r.index = s.exists, s.timeMod, s.timeCheck, s.index.Copy()
		}
	}
}

func (h *vgcPH) runPass(cur time.Time) error {
	prev := cur.Add(-vgcGap)
	for _, pr := range h.repos {
		if !pr.hasAge || pr.storeTime {
			continue
		}
		if repo, err := h.repoOf(pr.name); err == nil {
			if dr, ok := repo.(*dirRepo); ok && pr.kind == "corrupt" {
				dr.timeMod = cur.Add(-pr.age)
			} else {
				h.setTime(repo, cur.Add(-pr.age))
			}
		}
	}
	switch st := h.st.(type) {
	case *mem:
		return st.gc(cur, prev)
	case *dir:
		return st.gc(cur, prev)
	}
	return fmt.Errorf("unknown store")
}

func (h *vgcPH) passOp() string {
	reps := 6
	sn, bak := h.snap()
	answers := map[string]bool{}
	last := ""
	tick := time.Now() // one tick for all repetitions: what T / U did "just now" stays inside the window
	slowStart := tick.Sub(h.t0) > vgcSlow
	defer func() { h.t0 = time.Now() }()
	for k := 0; k < reps; k++ {
		if k > 0 {
			h.restore(sn, bak)
		}
		pre := map[string]string{}
		for _, pr := range h.repos {
			pre[pr.name] = h.repoState(pr)
		}
		h.logMu.Lock()
		h.order = nil
		h.logMu.Unlock()
		err := h.runPass(tick)
		h.cov["pass-runs"]++
		h.logMu.Lock()
		order := strings.Join(h.order, ",")
		h.logMu.Unlock()
		h.cov["order:"+order]++
		parts := []string{}
		failing, starved := "", ""
		for _, pr := range h.repos {
			stt := h.repoState(pr)
			parts = append(parts, pr.name+"="+stt)
			if pr.due && h.kind == "dir" && (pr.kind == "corrupt" || pr.kind == "removed") {
				failing = pr.name
			}
			// a healthy repository that is due and has something to collect must have been collected
			if pr.due && strings.HasPrefix(pre[pr.name], "dirty") && strings.HasPrefix(stt, "dirty") {
				starved = pr.name
			}
			// … also when the something is its image: untagged collection on, tag deleted, blobs older than the grace period
			if pr.due && h.pol.untagged && pr.untagged && strings.HasSuffix(pre[pr.name], "+i") && strings.HasSuffix(stt, "+i") {
				starved = pr.name
			}
		}
		if starved != "" && (slowStart || time.Since(tick) > 2*vgcSlow) {
			h.cov["slow-not-judged"]++
			starved = ""
		}
		if starved != "" {
			h.cov["starved"]++
			h.flag("pass-starved", fmt.Sprintf("repository %s is due and holds garbage but was not collected in a pass that visited [%s] (failing repository: %s, pass error: %v)", starved, order, failing, err != nil))
		}
		last = fmt.Sprintf("err=%d %s", vgcB(err != nil), strings.Join(parts, " "))
		answers[last] = true
	}
	if bak != "" {
		_ = os.RemoveAll(bak)
	}
	if slowStart || time.Since(tick) > 2*vgcSlow {
		h.cov["slow-not-judged"]++
		return "~slow " + last
	}
	if len(answers) > 1 {
		h.cov["order-dependent-pass"]++
		// report the outcome in which the fewest repositories were collected, deterministically
		keys := []string{}
		for k := range answers {
			keys = append(keys, k)
		}
		sort.Slice(keys, func(i, j int) bool {
			ci, cj := strings.Count(keys[i], "=dirty"), strings.Count(keys[j], "=dirty")
			if ci != cj {
				return ci > cj
			}
			return keys[i] < keys[j]
		})
		return keys[0]
	}
	return last
}

func (h *vgcPH) apply(line string) string {
	h.lineNo++
	t := strings.Fields(line)
	if len(t) == 0 {
		return "bad-op"
	}
	if t[0] != "NEW" && h.st == nil {
		return "bad-op"
	}
	switch t[0] {
	case "NEW":
		if len(t) != 6 {
			return "bad-op"
		}
		h.close()
		h.t0 = time.Now()
		h.pol = vgcPolicy{t[1] == "1", t[2] == "1", t[3] == "1", t[4] == "1", t[5] == "1"}
		h.n++
		if h.kind == "dir" {
			h.root = filepath.Join(h.tmp, "p"+strconv.Itoa(h.n))
			if err := os.MkdirAll(h.root, 0755); err != nil {
				return "error " + err.Error()
			}
		}
		h.conf = vgcConf(h.pol, h.kind, h.root)
		log := slog.New(vgcLogH{h})
		if h.kind == "dir" {
			h.st = NewDir(h.conf, WithLog(log))
		} else {
			h.st = NewMem(h.conf, WithLog(log))
		}
		return "ok"
	case "R":
		if len(t) != 4 {
			return "bad-op"
		}
		for _, pr := range h.repos {
			if pr.name == t[1] {
				return "bad-op"
			}
		}
		if t[2] != "healthy" && t[2] != "corrupt" && t[2] != "empty" && t[2] != "removed" {
			return "error unknown kind " + t[2]
		}
		due := t[3] == "1"
		var age time.Duration
		hasAge := false
		if strings.HasPrefix(t[3], "a") {
			ms, err := strconv.Atoi(t[3][1:])
			if err != nil || ms < 0 {
				return "bad-op"
			}
			age, hasAge = time.Duration(ms)*time.Millisecond, true
			due = h.dueSpec(age)
		}
		if err := h.addRepo(t[1], t[2], due); err != nil {
			return "error " + err.Error()
		}
		h.repos[len(h.repos)-1].hasAge, h.repos[len(h.repos)-1].age = hasAge, age
		return "ok"
	case "G":
		if len(t) != 2 {
			return "bad-op"
		}
		for _, pr := range h.repos {
			if pr.name == t[1] && (pr.kind == "healthy" || (pr.kind == "corrupt" && h.kind == "mem")) {
				repo, err := h.repoOf(pr.name)
				if err != nil {
					return "error " + err.Error()
				}
				var tm time.Time
				switch r := repo.(type) {
				case *memRepo:
					tm = r.timeMod
				case *dirRepo:
					tm = r.timeMod
				}
				d, err := vgcPut(repo, append([]byte(pr.name+" "), vgcGarbage...))
				if err != nil {
					return "error " + err.Error()
				}
				h.setBlobOld(repo, d)
				vgcSettle()
				// adding the blob does not change whether the repository is due (R decides that)
				switch r := repo.(type) {
				case *memRepo:
					r.timeMod = tm
				case *dirRepo:
					r.timeMod = tm
				}
				return "ok"
			}
		}
		return "ok"
	case "T", "U":
		if len(t) != 2 {
			return "bad-op"
		}
		for _, pr := range h.repos {
			if pr.name != t[1] || pr.kind != "healthy" {
				continue
			}
			repo, err := h.repoOf(pr.name)
			if err != nil {
				return "error " + err.Error()
			}
			if dr, ok := repo.(*dirRepo); ok && !dr.exists {
				return "ok" // the repository was removed as empty; a push would start with an upload that re-creates it
			}
			desc := types.Descriptor{MediaType: types.MediaTypeOCI1Manifest, Digest: pr.md, Size: pr.mdSize,
				Annotations: map[string]string{types.AnnotRefName: "latest"}}
			if t[0] == "T" {
				err = repo.IndexRemove(desc)
			} else {
				err = repo.IndexInsert(desc)
			}
			if err != nil {
				return "error " + err.Error()
			}
			// from here on the store decides when the repository was last modified; by the documented behaviour
			// it was modified just now, so the next pass has to visit it
			pr.storeTime, pr.due, pr.untagged = true, true, t[0] == "T"
			return "ok"
		}
		return "ok"
	case "PASS":
		return h.passOp()
	}
	return "bad-op"
}

func vgcGenPass(r *rand.Rand, c int, emit func(string)) {
	pbits := r.Intn(32)
	bit := func(k int) int { return (pbits >> k) & 1 }
	emit(fmt.Sprintf("NEW %d %d %d %d %d", bit(0), bit(1), bit(2), bit(3), bit(4)))
	n := 2 + r.Intn(4)
	names := []string{}
	for i := 1; i <= n; i++ {
		name := "r" + strconv.Itoa(i)
		names = append(names, name)
		kind := []string{"healthy", "healthy", "healthy", "empty", "removed", "corrupt"}[r.Intn(6)]
		due := "1"
		if r.Intn(5) == 0 {
			due = "0"
		}
		if r.Intn(2) == 0 {
			// an exact age around the edges of the window: gap 1000 ms, 250 ms slack (dir), grace 3 600 000 ms when enabled
			grace := 3600000 * bit(3)
			due = "a" + strconv.Itoa([]int{0, 850, 1100, grace + 850, grace + 1100, grace + 1400, 10 * (grace + 1250)}[r.Intn(7)])
		}
		emit(fmt.Sprintf("R %s %s %s", name, kind, due))
	}
	// index operations through the store API on repositories that may lie outside the window: the store has to put them
	// back into it
	if r.Intn(3) == 0 {
		for _, nm := range names {
			if r.Intn(2) == 0 {
				emit("T " + nm)
			}
		}
	}
	emit("PASS")
	if r.Intn(2) == 0 {
		for _, nm := range names {
			switch r.Intn(5) {
			case 0, 1:
				emit("G " + nm)
			case 2:
				emit("T " + nm)
			case 3:
				emit("U " + nm)
			}
		}
		emit("PASS")
	}
}

func TestVerifGCPass(t *testing.T) {
	if os.Getenv("VERIF_MODE") == "" {
		t.Skip("harness not requested")
	}
	impl, mon, done := vgcOpen(t)
	defer done()
	kind := os.Getenv("VERIF_STORE")
	if kind != "dir" {
		kind = "mem"
	}
	tmp := os.Getenv("VERIF_TMP")
	if kind == "dir" {
		if tmp == "" {
			t.Fatal("VERIF_TMP is required for the directory store")
		}
		tmp = filepath.Join(tmp, fmt.Sprintf("gcpass-%d", os.Getpid()))
		if err := os.MkdirAll(tmp, 0755); err != nil {
			t.Fatal(err)
		}
		defer os.RemoveAll(tmp)
	}
	h := &vgcPH{kind: kind, tmp: tmp, mon: mon, cov: map[string]int{}}
	defer h.close()
	vgcDrive(t, h.apply, func(r *rand.Rand, n int, emit func(string)) {
		for c := 0; c < n; c++ {
			vgcGenPass(r, c, emit)
		}
	}, impl)
	vgcWriteCov(h.cov)
}
