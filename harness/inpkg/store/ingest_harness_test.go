package store

// Correspondence harness for indexIngest (C17): injected into package store with `go test -overlay`.
// It interprets the line protocol of lean/Drivers/IngestMain.lean: lines that define a legacy OCI layout
// (blobs, index.json entries), then requests that open the layout with the real stores and observe the result.
//
//	NEW                                         start a layout definition
//	HDR conv=1                                  index.json already carries the "converted" annotation
//	MAN <name> subj= mt= cfgmt= at= ann= len= [kids=] [alg=512]
//	                                            a manifest blob; with kids= it is an index with a subject
//	RAW <name>                                  a blob that is not JSON
//	IDXN <name>                                 a JSON object without a manifests array
//	IDX [<d>,<d>…]                              an index blob listing d = dig/mt/size/at/ann; its name is I(<d>,…)
//	TOP dig= mt= tag= subj= size=               an entry of index.json (tag fb<Subject> = fallback tag of that subject)
//	INGEST store=mem|dir                        write the layout to a fresh directory, open it, observe
//	REOPEN store=mem|dir                        open it, then open the same directory again, observe the second time
//	CRASH store=mem|dir k=<mask>                the directory additionally holds the blobs (selected by mask) that a
//	                                            conversion writes before it saves index.json, and stray temp files
//
//	VERIF_MODE   gen | enum | replay
//	VERIF_OPS    request lines   (written by gen, read by replay)
//	VERIF_IMPL   one answer line per request line
//	VERIF_MON    monitor lines "MON <line-no> <monitor> <detail>"
//	VERIF_SEED VERIF_N            generator parameters (gen); VERIF_DEPTH (enum: longest fallback index)
//
// Statement-level monitors (computed from the layout definition, not from the model):
// convert-lost-referrer convert-extra-referrer convert-lost-tag convert-lost-manifest convert-lost-blob
// not-marked-converted reconvert-differs interrupted-reconvert-differs ingest-hangs ingest-error
import (
	"bufio"
	"bytes"
	"context"
	"encoding/json"
	"fmt"
	"io"
	"math/rand"
	"os"
	"path/filepath"
	"reflect"
	"regexp"
	"runtime"
	"sort"
	"strconv"
	"strings"
	"testing"
	"time"
	"unsafe"

	"github.com/opencontainers/go-digest"

	"github.com/olareg/olareg/config"
	"github.com/olareg/olareg/types"
)

var vingMtReal = map[string]string{"ocim": types.MediaTypeOCI1Manifest, "ocii": types.MediaTypeOCI1ManifestList,
	"dockl": types.MediaTypeDocker2ManifestList, "dockm": types.MediaTypeDocker2Manifest,
	"cfg": types.MediaTypeOCI1ImageConfig, "empty": types.MediaTypeOCI1Empty, "xa": "x/a", "xb": "x/b"}
var vingMtTok = func() map[string]string {
	m := map[string]string{}
	for k, v := range vingMtReal {
		m[v] = k
	}
	return m
}()

func vingReal(tok string) string {
	if v, ok := vingMtReal[tok]; ok {
		return v
	}
	return tok
}
func vingTok(real string) string {
	if v, ok := vingMtTok[real]; ok {
		return v
	}
	return real
}
func vingAnnMap(a string) map[string]string {
	if a == "" {
		return nil
	}
	m := map[string]string{}
	for _, kv := range strings.Split(a, ";") {
		p := strings.SplitN(kv, "=", 2)
		if len(p) == 2 {
			m[p[0]] = p[1]
		}
	}
	return m
}
func vingAnnTok(m map[string]string) string {
	ks := []string{}
	for k, v := range m {
		ks = append(ks, k+"="+v)
	}
	sort.Strings(ks)
	return strings.Join(ks, ";")
}

type vingDesc struct {
	dig, mt, at, ann string
	size             int
}

func (d vingDesc) String() string {
	return fmt.Sprintf("%s/%s/%d/%s/%s", d.dig, d.mt, d.size, d.at, d.ann)
}
func vingIdxName(ds []vingDesc) string {
	p := []string{}
	for _, d := range ds {
		p = append(p, d.String())
	}
	return "I(" + strings.Join(p, ",") + ")"
}

// split a comma separated descriptor list; commas inside I(...) do not count
func vingSplitTop(s string) []string {
	out := []string{}
	depth, cur := 0, ""
	for _, c := range s {
		switch {
		case c == '(':
			depth++
			cur += string(c)
		case c == ')':
			depth--
			cur += string(c)
		case c == ',' && depth == 0:
			out = append(out, cur)
			cur = ""
		default:
			cur += string(c)
		}
	}
	if cur != "" {
		out = append(out, cur)
	}
	return out
}
func vingParseD(s string) vingDesc {
	p := strings.Split(s, "/")
	n := len(p)
	if n < 5 {
		return vingDesc{}
	}
	sz, _ := strconv.Atoi(p[n-3])
	return vingDesc{dig: strings.Join(p[:n-4], "/"), mt: p[n-4], size: sz, at: p[n-2], ann: p[n-1]}
}
func vingParseDs(s string) []vingDesc {
	out := []vingDesc{}
	for _, x := range vingSplitTop(s) {
		out = append(out, vingParseD(x))
	}
	return out
}
func vingKV(toks []string, k string) (string, bool) {
	for _, t := range toks {
		if strings.HasPrefix(t, k+"=") {
			return t[len(k)+1:], true
		}
	}
	return "", false
}

type vingBlob struct {
	tok    string
	dig    digest.Digest
	raw    []byte
	kind   string // man | raw | idx | idxn
	subj   string // subject token of a manifest
	listed []vingDesc
	isIdx  bool // decodes as an index with a non-nil manifests array
}
type vingTop struct {
	dig, mt, tag, subj string
	size               int
}

type vingH struct {
	blobs    []*vingBlob
	byTok    map[string]*vingBlob
	nIngest  int
	tokOf    map[digest.Digest]string
	tagTok   map[string]string
	tops     []vingTop
	conv     bool
	mans     []string
	lineNo   int
	mon      *bufio.Writer
	monCount map[string]int
	work     string
	seq      int
	hangs    int
}

var vingSubjects = []string{"S1", "S2", "S3", "Q1"}

func (h *vingH) reset() {
	h.blobs, h.byTok, h.tokOf, h.tagTok = nil, map[string]*vingBlob{}, map[digest.Digest]string{}, map[string]string{}
	h.tops, h.conv, h.mans = nil, false, nil
	for _, s := range append([]string{"S9", "Q2", "mX"}, vingSubjects...) {
		h.tokOf[h.realOf(s)] = s
	}
}

// the digest a token stands for
func (h *vingH) realOf(tok string) digest.Digest {
	if b, ok := h.byTok[tok]; ok {
		return b.dig
	}
	if strings.HasPrefix(tok, "Q") {
		return digest.SHA512.FromString(tok)
	}
	if strings.HasPrefix(tok, "S") {
		return digest.FromString(tok)
	}
	d := digest.FromString("undefined:" + tok)
	if h.tokOf != nil {
		if _, ok := h.tokOf[d]; !ok {
			h.tokOf[d] = tok // a name without a blob
		}
	}
	return d
}
func (h *vingH) realTag(tok string) string {
	if strings.HasPrefix(tok, "fx") {
		// an ordinary tag that only starts like a fallback tag: <alg>-<64 hex>.meta
		d := h.realOf(tok[2:])
		enc := d.Encoded()
		if len(enc) > 64 {
			enc = enc[:64]
		}
		t := d.Algorithm().String() + "-" + enc + ".meta"
		h.tagTok[t] = tok
		return t
	}
	if strings.HasPrefix(tok, "fb") {
		d := h.realOf(tok[2:])
		enc := d.Encoded()
		if len(enc) > 64 {
			enc = enc[:64]
		}
		t := d.Algorithm().String() + "-" + enc
		h.tagTok[t] = tok
		return t
	}
	return tok
}
func (h *vingH) toDesc(d vingDesc) types.Descriptor {
	return types.Descriptor{MediaType: vingReal(d.mt), Digest: h.realOf(d.dig), Size: int64(d.size),
		ArtifactType: vingReal(d.at), Annotations: vingAnnMap(d.ann)}
}
func (h *vingH) addBlob(b *vingBlob) string {
	if o, ok := h.tokOf[b.dig]; ok && o != b.tok {
		return "dup-digest " + o
	}
	if _, ok := h.byTok[b.tok]; ok {
		return "ok" // same definition again
	}
	h.blobs = append(h.blobs, b)
	h.byTok[b.tok] = b
	h.tokOf[b.dig] = b.tok
	return "ok"
}

func (h *vingH) flag(name, detail string) {
	h.monCount[name]++
	if h.mon != nil {
		fmt.Fprintf(h.mon, "MON %d %s %s\n", h.lineNo, name, strings.ReplaceAll(detail, "\n", " "))
	}
}

// ---------------------------------------------------------------- layout on disk

func (h *vingH) indexJSON() []byte {
	ix := types.Index{SchemaVersion: 2, MediaType: types.MediaTypeOCI1ManifestList, Manifests: []types.Descriptor{}}
	for _, t := range h.tops {
		d := types.Descriptor{MediaType: vingReal(t.mt), Digest: h.realOf(t.dig), Size: int64(t.size)}
		if t.tag != "" || t.subj != "" {
			d.Annotations = map[string]string{}
			if t.tag != "" {
				d.Annotations[types.AnnotRefName] = h.realTag(t.tag)
			}
			if t.subj != "" {
				d.Annotations[types.AnnotReferrerSubject] = h.realOf(t.subj).String()
			}
		}
		ix.Manifests = append(ix.Manifests, d)
	}
	if h.conv {
		ix.Annotations = map[string]string{types.AnnotReferrerConvert: "true"}
	}
	b, _ := json.Marshal(ix)
	return b
}

func vingWriteBlob(repoDir string, d digest.Digest, raw []byte) error {
	dir := filepath.Join(repoDir, blobsDir, d.Algorithm().String())
	if err := os.MkdirAll(dir, 0o755); err != nil {
		return err
	}
	return os.WriteFile(filepath.Join(dir, d.Encoded()), raw, 0o644)
}

// materialise writes the defined layout (plus extra blobs) into a fresh directory and returns the store root
func (h *vingH) materialise(extra map[digest.Digest][]byte, stray bool) (string, error) {
	h.seq++
	root := filepath.Join(h.work, fmt.Sprintf("l%d", h.seq))
	repoDir := filepath.Join(root, "r")
	if err := os.MkdirAll(filepath.Join(repoDir, blobsDir, "sha256"), 0o755); err != nil {
		return "", err
	}
	if err := os.WriteFile(filepath.Join(repoDir, layoutFile), []byte(`{"imageLayoutVersion":"1.0.0"}`), 0o644); err != nil {
		return "", err
	}
	if err := os.WriteFile(filepath.Join(repoDir, indexFile), h.indexJSON(), 0o644); err != nil {
		return "", err
	}
	for _, b := range h.blobs {
		if err := vingWriteBlob(repoDir, b.dig, b.raw); err != nil {
			return "", err
		}
	}
	for d, raw := range extra {
		if err := vingWriteBlob(repoDir, d, raw); err != nil {
			return "", err
		}
	}
	if stray {
		// what a conversion that died in the middle of a write leaves behind
		_ = os.MkdirAll(filepath.Join(repoDir, uploadDir), 0o755)
		_ = os.WriteFile(filepath.Join(repoDir, uploadDir, "upload.123456"), []byte(`{"schemaVersion":2,"mani`), 0o644)
		_ = os.WriteFile(filepath.Join(repoDir, indexFile+".123456"), []byte(`{"schemaVersion":2,"mediaType":"appl`), 0o644)
	}
	return root, nil
}

// ---------------------------------------------------------------- opening a layout with a real store

type vingObs struct {
	hang     string // non-empty: the open did not return; compressed goroutine dump
	err      string
	index    types.Index
	blobs    map[digest.Digest][]byte // every blob the store knows
	diskIdx  []byte
	diskErr  string
	diskBlob map[digest.Digest]bool
}

var vingStackFn = regexp.MustCompile(`^(\S.*)\([^()]*\)$`)

// the goroutine that runs vingOpen, as "state: f1 < f2 < …"
func vingDump() (state, frames string) {
	buf := make([]byte, 1<<20)
	n := runtime.Stack(buf, true)
	for _, g := range strings.Split(string(buf[:n]), "\n\n") {
		if !strings.Contains(g, "vingOpenBody") {
			continue
		}
		lines := strings.Split(g, "\n")
		if m := regexp.MustCompile(`\[([^\]]*)\]`).FindStringSubmatch(lines[0]); m != nil {
			state = m[1]
		}
		fs := []string{}
		for _, l := range lines[1:] {
			if m := vingStackFn.FindStringSubmatch(l); m != nil {
				f := m[1]
				f = strings.TrimPrefix(f, "created by ")
				f = strings.TrimPrefix(f, "github.com/olareg/olareg/internal/store.")
				fs = append(fs, f)
			}
		}
		if len(fs) > 14 {
			fs = fs[:14]
		}
		return state, strings.Join(fs, " < ")
	}
	return "gone", ""
}

// vingLookupFirst: the directory store is asked for the repository before its layout is on disk (the layout is moved aside,
// looked up, moved back): the repository object it caches then says "does not exist" until the index is loaded - the
// conversion that follows must read the layout all the same
var vingLookupFirst bool

func vingOpenBody(storeKind, root string) vingObs {
	o := vingObs{blobs: map[digest.Digest][]byte{}}
	hold := ""
	if vingLookupFirst && storeKind == "dir" {
		hold = root + ".hold"
		if os.Rename(filepath.Join(root, "r"), hold) != nil {
			hold = ""
		}
	}
	conf := config.Config{Storage: config.ConfigStorage{RootDir: root, GC: config.ConfigGC{Frequency: -1, GracePeriod: -1}}}
	if storeKind == "mem" {
		conf.Storage.StoreType = config.StoreMem
	} else {
		conf.Storage.StoreType = config.StoreDir
	}
	conf.SetDefaults()
	var s Store
	if storeKind == "mem" {
		s = NewMem(conf)
	} else {
		s = NewDir(conf)
	}
	if hold != "" {
		if r0, err := s.RepoGet(context.Background(), "r"); err == nil {
			r0.Done()
		}
		_ = os.Remove(filepath.Join(root, "r")) // an empty directory the lookup may have made
		if err := os.Rename(hold, filepath.Join(root, "r")); err != nil {
			o.err = "harness: " + err.Error()
			return o
		}
	}
	repo, err := s.RepoGet(context.Background(), "r")
	if err != nil {
		o.err = "RepoGet: " + err.Error()
		return o
	}
	defer repo.Done()
	ix, err := repo.IndexGet()
	if err != nil {
		o.err = "IndexGet: " + err.Error()
		return o
	}
	o.index = ix
	dl, err := repo.blobList(false)
	if err != nil {
		o.err = "blobList: " + err.Error()
		return o
	}
	for _, d := range dl {
		rdr, err := repo.BlobGet(d)
		if err != nil {
			continue
		}
		b, _ := io.ReadAll(rdr)
		_ = rdr.Close()
		o.blobs[d] = b
	}
	return o
}

// open the layout under a watchdog: a conversion that waits for a mutex in four consecutive samples (nobody else
// uses these stores), or that has not returned after the hard limit, is reported as a hang
func (h *vingH) open(storeKind, root string) vingObs {
	ch := make(chan vingObs, 1)
	go func() { ch <- vingOpenBody(storeKind, root) }()
	limit := 10 * time.Second
	if v, err := strconv.Atoi(os.Getenv("VERIF_HANG_MS")); err == nil && v > 0 {
		limit = time.Duration(v) * time.Millisecond
	}
	start := time.Now()
	blocked := 0
	var o vingObs
	tick := time.NewTicker(20 * time.Millisecond)
	defer tick.Stop()
loop:
	for {
		select {
		case o = <-ch:
			break loop
		case <-tick.C:
			st, fr := vingDump()
			if strings.HasPrefix(st, "sync.Mutex.Lock") || strings.HasPrefix(st, "semacquire") {
				blocked++
			} else {
				blocked = 0
			}
			if blocked >= 4 || time.Since(start) > limit {
				h.hangs++
				return vingObs{hang: fmt.Sprintf("[%s] %s", st, fr)}
			}
		}
	}
	repoDir := filepath.Join(root, "r")
	if b, err := os.ReadFile(filepath.Join(repoDir, indexFile)); err != nil {
		o.diskErr = err.Error()
	} else {
		o.diskIdx = b
	}
	o.diskBlob = map[digest.Digest]bool{}
	for _, alg := range []string{"sha256", "sha512"} {
		es, _ := os.ReadDir(filepath.Join(repoDir, blobsDir, alg))
		for _, e := range es {
			o.diskBlob[digest.NewDigestFromEncoded(digest.Algorithm(alg), e.Name())] = true
		}
	}
	return o
}

// ---------------------------------------------------------------- canonical observation

// token of a digest: defined name, or the structural name of an index-shaped blob the conversion wrote
func (h *vingH) tokFor(d digest.Digest, blobs map[digest.Digest][]byte) string {
	if t, ok := h.tokOf[d]; ok {
		return t
	}
	if b, ok := blobs[d]; ok {
		var ix types.Index
		if json.Unmarshal(b, &ix) == nil && ix.Manifests != nil {
			return vingIdxName(h.canonDescs(ix.Manifests, blobs))
		}
	}
	return "?" + d.String()
}
func (h *vingH) canonDescs(ms []types.Descriptor, blobs map[digest.Digest][]byte) []vingDesc {
	ds := []vingDesc{}
	for _, m := range ms {
		ds = append(ds, vingDesc{dig: h.tokFor(m.Digest, blobs), mt: vingTok(m.MediaType), size: int(m.Size),
			at: vingTok(m.ArtifactType), ann: vingAnnTok(m.Annotations)})
	}
	return ds
}

type vingEntry struct{ dig, mt, tag, subj string }

func (e vingEntry) String() string { return e.dig + ":" + e.mt + ":" + e.tag + ":" + e.subj }

func (h *vingH) entries(ix types.Index, blobs map[digest.Digest][]byte) []vingEntry {
	out := []vingEntry{}
	for _, m := range ix.Manifests {
		e := vingEntry{dig: h.tokFor(m.Digest, blobs), mt: vingTok(m.MediaType)}
		if m.Annotations != nil {
			if v := m.Annotations[types.AnnotRefName]; v != "" {
				e.tag = v
				if t, ok := h.tagTok[v]; ok {
					e.tag = t
				}
			}
			if v := m.Annotations[types.AnnotReferrerSubject]; v != "" {
				e.subj = h.tokFor(digest.Digest(v), blobs)
			}
		}
		out = append(out, e)
	}
	return out
}

// sorted set of entries, modulo untagged entries of a digest that is listed anyway: which of those survive
// depends on the order in which Go iterates over a map
func vingCanonEntries(es []vingEntry) string {
	keep := []string{}
	for _, e := range es {
		if e.tag == "" && e.subj == "" {
			dup := false
			for _, o := range es {
				if o.dig == e.dig && o.String() != e.String() {
					dup = true
				}
			}
			if dup {
				continue
			}
		}
		keep = append(keep, e.String())
	}
	sort.Strings(keep)
	u := []string{}
	for i, k := range keep {
		if i == 0 || keep[i-1] != k {
			u = append(u, k)
		}
	}
	return strings.Join(u, " ")
}

// the unexported list of child descriptors of an index (read-only use)
func vingChildren(ix *types.Index) []types.Descriptor {
	f := reflect.ValueOf(ix).Elem().FieldByName("childManifests")
	if !f.IsValid() {
		return nil
	}
	return reflect.NewAt(f.Type(), unsafe.Pointer(f.UnsafeAddr())).Elem().Interface().([]types.Descriptor)
}

func vingConverted(ix types.Index) bool {
	return ix.Annotations != nil && ix.Annotations[types.AnnotReferrerConvert] == "true"
}

// what the referrers API answers for a subject (referrer.go): the first entry with the subject annotation, its
// blob's manifests; ok=false if there is no entry
func (h *vingH) referrers(o vingObs, subj string) (ds []vingDesc, readable, ok bool) {
	d, err := o.index.GetByAnnotation(types.AnnotReferrerSubject, h.realOf(subj).String())
	if err != nil {
		return nil, false, false
	}
	b, has := o.blobs[d.Digest]
	if !has {
		return nil, false, true
	}
	var ix types.Index
	if json.Unmarshal(b, &ix) != nil || ix.Manifests == nil {
		return nil, false, true
	}
	return h.canonDescs(ix.Manifests, o.blobs), true, true
}

func (h *vingH) newBlobs(o vingObs) []string {
	nb := []string{}
	for d := range o.blobs {
		if _, ok := h.tokOf[d]; !ok {
			nb = append(nb, h.tokFor(d, o.blobs))
		}
	}
	sort.Strings(nb)
	return nb
}

func (h *vingH) line(o vingObs) string {
	if o.hang != "" {
		return "hang"
	}
	if o.err != "" {
		return "err=1"
	}
	conv := 0
	rs := "404"
	if vingConverted(o.index) {
		conv = 1
		parts := []string{}
		for _, s := range vingSubjects {
			ds, readable, ok := h.referrers(o, s)
			if !ok {
				continue
			}
			if !readable {
				parts = append(parts, s+"=?")
				continue
			}
			l := []string{}
			for _, d := range ds {
				l = append(l, d.String())
			}
			sort.Strings(l)
			parts = append(parts, s+"={"+strings.Join(l, ",")+"}")
		}
		rs = strings.Join(parts, ";")
	}
	found := []string{}
	for _, m := range h.mans {
		if _, err := o.index.GetDesc(h.realOf(m).String()); err == nil {
			found = append(found, m)
		}
	}
	cs := []string{}
	// digests only: which descriptor of a child is recorded (a fallback index may list it with a wrong media type)
	// depends on the order of index.json, and that on the order in which Go iterated over a map
	for _, c := range vingChildren(&o.index) {
		cs = append(cs, h.tokFor(c.Digest, o.blobs))
	}
	sort.Strings(cs)
	disk := "unreadable"
	var dix types.Index
	if o.diskErr == "" && json.Unmarshal(o.diskIdx, &dix) == nil {
		dc := 0
		if vingConverted(dix) {
			dc = 1
		}
		disk = fmt.Sprintf("conv=%d;%s", dc, vingCanonEntries(h.entries(dix, o.blobs)))
	}
	return fmt.Sprintf("err=0 conv=%d I[%s] C[%s] R[%s] F[%s] B[%s] D[%s]", conv, vingCanonEntries(h.entries(o.index, o.blobs)),
		strings.Join(cs, " "), rs, strings.Join(found, " "), strings.Join(h.newBlobs(o), " "), disk)
}

// ---------------------------------------------------------------- the property as stated, from the definition

// required[S]: manifests that some fallback index lists, that are present and name S as their subject, plus what
// the coexisting converted response of S lists of such manifests; allowed[S] additionally everything the old
// response lists and what fallback-tagged indexes of another index media type list
func (h *vingH) expected() (required, allowed map[string]map[string]bool) {
	required, allowed = map[string]map[string]bool{}, map[string]map[string]bool{}
	add := func(m map[string]map[string]bool, s, d string) {
		if m[s] == nil {
			m[s] = map[string]bool{}
		}
		m[s][d] = true
	}
	for _, t := range h.tops {
		b := h.byTok[t.dig]
		if b == nil || !b.isIdx {
			continue
		}
		if strings.HasPrefix(t.tag, "fb") && !h.conv {
			for _, d := range b.listed {
				if m := h.byTok[d.dig]; m != nil && m.kind == "man" && m.subj != "" {
					add(allowed, m.subj, d.dig)
					if t.mt == "ocii" && b.kind == "idx" {
						add(required, m.subj, d.dig)
					}
				}
			}
		}
		if t.subj != "" {
			for _, d := range b.listed {
				add(allowed, t.subj, d.dig)
				if m := h.byTok[d.dig]; m != nil && m.kind == "man" && m.subj == t.subj && t.mt == "ocii" {
					add(required, t.subj, d.dig)
				}
			}
		}
	}
	return required, allowed
}

// inOldResponse: the descriptor is listed, as it is, by a response that was registered for the subject before the
// conversion (what such a response says is not the conversion's to correct)
func (h *vingH) inOldResponse(subj string, d vingDesc) bool {
	for _, t := range h.tops {
		if t.subj != subj {
			continue
		}
		if b := h.byTok[t.dig]; b != nil {
			for _, l := range b.listed {
				if l.dig == d.dig && l.size == d.size {
					return true
				}
			}
		}
	}
	return false
}

// the part of an observation that the statement of C17 speaks about
func (h *vingH) statement(o vingObs) string {
	if o.hang != "" || o.err != "" {
		return "failed"
	}
	parts := []string{fmt.Sprint("conv=", vingConverted(o.index))}
	for _, s := range vingSubjects {
		ds, _, _ := h.referrers(o, s)
		l := []string{}
		for _, d := range ds {
			l = append(l, d.dig)
		}
		sort.Strings(l)
		parts = append(parts, s+"="+strings.Join(l, ","))
	}
	tags := map[string]bool{}
	for _, t := range h.tops {
		if t.tag != "" && !strings.HasPrefix(t.tag, "fb") && !tags[t.tag] {
			tags[t.tag] = true
			g := "none"
			if d, err := o.index.GetDesc(h.realTag(t.tag)); err == nil {
				g = h.tokFor(d.Digest, o.blobs)
			}
			parts = append(parts, t.tag+"->"+g)
		}
	}
	found := []string{}
	for _, t := range h.tops {
		if t.subj == "" {
			if _, err := o.index.GetDesc(h.realOf(t.dig).String()); err == nil {
				found = append(found, t.dig)
			}
		}
	}
	for _, m := range h.mans {
		if _, err := o.index.GetDesc(h.realOf(m).String()); err == nil {
			found = append(found, m)
		}
	}
	sort.Strings(found)
	parts = append(parts, "found="+strings.Join(found, ","))
	bl := []string{}
	for d := range o.blobs {
		bl = append(bl, h.tokFor(d, o.blobs))
	}
	sort.Strings(bl)
	parts = append(parts, "blobs="+strings.Join(bl, ","))
	return strings.Join(parts, " | ")
}

func (h *vingH) monitors(storeKind string, o vingObs) {
	if o.hang != "" {
		h.flag("ingest-hangs", storeKind+" store: the conversion does not return; goroutine "+o.hang)
		return
	}
	if o.err != "" {
		h.flag("ingest-error", storeKind+" store: the repository cannot be opened: "+o.err)
		return
	}
	if !vingConverted(o.index) {
		h.flag("not-marked-converted", storeKind+" store: index is not marked as converted")
	}
	if storeKind == "dir" {
		var dix types.Index
		if o.diskErr != "" || json.Unmarshal(o.diskIdx, &dix) != nil {
			h.flag("not-marked-converted", "dir store: index.json unreadable after the conversion")
		} else if !vingConverted(dix) {
			h.flag("not-marked-converted", "dir store: index.json on disk is not marked as converted")
		}
	}
	required, allowed := h.expected()
	subs := map[string]bool{}
	for _, s := range vingSubjects {
		subs[s] = true
	}
	for s := range required {
		subs[s] = true
	}
	for s := range subs {
		got := map[string]bool{}
		ds, _, _ := h.referrers(o, s)
		if vingConverted(o.index) {
			for _, d := range ds {
				got[d.dig] = true
				// what is listed describes the manifest as it is stored, not as a stale fallback index described it
				if m := h.byTok[d.dig]; m != nil && m.kind == "man" && d.size != len(m.raw) && !h.inOldResponse(s, d) {
					h.flag("convert-wrong-descriptor", fmt.Sprintf("%s store: referrer %s of subject %s is listed with size %d, the manifest has %d bytes", storeKind, d.dig, s, d.size, len(m.raw)))
				}
				// … and with the manifest's own annotations (read here from the stored bytes), not with what a fallback index said
				if m := h.byTok[d.dig]; m != nil && m.kind == "man" && !h.inOldResponse(s, d) {
					var own struct {
						Annotations map[string]string `json:"annotations"`
					}
					if json.Unmarshal(m.raw, &own) == nil && vingAnnTok(own.Annotations) != d.ann {
						h.flag("convert-wrong-descriptor", fmt.Sprintf("%s store: referrer %s of subject %s is listed with annotations %q, the manifest has %q", storeKind, d.dig, s, d.ann, vingAnnTok(own.Annotations)))
					}
				}
			}
		}
		for d := range required[s] {
			if !got[d] {
				h.flag("convert-lost-referrer", fmt.Sprintf("%s store: referrer %s of subject %s is not listed", storeKind, d, s))
			}
		}
		for d := range got {
			if !allowed[s][d] {
				h.flag("convert-extra-referrer", fmt.Sprintf("%s store: %s is listed for subject %s", storeKind, d, s))
			}
		}
	}
	seenTag := map[string]bool{}
	for _, t := range h.tops {
		if t.tag != "" && !strings.HasPrefix(t.tag, "fb") && !seenTag[t.tag] {
			seenTag[t.tag] = true
			d, err := o.index.GetDesc(h.realTag(t.tag))
			if err != nil || d.Digest != h.realOf(t.dig) {
				h.flag("convert-lost-tag", fmt.Sprintf("%s store: tag %s no longer names %s", storeKind, t.tag, t.dig))
			}
		}
		if t.subj == "" {
			if _, err := o.index.GetDesc(h.realOf(t.dig).String()); err != nil {
				h.flag("convert-lost-manifest", fmt.Sprintf("%s store: %s is no longer listed", storeKind, t.dig))
			}
		}
	}
	for _, b := range h.blobs {
		if got, ok := o.blobs[b.dig]; !ok || !bytes.Equal(got, b.raw) {
			h.flag("convert-lost-blob", fmt.Sprintf("%s store: blob %s", storeKind, b.tok))
		}
		if !o.diskBlob[b.dig] {
			h.flag("convert-lost-blob", fmt.Sprintf("%s store: blob file %s", storeKind, b.tok))
		}
	}
}

// ---------------------------------------------------------------- requests

func (h *vingH) cleanup(root string, o vingObs) {
	// a hung conversion is blocked on a mutex, it does not touch the directory any more
	_ = os.RemoveAll(root)
}

// vingSnap lists a directory tree with sizes and content hashes
func vingSnap(root string) string {
	var out []string
	_ = filepath.Walk(root, func(p string, info os.FileInfo, err error) error {
		if err != nil {
			return nil
		}
		rel, _ := filepath.Rel(root, p)
		if info.IsDir() {
			out = append(out, rel+"/")
			return nil
		}
		b, _ := os.ReadFile(p)
		out = append(out, fmt.Sprintf("%s %d %s", rel, info.Size(), digest.FromBytes(b).Encoded()[:16]))
		return nil
	})
	sort.Strings(out)
	return strings.Join(out, "\n")
}

// roProbe (C14): the same layout opened by a read-only directory store and by a memory store over the directory;
// the conversion may fail or succeed in memory, the directory must stay as it was
func (h *vingH) roProbe() {
	for _, kind := range []string{"dir-ro", "mem"} {
		root, err := h.materialise(nil, false)
		if err != nil {
			return
		}
		before := vingSnap(root)
		done := make(chan struct{})
		go func() {
			defer close(done)
			conf := config.Config{Storage: config.ConfigStorage{RootDir: root, GC: config.ConfigGC{Frequency: -1, GracePeriod: -1}}}
			var s Store
			if kind == "mem" {
				conf.Storage.StoreType = config.StoreMem
				conf.SetDefaults()
				s = NewMem(conf)
			} else {
				ro := true
				conf.Storage.StoreType = config.StoreDir
				conf.Storage.ReadOnly = &ro
				conf.SetDefaults()
				s = NewDir(conf)
			}
			if repo, err := s.RepoGet(context.Background(), "r"); err == nil {
				_, _ = repo.IndexGet()
				repo.Done()
			}
			_ = s.Close()
		}()
		select {
		case <-done:
		case <-time.After(5 * time.Second):
			return // a hang is the business of the open under the watchdog; the directory is left to the goroutine
		}
		if after := vingSnap(root); after != before {
			h.flag("C14.ro-open-changed", fmt.Sprintf("%s: the directory changed while it was opened and read", kind))
		}
		_ = os.RemoveAll(root)
	}
}

func (h *vingH) doIngest(storeKind string) string {
	if os.Getenv("VERIF_RO_PROBE") != "" && storeKind == "dir" {
		h.roProbe()
	}
	root, err := h.materialise(nil, false)
	if err != nil {
		return "harness-error " + err.Error()
	}
	h.nIngest++
	vingLookupFirst = h.nIngest%3 == 0
	o := h.open(storeKind, root)
	vingLookupFirst = false
	h.monitors(storeKind, o)
	h.cleanup(root, o)
	_ = os.RemoveAll(root + ".hold")
	return h.line(o)
}

func (h *vingH) doReopen(storeKind string) string {
	root, err := h.materialise(nil, false)
	if err != nil {
		return "harness-error " + err.Error()
	}
	o1 := h.open(storeKind, root)
	if o1.hang != "" || o1.err != "" {
		h.monitors(storeKind, o1)
		h.cleanup(root, o1)
		return h.line(o1)
	}
	o2 := h.open(storeKind, root)
	h.monitors(storeKind, o2)
	if a, b := h.statement(o1), h.statement(o2); a != b {
		h.flag("reconvert-differs", fmt.Sprintf("%s store: first %s ; again %s", storeKind, a, b))
	}
	h.cleanup(root, o2)
	return h.line(o2)
}

func (h *vingH) doCrash(storeKind string, mask int) string {
	// the uninterrupted conversion tells which blobs a conversion writes
	rootA, err := h.materialise(nil, false)
	if err != nil {
		return "harness-error " + err.Error()
	}
	oA := h.open(storeKind, rootA)
	h.cleanup(rootA, oA)
	if oA.hang != "" || oA.err != "" {
		h.monitors(storeKind, oA)
		return h.line(oA)
	}
	type nb struct {
		name string
		dig  digest.Digest
	}
	nbs := []nb{}
	for d := range oA.blobs {
		if _, ok := h.tokOf[d]; !ok {
			nbs = append(nbs, nb{h.tokFor(d, oA.blobs), d})
		}
	}
	sort.Slice(nbs, func(i, j int) bool { return nbs[i].name < nbs[j].name })
	extra := map[digest.Digest][]byte{}
	if len(nbs) > 0 {
		m := mask % (1 << len(nbs))
		for i, b := range nbs {
			if (m>>i)&1 == 1 {
				extra[b.dig] = oA.blobs[b.dig]
			}
		}
	}
	rootB, err := h.materialise(extra, true)
	if err != nil {
		return "harness-error " + err.Error()
	}
	oB := h.open(storeKind, rootB)
	h.monitors(storeKind, oB)
	if a, b := h.statement(oA), h.statement(oB); a != b {
		h.flag("interrupted-reconvert-differs", fmt.Sprintf("%s store, %d of %d blobs written before the interruption: uninterrupted %s ; repeated %s",
			storeKind, len(extra), len(nbs), a, b))
	}
	h.cleanup(rootB, oB)
	return h.line(oB)
}

func (h *vingH) apply(line string) string {
	h.lineNo++
	t := strings.Fields(line)
	if len(t) == 0 {
		return "bad-op"
	}
	switch t[0] {
	case "NEW":
		if len(t) != 1 {
			return "bad-op"
		}
		h.reset()
		return "ok"
	case "HDR":
		v, _ := vingKV(t[1:], "conv")
		h.conv = v == "1"
		return "ok"
	case "MAN":
		if len(t) < 2 {
			return "bad-op"
		}
		name, kv := t[1], t[2:]
		get := func(k string) string { v, _ := vingKV(kv, k); return v }
		var subject *types.Descriptor
		if s := get("subj"); s != "" {
			subject = &types.Descriptor{MediaType: types.MediaTypeOCI1Manifest, Digest: h.realOf(s), Size: 1}
		}
		var raw []byte
		b := &vingBlob{tok: name, kind: "man", subj: get("subj")}
		if ks, isIndex := vingKV(kv, "kids"); isIndex {
			ix := types.Index{SchemaVersion: 2, MediaType: vingReal(get("mt")), ArtifactType: vingReal(get("at")),
				Manifests: []types.Descriptor{}, Subject: subject, Annotations: vingAnnMap(get("ann"))}
			b.listed = vingParseDs(ks)
			for _, d := range b.listed {
				ix.Manifests = append(ix.Manifests, h.toDesc(d))
			}
			b.isIdx = true
			raw, _ = json.Marshal(ix)
		} else {
			cfgMt := vingReal(get("cfgmt"))
			m := types.Manifest{SchemaVersion: 2, MediaType: vingReal(get("mt")), ArtifactType: vingReal(get("at")),
				Annotations: vingAnnMap(get("ann")), Subject: subject,
				Config: types.Descriptor{MediaType: cfgMt, Digest: digest.FromString("cfg"), Size: 2},
				Layers: []types.Descriptor{{MediaType: cfgMt, Digest: digest.FromString("layer of " + name), Size: 2}}}
			raw, _ = json.Marshal(m)
		}
		if n, _ := strconv.Atoi(get("len")); n != len(raw) {
			return fmt.Sprintf("bad-len %d", len(raw))
		}
		b.raw = raw
		if get("alg") == "512" {
			b.dig = digest.SHA512.FromBytes(raw)
		} else {
			b.dig = digest.FromBytes(raw)
		}
		r := h.addBlob(b)
		if r == "ok" {
			h.mans = append(h.mans, name)
		}
		return r
	case "RAW":
		if len(t) != 2 {
			return "bad-op"
		}
		raw := []byte("not json " + t[1])
		return h.addBlob(&vingBlob{tok: t[1], kind: "raw", raw: raw, dig: digest.FromBytes(raw)})
	case "IDXN":
		if len(t) != 2 {
			return "bad-op"
		}
		raw := []byte(`{"schemaVersion":2,"annotations":{"name":"` + t[1] + `"}}`)
		return h.addBlob(&vingBlob{tok: t[1], kind: "idxn", raw: raw, dig: digest.FromBytes(raw)})
	case "IDX":
		if len(t) > 2 {
			return "bad-op"
		}
		ds := []vingDesc{}
		if len(t) == 2 {
			ds = vingParseDs(t[1])
		}
		ix := types.Index{SchemaVersion: 2, MediaType: types.MediaTypeOCI1ManifestList, Manifests: []types.Descriptor{}}
		for _, d := range ds {
			ix.Manifests = append(ix.Manifests, h.toDesc(d))
		}
		raw, _ := json.Marshal(ix)
		return h.addBlob(&vingBlob{tok: vingIdxName(ds), kind: "idx", raw: raw, dig: digest.FromBytes(raw), listed: ds, isIdx: true})
	case "TOP":
		kv := t[1:]
		get := func(k string) string { v, _ := vingKV(kv, k); return v }
		sz, _ := strconv.Atoi(get("size"))
		h.tops = append(h.tops, vingTop{dig: get("dig"), mt: get("mt"), tag: get("tag"), subj: get("subj"), size: sz})
		return "ok"
	case "INGEST", "REOPEN", "CRASH":
		st, _ := vingKV(t[1:], "store")
		if st != "mem" && st != "dir" {
			return "bad-op"
		}
		if h.byTok == nil {
			h.reset()
		}
		switch t[0] {
		case "INGEST":
			return h.doIngest(st)
		case "REOPEN":
			return h.doReopen(st)
		default:
			ks, _ := vingKV(t[1:], "k")
			k, _ := strconv.Atoi(ks)
			return h.doCrash(st, k)
		}
	}
	return "bad-op"
}

// ---------------------------------------------------------------- generator

type vingGen struct {
	r    *rand.Rand
	emit func(string)
}

func (g *vingGen) pick(l ...string) string { return l[g.r.Intn(len(l))] }

// one legacy layout followed by the requests
func (g *vingGen) layout(h *vingH) {
	r := g.r
	g.emit("NEW")
	if r.Intn(14) == 0 {
		g.emit("HDR conv=1")
	}
	type man struct {
		name, subj string
		acc        vingDesc
	}
	mans := []man{}
	nm := 2 + r.Intn(4)
	subjPool := []string{"S1", "S1", "S2", "S3", "Q1", ""}
	if r.Intn(3) == 0 { // few subjects: more collisions between fallback indexes
		subjPool = []string{"S1", "S1", "S1", "S2", ""}
	}
	for i := 1; i <= nm; i++ {
		name := "m" + strconv.Itoa(i)
		subj := g.pick(subjPool...)
		mtField := g.pick("ocim", "ocim", "")
		cfgMt := g.pick("cfg", "empty")
		at := g.pick("", "xa")
		ann := g.pick("", "", "k=v")
		alg := ""
		if r.Intn(10) == 0 {
			alg = " alg=512"
		}
		// the byte length is a function of the line: build the same document apply() will build
		probe := fmt.Sprintf("MAN %s subj=%s mt=%s cfgmt=%s at=%s ann=%s len=0%s", name, subj, mtField, cfgMt, at, ann, alg)
		n := vingProbeLen(h, probe)
		g.emit(fmt.Sprintf("MAN %s subj=%s mt=%s cfgmt=%s at=%s ann=%s len=%d%s", name, subj, mtField, cfgMt, at, ann, n, alg))
		a := at
		if a == "" {
			a = cfgMt
		}
		mans = append(mans, man{name, subj, vingDesc{dig: name, mt: "ocim", at: a, ann: ann, size: n}})
	}
	if r.Intn(5) == 0 { // an index that is itself a referrer
		name := "m" + strconv.Itoa(nm+1)
		subj := g.pick("S1", "S2", "Q1")
		mtField := g.pick("ocii", "ocii", "")
		at := g.pick("", "xa")
		kids := []string{}
		for k := 0; k < r.Intn(3); k++ {
			m := mans[r.Intn(len(mans))]
			kids = append(kids, vingDesc{dig: m.name, mt: "ocim", size: m.acc.size}.String())
		}
		probe := fmt.Sprintf("MAN %s subj=%s mt=%s cfgmt=none at=%s ann= len=0 kids=%s", name, subj, mtField, at, strings.Join(kids, ","))
		n := vingProbeLen(h, probe)
		g.emit(fmt.Sprintf("MAN %s subj=%s mt=%s cfgmt=none at=%s ann= len=%d kids=%s", name, subj, mtField, at, n, strings.Join(kids, ",")))
		mt := "ocii"
		mans = append(mans, man{name, subj, vingDesc{dig: name, mt: mt, at: at, size: n}})
	}
	g.emit("RAW raw1")
	if r.Intn(6) == 0 {
		g.emit("IDXN n1")
	}
	// a descriptor as a fallback index lists it: accurate, or stale in one of the ways the conversion checks
	listed := func(tgt string) vingDesc {
		cands := []man{}
		for _, m := range mans {
			if tgt == "" || m.subj == tgt {
				cands = append(cands, m)
			}
		}
		if len(cands) == 0 || r.Intn(6) == 0 {
			cands = mans
		}
		d := cands[r.Intn(len(cands))].acc
		switch r.Intn(12) {
		case 0:
			d.size++
		case 1:
			d.at = g.pick("xb", "")
		case 2:
			d.ann = g.pick("k=w", "", "k=v;z=1")
		case 3:
			d = vingDesc{dig: "mX", mt: "ocim", size: 3}
		case 4:
			d = vingDesc{dig: "raw1", mt: "ocim", size: 13}
		case 5:
			// a wrong media type, of the same kind: if an index that is a referrer were listed as a non-index
			// here and as an index elsewhere, whether its children get recorded would depend on the order in
			// which the child scan meets the two listings, i.e. on Go's map order (notes/design-C17.md, residue)
			if d.mt == "ocii" {
				d.mt = "dockl"
			} else {
				d.mt = g.pick("ocim", "ocii", "dockm")
			}
		}
		return d
	}
	defined := map[string]bool{}
	mkIdx := func(ds []vingDesc) string {
		name := vingIdxName(ds)
		if !defined[name] {
			defined[name] = true
			p := []string{}
			for _, d := range ds {
				p = append(p, d.String())
			}
			if len(p) == 0 {
				g.emit("IDX")
			} else {
				g.emit("IDX " + strings.Join(p, ","))
			}
		}
		return name
	}
	top := func(dig, mt, tag, subj string, size int) {
		g.emit(fmt.Sprintf("TOP dig=%s mt=%s tag=%s subj=%s size=%d", dig, mt, tag, subj, size))
	}
	tags := []string{"t1", "t2"}
	for _, m := range mans {
		if r.Intn(2) == 0 {
			tag := ""
			if len(tags) > 0 && r.Intn(3) != 0 {
				tag, tags = tags[0], tags[1:]
			}
			top(m.name, m.acc.mt, tag, "", m.acc.size)
		}
	}
	// coexisting converted responses
	usedSubj := map[string]bool{}
	for k := 0; k < 2; k++ {
		if r.Intn(3) != 0 {
			continue
		}
		s := g.pick("S1", "S2", "Q1")
		if usedSubj[s] {
			continue
		}
		usedSubj[s] = true
		ds := []vingDesc{}
		for j := 0; j < 1+r.Intn(2); j++ {
			ds = append(ds, listed(s))
		}
		top(mkIdx(ds), "ocii", "", s, 0)
	}
	// fallback tags: the name claims a subject, the content decides
	claims := []string{"S1", "S2", "S3", "Q1", "S9", "Q2"}
	r.Shuffle(len(claims), func(i, j int) { claims[i], claims[j] = claims[j], claims[i] })
	fbIdx := []string{}
	for k := 0; k < 1+r.Intn(3); k++ {
		claim := claims[k]
		tgt := claim
		if r.Intn(3) == 0 {
			tgt = g.pick("S1", "S2", "Q1", "")
		}
		mt := "ocii"
		if r.Intn(12) == 0 {
			mt = "dockl"
		}
		switch r.Intn(16) {
		case 0:
			top("n1", mt, "fb"+claim, "", 0)
			continue
		case 1:
			top(mans[r.Intn(len(mans))].name, mt, "fb"+claim, "", 0)
			continue
		case 2:
			top(g.pick("raw1", "mX"), mt, "fb"+claim, "", 0)
			continue
		}
		ds := []vingDesc{}
		for j := 0; j < r.Intn(4); j++ {
			ds = append(ds, listed(tgt))
		}
		name := mkIdx(ds)
		fbIdx = append(fbIdx, name)
		top(name, mt, "fb"+claim, "", 0)
	}
	// an ordinary tagged index for the child scan, sometimes the very index a fallback tag names
	if r.Intn(3) == 0 {
		var name string
		if len(fbIdx) > 0 && r.Intn(3) == 0 {
			name = fbIdx[r.Intn(len(fbIdx))]
		} else {
			name = mkIdx([]vingDesc{mans[r.Intn(len(mans))].acc, mans[r.Intn(len(mans))].acc})
		}
		top(name, g.pick("ocii", "ocii", "dockl"), "t3", "", 0)
	}
	// an ordinary tag that starts like a fallback tag, on an index that lists referrers: it is a tag like any other
	if r.Intn(4) == 0 {
		name := mkIdx([]vingDesc{listed(g.pick("S1", "S2")), mans[r.Intn(len(mans))].acc})
		top(name, "ocii", "fx"+g.pick("S1", "S2", "S9"), "", 0)
	}
	g.emit("INGEST store=mem")
	g.emit("INGEST store=dir")
	if r.Intn(2) == 0 {
		g.emit("REOPEN store=dir")
	}
	if r.Intn(4) == 0 {
		g.emit("REOPEN store=mem")
	}
	if r.Intn(2) == 0 {
		g.emit("CRASH store=dir k=" + strconv.Itoa(r.Intn(8)))
	}
	if r.Intn(6) == 0 {
		g.emit("CRASH store=mem k=" + strconv.Itoa(r.Intn(8)))
	}
}

// enum emits the exhaustive family of small layouts: artifacts m1 (subject S1) and m2 (subject S1 or S2), a fallback
// tag of S1 and optionally one of S2 whose indexes are any list of at most `depth` descriptors out of
// {m1 accurate, m2 accurate, m1 with a stale size, a missing manifest}, and optionally a converted response of S1
func (g *vingGen) enum(h *vingH, depth int) {
	man := func(name, subj string) (string, vingDesc) {
		probe := fmt.Sprintf("MAN %s subj=%s mt=ocim cfgmt=cfg at= ann= len=0", name, subj)
		n := vingProbeLen(h, probe)
		return fmt.Sprintf("MAN %s subj=%s mt=ocim cfgmt=cfg at= ann= len=%d", name, subj, n), vingDesc{dig: name, mt: "ocim", at: "cfg", size: n}
	}
	for _, m2subj := range []string{"S1", "S2"} {
		l1, a1 := man("m1", "S1")
		l2, a2 := man("m2", m2subj)
		b1 := a1
		b1.size++
		alphabet := []vingDesc{a1, a2, b1, {dig: "mX", mt: "ocim", size: 3}}
		lists := [][]vingDesc{{}}
		for lo, k := 0, 0; k < depth; k++ {
			hi := len(lists)
			for _, l := range lists[lo:hi] {
				for _, d := range alphabet {
					lists = append(lists, append(append([]vingDesc{}, l...), d))
				}
			}
			lo = hi
		}
		olds := [][]vingDesc{nil, {a1}, {a2}, {b1}}
		idxLine := func(l []vingDesc) string {
			if len(l) == 0 {
				return "IDX"
			}
			p := []string{}
			for _, d := range l {
				p = append(p, d.String())
			}
			return "IDX " + strings.Join(p, ",")
		}
		for _, old := range olds {
			for _, f1 := range lists {
				for k2 := -1; k2 < len(lists); k2++ {
					g.emit("NEW")
					g.emit(l1)
					g.emit(l2)
					g.emit(fmt.Sprintf("TOP dig=m1 mt=ocim tag=t1 subj= size=%d", a1.size))
					if old != nil {
						g.emit(idxLine(old))
						g.emit("TOP dig=" + vingIdxName(old) + " mt=ocii tag= subj=S1 size=0")
					}
					g.emit(idxLine(f1))
					g.emit("TOP dig=" + vingIdxName(f1) + " mt=ocii tag=fbS1 subj= size=0")
					if k2 >= 0 {
						g.emit(idxLine(lists[k2]))
						g.emit("TOP dig=" + vingIdxName(lists[k2]) + " mt=ocii tag=fbS2 subj= size=0")
					}
					g.emit("INGEST store=mem")
					g.emit("INGEST store=dir")
					g.emit("REOPEN store=dir")
					g.emit("CRASH store=dir k=1")
					g.emit("CRASH store=dir k=2")
				}
			}
		}
	}
}

// byte length of the document a MAN line defines (the answer to a wrong len= names the right one)
func vingProbeLen(h *vingH, line string) int {
	p := &vingH{byTok: h.byTok, tokOf: map[digest.Digest]string{}, tagTok: map[string]string{}, monCount: map[string]int{}}
	out := p.apply(line)
	if strings.HasPrefix(out, "bad-len ") {
		n, _ := strconv.Atoi(out[len("bad-len "):])
		return n
	}
	return 0
}

func TestVerifIngest(t *testing.T) {
	mode := os.Getenv("VERIF_MODE")
	if mode == "" {
		t.Skip("harness not requested")
	}
	seed, _ := strconv.Atoi(os.Getenv("VERIF_SEED"))
	n, _ := strconv.Atoi(os.Getenv("VERIF_N"))
	implF, err := os.Create(os.Getenv("VERIF_IMPL"))
	if err != nil {
		t.Fatal(err)
	}
	monF, err := os.Create(os.Getenv("VERIF_MON"))
	if err != nil {
		t.Fatal(err)
	}
	impl := bufio.NewWriterSize(implF, 1<<20)
	mon := bufio.NewWriterSize(monF, 1<<16)
	work := os.Getenv("VERIF_WORK")
	if work == "" {
		work = "/verif/.work/ingest"
	}
	work = filepath.Join(work, fmt.Sprintf("run-%d", os.Getpid()))
	if err := os.MkdirAll(work, 0o755); err != nil {
		t.Fatal(err)
	}
	h := &vingH{mon: mon, monCount: map[string]int{}, work: work}
	h.reset()
	defer func() {
		impl.Flush()
		mon.Flush()
		implF.Close()
		monF.Close()
		_ = os.RemoveAll(work)
	}()
	if mode == "replay" {
		f, err := os.Open(os.Getenv("VERIF_OPS"))
		if err != nil {
			t.Fatal(err)
		}
		defer f.Close()
		sc := bufio.NewScanner(f)
		sc.Buffer(make([]byte, 1<<20), 1<<24)
		for sc.Scan() {
			fmt.Fprintln(impl, h.apply(sc.Text()))
		}
		return
	}
	opsF, err := os.Create(os.Getenv("VERIF_OPS"))
	if err != nil {
		t.Fatal(err)
	}
	ops := bufio.NewWriterSize(opsF, 1<<20)
	defer func() { ops.Flush(); opsF.Close() }()
	g := &vingGen{r: rand.New(rand.NewSource(int64(seed)))}
	g.emit = func(line string) {
		fmt.Fprintln(ops, line)
		fmt.Fprintln(impl, h.apply(line))
	}
	switch mode {
	case "gen":
		for c := 0; c < n; c++ {
			g.layout(h)
		}
	case "enum":
		depth, _ := strconv.Atoi(os.Getenv("VERIF_DEPTH"))
		g.enum(h, depth)
	}
	for k, v := range h.monCount {
		t.Logf("monitor %s fired %d times", k, v)
	}
	t.Logf("hangs: %d", h.hangs)
}
