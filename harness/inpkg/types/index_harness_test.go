package types

// Correspondence harness for types.Index (C18, C03): injected into package types with `go test -overlay`.
// It interprets the line protocol of lean/Drivers/IndexMain.lean on the real Index, writes the request
// lines, the implementation's answers and the verdicts of the statement-level monitors.
//
//	VERIF_MODE   gen | tree | replay
//	VERIF_OPS    request lines   (written by gen/tree, read by replay)
//	VERIF_IMPL   implementation answers, one per request line that has an answer
//	VERIF_MON    monitor lines "MON <line-no> <monitor> <detail>"
//	VERIF_SEED VERIF_N VERIF_DEPTH
import (
	"bufio"
	"encoding/json"
	"fmt"
	"math/rand"
	"os"
	"sort"
	"strconv"
	"strings"
	"testing"

	"github.com/opencontainers/go-digest"
)

var vDigs = map[int]digest.Digest{}
var vDigID = map[digest.Digest]int{}

func vdg(i int) digest.Digest {
	if i == 0 {
		return ""
	}
	if d, ok := vDigs[i]; ok {
		return d
	}
	d := digest.FromString(fmt.Sprint("content-", i))
	vDigs[i] = d
	vDigID[d] = i
	return d
}

var vMts = map[int]string{1: MediaTypeOCI1Manifest, 2: MediaTypeOCI1ManifestList}
var vMtID = map[string]int{MediaTypeOCI1Manifest: 1, MediaTypeOCI1ManifestList: 2}

type vD struct{ dig, mt, size, nl, tag, subj, other int }

func (d vD) toks() string {
	return fmt.Sprintf("%d %d %d %d %d %d %d", d.dig, d.mt, d.size, d.nl, d.tag, d.subj, d.other)
}
func (d vD) desc() Descriptor {
	r := Descriptor{MediaType: vMts[d.mt], Digest: vdg(d.dig), Size: int64(d.size)}
	if d.nl == 0 {
		r.Annotations = map[string]string{}
		if d.tag != 0 {
			r.Annotations[AnnotRefName] = "t" + strconv.Itoa(d.tag)
		}
		if d.subj != 0 {
			r.Annotations[AnnotReferrerSubject] = "s" + strconv.Itoa(d.subj)
		}
		for k := 0; k < d.other; k++ {
			r.Annotations["x"+strconv.Itoa(k)] = "y"
		}
	}
	return r
}
func vParse(t []string) (vD, []string) {
	if len(t) < 7 {
		return vD{}, nil
	}
	n := make([]int, 7)
	for i := 0; i < 7; i++ {
		n[i], _ = strconv.Atoi(t[i])
	}
	return vD{n[0], n[1], n[2], n[3], n[4], n[5], n[6]}, t[7:]
}
func vCanon(d Descriptor) string {
	nl, tag, subj, other := 1, 0, 0, 0
	if d.Annotations != nil {
		nl = 0
		for k, v := range d.Annotations {
			switch k {
			case AnnotRefName:
				tag, _ = strconv.Atoi(v[1:])
			case AnnotReferrerSubject:
				subj, _ = strconv.Atoi(v[1:])
			default:
				other++
			}
		}
	}
	return fmt.Sprintf("%d:%d:%d:%d:%d:%d:%d", vDigID[d.Digest], vMtID[d.MediaType], d.Size, nl, tag, subj, other)
}
func vState(i *Index) string {
	parts := []string{}
	for _, m := range i.Manifests {
		parts = append(parts, vCanon(m))
	}
	cs := []string{}
	for _, m := range i.childManifests {
		cs = append(cs, vCanon(m))
	}
	return "M[" + strings.Join(parts, " ") + "] C[" + strings.Join(cs, " ") + "]"
}

// vH is the interpreter state: the real index plus the shadow specification used by the monitors.
type vH struct {
	idx      *Index
	tagOwner map[int]int // tag -> digest of the last insertion under it that was not removed since
	maxDig   int
	maxTag   int
	maxSubj  int
	stack    []vSaved
	lineNo   int
	mon      *bufio.Writer
	monCount map[string]int
}
type vSaved struct {
	idx      Index
	tagOwner map[int]int
}

func cpMap(m map[int]int) map[int]int {
	r := map[int]int{}
	for k, v := range m {
		r[k] = v
	}
	return r
}

func (h *vH) flag(name, detail string) {
	h.monCount[name]++
	if h.mon != nil {
		fmt.Fprintf(h.mon, "MON %d %s %s\n", h.lineNo, name, detail)
	}
}

func (h *vH) note(d vD) {
	if d.dig > h.maxDig {
		h.maxDig = d.dig
	}
	if d.tag > h.maxTag {
		h.maxTag = d.tag
	}
	if d.subj > h.maxSubj {
		h.maxSubj = d.subj
	}
}

// invariants of C18 that hold after every operation
func (h *vH) checkInv() {
	tagCount := map[string]int{}
	subjCount := map[string]int{}
	untagged := map[digest.Digest]int{}
	top := map[digest.Digest]bool{}
	for _, m := range h.idx.Manifests {
		top[m.Digest] = true
		t, s := "", ""
		if m.Annotations != nil {
			t, s = m.Annotations[AnnotRefName], m.Annotations[AnnotReferrerSubject]
		}
		if t != "" {
			tagCount[t]++
		}
		if s != "" {
			subjCount[s]++
		}
		if t == "" && s == "" {
			untagged[m.Digest]++
		}
	}
	for t, c := range tagCount {
		if c > 1 {
			h.flag("tag-unique", fmt.Sprintf("tag %s names %d entries", t, c))
		}
	}
	for s, c := range subjCount {
		if c > 1 {
			h.flag("subject-unique", fmt.Sprintf("subject %s has %d responses", s, c))
		}
	}
	for d, c := range untagged {
		if c > 1 {
			h.flag("untagged-once", fmt.Sprintf("digest %d listed untagged %d times", vDigID[d], c))
		}
	}
	// lookup by tag returns the last insertion for it
	for t := 1; t <= h.maxTag; t++ {
		d, err := h.idx.GetDesc("t" + strconv.Itoa(t))
		want, has := h.tagOwner[t]
		if has && (err != nil || vDigID[d.Digest] != want) {
			got := "none"
			if err == nil {
				got = strconv.Itoa(vDigID[d.Digest])
			}
			h.flag("tag-last", fmt.Sprintf("tag t%d should resolve to %d, got %s", t, want, got))
		}
		if !has && err == nil {
			h.flag("tag-last", fmt.Sprintf("tag t%d was removed but resolves to %d", t, vDigID[d.Digest]))
		}
	}
	// lookup by digest succeeds exactly for digests at top level or recorded as children
	child := map[digest.Digest]bool{}
	for _, c := range h.idx.childManifests {
		child[c.Digest] = true
	}
	for g := 1; g <= h.maxDig; g++ {
		_, err := h.idx.GetDesc(vdg(g).String())
		want := top[vdg(g)] || child[vdg(g)]
		if (err == nil) != want {
			h.flag("get-digest-iff", fmt.Sprintf("digest %d: lookup ok=%v, present=%v", g, err == nil, want))
		}
	}
}

func (h *vH) apply(line string) (string, bool) {
	h.lineNo++
	t := strings.Fields(line)
	if len(t) == 0 {
		return "bad-op", true
	}
	switch t[0] {
	case "SAVE":
		h.stack = append(h.stack, vSaved{h.idx.Copy(), cpMap(h.tagOwner)})
		return "", false
	case "RESTORE":
		if n := len(h.stack); n > 0 {
			sv := h.stack[n-1]
			h.stack = h.stack[:n-1]
			ix := sv.idx
			h.idx, h.tagOwner = &ix, sv.tagOwner
		}
		return "", false
	case "NEW":
		h.idx, h.tagOwner, h.stack = &Index{}, map[int]int{}, nil
		h.maxDig, h.maxTag, h.maxSubj = 0, 0, 0
		return "M[] C[]", true
	case "A":
		d, more := vParse(t[1:])
		h.note(d)
		opts := []IndexOpt{}
		if len(more) > 0 {
			cs := []Descriptor{}
			for len(more) >= 7 {
				var cd vD
				cd, more = vParse(more)
				h.note(cd)
				cs = append(cs, cd.desc())
			}
			opts = append(opts, IndexWithChildren(cs))
		}
		var named []Descriptor
		if len(opts) > 0 {
			conf := indexConf{}
			opts[0](&conf)
			named = conf.children
		}
		h.idx.AddDesc(d.desc(), opts...)
		if d.nl == 0 && d.tag != 0 {
			h.tagOwner[d.tag] = d.dig
		}
		// an insertion made with the children option records them: the inserted digest and every named child are found by
		// digest afterwards (at top level or as child records), whatever the index held before
		if _, err := h.idx.GetDesc(d.desc().Digest.String()); err != nil && d.dig != 0 {
			h.flag("get-digest-iff", fmt.Sprintf("digest %d was just inserted and is not found", d.dig))
		}
		for _, c := range named {
			if _, err := h.idx.GetDesc(c.Digest.String()); err != nil && c.Digest != "" {
				h.flag("get-digest-iff", fmt.Sprintf("child %d named by the insertion of %d is not found by digest", vDigID[c.Digest], d.dig))
			}
		}
		h.checkInv()
		return vState(h.idx), true
	case "R":
		d, _ := vParse(t[1:])
		h.note(d)
		wasTop := false
		for _, m := range h.idx.Manifests {
			if d.dig != 0 && m.Digest == vdg(d.dig) {
				wasTop = true
			}
		}
		h.idx.RmDesc(d.desc())
		tag := 0
		if d.nl == 0 {
			tag = d.tag
		}
		switch {
		case d.dig != 0 && tag != 0:
			if h.tagOwner[tag] == d.dig {
				delete(h.tagOwner, tag)
			}
			// removing a tag keeps the digest reachable
			if wasTop {
				if _, err := h.idx.GetDesc(vdg(d.dig).String()); err != nil {
					h.flag("rm-tag-keeps-digest", fmt.Sprintf("digest %d unreachable after removing tag t%d", d.dig, tag))
				}
			}
		case d.dig != 0:
			for t2, g := range h.tagOwner {
				if g == d.dig {
					delete(h.tagOwner, t2)
				}
			}
			// removing a digest removes every reference to it
			for _, m := range h.idx.Manifests {
				if m.Digest == vdg(d.dig) {
					h.flag("rm-digest-all", fmt.Sprintf("digest %d still listed", d.dig))
				}
			}
			for _, m := range h.idx.childManifests {
				if m.Digest == vdg(d.dig) {
					h.flag("rm-digest-all", fmt.Sprintf("digest %d still a child", d.dig))
				}
			}
		case tag != 0:
			delete(h.tagOwner, tag)
		}
		h.checkInv()
		return vState(h.idx), true
	case "C":
		rest := t[1:]
		cs := []Descriptor{}
		for len(rest) >= 7 {
			var cd vD
			cd, rest = vParse(rest)
			h.note(cd)
			cs = append(cs, cd.desc())
		}
		h.idx.AddChildren(cs)
		h.checkInv()
		return vState(h.idx), true
	case "J":
		b, _ := json.Marshal(h.idx)
		n2 := &Index{}
		_ = json.Unmarshal(b, n2)
		h.idx = n2
		h.checkInv()
		return vState(h.idx), true
	case "GT":
		n, _ := strconv.Atoi(t[1])
		d, err := h.idx.GetDesc("t" + strconv.Itoa(n))
		if err != nil {
			return "none", true
		}
		return vCanon(d), true
	case "GD":
		n, _ := strconv.Atoi(t[1])
		d, err := h.idx.GetDesc(vdg(n).String())
		if err != nil {
			return "none", true
		}
		return vCanon(d), true
	case "GS":
		n, _ := strconv.Atoi(t[1])
		d, err := h.idx.GetByAnnotation(AnnotReferrerSubject, "s"+strconv.Itoa(n))
		if err != nil {
			return "none", true
		}
		return vCanon(d), true
	case "CP":
		// copies are independent of the original: mutate everything reachable from a copy
		before := vDeep(h.idx)
		c := h.idx.Copy()
		vScribble(&c)
		if after := vDeep(h.idx); after != before {
			h.flag("copy-independent", "original changed after mutating a copy")
		}
		// growing one copy must not show in another copy (nor, later, in the original): spare capacity of the original's
		// slices must not be shared
		c1, c2 := h.idx.Copy(), h.idx.Copy()
		c1.childManifests = append(c1.childManifests, Descriptor{MediaType: MediaTypeOCI1Manifest, Digest: vdg(9001), Size: 1})
		c1.Manifests = append(c1.Manifests, Descriptor{MediaType: MediaTypeOCI1Manifest, Digest: vdg(9001), Size: 1})
		grown := vDeep(&c1)
		c2.childManifests = append(c2.childManifests, Descriptor{MediaType: MediaTypeOCI1Manifest, Digest: vdg(9002), Size: 2})
		c2.Manifests = append(c2.Manifests, Descriptor{MediaType: MediaTypeOCI1Manifest, Digest: vdg(9002), Size: 2})
		if vDeep(&c1) != grown {
			h.flag("copy-independent", "a copy changed when another copy of the same index grew (shared spare capacity)")
		}
		if after := vDeep(h.idx); after != before {
			h.flag("copy-independent", "original changed after copies grew")
		}
		return "ok", true
	case "CPX":
		n, _ := strconv.Atoi(t[1])
		ix := vRich(n)
		before := vDeep(&ix)
		c := ix.Copy()
		if vDeep(&c) != before {
			h.flag("copy-equal", "copy differs from the original")
		}
		vScribble(&c)
		if after := vDeep(&ix); after != before {
			h.flag("copy-independent", "original changed after mutating a copy (rich descriptors)")
		}
		return "ok", true
	}
	return "bad-op", true
}

func vRich(n int) Index {
	mk := func(k int) Descriptor {
		d := Descriptor{MediaType: MediaTypeOCI1Manifest, Digest: vdg(100 + k), Size: int64(k)}
		if (n>>0)&1 == 1 {
			d.URLs = []string{"u1", "u2"}
		}
		if (n>>1)&1 == 1 {
			d.Data = []byte{1, 2, 3}
		}
		if (n>>2)&1 == 1 {
			d.Platform = &Platform{OS: "linux", Architecture: "amd64", OSFeatures: []string{"a"}, Features: []string{"b", "c"}}
		}
		if (n>>3)&1 == 1 {
			d.Annotations = map[string]string{"k": "v"}
		}
		return d
	}
	ix := Index{SchemaVersion: 2, Manifests: []Descriptor{mk(1), mk(2)}}
	ix.childManifests = []Descriptor{mk(3)}
	if (n>>4)&1 == 1 {
		s := mk(4)
		ix.Subject = &s
	}
	if (n>>5)&1 == 1 {
		ix.Annotations = map[string]string{"a": "b"}
	}
	return ix
}

func vDeepDesc(d Descriptor) string {
	ks := []string{}
	for k, v := range d.Annotations {
		ks = append(ks, k+"="+v)
	}
	sort.Strings(ks)
	p := ""
	if d.Platform != nil {
		p = fmt.Sprintf("%s/%s/%v/%v", d.Platform.OS, d.Platform.Architecture, d.Platform.OSFeatures, d.Platform.Features)
	}
	return fmt.Sprintf("{%s %s %d %v %v %v %s nil=%v}", d.MediaType, d.Digest, d.Size, d.URLs, ks, d.Data, p, d.Annotations == nil)
}
func vDeep(i *Index) string {
	sb := strings.Builder{}
	for _, m := range i.Manifests {
		sb.WriteString(vDeepDesc(m))
	}
	sb.WriteString("|")
	for _, m := range i.childManifests {
		sb.WriteString(vDeepDesc(m))
	}
	if i.Subject != nil {
		sb.WriteString("|S" + vDeepDesc(*i.Subject))
	}
	ks := []string{}
	for k, v := range i.Annotations {
		ks = append(ks, k+"="+v)
	}
	sort.Strings(ks)
	sb.WriteString(fmt.Sprint("|", ks))
	return sb.String()
}
func vScribbleDesc(d *Descriptor) {
	if d.Annotations != nil {
		d.Annotations["zz"] = "scribble"
		delete(d.Annotations, AnnotRefName)
	}
	for i := range d.URLs {
		d.URLs[i] = "scribble"
	}
	for i := range d.Data {
		d.Data[i] ^= 0xff
	}
	if d.Platform != nil {
		d.Platform.OS = "scribble"
		for i := range d.Platform.OSFeatures {
			d.Platform.OSFeatures[i] = "scribble"
		}
		for i := range d.Platform.Features {
			d.Platform.Features[i] = "scribble"
		}
	}
	d.Size = -1
}
func vScribble(c *Index) {
	for i := range c.Manifests {
		vScribbleDesc(&c.Manifests[i])
	}
	for i := range c.childManifests {
		vScribbleDesc(&c.childManifests[i])
	}
	if c.Subject != nil {
		vScribbleDesc(c.Subject)
	}
	if c.Annotations != nil {
		c.Annotations["zz"] = "scribble"
	}
}

func vRandD(r *rand.Rand, nd, nt, ns int) vD {
	d := vD{dig: 1 + r.Intn(nd), mt: 1 + r.Intn(2), size: 10 * (1 + r.Intn(3)), nl: 1}
	switch r.Intn(6) {
	case 0, 1: // tagged
		d.nl, d.tag = 0, 1+r.Intn(nt)
	case 2: // referrer response
		d.nl, d.subj, d.mt = 0, 1+r.Intn(ns), 2
	case 3: // empty map
		d.nl = 0
	case 4: // other annotation only
		if r.Intn(3) == 0 {
			d.nl, d.other = 0, 1
		}
	}
	return d
}

func TestVerifIndex(t *testing.T) {
	mode := os.Getenv("VERIF_MODE")
	if mode == "" {
		t.Skip("harness not requested")
	}
	seed, _ := strconv.Atoi(os.Getenv("VERIF_SEED"))
	n, _ := strconv.Atoi(os.Getenv("VERIF_N"))
	depth, _ := strconv.Atoi(os.Getenv("VERIF_DEPTH"))
	implF, err := os.Create(os.Getenv("VERIF_IMPL"))
	if err != nil {
		t.Fatal(err)
	}
	monF, err := os.Create(os.Getenv("VERIF_MON"))
	if err != nil {
		t.Fatal(err)
	}
	impl := bufio.NewWriterSize(implF, 1<<20)
	mon := bufio.NewWriterSize(monF, 1<<16)
	h := &vH{idx: &Index{}, tagOwner: map[int]int{}, mon: mon, monCount: map[string]int{}}
	defer func() {
		impl.Flush()
		mon.Flush()
		implF.Close()
		monF.Close()
	}()
	if mode == "replay" {
		f, err := os.Open(os.Getenv("VERIF_OPS"))
		if err != nil {
			t.Fatal(err)
		}
		defer f.Close()
		sc := bufio.NewScanner(f)
		sc.Buffer(make([]byte, 1<<20), 1<<24)
		for sc.Scan() {
			if out, has := h.apply(sc.Text()); has {
				fmt.Fprintln(impl, out)
			}
		}
		return
	}
	opsF, err := os.Create(os.Getenv("VERIF_OPS"))
	if err != nil {
		t.Fatal(err)
	}
	ops := bufio.NewWriterSize(opsF, 1<<20)
	defer func() { ops.Flush(); opsF.Close() }()
	emit := func(line string) {
		fmt.Fprintln(ops, line)
		if out, has := h.apply(line); has {
			fmt.Fprintln(impl, out)
		}
	}
	switch mode {
	case "gen":
		r := rand.New(rand.NewSource(int64(seed)))
		for s := 0; s < n; s++ {
			emit("NEW")
			nd, nt, ns := 2+r.Intn(3), 1+r.Intn(3), 1+r.Intn(2)
			k := 3 + r.Intn(14)
			for j := 0; j < k; j++ {
				switch r.Intn(12) {
				case 0, 1, 2, 3:
					d := vRandD(r, nd, nt, ns)
					line := "A " + d.toks()
					if r.Intn(4) == 0 {
						for c := 0; c < 1+r.Intn(2); c++ {
							cd := vD{dig: 1 + r.Intn(nd), mt: 1, size: 10, nl: 1}
							line += " " + cd.toks()
						}
					}
					emit(line)
				case 4, 5, 6:
					d := vRandD(r, nd, nt, ns)
					d.other = 0
					switch r.Intn(4) {
					case 0: // by digest only
						d.nl, d.tag, d.subj = 1, 0, 0
					case 1: // by tag or subject alone
						d.dig = 0
					}
					emit("R " + d.toks())
				case 7:
					cd := vD{dig: 1 + r.Intn(nd), mt: 1, size: 10, nl: 1}
					emit("C " + cd.toks())
				case 8:
					if r.Intn(3) == 0 {
						emit("J")
					}
				case 9:
					switch r.Intn(3) {
					case 0:
						emit("GT " + strconv.Itoa(1+r.Intn(nt)))
					case 1:
						emit("GD " + strconv.Itoa(1+r.Intn(nd)))
					case 2:
						emit("GS " + strconv.Itoa(1+r.Intn(ns)))
					}
				case 10:
					emit("CP")
				case 11:
					emit("CPX " + strconv.Itoa(r.Intn(64)))
				}
			}
		}
	case "tree":
		// exhaustive small scope: every sequence of length <= depth over the alphabet, as a DFS with SAVE/RESTORE
		alphabet := []string{}
		for dig := 1; dig <= 2; dig++ {
			alphabet = append(alphabet, "A "+vD{dig: dig, mt: 1, size: 10, nl: 1}.toks())
			alphabet = append(alphabet, "R "+vD{dig: dig, mt: 1, size: 10, nl: 1}.toks())
			for tag := 1; tag <= 2; tag++ {
				alphabet = append(alphabet, "A "+vD{dig: dig, mt: 1, size: 10, tag: tag}.toks())
				alphabet = append(alphabet, "R "+vD{dig: dig, mt: 1, size: 10, tag: tag}.toks())
			}
		}
		if os.Getenv("VERIF_ALPHABET") == "wide" {
			alphabet = append(alphabet, "J")
			alphabet = append(alphabet, "A "+vD{dig: 1, mt: 2, size: 10, subj: 1}.toks())
			alphabet = append(alphabet, "A "+vD{dig: 2, mt: 2, size: 10, subj: 1}.toks())
			alphabet = append(alphabet, "R "+vD{dig: 0, mt: 2, size: 10, subj: 1}.toks())
			alphabet = append(alphabet, "A "+vD{dig: 1, mt: 1, size: 10}.toks())
			alphabet = append(alphabet, "A "+vD{dig: 2, mt: 1, size: 10, nl: 1}.toks()+" "+vD{dig: 1, mt: 1, size: 10, nl: 1}.toks())
		}
		emit("NEW")
		var dfs func(k int)
		dfs = func(k int) {
			if k == 0 {
				return
			}
			for _, o := range alphabet {
				emit("SAVE")
				emit(o)
				dfs(k - 1)
				emit("RESTORE")
			}
		}
		dfs(depth)
	}
	for k, v := range h.monCount {
		t.Logf("monitor %s fired %d times", k, v)
	}
}
