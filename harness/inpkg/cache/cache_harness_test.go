package cache

// Correspondence harness for internal/cache (C20): injected into package cache with `go test -overlay`.
// It interprets the line protocol of lean/Drivers/CacheMain.lean on the real Cache, writes the request
// lines, the implementation's answers and the verdicts of the statement-level monitors.
//
//	VERIF_MODE   gen | win | enum | replay
//	VERIF_OPS    request lines   (written by gen/win/enum, read by replay)
//	VERIF_IMPL   implementation answers, one per request line
//	VERIF_MON    monitor lines "MON <line-no> <monitor> <detail>"
//	VERIF_SEED VERIF_N VERIF_DEPTH VERIF_MINCOUNT VERIF_TIMER VERIF_ALPHABET
//
// Requests (k key, v value, now logical time, t thread, r 0|1, "! f…" keys whose cleanup fails in this request):
//
//	NEW age count fn | SET k v now ! f… | GET k now | DEL k ! f… | DELALL ! f… | AGE now ! f… | COUNT now ! f…
//	LIST | EMPTY | MINCOUNT lo hi | TIMER ms | DBEGIN t k | DEND t r | ABEGIN t k ! f… | AEND t r
//
// Time.  The cache reads time.Now() itself.  Before every request the harness overwrites the `used` stamp of
// every entry with a real time that encodes the entry's logical last use (one tick = one hour, half an hour
// of slack so that no comparison sits on a boundary, key microseconds to break ties by key), and after the
// request it decodes the stamps the implementation left behind.  The logical last use that is printed and fed
// to the monitors is therefore the implementation's own.  pruneAge / pruneCount are called directly (the
// timer would fire after hours); the goroutine that Set starts for the count prune is awaited.
//
// Interleavings.  DBEGIN/DEND run Delete(k) on its own goroutine with a callback that blocks until DEND: the
// requests in between land in the window in which Delete has released the mutex.  ABEGIN/AEND do the same
// for DeleteAll stopped inside the callback of one key.
import (
	"bufio"
	"errors"
	"fmt"
	"math/rand"
	"os"
	"runtime"
	"sort"
	"strconv"
	"strings"
	"sync"
	"testing"
	"time"
)

const (
	vTick  = time.Hour
	vSlack = 30 * time.Minute
)

var errVScripted = errors.New("scripted cleanup error")

type vCall struct {
	k, v int
	fail bool
}

type vEnt struct{ v, lu int }

type vThread struct {
	id      int
	all     bool // DeleteAll
	focus   int
	blocked bool // has been stopped once (a DeleteAll stops at most once)
	ev      chan string
	release chan bool
	err     error
	pendK   int
	pendV   int
	calls   []vCall
}

type vH struct {
	c       *Cache[int, int]
	age     int
	count   int
	hasFn   bool
	mu      sync.Mutex // guards everything the callback touches
	fails   map[int]bool
	cur     *vThread
	req     []vCall // callback invocations completed during the current request, in order
	threads map[int]*vThread
	lu      map[int]int
	uses    map[int]int // last SET or GET hit of each present key by the harness clock (independent of the stamps)
	clock   int
	base    int // goroutines that exist when the harness is idle
	lineNo  int
	mon     *bufio.Writer
	monCnt  map[string]int
}

func (h *vH) flag(name, detail string) {
	h.monCnt[name]++
	if h.mon != nil {
		fmt.Fprintf(h.mon, "MON %d %s %s\n", h.lineNo, name, detail)
	}
}

// the cleanup callback handed to the cache
func (h *vH) prune(k, v int) error {
	h.mu.Lock()
	th := h.cur
	if th == nil {
		f := h.fails[k]
		h.req = append(h.req, vCall{k, v, f})
		h.mu.Unlock()
		if f {
			return errVScripted
		}
		return nil
	}
	if th.all && (k != th.focus || th.blocked) {
		c := vCall{k, v, true}
		th.calls = append(th.calls, c)
		h.req = append(h.req, c)
		h.mu.Unlock()
		return errVScripted
	}
	th.blocked, th.pendK, th.pendV = true, k, v
	h.mu.Unlock()
	th.ev <- "cb"
	fail := <-th.release
	h.mu.Lock()
	c := vCall{k, v, fail}
	th.calls = append(th.calls, c)
	h.req = append(h.req, c)
	h.mu.Unlock()
	if fail {
		return errVScripted
	}
	return nil
}

// wait until every goroutine the cache started (go c.pruneCount()) and every finished thread is gone
func (h *vH) quiesce() {
	want := h.base + len(h.threads)
	for i := 0; runtime.NumGoroutine() > want; i++ {
		if i < 200 {
			runtime.Gosched()
		} else {
			time.Sleep(20 * time.Microsecond)
		}
		if i > 2000000 {
			panic("verif harness: cache goroutines do not finish")
		}
	}
}

func (h *vH) restamp() {
	if h.c == nil {
		return
	}
	h.c.mu.Lock()
	real := time.Now()
	for k, e := range h.c.entries {
		e.used = real.Add(-time.Duration(h.clock-h.lu[k])*vTick + vSlack + time.Duration(k)*time.Microsecond)
	}
	h.c.mu.Unlock()
}

// the entries as the implementation holds them, last use decoded from its stamps
func (h *vH) snapshot() map[int]vEnt {
	r := map[int]vEnt{}
	if h.c == nil {
		return r
	}
	h.c.mu.Lock()
	real := time.Now()
	for k, e := range h.c.entries {
		ticks := int((real.Sub(e.used) + vSlack + vTick/4) / vTick)
		if real.Sub(e.used)+vSlack+vTick/4 < 0 {
			ticks = -1
		}
		r[k] = vEnt{e.value, h.clock - ticks}
	}
	h.c.mu.Unlock()
	return r
}

func vFmtEnts(m map[int]vEnt) string {
	ks := make([]int, 0, len(m))
	for k := range m {
		ks = append(ks, k)
	}
	sort.Ints(ks)
	p := make([]string, len(ks))
	for i, k := range ks {
		p[i] = fmt.Sprintf("%d:%d:%d", k, m[k].v, m[k].lu)
	}
	return "[" + strings.Join(p, " ") + "]"
}

func vFmtCalls(cs []vCall, sorted bool) string {
	cs = append([]vCall{}, cs...)
	if sorted {
		sort.SliceStable(cs, func(i, j int) bool {
			if cs[i].k != cs[j].k {
				return cs[i].k < cs[j].k
			}
			return cs[i].v < cs[j].v
		})
	}
	p := make([]string, len(cs))
	for i, c := range cs {
		f := 0
		if c.fail {
			f = 1
		}
		p[i] = fmt.Sprintf("%d:%d:%d", c.k, c.v, f)
	}
	return "[" + strings.Join(p, " ") + "]"
}

func (h *vH) fmtPend() string {
	ts := make([]int, 0, len(h.threads))
	for t := range h.threads {
		ts = append(ts, t)
	}
	sort.Ints(ts)
	p := make([]string, len(ts))
	for i, t := range ts {
		p[i] = fmt.Sprintf("%d:%d:%d", t, h.threads[t].pendK, h.threads[t].pendV)
	}
	return "[" + strings.Join(p, " ") + "]"
}

func (h *vH) answer(after map[int]vEnt, calls []vCall, sorted bool, err bool, extra string) string {
	e := 0
	if err {
		e = 1
	}
	return fmt.Sprintf("ents=%s calls=%s err=%d pend=%s%s", vFmtEnts(after), vFmtCalls(calls, sorted), e, h.fmtPend(), extra)
}

// release every thread that is still inside a callback (end of a history)
func (h *vH) drain() {
	for t, th := range h.threads {
		h.mu.Lock()
		h.cur = th
		h.mu.Unlock()
		th.release <- true
		<-th.ev
		delete(h.threads, t)
	}
	h.mu.Lock()
	h.cur = nil
	h.mu.Unlock()
	if h.c != nil {
		h.quiesce()
		h.c.mu.Lock()
		if h.c.timer != nil {
			h.c.timer.Stop()
		}
		h.c.mu.Unlock()
	}
}

// statement-level monitors of C20 on one request: `before` is the map the request starts to remove from
// (for SET: after the assignment — overwriting a key is an update, not a removal), `after` the map it left.
func (h *vH) monitors(op string, now int, before, after map[int]vEnt, calls []vCall) {
	failed := map[int]bool{}
	anyFail := false
	for _, c := range calls {
		if c.fail {
			anyFail = true
			failed[c.k] = true
			// a cleanup that reported an error keeps the entry
			if b, ok := before[c.k]; ok && b.v == c.v {
				if a, ok := after[c.k]; !ok || a.v != c.v {
					h.flag("failed-cleanup-removed", fmt.Sprintf("%s: cleanup of %d:%d failed but the entry is gone", op, c.k, c.v))
				}
			}
		}
	}
	removed := []int{}
	for k, b := range before {
		if a, ok := after[k]; ok && a.v == b.v {
			continue
		}
		removed = append(removed, k)
		if h.hasFn {
			cleaned := false
			for _, c := range calls {
				if c.k == k && c.v == b.v && !c.fail {
					cleaned = true
				}
			}
			if !cleaned {
				h.flag("removed-without-cleanup", fmt.Sprintf("%s: entry %d:%d removed, no successful cleanup of it", op, k, b.v))
			}
		}
	}
	sort.Ints(removed)
	switch op {
	case "AGE":
		for _, k := range removed {
			if h.age == 0 || before[k].lu+h.age >= now {
				h.flag("expired-early", fmt.Sprintf("entry %d last used at %d expired at %d, age %d", k, before[k].lu, now, h.age))
			}
		}
	case "COUNT", "SET":
		for _, k := range removed {
			for e, b := range before {
				if _, kept := after[e]; kept && !failed[e] && b.lu < before[k].lu {
					h.flag("not-lru-first", fmt.Sprintf("%s: entry %d (last use %d) evicted while %d (last use %d) stays", op, k, before[k].lu, e, b.lu))
				}
				// the same by the uses the harness has made itself (SET and GET hits), not by the stamps read back
				ue, oke := h.uses[e]
				uk, okk := h.uses[k]
				if _, kept := after[e]; kept && !failed[e] && oke && okk && ue < uk {
					h.flag("not-lru-first", fmt.Sprintf("%s: entry %d (used at %d) evicted while %d (used at %d) stays", op, k, uk, e, ue))
				}
			}
		}
	}
	if op == "SET" && h.count > 0 && len(before) > h.count && !anyFail && len(after) > h.count {
		h.flag("not-pruned-to-limit", fmt.Sprintf("limit %d, %d entries after the insertion, %d after the prune", h.count, len(before), len(after)))
	}
}

// validation with the real timer and the real clock: a separate cache with a short Age; the cleanup records
// when it runs.  Only the robust direction is judged: the callback of an entry must not run before
// (a time taken before its last use) + Age.  Lateness is never judged.
func (h *vH) realTimer(age time.Duration) {
	var mu sync.Mutex
	at := map[int]time.Time{}
	c := New[int, int](Opts[int, int]{Age: age, PruneFn: func(k, v int) error {
		mu.Lock()
		at[k] = time.Now()
		mu.Unlock()
		return nil
	}})
	last := map[int]time.Time{}
	last[1] = time.Now()
	c.Set(1, 1)
	time.Sleep(age / 2)
	last[2] = time.Now()
	c.Set(2, 2)
	time.Sleep(age / 4)
	t := time.Now()
	if _, err := c.Get(1); err == nil {
		last[1] = t
	}
	for i := 0; i < 400; i++ {
		mu.Lock()
		n := len(at)
		mu.Unlock()
		if n == 2 {
			break
		}
		time.Sleep(age / 4)
	}
	// second phase: the cache was emptied by a Delete (which stops the timer); an entry set afterwards expires all the same
	c.Set(3, 3)
	_ = c.Delete(3)
	mu.Lock()
	delete(at, 3)
	mu.Unlock()
	last[4] = time.Now()
	c.Set(4, 4)
	for i := 0; i < 400; i++ {
		mu.Lock()
		_, ok := at[4]
		mu.Unlock()
		if ok {
			break
		}
		time.Sleep(age / 4)
	}
	mu.Lock()
	defer mu.Unlock()
	for k, used := range last {
		if cb, ok := at[k]; !ok {
			h.flag("timer-not-fired", fmt.Sprintf("entry %d still there after %v (age %v)", k, time.Since(used), age))
		} else if cb.Sub(used) < age {
			h.flag("expired-early", fmt.Sprintf("real timer: entry %d cleaned up %v after its last use, age %v", k, cb.Sub(used), age))
		}
	}
	c.mu.Lock()
	if c.timer != nil {
		c.timer.Stop()
	}
	c.mu.Unlock()
}

func vAtoi(s string) int { n, _ := strconv.Atoi(s); return n }

func (h *vH) apply(line string) string {
	h.lineNo++
	toks := strings.Fields(line)
	t, fails := toks, map[int]bool{}
	for i, s := range toks {
		if s == "!" {
			t = toks[:i]
			for _, f := range toks[i+1:] {
				fails[vAtoi(f)] = true
			}
			break
		}
	}
	if len(t) == 0 {
		return "bad-op"
	}
	now := h.clock
	timeArg := map[string]int{"SET": 3, "GET": 2, "AGE": 1, "COUNT": 1}
	arity := map[string]int{"NEW": 4, "SET": 4, "GET": 3, "DEL": 2, "DELALL": 1, "AGE": 2, "COUNT": 2, "LIST": 1, "EMPTY": 1,
		"MINCOUNT": 3, "TIMER": 2, "DBEGIN": 3, "DEND": 3, "ABEGIN": 3, "AEND": 3}
	if arity[t[0]] != len(t) {
		return "bad-op"
	}
	if i, ok := timeArg[t[0]]; ok {
		now = vAtoi(t[i])
		if now <= h.clock {
			return "bad-time"
		}
	}
	if t[0] == "NEW" {
		h.drain()
		h.age, h.count, h.hasFn = vAtoi(t[1]), vAtoi(t[2]), t[3] == "1"
		opts := Opts[int, int]{Age: time.Duration(h.age) * vTick, Count: h.count}
		if h.hasFn {
			opts.PruneFn = h.prune
		}
		h.c = New[int, int](opts)
		h.lu, h.threads, h.clock = map[int]int{}, map[int]*vThread{}, 0
		h.uses = map[int]int{}
		return "new"
	}
	if h.c == nil {
		return "bad-op"
	}
	switch t[0] {
	case "LIST":
		ks, _ := h.c.List()
		sort.Ints(ks)
		p := make([]string, len(ks))
		for i, k := range ks {
			p[i] = strconv.Itoa(k)
		}
		return "list=[" + strings.Join(p, " ") + "]"
	case "EMPTY":
		if h.c.IsEmpty() {
			return "empty=1"
		}
		return "empty=0"
	case "TIMER":
		h.realTimer(time.Duration(vAtoi(t[1])) * time.Millisecond)
		return "ok"
	case "MINCOUNT":
		lo, hi := vAtoi(t[1]), vAtoi(t[2])
		sum := 0
		for c := lo; c <= hi; c++ {
			sum += New[int, int](Opts[int, int]{Count: c}).minCount
			// validation of the arithmetic convention of the model: the float expression of New is ⌊9·Count/10⌋
			if c > 0 && int(float64(c)*0.9) != c*9/10 {
				h.flag("mincount-float", fmt.Sprintf("int(float64(%d)*0.9) = %d, 9*%d/10 = %d", c, int(float64(c)*0.9), c, c*9/10))
			}
		}
		return fmt.Sprintf("sum=%d", sum)
	}
	// ---- requests that may change the map
	h.clock = now
	h.restamp()
	before := h.snapshot()
	h.mu.Lock()
	h.fails, h.req, h.cur = fails, nil, nil
	h.mu.Unlock()
	var err error
	extra, sorted, op := "", false, t[0]
	getHit := -1
	printCalls := func() []vCall { return h.req }
	switch t[0] {
	case "SET":
		k, v := vAtoi(t[1]), vAtoi(t[2])
		h.c.Set(k, v)
		before[k] = vEnt{v, now}
		h.uses[k] = now
	case "GET":
		v, e := h.c.Get(vAtoi(t[1]))
		if e != nil {
			extra = " got=none"
		} else {
			extra = fmt.Sprintf(" got=%d", v)
			h.uses[vAtoi(t[1])] = now
			getHit = vAtoi(t[1])
		}
	case "DEL":
		err = h.c.Delete(vAtoi(t[1]))
	case "DELALL":
		err = h.c.DeleteAll()
		sorted = true
	case "AGE":
		h.c.pruneAge()
		sorted = true
	case "COUNT":
		h.c.pruneCount()
	case "DBEGIN", "ABEGIN":
		tid, k := vAtoi(t[1]), vAtoi(t[2])
		if h.threads[tid] != nil {
			return "busy"
		}
		all := t[0] == "ABEGIN"
		if all && h.hasFn {
			for e := range before {
				if e != k && !fails[e] {
					return "bad-op"
				}
			}
		}
		if all && !h.hasFn {
			err = h.c.DeleteAll()
			sorted, extra = true, " done"
			break
		}
		th := &vThread{id: tid, all: all, focus: k, ev: make(chan string, 1), release: make(chan bool)}
		h.mu.Lock()
		h.cur = th
		h.mu.Unlock()
		go func() {
			if all {
				th.err = h.c.DeleteAll()
			} else {
				th.err = h.c.Delete(k)
			}
			th.ev <- "done"
		}()
		s := <-th.ev
		h.mu.Lock()
		h.cur = nil
		h.mu.Unlock()
		if s == "cb" {
			h.threads[tid] = th
			extra = fmt.Sprintf(" cb=%d:%d", th.pendK, th.pendV)
			if all {
				sorted = true
				printCalls = func() []vCall { return nil } // printed with AEND: before or after the stop is map order
			}
		} else {
			extra, err, sorted = " done", th.err, all
		}
	case "DEND", "AEND":
		tid := vAtoi(t[1])
		th := h.threads[tid]
		if th == nil || (t[0] == "AEND" && !th.all) {
			return "idle"
		}
		if t[0] == "DEND" && th.all {
			return "bad-op"
		}
		h.mu.Lock()
		h.cur = th
		h.mu.Unlock()
		th.release <- t[2] != "0"
		<-th.ev
		h.mu.Lock()
		h.cur = nil
		h.mu.Unlock()
		delete(h.threads, tid)
		err, extra = th.err, " done"
		if th.all {
			sorted = true
			printCalls = func() []vCall { return th.calls }
		}
	default:
		return "bad-op"
	}
	h.quiesce()
	after := h.snapshot()
	h.mu.Lock()
	calls := append([]vCall{}, h.req...)
	h.mu.Unlock()
	h.monitors(op, now, before, after, calls)
	if a, ok := after[getHit]; ok && a.lu != now {
		h.flag("use-not-recorded", fmt.Sprintf("GET of entry %d at %d leaves its last use at %d", getHit, now, a.lu))
	}
	for k := range h.uses {
		if _, ok := after[k]; !ok {
			delete(h.uses, k)
		}
	}
	// a cleanup that failed during a prune postpones the entry: the cache counts that as a use
	if op == "SET" || op == "COUNT" || op == "AGE" {
		for _, c := range calls {
			if _, ok := after[c.k]; ok && c.fail {
				h.uses[c.k] = now
			}
		}
	}
	for k := range h.lu {
		delete(h.lu, k)
	}
	for k, e := range after {
		h.lu[k] = e.lu
	}
	h.mu.Lock()
	out := h.answer(after, printCalls(), sorted, err != nil, extra)
	h.mu.Unlock()
	return out
}

// ---------------------------------------------------------------- generators

type vGen struct {
	r    *rand.Rand
	emit func(string)
	busy func(t int) bool // is thread t inside a callback? (read from the interpreter, only to pick useful lines)
	now  int
	val  int
}

func (g *vGen) tick() int { g.now += 1 + g.r.Intn(3); return g.now }
func (g *vGen) fresh() int { g.val++; return g.val }
func (g *vGen) fails(nk int) string {
	s := " !"
	if g.r.Intn(2) == 0 {
		return s
	}
	p := []int{2, 3, 6}[g.r.Intn(3)]
	for k := 0; k < nk; k++ {
		if g.r.Intn(p) == 0 {
			s += " " + strconv.Itoa(k)
		}
	}
	return s
}

// one sequential request
func (g *vGen) seqOp(nk int) {
	r := g.r
	k := r.Intn(nk)
	switch x := r.Intn(100); {
	case x < 36:
		g.emit(fmt.Sprintf("SET %d %d %d%s", k, g.fresh(), g.tick(), g.fails(nk)))
	case x < 50:
		g.emit(fmt.Sprintf("GET %d %d", k, g.tick()))
	case x < 60:
		g.emit(fmt.Sprintf("DEL %d%s", k, g.fails(nk)))
	case x < 64:
		g.emit("DELALL" + g.fails(nk))
	case x < 77:
		g.emit(fmt.Sprintf("AGE %d%s", g.tick(), g.fails(nk)))
	case x < 90:
		g.emit(fmt.Sprintf("COUNT %d%s", g.tick(), g.fails(nk)))
	case x < 95:
		g.emit("LIST")
	default:
		g.emit("EMPTY")
	}
}

var vCounts = []int{0, 1, 1, 2, 2, 3, 4, 10, 10, 11, 20}
var vAges = []int{0, 0, 1, 2, 3, 5}

func (g *vGen) newHistory(count int, fn bool) int {
	g.now, g.val = 0, 0
	f := 0
	if fn {
		f = 1
	}
	g.emit(fmt.Sprintf("NEW %d %d %d", vAges[g.r.Intn(len(vAges))], count, f))
	nk := 3 + g.r.Intn(3)
	if count >= 3 {
		nk = count + 1 + g.r.Intn(4)
	}
	return nk
}

func (g *vGen) sequential(n int) {
	r := g.r
	for s := 0; s < n; s++ {
		count := vCounts[r.Intn(len(vCounts))]
		nk := g.newHistory(count, r.Intn(6) != 0)
		steps := 5 + r.Intn(36)
		if count >= 10 {
			steps += 20
		}
		for j := 0; j < steps; j++ {
			g.seqOp(nk)
		}
	}
}

// histories with requests landing in the unlock window of Delete / DeleteAll
func (g *vGen) windows(n int) {
	r := g.r
	for s := 0; s < n; s++ {
		if r.Intn(4) == 0 {
			// DeleteAll stopped at one key; inside the window only that key is touched (see the header)
			g.now, g.val = 0, 0
			g.emit(fmt.Sprintf("NEW %d 0 1", vAges[r.Intn(len(vAges))]))
			nk := 1 + r.Intn(3)
			for k := 0; k < nk; k++ {
				if r.Intn(4) != 0 {
					g.emit(fmt.Sprintf("SET %d %d %d !", k, g.fresh(), g.tick()))
				}
			}
			k0 := r.Intn(nk)
			others := " !"
			for k := 0; k < nk; k++ {
				if k != k0 {
					others += " " + strconv.Itoa(k)
				}
			}
			g.emit(fmt.Sprintf("ABEGIN 1 %d%s", k0, others))
			for j := r.Intn(4); j > 0; j-- {
				switch r.Intn(4) {
				case 0, 1:
					g.emit(fmt.Sprintf("SET %d %d %d !", k0, g.fresh(), g.tick()))
				case 2:
					g.emit(fmt.Sprintf("GET %d %d", k0, g.tick()))
				case 3:
					g.emit("LIST")
				}
			}
			g.emit(fmt.Sprintf("AEND 1 %d", r.Intn(3)/2))
			for j := r.Intn(3); j > 0; j-- {
				g.seqOp(nk)
			}
			continue
		}
		count := []int{0, 1, 2, 2, 3, 4}[r.Intn(6)]
		nk := g.newHistory(count, r.Intn(10) != 0)
		if nk > 4 {
			nk = 4
		}
		steps := 4 + r.Intn(20)
		for k := 0; k < nk; k++ {
			if r.Intn(3) != 0 {
				g.emit(fmt.Sprintf("SET %d %d %d !", k, g.fresh(), g.tick()))
			}
		}
		for j := 0; j < steps; j++ {
			t := 1 + r.Intn(3)
			switch x := r.Intn(10); {
			case x < 4 && g.busy(t) != (r.Intn(10) == 0): // mostly lines that do something
				g.emit(fmt.Sprintf("DEND %d %d", t, r.Intn(3)/2))
			case x < 4:
				g.emit(fmt.Sprintf("DBEGIN %d %d", t, r.Intn(nk)))
			default:
				g.seqOp(nk)
			}
		}
		for t := 1; t <= 3; t++ {
			if g.busy(t) && r.Intn(4) != 0 {
				g.emit(fmt.Sprintf("DEND %d %d", t, r.Intn(2)))
			}
		}
		g.seqOp(nk)
	}
}

// every sequence of length depth over a small alphabet, each as its own history (small-scope exhaustive)
func (g *vGen) enum(depth int, alphabet string) {
	var alpha []string
	var heads [][]string
	switch alphabet {
	case "window":
		heads = [][]string{{"NEW 0 0 1"}, {"NEW 0 2 1"}, {"NEW 0 1 1"}}
		alpha = []string{"SET 1 $v $t !", "SET 2 $v $t !", "DBEGIN 1 1", "DEND 1 0", "DEND 1 1", "DBEGIN 2 1", "DEND 2 0",
			"DEL 1 !", "COUNT $t !", "COUNT $t ! 1", "GET 1 $t", "DELALL !", "DBEGIN 2 2"}
	case "windowall":
		// DeleteAll stopped at key 1; while it is stopped only key 1 is touched (see the header)
		heads = [][]string{{"NEW 0 0 1"}, {"NEW 0 0 1", "SET 2 5 1 !"}, {"NEW 2 0 1", "SET 2 5 1 !", "SET 3 6 2 !"}}
		alpha = []string{"SET 1 $v $t !", "GET 1 $t", "ABEGIN 3 1 ! 2 3", "AEND 3 0", "AEND 3 1", "LIST"}
	default:
		heads = [][]string{{"NEW 2 1 1"}, {"NEW 2 2 1"}, {"NEW 0 3 1"}, {"NEW 1 0 1"}, {"NEW 2 2 0"}}
		alpha = []string{"SET 1 $v $t !", "SET 2 $v $t !", "SET 3 $v $t ! 1", "SET 4 $v $t ! 1 2", "GET 1 $t", "DEL 1 !", "DEL 2 ! 2",
			"DELALL ! 1", "AGE $t !", "AGE $t ! 1 2", "COUNT $t !", "COUNT $t ! 2", "TICK"}
	}
	idx := make([]int, depth)
	for _, head := range heads {
		for i := range idx {
			idx[i] = 0
		}
		for {
			for _, l := range head {
				g.emit(l)
			}
			now := len(head)
			for p, i := range idx {
				now++
				if alpha[i] == "TICK" { // time passes
					now += 2
					continue
				}
				l := strings.ReplaceAll(alpha[i], "$t", strconv.Itoa(now))
				l = strings.ReplaceAll(l, "$v", strconv.Itoa(10*(p+1)+i%10))
				g.emit(l)
			}
			p := depth - 1
			for p >= 0 {
				idx[p]++
				if idx[p] < len(alpha) {
					break
				}
				idx[p] = 0
				p--
			}
			if p < 0 {
				break
			}
		}
	}
}

func TestVerifCache(t *testing.T) {
	mode := os.Getenv("VERIF_MODE")
	if mode == "" {
		t.Skip("harness not requested")
	}
	seed, _ := strconv.Atoi(os.Getenv("VERIF_SEED"))
	n, _ := strconv.Atoi(os.Getenv("VERIF_N"))
	depth, _ := strconv.Atoi(os.Getenv("VERIF_DEPTH"))
	implF, err := os.Create(os.Getenv("VERIF_IMPL"))
	if err != nil {
		t.Fatal(err)
	}
	monF, err := os.Create(os.Getenv("VERIF_MON"))
	if err != nil {
		t.Fatal(err)
	}
	impl := bufio.NewWriterSize(implF, 1<<20)
	mon := bufio.NewWriterSize(monF, 1<<16)
	h := &vH{mon: mon, monCnt: map[string]int{}, threads: map[int]*vThread{}, lu: map[int]int{}, base: runtime.NumGoroutine()}
	defer func() {
		h.drain()
		impl.Flush()
		mon.Flush()
		implF.Close()
		monF.Close()
	}()
	if mode == "replay" {
		f, err := os.Open(os.Getenv("VERIF_OPS"))
		if err != nil {
			t.Fatal(err)
		}
		defer f.Close()
		sc := bufio.NewScanner(f)
		sc.Buffer(make([]byte, 1<<20), 1<<24)
		for sc.Scan() {
			fmt.Fprintln(impl, h.apply(sc.Text()))
		}
		return
	}
	opsF, err := os.Create(os.Getenv("VERIF_OPS"))
	if err != nil {
		t.Fatal(err)
	}
	ops := bufio.NewWriterSize(opsF, 1<<20)
	defer func() { ops.Flush(); opsF.Close() }()
	g := &vGen{r: rand.New(rand.NewSource(int64(seed)))}
	g.busy = func(t int) bool { return h.threads[t] != nil }
	g.emit = func(line string) {
		fmt.Fprintln(ops, line)
		fmt.Fprintln(impl, h.apply(line))
	}
	switch mode {
	case "gen":
		g.sequential(n)
		if mc := os.Getenv("VERIF_MINCOUNT"); mc != "" {
			g.emit("NEW 0 0 0")
			g.emit("MINCOUNT 0 " + mc)
		}
		if tm := os.Getenv("VERIF_TIMER"); tm != "" {
			g.emit("NEW 0 0 0")
			for _, ms := range strings.Split(tm, ",") {
				g.emit("TIMER " + ms)
			}
		}
	case "win":
		g.windows(n)
	case "enum":
		g.enum(depth, os.Getenv("VERIF_ALPHABET"))
	}
	for k, v := range h.monCnt {
		t.Logf("monitor %s fired %d times", k, v)
	}
}
