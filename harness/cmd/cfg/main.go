// Correspondence harness for C19 (settings): public packages config and olareg only.
//
//	VERIF_PROFILE  defaults | switches | lifecycle | binary
//	VERIF_MODE     gen | replay
//	VERIF_OPS      request lines   (written by gen, read by replay)
//	VERIF_IMPL     implementation answers, one per request line
//	VERIF_MON      monitor lines "MON <line-no> <monitor> <detail>"
//	VERIF_SEED VERIF_N            generator parameters
//	VERIF_OLAREG_BIN              the built olareg binary (profile binary)
//	VERIF_SCRATCH                 directory for temporary registries (default: os.TempDir)
//
// Generation and execution are separated: the generator only produces lines, apply(line) parses and executes them.
// The model side is lean/Drivers/ConfigMain.lean.
package main

import (
	"bufio"
	"bytes"
	"context"
	"crypto/sha256"
	"encoding/json"
	"fmt"
	"io"
	"math/rand"
	"net"
	"net/http"
	"net/http/httptest"
	"os"
	"os/exec"
	"path/filepath"
	"strconv"
	"strings"
	"sync"
	"syscall"
	"time"

	"github.com/olareg/olareg"
	"github.com/olareg/olareg/config"
)

// ---------------------------------------------------------------- plumbing

type harness struct {
	lineNo  int
	mon     *bufio.Writer
	scratch string
	// switches profile
	srv    *olareg.Server
	dir    string
	cur    combo
	nwarn  int
	closed bool
	// written under another referrers setting than the one the directory is now served with
	dirs []string
}

func (h *harness) flag(name, detail string) {
	if h.mon != nil {
		fmt.Fprintf(h.mon, "MON %d %s %s\n", h.lineNo, name, detail)
	}
}

func fatal(a ...any) {
	fmt.Fprintln(os.Stderr, a...)
	os.Exit(2)
}

// ---------------------------------------------------------------- defaults profile

func fb(p *bool) string {
	if p == nil {
		return "n"
	}
	if *p {
		return "t"
	}
	return "f"
}

func pb(s string) *bool {
	switch s {
	case "t":
		b := true
		return &b
	case "f":
		b := false
		return &b
	}
	return nil
}

func confLine(c config.Config) string {
	rd := c.Storage.RootDir
	if rd == "" {
		rd = "-"
	}
	return fmt.Sprintf("%s %s %s %s %d %d %d %d %s %d %s %d %d %d %s %s %s %s", fb(c.API.DeleteEnabled), fb(c.API.PushEnabled),
		fb(c.API.Blob.DeleteEnabled), fb(c.API.Referrer.Enabled), c.API.Manifest.Limit, int64(c.API.Referrer.PageCacheExpire),
		c.API.Referrer.PageCacheLimit, c.API.Referrer.Limit, fb(c.Storage.ReadOnly), int(c.Storage.StoreType), rd,
		int64(c.Storage.GC.Frequency), int64(c.Storage.GC.GracePeriod), c.Storage.GC.RepoUploadMax, fb(c.Storage.GC.Untagged),
		fb(c.Storage.GC.EmptyRepo), fb(c.Storage.GC.ReferrersDangling), fb(c.Storage.GC.ReferrersWithSubj))
}

func parseConf(t []string) (config.Config, bool) {
	c := config.Config{}
	if len(t) != 18 {
		return c, false
	}
	i64 := func(s string) int64 { v, _ := strconv.ParseInt(s, 10, 64); return v }
	c.API.DeleteEnabled, c.API.PushEnabled, c.API.Blob.DeleteEnabled, c.API.Referrer.Enabled = pb(t[0]), pb(t[1]), pb(t[2]), pb(t[3])
	c.API.Manifest.Limit, c.API.Referrer.PageCacheExpire, c.API.Referrer.PageCacheLimit, c.API.Referrer.Limit = i64(t[4]), time.Duration(i64(t[5])), int(i64(t[6])), i64(t[7])
	c.Storage.ReadOnly, c.Storage.StoreType = pb(t[8]), config.Store(i64(t[9]))
	if t[10] != "-" {
		c.Storage.RootDir = t[10]
	}
	c.Storage.GC.Frequency, c.Storage.GC.GracePeriod, c.Storage.GC.RepoUploadMax = time.Duration(i64(t[11])), time.Duration(i64(t[12])), int(i64(t[13]))
	c.Storage.GC.Untagged, c.Storage.GC.EmptyRepo, c.Storage.GC.ReferrersDangling, c.Storage.GC.ReferrersWithSubj = pb(t[14]), pb(t[15]), pb(t[16]), pb(t[17])
	return c, true
}

// D <18 tokens>: SetDefaults once; monitors: idempotence, explicit values kept, no nil switch afterwards
func (h *harness) applyDefaults(t []string) string {
	c, ok := parseConf(t)
	if !ok {
		return "bad"
	}
	in := c
	c.SetDefaults()
	out := confLine(c)
	c2 := c
	c2.SetDefaults()
	if confLine(c2) != out {
		h.flag("defaults-idempotent", "second SetDefaults changed "+out+" into "+confLine(c2))
	}
	keptB := func(name string, a, b *bool) {
		if a != nil && (b == nil || *a != *b) {
			h.flag("explicit-kept", name)
		}
		if b == nil {
			h.flag("defaults-total", name+" is nil after SetDefaults")
		}
	}
	keptB("API.DeleteEnabled", in.API.DeleteEnabled, c.API.DeleteEnabled)
	keptB("API.PushEnabled", in.API.PushEnabled, c.API.PushEnabled)
	keptB("API.Blob.DeleteEnabled", in.API.Blob.DeleteEnabled, c.API.Blob.DeleteEnabled)
	keptB("API.Referrer.Enabled", in.API.Referrer.Enabled, c.API.Referrer.Enabled)
	keptB("Storage.ReadOnly", in.Storage.ReadOnly, c.Storage.ReadOnly)
	keptB("Storage.GC.Untagged", in.Storage.GC.Untagged, c.Storage.GC.Untagged)
	keptB("Storage.GC.EmptyRepo", in.Storage.GC.EmptyRepo, c.Storage.GC.EmptyRepo)
	keptB("Storage.GC.ReferrersDangling", in.Storage.GC.ReferrersDangling, c.Storage.GC.ReferrersDangling)
	keptB("Storage.GC.ReferrersWithSubj", in.Storage.GC.ReferrersWithSubj, c.Storage.GC.ReferrersWithSubj)
	keptI := func(name string, a, b int64, dom bool) {
		if dom && a != b {
			h.flag("explicit-kept", fmt.Sprintf("%s %d became %d", name, a, b))
		}
	}
	keptI("API.Manifest.Limit", in.API.Manifest.Limit, c.API.Manifest.Limit, in.API.Manifest.Limit > 0)
	keptI("API.Referrer.PageCacheExpire", int64(in.API.Referrer.PageCacheExpire), int64(c.API.Referrer.PageCacheExpire), in.API.Referrer.PageCacheExpire != 0)
	keptI("API.Referrer.PageCacheLimit", int64(in.API.Referrer.PageCacheLimit), int64(c.API.Referrer.PageCacheLimit), in.API.Referrer.PageCacheLimit != 0)
	keptI("API.Referrer.Limit", in.API.Referrer.Limit, c.API.Referrer.Limit, in.API.Referrer.Limit != 0)
	keptI("Storage.GC.Frequency", int64(in.Storage.GC.Frequency), int64(c.Storage.GC.Frequency), in.Storage.GC.Frequency != 0)
	keptI("Storage.GC.GracePeriod", int64(in.Storage.GC.GracePeriod), int64(c.Storage.GC.GracePeriod), in.Storage.GC.GracePeriod != 0)
	keptI("Storage.GC.RepoUploadMax", int64(in.Storage.GC.RepoUploadMax), int64(c.Storage.GC.RepoUploadMax), in.Storage.GC.RepoUploadMax != 0)
	if in.Storage.RootDir != "" && c.Storage.RootDir != in.Storage.RootDir {
		h.flag("explicit-kept", "Storage.RootDir")
	}
	if c.Storage.StoreType != in.Storage.StoreType {
		h.flag("explicit-kept", "Storage.StoreType")
	}
	return out
}

func genDefaults(r *rand.Rand, n int, emit func(string)) {
	tb := func() string { return []string{"n", "t", "f"}[r.Intn(3)] }
	num := func() int64 {
		return []int64{0, 0, -1, 1, 5, 1000, 1 << 22, 1 << 23, -7, 3600000000000, 900000000000, 300000000000}[r.Intn(12)]
	}
	emit("NEW")
	// the all-unset configuration and the all-explicit ones first
	emit("D n n n n 0 0 0 0 n 0 - 0 0 0 n n n n")
	emit("D n n n n 0 0 0 0 n 2 - 0 0 0 n n n n")
	emit("D t t t t 1 1 1 1 t 2 x 1 1 1 t t t t")
	emit("D f f f f -1 -1 -1 -1 f 1 x -1 -1 -1 f f f f")
	for i := 0; i < n; i++ {
		emit(fmt.Sprintf("D %s %s %s %s %d %d %d %d %s %d %s %d %d %d %s %s %s %s", tb(), tb(), tb(), tb(), num(), num(), num(), num(),
			tb(), r.Intn(4), []string{"-", "-", "x", "."}[r.Intn(4)], num(), num(), num(), tb(), tb(), tb(), tb()))
	}
}

// ---------------------------------------------------------------- registry content used by the probes

func dig(b []byte) string { return fmt.Sprintf("sha256:%x", sha256.Sum256(b)) }

const (
	mtManifest = "application/vnd.oci.image.manifest.v1+json"
	mtIndex    = "application/vnd.oci.image.index.v1+json"
	repoName   = "proj/app" // a two-segment repository
)

var (
	blobCfg   = []byte("{}")
	blobB2    = []byte("verif-unreferenced-blob")
	manifestM = []byte(fmt.Sprintf(`{"schemaVersion":2,"mediaType":"%s","config":{"mediaType":"application/vnd.oci.image.config.v1+json","digest":"%s","size":2},"layers":[]}`, mtManifest, dig(blobCfg)))
	artifactA = []byte(fmt.Sprintf(`{"schemaVersion":2,"mediaType":"%s","artifactType":"application/vnd.verif.sig","config":{"mediaType":"application/vnd.oci.empty.v1+json","digest":"%s","size":2},"layers":[],"subject":{"mediaType":"%s","digest":"%s","size":%d}}`, mtManifest, dig(blobCfg), mtManifest, dig(manifestM), len(manifestM)))
)

type doer func(method, path string, body []byte, hdr map[string]string) (int, http.Header, []byte)

func inproc(s http.Handler) doer {
	return func(method, path string, body []byte, hdr map[string]string) (int, http.Header, []byte) {
		req := httptest.NewRequest(method, path, bytes.NewReader(body))
		for k, v := range hdr {
			req.Header.Set(k, v)
		}
		rr := httptest.NewRecorder()
		s.ServeHTTP(rr, req)
		res := rr.Result()
		b, _ := io.ReadAll(res.Body)
		return res.StatusCode, res.Header, b
	}
}

func overHTTP(base string) doer {
	cl := &http.Client{Timeout: 5 * time.Second}
	return func(method, path string, body []byte, hdr map[string]string) (int, http.Header, []byte) {
		req, err := http.NewRequest(method, base+path, bytes.NewReader(body))
		if err != nil {
			return -1, http.Header{}, nil
		}
		for k, v := range hdr {
			req.Header.Set(k, v)
		}
		res, err := cl.Do(req)
		if err != nil {
			return -1, http.Header{}, []byte(err.Error())
		}
		defer res.Body.Close()
		b, _ := io.ReadAll(res.Body)
		return res.StatusCode, res.Header, b
	}
}

// seed writes the probe content into dir through a directory-store server with everything enabled
func seed(dir string, ref bool) error {
	t := true
	s := olareg.New(config.Config{
		Storage: config.ConfigStorage{StoreType: config.StoreDir, RootDir: dir, GC: config.ConfigGC{Frequency: -1}},
		API:     config.ConfigAPI{PushEnabled: &t, DeleteEnabled: &t, Referrer: config.ConfigAPIReferrer{Enabled: &ref}},
	})
	d := inproc(s)
	for _, b := range [][]byte{blobCfg, blobB2} {
		if st, _, _ := d("POST", "/v2/"+repoName+"/blobs/uploads/?digest="+dig(b), b, map[string]string{"Content-Type": "application/octet-stream"}); st != 201 {
			return fmt.Errorf("seed blob: %d", st)
		}
	}
	if st, _, body := d("PUT", "/v2/"+repoName+"/manifests/t", manifestM, map[string]string{"Content-Type": mtManifest}); st != 201 {
		return fmt.Errorf("seed manifest: %d %s", st, body)
	}
	if st, _, body := d("PUT", "/v2/"+repoName+"/manifests/"+dig(artifactA), artifactA, map[string]string{"Content-Type": mtManifest}); st != 201 {
		return fmt.Errorf("seed artifact: %d %s", st, body)
	}
	return s.Close()
}

// answer of one probe: status, OCI error code (or -), number of Warning headers
func canon(method string, st int, hdr http.Header, body []byte) string {
	code := "-"
	if method == "HEAD" {
		body = nil // a HEAD answer has no body on the wire
	}
	var e struct {
		Errors []struct {
			Code    string `json:"code"`
			Message string `json:"message"`
		} `json:"errors"`
	}
	if st >= 400 && json.Unmarshal(body, &e) == nil && len(e.Errors) > 0 {
		code = e.Errors[0].Code
		// the code is the upper-case token whichever field carries it (ErrInfoNameUnknown has them swapped)
		if strings.ContainsAny(code, " abcdefghijklmnopqrstuvwxyz") && !strings.ContainsAny(e.Errors[0].Message, " abcdefghijklmnopqrstuvwxyz") {
			code = e.Errors[0].Message
		}
	}
	return fmt.Sprintf("%d %s w%d", st, code, len(hdr.Values("Warning")))
}

type probe struct {
	name, method, path string
	body               []byte
	hdr                map[string]string
}

func probes() []probe {
	r := "/v2/" + repoName
	acc := map[string]string{"Accept": mtManifest + ", " + mtIndex}
	return []probe{
		{"ping", "GET", "/v2/", nil, nil},
		{"mget", "GET", r + "/manifests/t", nil, acc},
		{"mhead", "HEAD", r + "/manifests/" + dig(manifestM), nil, acc},
		{"bhead", "HEAD", r + "/blobs/" + dig(blobCfg), nil, nil},
		{"tags", "GET", r + "/tags/list", nil, nil},
		{"ref", "GET", r + "/referrers/" + dig(manifestM), nil, nil},
		{"refput", "PUT", r + "/referrers/" + dig(manifestM), nil, nil},
		{"mopt", "OPTIONS", r + "/manifests/t", nil, nil},
		{"mput", "PUT", r + "/manifests/t2", manifestM, map[string]string{"Content-Type": mtManifest}},
		{"bpost", "POST", r + "/blobs/uploads/", nil, nil},
		{"upatch", "PATCH", r + "/blobs/uploads/nosuchsession", []byte("x"), map[string]string{"Content-Type": "application/octet-stream"}},
		{"uget", "GET", r + "/blobs/uploads/nosuchsession", nil, nil},
		{"uopt", "OPTIONS", r + "/blobs/uploads/nosuchsession", nil, nil},
		{"mdel", "DELETE", r + "/manifests/t2", nil, nil},
		{"bdel", "DELETE", r + "/blobs/" + dig(blobB2), nil, nil},
		{"b2head", "HEAD", r + "/blobs/" + dig(blobB2), nil, nil},
		{"other", "GET", r + "/nosuch/x", nil, nil},
	}
}

var probeByName = func() map[string]probe {
	m := map[string]probe{}
	for _, p := range probes() {
		m[p.name] = p
	}
	return m
}()

// ---------------------------------------------------------------- switches profile

type combo struct {
	push, del, bdel, ref, ro string // t | f | n (unset: the default applies)
	store                    string // mem | dir
	nwarn, limit             int
	seedref                  bool
}

func (c combo) String() string {
	return fmt.Sprintf("push=%s del=%s bdel=%s ref=%s ro=%s store=%s warn=%d rl=%d seedref=%s", c.push, c.del, c.bdel, c.ref, c.ro, c.store, c.nwarn, c.limit, fb(&c.seedref))
}

func parseCombo(t []string) (combo, bool) {
	c := combo{push: "n", del: "n", bdel: "n", ref: "n", ro: "n", store: "dir", seedref: true}
	for _, kv := range t {
		k, v, ok := strings.Cut(kv, "=")
		if !ok {
			return c, false
		}
		switch k {
		case "push":
			c.push = v
		case "del":
			c.del = v
		case "bdel":
			c.bdel = v
		case "ref":
			c.ref = v
		case "ro":
			c.ro = v
		case "store":
			c.store = v
		case "warn":
			c.nwarn, _ = strconv.Atoi(v)
		case "rl":
			c.limit, _ = strconv.Atoi(v)
		case "seedref":
			c.seedref = v == "t"
		default:
			return c, false
		}
	}
	return c, true
}

func (c combo) conf(dir string) config.Config {
	st := config.StoreDir
	if c.store == "mem" {
		st = config.StoreMem
	}
	w := []string{}
	for i := 0; i < c.nwarn; i++ {
		w = append(w, fmt.Sprintf("verif warning %d", i))
	}
	return config.Config{
		Storage: config.ConfigStorage{StoreType: st, RootDir: dir, ReadOnly: pb(c.ro), GC: config.ConfigGC{Frequency: -1}},
		API: config.ConfigAPI{PushEnabled: pb(c.push), DeleteEnabled: pb(c.del), Blob: config.ConfigAPIBlob{DeleteEnabled: pb(c.bdel)},
			Referrer: config.ConfigAPIReferrer{Enabled: pb(c.ref)}, RateLimit: c.limit, Warnings: w},
	}
}

func (h *harness) closeSrv() {
	if h.srv != nil && !h.closed {
		_ = h.srv.Close()
		h.closed = true
	}
}

func (h *harness) newDir() string {
	d, err := os.MkdirTemp(h.scratch, "cfg-")
	if err != nil {
		fatal(err)
	}
	h.dirs = append(h.dirs, d)
	return d
}

func (h *harness) cleanup() {
	h.closeSrv()
	for _, d := range h.dirs {
		_ = os.RemoveAll(d)
	}
	h.dirs = nil
}

func onDisk(dir string) string {
	t2 := "no"
	if raw, err := os.ReadFile(filepath.Join(dir, repoName, "index.json")); err == nil && bytes.Contains(raw, []byte(`"org.opencontainers.image.ref.name":"t2"`)) {
		t2 = "yes"
	}
	b2 := "no"
	if _, err := os.Stat(filepath.Join(dir, repoName, "blobs", "sha256", strings.TrimPrefix(dig(blobB2), "sha256:"))); err == nil {
		b2 = "yes"
	}
	return "t2=" + t2 + " b2=" + b2
}

func (h *harness) applySwitches(t []string) string {
	switch t[0] {
	case "NEW":
		h.cleanup()
		c, ok := parseCombo(t[1:])
		if !ok {
			return "bad"
		}
		h.cur = c
		h.dir = h.newDir()
		if err := seed(h.dir, c.seedref); err != nil {
			return "seed-failed " + err.Error()
		}
		h.srv, h.closed = olareg.New(c.conf(h.dir)), false
		return "ok"
	case "P":
		p, ok := probeByName[t[1]]
		if !ok || h.srv == nil || h.closed {
			return "bad"
		}
		hdr := map[string]string{"X-Forwarded-For": "192.0.2.1"}
		for k, v := range p.hdr {
			hdr[k] = v
		}
		st, rh, body := inproc(h.srv)(p.method, p.path, p.body, hdr)
		out := canon(p.method, st, rh, body)
		// statement-level monitors
		if len(rh.Values("Warning")) != h.cur.nwarn {
			h.flag("warnings-on-every-response", fmt.Sprintf("%s: %d Warning headers, %d configured", p.name, len(rh.Values("Warning")), h.cur.nwarn))
		}
		for i, w := range rh.Values("Warning") {
			if w != fmt.Sprintf("299 - \"verif warning %d\"", i) {
				h.flag("warnings-on-every-response", p.name+": "+w)
			}
		}
		if st == 429 {
			h.flag("rate-limit-unexpected", p.name)
		}
		// a disabled API refuses (the switch as documented; an unset switch has its documented default)
		on := func(v string, dflt bool) bool {
			if v == "n" {
				return dflt
			}
			return v == "t"
		}
		refusedBy := ""
		switch p.name {
		case "mput", "bpost", "upatch", "uget":
			if !on(h.cur.push, true) {
				refusedBy = "push"
			}
		case "mdel":
			if !on(h.cur.del, false) {
				refusedBy = "delete"
			}
		case "bdel":
			if !on(h.cur.del, false) || !on(h.cur.bdel, false) {
				refusedBy = "delete/blob-delete"
			}
		case "ref":
			if !on(h.cur.ref, true) {
				refusedBy = "referrers"
			}
		}
		if refusedBy != "" && st != 405 && st != 404 {
			h.flag("switch-off-refuses", fmt.Sprintf("%s answered %d although %s is off (%s)", p.name, st, refusedBy, h.cur))
		}
		if refusedBy == "" && (st == 405 || (st == 404 && out[4:5] == "-" && p.method != "HEAD")) {
			switch p.name {
			case "mput", "bpost", "upatch", "uget", "mdel", "bdel", "ref":
				h.flag("switch-on-serves", fmt.Sprintf("%s answered %s although its switches are on (%s)", p.name, out, h.cur))
			}
		}
		if on(h.cur.ro, false) && (p.name == "mput" || p.name == "bpost" || p.name == "mdel" || p.name == "bdel") && st < 400 {
			h.flag("read-only-denies-writes", fmt.Sprintf("%s answered %d on read-only storage (%s)", p.name, st, h.cur))
		}
		switch p.name {
		case "ping", "bhead", "tags", "mget", "mhead":
			if st != 200 {
				if h.cur.seedref && h.cur.ref == "f" {
					// the directory was written with the referrers API on and is served with it off
					h.flag("referrers-switch-only-referrers:"+h.cur.store, fmt.Sprintf("%s answered %d on a directory written with referrers on and opened with referrers off (%s)", p.name, st, h.cur))
				} else {
					h.flag("read-unaffected-by-switches", fmt.Sprintf("%s answered %d under %s", p.name, st, h.cur))
				}
			}
		}
		return out
	case "REOPEN":
		// same directory, same settings except the referrers switch
		if h.srv == nil || len(t) < 2 {
			return "bad"
		}
		h.closeSrv()
		h.cur.ref = t[1]
		h.srv, h.closed = olareg.New(h.cur.conf(h.dir)), false
		return "ok"
	case "DISK":
		if h.srv == nil {
			return "bad"
		}
		h.closeSrv()
		return onDisk(h.dir)
	}
	return "bad"
}

func (c combo) line() string { return "NEW " + c.String() }

func genSwitches(r *rand.Rand, n int, emit func(string)) {
	vals := []string{"t", "f"}
	all := []combo{}
	for _, st := range []string{"mem", "dir"} {
		for _, push := range vals {
			for _, del := range vals {
				for _, bdel := range vals {
					for _, ref := range vals {
						for _, ro := range vals {
							all = append(all, combo{push: push, del: del, bdel: bdel, ref: ref, ro: ro, store: st, seedref: ref == "t"})
						}
					}
				}
			}
		}
	}
	// every combination of the five switches and the store type; warnings and rate limit vary along
	for i, c := range all {
		c.nwarn = i % 3
		if i%4 == 1 {
			c.limit = 1000
		}
		emit(c.line())
		for _, p := range probes() {
			emit("P " + p.name)
		}
		emit("DISK")
	}
	// unset switches (defaults) and random orders of probes
	for i := 0; i < n; i++ {
		tv := func() string { return []string{"t", "f", "n"}[r.Intn(3)] }
		c := combo{push: tv(), del: tv(), bdel: tv(), ref: tv(), ro: tv(), store: []string{"mem", "dir"}[r.Intn(2)], nwarn: r.Intn(3)}
		c.seedref = c.ref != "f"
		emit(c.line())
		ps := probes()
		for k := 0; k < 12; k++ {
			emit("P " + ps[r.Intn(len(ps))].name)
		}
		emit("DISK")
	}
	// the configuration changes across a restart on one directory: written under one referrers setting, reopened under the other
	for _, st := range []string{"dir", "mem"} {
		for _, first := range vals {
			for _, second := range vals {
				c := combo{push: "t", del: "t", bdel: "t", ref: first, ro: "f", store: st, seedref: first == "t"}
				emit(c.line())
				emit("P mget")
				emit("P mput")
				emit("REOPEN " + second)
				for _, p := range []string{"ping", "mget", "mhead", "bhead", "tags", "ref", "mput"} {
					emit("P " + p)
				}
				emit("DISK")
			}
		}
	}
}

// ---------------------------------------------------------------- lifecycle profile (Run / Shutdown through the public API)

func freePort() int {
	l, err := net.Listen("tcp", "127.0.0.1:0")
	if err != nil {
		fatal(err)
	}
	defer l.Close()
	return l.Addr().(*net.TCPAddr).Port
}

func waitPort(port int, d time.Duration) bool {
	end := time.Now().Add(d)
	for time.Now().Before(end) {
		c, err := net.DialTimeout("tcp", fmt.Sprintf("127.0.0.1:%d", port), 200*time.Millisecond)
		if err == nil {
			c.Close()
			return true
		}
		time.Sleep(5 * time.Millisecond)
	}
	return false
}

func (h *harness) applyLifecycle(t []string) string {
	if t[0] == "NEW" {
		return "ok"
	}
	if t[0] != "LC" || len(t) < 2 {
		return "bad"
	}
	port := freePort()
	limit := 0
	if len(t) > 2 {
		limit, _ = strconv.Atoi(t[2])
	}
	s := olareg.New(config.Config{Storage: config.ConfigStorage{StoreType: config.StoreMem}, HTTP: config.ConfigHTTP{Addr: fmt.Sprintf("127.0.0.1:%d", port)},
		API: config.ConfigAPI{RateLimit: limit}})
	ctx := context.Background()
	runDone := make(chan error, 1)
	switch t[1] {
	case "early":
		// the signal's Shutdown comes before Run has published the server (serve.go starts the goroutine first)
		err := s.Shutdown(ctx)
		go func() { runDone <- s.Run(ctx) }()
		out := "shutdown=ok"
		if err != nil {
			out = "shutdown=" + strings.ReplaceAll(err.Error(), " ", "-")
		}
		select {
		case rerr := <-runDone:
			// Run saw that Shutdown came first and returned without opening a listener
			out += " run=returned"
			if rerr != nil {
				out += "-" + strings.ReplaceAll(rerr.Error(), " ", "-")
			}
			if waitPort(port, 50*time.Millisecond) {
				h.flag("sigterm-stops-server:early", "Run returned but something listens on the port")
			}
			_ = s.Close()
		case <-time.After(700 * time.Millisecond):
			if waitPort(port, time.Second) {
				out += " run=serving"
				h.flag("sigterm-stops-server:early", "Shutdown before Run published the server: "+out+"; nothing stops the server afterwards")
			} else {
				out += " run=blocked"
			}
			// stop it for real so the harness can go on
			_ = s.Shutdown(ctx)
		}
		return out
	case "normal", "load":
		go func() { runDone <- s.Run(ctx) }()
		if !waitPort(port, 3*time.Second) {
			return "no-listener"
		}
		stop := make(chan struct{})
		var wg sync.WaitGroup
		if t[1] == "load" {
			for i := 0; i < 32; i++ {
				wg.Add(1)
				go func() {
					defer wg.Done()
					cl := &http.Client{Transport: &http.Transport{}, Timeout: time.Second}
					for {
						select {
						case <-stop:
							return
						default:
						}
						if r, err := cl.Get(fmt.Sprintf("http://127.0.0.1:%d/v2/", port)); err == nil {
							_, _ = io.Copy(io.Discard, r.Body)
							r.Body.Close()
						}
					}
				}()
			}
			time.Sleep(200 * time.Millisecond)
		}
		sd := make(chan error, 1)
		go func() { sd <- s.Shutdown(ctx) }()
		out := ""
		select {
		case err := <-sd:
			out = "shutdown=ok"
			if err != nil {
				out = "shutdown=" + strings.ReplaceAll(err.Error(), " ", "-")
			}
		case <-time.After(3 * time.Second):
			out = "shutdown=hang"
			h.flag("sigterm-stops-server:load", fmt.Sprintf("Shutdown under load with rate limit %d did not return within 3s", limit))
		}
		close(stop)
		wg.Wait()
		select {
		case err := <-runDone:
			if err != nil {
				out += " run=" + strings.ReplaceAll(err.Error(), " ", "-")
			} else {
				out += " run=returned"
			}
		case <-time.After(time.Second):
			out += " run=blocked"
		}
		if out == "shutdown=ok run=returned" {
			if err := s.Close(); err == nil {
				h.flag("store-closed-once", "Close after Shutdown succeeded: the store had not been closed")
			}
		}
		return out
	}
	return "bad"
}

func genLifecycle(emit func(string)) {
	emit("NEW")
	emit("LC normal 0")
	emit("LC normal 5")
	emit("LC load 0")
	emit("NEW")
	emit("LC early 0")
	emit("NEW")
	emit("LC load 1000000")
}

// ---------------------------------------------------------------- binary profile (thorough; a sample in quick)

// BIN <combo tokens> sig=<ms|early>: start the real binary, probe, SIGTERM, exit status, directory still loads
func (h *harness) applyBinary(t []string) string {
	if t[0] == "NEW" {
		return "ok"
	}
	if t[0] != "BIN" {
		return "bad"
	}
	bin := os.Getenv("VERIF_OLAREG_BIN")
	sigMode := "after"
	toks := []string{}
	for _, kv := range t[1:] {
		if strings.HasPrefix(kv, "sig=") {
			sigMode = strings.TrimPrefix(kv, "sig=")
		} else {
			toks = append(toks, kv)
		}
	}
	c, ok := parseCombo(toks)
	if !ok || bin == "" {
		return "bad"
	}
	dir := h.newDir()
	defer os.RemoveAll(dir)
	if err := seed(dir, c.seedref); err != nil {
		return "seed-failed " + err.Error()
	}
	port := freePort()
	args := []string{"serve", "--addr", "127.0.0.1", "--port", strconv.Itoa(port), "--dir", dir, "--store-type", c.store, "--gc-frequency", "-1s"}
	fl := func(name, v string) {
		if v == "t" {
			args = append(args, "--"+name+"=true")
		} else if v == "f" {
			args = append(args, "--"+name+"=false")
		}
	}
	fl("api-push", c.push)
	fl("api-delete", c.del)
	fl("api-blob-delete", c.bdel)
	fl("api-referrer", c.ref)
	fl("store-ro", c.ro)
	for i := 0; i < c.nwarn; i++ {
		args = append(args, "--warning", fmt.Sprintf("verif warning %d, with a comma", i))
	}
	if c.limit != 0 {
		args = append(args, "--rate-limit", strconv.Itoa(c.limit))
	}
	cmd := exec.Command(bin, args...)
	var stderr bytes.Buffer
	cmd.Stderr = &stderr
	if err := cmd.Start(); err != nil {
		return "start-failed"
	}
	exited := make(chan error, 1)
	go func() { exited <- cmd.Wait() }()
	out := []string{}
	if sigMode == "after" {
		if !waitPort(port, 5*time.Second) {
			_ = cmd.Process.Kill()
			return "no-listener " + strings.ReplaceAll(stderr.String(), "\n", " ")
		}
		d := overHTTP(fmt.Sprintf("http://127.0.0.1:%d", port))
		for _, p := range probes() {
			hdr := map[string]string{"X-Forwarded-For": "192.0.2.1"}
			for k, v := range p.hdr {
				hdr[k] = v
			}
			st, rh, body := d(p.method, p.path, p.body, hdr)
			out = append(out, p.name+"="+strings.ReplaceAll(canon(p.method, st, rh, body), " ", ","))
			if len(rh.Values("Warning")) != c.nwarn {
				h.flag("warnings-on-every-response", p.name)
			}
		}
	} else {
		// a signal at an arbitrary early time (microseconds after the start)
		us, _ := strconv.Atoi(sigMode)
		time.Sleep(time.Duration(us) * time.Microsecond)
	}
	_ = cmd.Process.Signal(syscall.SIGTERM)
	status := ""
	select {
	case err := <-exited:
		status = "exit=0"
		if err != nil {
			if ee, ok := err.(*exec.ExitError); ok {
				if ws, ok := ee.Sys().(syscall.WaitStatus); ok && ws.Signaled() {
					status = "exit=signal"
				} else {
					status = fmt.Sprintf("exit=%d", ee.ExitCode())
				}
			} else {
				status = "exit=error"
			}
		}
	case <-time.After(4 * time.Second):
		status = "exit=hang"
		_ = cmd.Process.Kill()
		<-exited
	}
	if sigMode != "after" {
		// before signal.Notify the default disposition ends the process: both endings stop the server
		if status == "exit=0" || status == "exit=signal" {
			status = "exit=stopped"
		}
	}
	if status != "exit=0" && status != "exit=stopped" {
		h.flag("sigterm-stops-server:binary", fmt.Sprintf("%s after SIGTERM (%s, sig=%s)", status, c, sigMode))
	}
	out = append(out, status)
	// the directory still loads: a fresh read-only server finds the seeded manifest
	yes := true
	s2 := olareg.New(config.Config{Storage: config.ConfigStorage{StoreType: config.StoreDir, RootDir: dir, ReadOnly: &yes, GC: config.ConfigGC{Frequency: -1}},
		API: config.ConfigAPI{Referrer: config.ConfigAPIReferrer{Enabled: pb(fb(&c.seedref))}}})
	st, _, _ := inproc(s2)("GET", "/v2/"+repoName+"/manifests/t", nil, map[string]string{"Accept": mtManifest})
	_ = s2.Close()
	if st == 200 {
		out = append(out, "disk=ok")
	} else {
		out = append(out, fmt.Sprintf("disk=%d", st))
		h.flag("storage-intact", fmt.Sprintf("seeded manifest answers %d after the server was stopped (%s)", st, c))
	}
	if sigMode == "after" {
		out = append(out, strings.ReplaceAll(onDisk(dir), " ", ","))
	}
	return strings.Join(out, " ")
}

func genBinary(r *rand.Rand, n int, all bool, emit func(string)) {
	vals := []string{"t", "f"}
	combos := []combo{}
	for _, st := range []string{"mem", "dir"} {
		for _, push := range vals {
			for _, del := range vals {
				for _, bdel := range vals {
					for _, ref := range vals {
						for _, ro := range vals {
							for _, warn := range []int{0, 2} {
								for _, rl := range []int{0, 1000} {
									combos = append(combos, combo{push: push, del: del, bdel: bdel, ref: ref, ro: ro, store: st, nwarn: warn, limit: rl, seedref: ref == "t"})
								}
							}
						}
					}
				}
			}
		}
	}
	emit("NEW")
	if all {
		for _, c := range combos {
			emit("BIN " + c.String())
		}
	} else {
		// all defaults, then a sample
		emit("BIN store=dir")
		emit("BIN store=mem")
		for i := 0; i < n; i++ {
			emit("BIN " + combos[r.Intn(len(combos))].String())
		}
	}
	// the signal at an early, arbitrary time
	k := 4
	if all {
		k = 40
	}
	for i := 0; i < k; i++ {
		emit(fmt.Sprintf("BIN store=%s sig=%d", []string{"dir", "mem"}[i%2], r.Intn(6000)))
	}
}

// ---------------------------------------------------------------- main

func main() {
	profile, mode := os.Getenv("VERIF_PROFILE"), os.Getenv("VERIF_MODE")
	seed64, _ := strconv.ParseInt(os.Getenv("VERIF_SEED"), 10, 64)
	n, _ := strconv.Atoi(os.Getenv("VERIF_N"))
	h := &harness{scratch: os.Getenv("VERIF_SCRATCH")}
	if h.scratch != "" {
		_ = os.MkdirAll(h.scratch, 0o755)
	}
	implF, err := os.Create(os.Getenv("VERIF_IMPL"))
	if err != nil {
		fatal(err)
	}
	impl := bufio.NewWriterSize(implF, 1<<20)
	defer func() { impl.Flush(); implF.Close() }()
	if p := os.Getenv("VERIF_MON"); p != "" {
		mf, err := os.Create(p)
		if err != nil {
			fatal(err)
		}
		h.mon = bufio.NewWriter(mf)
		defer func() { h.mon.Flush(); mf.Close() }()
	}
	defer h.cleanup()
	apply := func(line string) string {
		h.lineNo++
		t := strings.Fields(line)
		if len(t) == 0 {
			return "bad"
		}
		switch profile {
		case "defaults":
			if t[0] == "NEW" {
				return "ok"
			}
			if t[0] == "D" {
				return h.applyDefaults(t[1:])
			}
			return "bad"
		case "switches":
			return h.applySwitches(t)
		case "lifecycle":
			return h.applyLifecycle(t)
		case "binary":
			return h.applyBinary(t)
		}
		return "bad"
	}
	if mode == "replay" {
		f, err := os.Open(os.Getenv("VERIF_OPS"))
		if err != nil {
			fatal(err)
		}
		sc := bufio.NewScanner(f)
		sc.Buffer(make([]byte, 1<<20), 1<<24)
		for sc.Scan() {
			fmt.Fprintln(impl, apply(sc.Text()))
		}
		return
	}
	opsF, err := os.Create(os.Getenv("VERIF_OPS"))
	if err != nil {
		fatal(err)
	}
	ops := bufio.NewWriterSize(opsF, 1<<20)
	defer func() { ops.Flush(); opsF.Close() }()
	emit := func(line string) {
		fmt.Fprintln(ops, line)
		fmt.Fprintln(impl, apply(line))
	}
	r := rand.New(rand.NewSource(seed64))
	switch profile {
	case "defaults":
		genDefaults(r, n, emit)
	case "switches":
		genSwitches(r, n, emit)
	case "lifecycle":
		genLifecycle(emit)
	case "binary":
		genBinary(r, n, os.Getenv("VERIF_ALL") == "1", emit)
	default:
		fatal("unknown VERIF_PROFILE", profile)
	}
}
