package main

// Symbolic tokens of the line protocol and their real values (DESIGN.md Appendix A).
//
//	content token   c1, l2, x*40 (x repeated 40 times), ~ (empty), @b7 (a manifest body defined by DEF),
//	                R(...) a referrers response named by its structure
//	digest token    <alg>:<content token> | <alg>:?k (well formed, no known content) | bad:k (does not parse)
//	media type tok  ocim ocii dockm dockl cfg dcfg empty lay other
import (
	"encoding/base64"
	"encoding/json"
	"fmt"
	"sort"
	"strconv"
	"strings"

	_ "crypto/sha256"
	_ "crypto/sha512"

	"github.com/opencontainers/go-digest"

	"github.com/olareg/olareg/types"
)

var mtReal = map[string]string{
	"ocim": types.MediaTypeOCI1Manifest, "ocii": types.MediaTypeOCI1ManifestList,
	"dockm": types.MediaTypeDocker2Manifest, "dockl": types.MediaTypeDocker2ManifestList,
	"cfg": types.MediaTypeOCI1ImageConfig, "dcfg": types.MediaTypeDocker2ImageConfig,
	"empty": types.MediaTypeOCI1Empty, "lay": types.MediaTypeOCI1Layer, "other": "application/x-other",
	"octet": "application/octet-stream", "json": "application/json", "ocimx": types.MediaTypeOCI1Manifest + "/extra",
	"foreign": "application/vnd.oci.image.layer.nondistributable.v1.tar+gzip", "dforeign": "application/vnd.docker.image.rootfs.foreign.diff.tar.gzip",
}
var mtTok = map[string]string{}

func init() {
	for k, v := range mtReal {
		mtTok[v] = k
	}
}

func mtToken(real string) string {
	if real == "" {
		return ""
	}
	if t, ok := mtTok[real]; ok {
		return t
	}
	return "?" + real
}
func mtRealOf(tok string) string {
	if r, ok := mtReal[tok]; ok {
		return r
	}
	return tok
}

// Tokens is the table shared by generator and interpreter; it survives NEW (body definitions are global).
type Tokens struct {
	tokOf  map[string]string // real digest string -> digest token
	rawOf  map[string][]byte // content token -> bytes
	nameOf map[string]string // bytes -> content token
	defOf  map[string]string // body name -> DEF line (without the len= field)
}

func newTokens() *Tokens {
	return &Tokens{tokOf: map[string]string{}, rawOf: map[string][]byte{}, nameOf: map[string]string{}, defOf: map[string]string{}}
}

var algs = []digest.Algorithm{digest.SHA256, digest.SHA384, digest.SHA512}

func (t *Tokens) reg(name string, b []byte) {
	if _, ok := t.rawOf[name]; ok {
		return
	}
	t.rawOf[name] = b
	if _, ok := t.nameOf[string(b)]; !ok {
		t.nameOf[string(b)] = name
	}
	for _, a := range algs {
		d := a.FromBytes(b).String()
		if _, ok := t.tokOf[d]; !ok {
			t.tokOf[d] = string(a) + ":" + name
		}
	}
}

// content returns the bytes of a content token; literal contents are registered under their expansion
// (`x*40` and forty x are the same content and must have one name), the empty content under `~`
func (t *Tokens) content(tok string) []byte {
	if b, ok := t.rawOf[tok]; ok {
		return b
	}
	var b []byte
	switch {
	case tok == "~" || tok == "":
		b = []byte{}
	case strings.HasPrefix(tok, "@") || strings.HasPrefix(tok, "R("):
		b = []byte(tok) // an undefined body name: its bytes are the name
		t.reg(tok, b)
		return b
	case strings.Contains(tok, "*"):
		p := strings.SplitN(tok, "*", 2)
		n, err := strconv.Atoi(p[1])
		if err != nil {
			b = []byte(tok)
		} else {
			b = []byte(strings.Repeat(p[0], n))
		}
	default:
		b = []byte(tok)
	}
	name := string(b)
	if len(b) == 0 {
		name = "~"
	}
	t.reg(name, b)
	t.rawOf[tok] = b
	return b
}

// contentName canonical name of bytes ("?<n>bytes" when unknown)
func (t *Tokens) contentName(b []byte) string {
	if n, ok := t.nameOf[string(b)]; ok {
		return n
	}
	// a referrers response or another index-shaped document: name it by its structure
	var idx types.Index
	if len(b) > 0 && b[0] == '{' && json.Unmarshal(b, &idx) == nil && idx.MediaType == types.MediaTypeOCI1ManifestList && idx.Subject == nil && idx.ArtifactType == "" && len(idx.Annotations) == 0 {
		n := "R(" + strings.Join(t.descList(idx.Manifests), ",") + ")"
		t.reg(n, append([]byte{}, b...))
		return n
	}
	return fmt.Sprintf("?%dbytes", len(b))
}

// twinDef is the DEF line that gives a referrers response document (named by its structure) a body of its own, for a
// client that pushes the very same bytes as a manifest ("twin"); the bytes stay the registered ones
func (t *Tokens) twinDef(name string) (string, bool) {
	raw, ok := t.rawOf[name]
	if !ok || !strings.HasPrefix(name, "R(") || strings.ContainsAny(name, " \t\n") {
		return "", false
	}
	var idx types.Index
	if json.Unmarshal(raw, &idx) != nil {
		return "", false
	}
	cs := []string{}
	for _, d := range idx.Manifests {
		cs = append(cs, fmt.Sprintf("%s/%s/%d", mtToken(d.MediaType), t.tokDigest(d.Digest.String()), d.Size))
	}
	// raw= carries the bytes themselves, so that the line can be replayed without the listing that taught the name
	return fmt.Sprintf("DEF %s index mt=ocii children=%s len=%d raw=%s", name, strings.Join(cs, ";"), len(raw), base64.RawURLEncoding.EncodeToString(raw)), true
}

func annCanon(a map[string]string) string {
	ks := []string{}
	for k, v := range a {
		ks = append(ks, k+"="+v)
	}
	sort.Strings(ks)
	return strings.Join(ks, ";")
}

func (t *Tokens) descList(ds []types.Descriptor) []string {
	parts := []string{}
	for _, d := range ds {
		at := d.ArtifactType
		if tk, ok := mtTok[at]; ok {
			at = tk
		}
		parts = append(parts, fmt.Sprintf("%s/%s/%d/%s/%s", t.tokDigest(d.Digest.String()), mtToken(d.MediaType), d.Size, at, annCanon(d.Annotations)))
	}
	return parts
}

// realDigest turns a digest token into the string sent to the registry
func (t *Tokens) realDigest(tok string) string {
	if tok == "" {
		return ""
	}
	p := strings.SplitN(tok, ":", 2)
	if len(p) != 2 {
		return tok
	}
	switch p[0] {
	case "bad":
		var s string
		switch p[1] {
		case "1":
			s = "sha256:nothex"
		case "2":
			s = "nocolon"
		case "3":
			s = "md5:d41d8cd98f00b204e9800998ecf8427e"
		case "4":
			s = "sha256:" + strings.Repeat("a", 63)
		case "6":
			// not a digest: a path from blobs/sha256 of a top-level repository to the layout next to the storage root
			s = "sha256:../../../../outside/blobs/sha256/" + digest.FromString("outsidesecret").Encoded()
		case "7":
			// not a digest: a path to a blob of the repository r2
			s = "sha256:../../../r2/blobs/sha256/" + digest.FromString("c1").Encoded()
		default:
			s = "sha512:zz" + p[1]
		}
		t.tokOf[s] = tok
		return s
	}
	alg := digest.Algorithm(p[0])
	if !alg.Available() {
		return tok
	}
	if strings.HasPrefix(p[1], "?") {
		// well-formed digest of no known content
		s := alg.FromString("unknown-content-" + p[1]).String()
		t.tokOf[s] = tok
		return s
	}
	return alg.FromBytes(t.content(p[1])).String()
}

func (t *Tokens) tokDigest(real string) string {
	if real == "" {
		return ""
	}
	if tk, ok := t.tokOf[real]; ok {
		return tk
	}
	return "?" + real
}

func kv(toks []string, k string) string {
	for _, t := range toks {
		if strings.HasPrefix(t, k+"=") {
			return t[len(k)+1:]
		}
	}
	return ""
}
func hasKey(toks []string, k string) bool {
	for _, t := range toks {
		if strings.HasPrefix(t, k+"=") {
			return true
		}
	}
	return false
}
func csv(s string) []string {
	if s == "" {
		return nil
	}
	return strings.Split(s, ",")
}

func parseAnn(s string) map[string]string {
	if s == "" {
		return nil
	}
	m := map[string]string{}
	for _, p := range strings.Split(s, ";") {
		a := strings.SplitN(p, "=", 2)
		if len(a) == 2 {
			m[a[0]] = a[1]
		}
	}
	return m
}

// buildBody constructs the bytes of a manifest body from the tokens of a DEF line (deterministic, so a replay
// sends identical bytes).
//
//	DEF @b1 image mt= cfg=<dig> cfgmt= layers=<dig>,.. subj=<dig> at= ann=k=v pad=<n> len=<n>
//	DEF @b2 index mt= children=<mt>/<dig>/<size>;.. subj= at= ann= pad= len=
//	DEF @b3 junk | obj | trunc of=<body name> cut=<n>
func (t *Tokens) buildBody(name, kind string, tk []string) []byte {
	var raw []byte
	subjDesc := func() *types.Descriptor {
		sj := kv(tk, "subj")
		if sj == "" {
			return nil
		}
		return &types.Descriptor{MediaType: types.MediaTypeOCI1Manifest, Digest: digest.Digest(t.realDigest(sj)), Size: 1}
	}
	switch kind {
	case "image":
		m := types.Manifest{SchemaVersion: 2, MediaType: mtRealOf(kv(tk, "mt")), ArtifactType: mtRealOf(kv(tk, "at")), Annotations: parseAnn(kv(tk, "ann")),
			Config: types.Descriptor{MediaType: mtRealOf(kv(tk, "cfgmt")), Digest: digest.Digest(t.realDigest(kv(tk, "cfg"))), Size: 2}}
		lmt := mtReal["lay"]
		if v := kv(tk, "lmt"); v != "" {
			lmt = mtRealOf(v) // a layer media type of its own (non-distributable layers are uploaded and referenced like any other)
		}
		for _, l := range csv(kv(tk, "layers")) {
			m.Layers = append(m.Layers, types.Descriptor{MediaType: lmt, Digest: digest.Digest(t.realDigest(l)), Size: 2})
		}
		m.Subject = subjDesc()
		raw, _ = json.Marshal(m)
	case "index":
		m := types.Index{SchemaVersion: 2, MediaType: mtRealOf(kv(tk, "mt")), ArtifactType: mtRealOf(kv(tk, "at")), Annotations: parseAnn(kv(tk, "ann")), Manifests: []types.Descriptor{}}
		for _, c := range strings.Split(kv(tk, "children"), ";") {
			if c == "" {
				continue
			}
			p := strings.SplitN(c, "/", 3)
			if len(p) != 3 {
				continue
			}
			sz, _ := strconv.Atoi(p[2])
			cd := types.Descriptor{MediaType: mtRealOf(p[0]), Digest: digest.Digest(t.realDigest(p[1])), Size: int64(sz)}
			if kv(tk, "cdata") == "1" && sz > 0 && sz < 4096 {
				// an embedded `data` field of exactly the declared size that is NOT the content: a registry serves blobs, never this
				cd.Data = []byte(strings.Repeat("Z", sz))
			}
			m.Manifests = append(m.Manifests, cd)
		}
		m.Subject = subjDesc()
		raw, _ = json.Marshal(m)
	case "junk":
		raw = []byte("not json " + name)
	case "obj":
		raw = []byte("{}")
	}
	if p := kv(tk, "pad"); p != "" {
		n, _ := strconv.Atoi(p)
		raw = append(raw, []byte(strings.Repeat(" ", n))...)
	}
	return raw
}

// descJSONLen is the marshalled length of the referrers descriptor of a manifest stored under digest `d`
func descJSONLen(d types.Descriptor) int {
	b, _ := json.Marshal(d)
	return len(b)
}
